(* Observables of a shard state that the ledger properties are stated in: raw storage through
   [sget], decoded token entries, balances, flags, role lists, counters; state equivalences used by
   frame conditions.  Definitions only (plus trivial facts); shared by every LedgerProofs file. *)
From EV Require Import Base.Bytes Base.Store Base.Monad gen.Consts Codec.Types Helpers.Helpers
  Ledger.Types Ledger.Env.

(* raw storage cell of account [a] under key [k] ([] = absent) *)
Definition cell (s : mstate) (a k : bytes) : bytes := sget (a_store (acct s a)) k.

Section Obs.
  Variable E : env.

  (* decoded token entry under the FULL storage key k (= P ++ token id ++ nonce bytes) *)
  Definition tok_at (s : mstate) (a k : bytes) : option token :=
    match cell s a k with [] => None | b => dec_tok (cdc E) b end.
  (* balance: value of the decoded entry; 0 if absent, undecodable or without value *)
  Definition bal_of_bytes (b : bytes) : Z :=
    match b with
    | [] => 0%Z
    | _ => match dec_tok (cdc E) b with
           | Some t => match t_value t with Some v => v | None => 0%Z end
           | None => 0%Z
           end
    end.
  Definition balance (s : mstate) (a k : bytes) : Z := bal_of_bytes (cell s a k).
  (* frozen flag of the entry under k *)
  Definition frozen_at (s : mstate) (a k : bytes) : bool :=
    match tok_at s a k with Some t => frozen_props (t_props t) | None => false end.
  (* pause flag of a key on this shard: the 2-byte value under the same key in the system account *)
  Definition paused_at (s : mstate) (k : bytes) : bool := paused_val (cell s SYS k).
  (* role list of account a for token id tok *)
  Definition roles_at (s : mstate) (a tok : bytes) : roles :=
    match cell s a (RP ++ tok) with
    | [] => []
    | b => match dec_rol (cdc E) b with Some r => r | None => [] end
    end.
  Definition has_role (s : mstate) (a tok role : bytes) : bool := bytes_in role (roles_at s a tok).
  (* NFT-create counter of account a for token id tok *)
  Definition counter_at (s : mstate) (a tok : bytes) : N :=
    match cell s a (NP ++ tok) with [] => 0%N | b => bigU64 b end.
End Obs.

(* ---- state equivalences (storage is compared through sget: the log representation is immaterial) ---- *)
Definition acct_fields_eq (x y : account) : Prop :=
  a_balance x = a_balance y /\ a_owner x = a_owner y /\ a_username x = a_username y /\ a_devreward x = a_devreward y.
Definition acct_eq (x y : account) : Prop :=
  (forall k, sget (a_store x) k = sget (a_store y) k) /\ acct_fields_eq x y.
(* same world content; [calls] and [allocs] may differ *)
Definition same_world (s s' : mstate) : Prop := forall a, acct_eq (acct s a) (acct s' a).
(* nothing changed outside the cells selected by F and the account fields selected by G *)
Definition unchanged_except (F : bytes -> bytes -> Prop) (G : bytes -> Prop) (s s' : mstate) : Prop :=
  (forall a k, ~ F a k -> cell s' a k = cell s a k)
  /\ (forall a, ~ G a -> acct_fields_eq (acct s' a) (acct s a)).

Lemma acct_fields_eq_refl x : acct_fields_eq x x.
Proof. repeat split. Qed.
Lemma acct_fields_eq_trans x y z : acct_fields_eq x y -> acct_fields_eq y z -> acct_fields_eq x z.
Proof. unfold acct_fields_eq. intros (?&?&?&?) (?&?&?&?). repeat split; congruence. Qed.
Lemma same_world_refl s : same_world s s.
Proof. intros a. split; [reflexivity|apply acct_fields_eq_refl]. Qed.
Lemma unchanged_except_refl F G s : unchanged_except F G s s.
Proof. split; intros; [reflexivity|apply acct_fields_eq_refl]. Qed.
Lemma unchanged_except_trans F G s1 s2 s3 :
  unchanged_except F G s1 s2 -> unchanged_except F G s2 s3 -> unchanged_except F G s1 s3.
Proof.
  intros [H1 H1'] [H2 H2']. split.
  - intros a k Hn. rewrite H2, H1; auto.
  - intros a Hn. eapply acct_fields_eq_trans; [apply H2'|apply H1']; auto.
Qed.
Lemma unchanged_except_weaken (F F' : bytes -> bytes -> Prop) (G G' : bytes -> Prop) s s' :
  (forall a k, F a k -> F' a k) -> (forall a, G a -> G' a) ->
  unchanged_except F G s s' -> unchanged_except F' G' s s'.
Proof. intros HF HG [H1 H2]. split; intros; [apply H1|apply H2]; auto. Qed.
