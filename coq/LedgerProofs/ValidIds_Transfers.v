(* Honest identifiers, part 4: the three transfer functions keep [ids_valid] on both execution sides when the
   identifiers they name are valid, and the messages they emit name valid identifiers ([args_ids]; for the
   multi-transfer: the token of every emitted triple, [triples_ids]).  The theorem about the dispatch
   ([ids_valid_exec], all 23 functions) is in ValidIds_Exec.v. *)
From Coq Require Import Lia.
From EV Require Import Base.Bytes Base.Store Base.Monad gen.Consts Codec.Types Helpers.Helpers
  Ledger.Types Ledger.Env Ledger.Funcs Ledger.Transfers LedgerProofs.Defs LedgerProofs.EnvSpec
  LedgerProofs.Spec_Transfers_Base LedgerProofs.Spec_Transfers_Multi
  LedgerProofs.C01_Consistent LedgerProofs.C05_Footprint LedgerProofs.C15_Inv LedgerProofs.C15_Funcs
  LedgerProofs.C15_Transfers LedgerProofs.ValidIds_Id LedgerProofs.ValidIds_Inv LedgerProofs.ValidIds_Funcs.

(* ---------------- the argument triples of a multi-transfer ---------------- *)
(* n triples at the head of l, every token identifier valid (strict: the triples exist) *)
Fixpoint triples_ids (n : nat) (l : list bytes) : Prop :=
  match n with
  | O => True
  | S n' => match l with
            | tok :: _ :: _ :: r => valid_id tok /\ triples_ids n' r
            | _ => False
            end
  end.

Lemma nth_error_firstn_lt {A} (l : list A) : forall k n, (k < n)%nat -> nth_error (firstn n l) k = nth_error l k.
Proof.
  induction l as [|h l IH]; intros k n H; [destruct n, k; reflexivity|].
  destruct n as [|n]; [lia|]. destruct k as [|k]; [reflexivity|]. cbn [firstn nth_error]. apply IH. lia.
Qed.
Lemma skipn_cons_nth (l : list bytes) : forall k x r, skipn k l = x :: r -> nth k l [] = x /\ skipn (S k) l = r.
Proof.
  induction l as [|h l IH]; intros k x r H; [destruct k; discriminate|].
  destruct k as [|k]; [cbn in *; inversion H; auto|]. cbn [skipn nth] in *. apply IH. exact H.
Qed.
Lemma triples_ids_named fuel i off : forall idx,
  triples_ids fuel (skipn (N.to_nat (off + idx * 3)) (i_args i)) ->
  Forall valid_id (map rt_tok (multi_triples fuel i off idx)).
Proof.
  induction fuel as [|f IH]; intros idx H; [constructor|].
  cbn [triples_ids] in H. cbn [multi_triples map].
  destruct (skipn (N.to_nat (off + idx * 3)) (i_args i)) as [|tok [|a [|b r]]] eqn:Es; try contradiction.
  destruct H as [Hv Hr].
  destruct (skipn_cons_nth _ _ _ _ Es) as [H0 Es1]. destruct (skipn_cons_nth _ _ _ _ Es1) as [_ Es2].
  destruct (skipn_cons_nth _ _ _ _ Es2) as [_ Es3].
  constructor.
  - unfold rt_tok. cbn [fst]. unfold argn. rewrite H0. exact Hv.
  - apply IH. replace (N.to_nat (off + (idx + 1) * 3)) with (S (S (S (N.to_nat (off + idx * 3))))) by lia.
    rewrite Es3. exact Hr.
Qed.
Lemma multi_tokens_valid fuel i off : forall idx,
  Forall valid_id (map rt_tok (multi_triples fuel i off idx)) ->
  forall j tok, (idx <= j < idx + N.of_nat fuel)%N ->
    nth_error (i_args i) (N.to_nat (off + j * 3)) = Some tok -> valid_id tok.
Proof.
  induction fuel as [|f IH]; intros idx H j tok Hj Hn; [lia|].
  cbn [multi_triples map] in H. inversion H as [|x l Hx Hl]; subst.
  destruct (N.eq_dec j idx) as [->|Hne].
  - unfold rt_tok in Hx. cbn [fst] in Hx. rewrite (argn_nth_error _ _ _ Hn) in Hx. exact Hx.
  - apply (IH (idx + 1)%N Hl j tok); [lia|exact Hn].
Qed.

Section Transfers.
  Variable E : env.
  Hypothesis Hc : codec_ok (cdc E).
  Hypothesis Hf : flag_undec (cdc E).
  Notation okout i := (outv E i).
  Notation cd := (cdc E).

  (* ---------------- ESDTTransfer ---------------- *)
  Lemma kv_f_esdt_transfer i : tok0v i -> kv E (f_esdt_transfer E i) (okout i).
  Proof.
    intros Hv. unfold f_esdt_transfer. kv_tac E Hc Hf. all: cbv zeta; apply outv_add_log.
    all: try solve [apply outv_aot_local; assumption].
    all: try solve [apply outv_if; [apply outv_set_gasrem|]; apply outv_mk].
    all: destruct (is_sc (i_caller i)); [|apply outv_mk].
    all: apply outv_aot_msg; [cbn; auto 10|eapply args_ids_esdt_transfer; [eassumption|vid]].
  Qed.

  (* ---------------- ESDTNFTTransfer ---------------- *)
  Lemma kv_f_nft_transfer_sender i : (4 <= alen (i_args i))%N -> tok0v i -> kv E (f_nft_transfer_sender E i) (okout i).
  Proof.
    intros Hlen Hv. unfold f_nft_transfer_sender. kv_tac0 E Hc Hf.
    kv_ifT E; [kv_tac0 E Hc Hf..|]. kv_tac0 E Hc Hf.
    eapply (kv_bind E) with (Q := fun t2 : token => True).
    { kv_tac0 E Hc Hf. }
    intros t2 _. kv_tac0 E Hc Hf.
    eapply (kv_bind E) with (Q := fun l => l = firstn 3 (i_args i)).
    { match goal with |- kv _ (if ?b then _ else _) _ => destruct b end; [apply (kv_ret_eq E)|apply (kv_panic E)]. }
    intros first3 ->.
    kv_ifT E; [kv_tac0 E Hc Hf..|].
    eapply (kv_bind E) with (Q := okout i).
    { kv_tac E Hc Hf.
      - (* cross-shard: the message *)
        apply outv_ant_msg; [cbn; auto 10|].
        match goal with H : nth_error (i_args i) (N.to_nat 0) = Some ?tok |- _ =>
          apply (args_ids_nft_transfer _ tok); [|vid] end.
        rewrite nth_error_app1 by (rewrite firstn_length; unfold alen in Hlen; lia).
        rewrite nth_error_firstn_lt by lia. assumption.
      - apply outv_aot_same.
        match goal with H : negb (_ =? _)%N = false |- _ => apply Bool.negb_false_iff, N.eqb_eq in H; symmetry; exact H end.
      - outv_tac. }
    intros o Ho. kv_tac0 E Hc Hf. apply outv_add_log. exact Ho.
  Qed.

  Lemma kv_f_nft_transfer i : tok0v i -> kv E (f_nft_transfer E i) (okout i).
  Proof.
    intros Hv. unfold f_nft_transfer. do 2 (kv_step0 E Hc Hf).
    destruct (beqb (i_caller i) (i_rcpt i)) eqn:Ecr.
    - apply kv_f_nft_transfer_sender; [lia|exact Hv].
    - kv_tac0 E Hc Hf.
      eapply (kv_bind E) with (Q := okout i).
      { kv_tac E Hc Hf. all: outv_tac. }
      intros o Ho. kv_tac0 E Hc Hf. apply outv_add_log. exact Ho.
  Qed.

  (* ---------------- MultiESDTNFTTransfer ---------------- *)
  Definition tokv (p : bytes * token) : Prop := valid_id (fst p) /\ wf_token (snd p).

  Lemma kv_transfer_one_sender snd caller dstLocal dst tok nonce q verify rae : valid_id tok ->
    kv E (transfer_one_sender E snd caller dstLocal dst tok nonce q verify rae) (fun t => wf_token t).
  Proof.
    intros Hv. unfold transfer_one_sender. kv_tac0 E Hc Hf.
    kv_ifT E; [kv_tac0 E Hc Hf..|]. kv_tac0 E Hc Hf.
    - match goal with H : exists v, _ = set_value _ (Some v) |- _ => destruct H as (v & ->) end. wf_solve.
    - wf_solve.
  Qed.

  Lemma kv_multi_sender_loop i dstLocal dst verify :
    forall fuel idx acc logs,
      (forall j tok, (idx <= j < idx + N.of_nat fuel)%N ->
         nth_error (i_args i) (N.to_nat (2 + j * 3)) = Some tok -> valid_id tok) ->
      Forall tokv acc ->
      kv E (multi_sender_loop E fuel i dstLocal dst verify idx acc logs)
           (fun r => Forall tokv (fst r) /\ length (fst r) = (fuel + length acc)%nat).
  Proof.
    induction fuel as [|f IH]; intros idx acc logs Hv Hacc.
    - cbn [multi_sender_loop]. apply (kv_ret E). cbn [fst]. split; [apply Forall_rev; exact Hacc|].
      rewrite rev_length. reflexivity.
    - cbn [multi_sender_loop]. unfold apt, C.bif_argumentsPerTransfer. kv_tac0 E Hc Hf.
      match goal with H : nth_error (i_args i) (N.to_nat (2 + idx * 3)) = Some ?tok |- _ =>
        assert (Hvt : valid_id tok) by (apply (Hv idx tok); [lia|exact H]) end.
      eapply (kv_bind E); [apply kv_transfer_one_sender; exact Hvt|].
      kv_intro. cbv zeta. eapply (kv_weaken E).
      + apply IH; [intros j tok Hj; apply Hv; lia|]. constructor; [split; assumption|exact Hacc].
      + cbv beta. intros r [H1 H2]. split; [exact H1|]. rewrite H2. cbn [length]. lia.
  Qed.

  Lemma kv_multi_out_args i : forall l o acc, Forall tokv l -> okout i o ->
    kv E (multi_out_args E l o acc)
         (fun r => okout i (snd r)
                   /\ exists L, fst r = acc ++ L /\ forall rest, triples_ids (length l) (L ++ rest)).
  Proof.
    induction l as [|[tok t] r IH]; intros o acc Hl Ho.
    - cbn [multi_out_args]. apply (kv_ret E). cbn [fst snd length]. split; [exact Ho|].
      exists []. split; [rewrite app_nil_r; reflexivity|intros; exact I].
    - inversion Hl as [|? ? [Hv Hw] Hr]; subst. cbn [fst snd] in *. cbn [multi_out_args].
      destruct (t_meta t) as [m|] eqn:Em.
      + eapply (kv_bind E); [apply (kv_marshal_tok E)|]. intros b ->.
        eapply (kv_bind E); [apply (kv_guard E)|]. intros _ _.
        eapply (kv_weaken E); [apply IH; [exact Hr|apply outv_set_gasrem; exact Ho]|].
        cbv beta. intros x (H1 & L & HL & HT). split; [exact H1|].
        exists ([tok; u64_bytes (md_nonce m); enc_tok cd t] ++ L). split; [rewrite HL, <- app_assoc; reflexivity|].
        intros rest. cbn [length app triples_ids]. split; [exact Hv|apply HT].
      + eapply (kv_bind E); [apply (kv_val_of E)|]. intros v _.
        eapply (kv_weaken E); [apply IH; [exact Hr|exact Ho]|].
        cbv beta. intros x (H1 & L & HL & HT). split; [exact H1|].
        exists ([tok; [x00]; Z_bytes v] ++ L). split; [rewrite HL, <- app_assoc; reflexivity|].
        intros rest. cbn [length app triples_ids]. split; [exact Hv|apply HT].
  Qed.

  (* the emitted multi-transfer message names the tokens of its triples *)
  Lemma args_ids_multi n L : (n < two64)%N -> triples_ids (N.to_nat n) L ->
    args_ids C.BuiltInFunctionMultiESDTNFTTransfer (u64_bytes n :: L).
  Proof.
    intros Hn HT i Hi Hne. unfold call_ids, named_tokens.
    change (classify C.BuiltInFunctionMultiESDTNFTTransfer) with (Some BMulti). cbn [named_tokens_b].
    unfold multi_named. rewrite (beqb_false _ _ Hne). unfold multi_dst_triples, multi_n_dst.
    assert (H0 : argn i 0 = u64_bytes n) by (unfold argn; rewrite Hi; reflexivity).
    rewrite H0, bigU64_u64_bytes, u64_small by exact Hn.
    apply triples_ids_named. rewrite Hi. change (N.to_nat (1 + 0 * 3)) with 1%nat. cbn [skipn]. exact HT.
  Qed.

  Lemma kv_f_multi_transfer_sender i :
    Forall valid_id (map rt_tok (multi_snd_triples i)) -> kv E (f_multi_transfer_sender E i) (okout i).
  Proof.
    intros Hv. unfold f_multi_transfer_sender. kv_tac0 E Hc Hf.
    kv_ifT E; [kv_tac0 E Hc Hf..|].
    match goal with H : nth_error (i_args i) (N.to_nat 1) = Some ?a1 |- _ =>
      assert (Hn1 : multi_n_snd i = bigU64 a1) by (exact (f_equal bigU64 (argn_nth_error _ _ _ H)));
      set (n := bigU64 a1) in * end.
    do 3 (eapply (kv_bind E); [apply (kv_alloc E)|intros _ _]).
    eapply (kv_bind E).
    { apply kv_multi_sender_loop; [|constructor]. intros j tok Hj Hnth.
      unfold multi_snd_triples in Hv. rewrite Hn1 in Hv.
      apply (multi_tokens_valid _ _ _ _ Hv j tok); [lia|exact Hnth]. }
    intros [lst logs] [Hl Hlen]. cbn [fst length] in Hl, Hlen. rewrite Nat.add_0_r in Hlen.
    kv_ifT E; [kv_tac0 E Hc Hf..|].
    eapply (kv_bind E); [apply (kv_alloc E)|intros _ _].
    eapply (kv_bind E); [apply (kv_multi_out_args i); [exact Hl|outv_tac]|].
    intros [args' o] (Ho & L & HL & HT). cbn [fst snd] in *. subst args'.
    kv_ifT E; [kv_tac0 E Hc Hf..|]. cbv zeta.
    match goal with |- kv _ (if ?b then _ else _) _ => destruct b eqn:Esame end.
    - (* cross-shard: the message *)
      apply (kv_ret E).
      apply outv_ant_msg; [cbn; auto 10|]. cbn [app].
      apply args_ids_multi; [apply bigU64_lt|]. rewrite <- Hlen. apply HT.
    - apply Bool.negb_false_iff, N.eqb_eq in Esame.
      kv_tac E Hc Hf; [apply outv_aot_same; symmetry; exact Esame|exact Ho].
  Qed.

  Lemma kv_multi_dest_loop i minArgs :
    forall fuel idx logs,
      (forall j tok, (idx <= j < idx + N.of_nat fuel)%N ->
         nth_error (i_args i) (N.to_nat (1 + j * 3)) = Some tok -> valid_id tok) ->
      kv E (multi_dest_loop E fuel i minArgs idx logs) (fun _ => True).
  Proof.
    induction fuel as [|f IH]; intros idx logs Hv.
    - cbn [multi_dest_loop]. apply (kv_ret E). exact I.
    - cbn [multi_dest_loop]. unfold apt, C.bif_argumentsPerTransfer. kv_tac0 E Hc Hf.
      match goal with H : nth_error (i_args i) (N.to_nat (1 + idx * 3)) = Some ?tok |- _ =>
        assert (Hvt : valid_id tok) by (apply (Hv idx tok); [lia|exact H]) end.
      eapply (kv_bind E) with (Q := fun _ => True).
      + match goal with |- kv _ (if ?b then _ else _) _ => destruct b eqn:Epos end; kv_tac0 E Hc Hf.
      + intros _ _. cbv zeta. apply IH. intros j tok Hj. apply Hv. lia.
  Qed.

  Lemma kv_f_multi_transfer i :
    Forall valid_id (map rt_tok (multi_named i)) -> kv E (f_multi_transfer E i) (okout i).
  Proof.
    intros Hv. unfold multi_named in Hv. unfold f_multi_transfer. do 2 (kv_step0 E Hc Hf).
    destruct (beqb (i_caller i) (i_rcpt i)) eqn:Ecr.
    - apply kv_f_multi_transfer_sender. exact Hv.
    - kv_tac0 E Hc Hf.
      match goal with H : nth_error (i_args i) (N.to_nat 0) = Some ?a0 |- _ =>
        assert (Hn0 : multi_n_dst i = bigU64 a0) by (exact (f_equal bigU64 (argn_nth_error _ _ _ H))) end.
      eapply (kv_bind E).
      { apply kv_multi_dest_loop. intros j tok Hj Hnth. unfold multi_dst_triples in Hv. rewrite Hn0 in Hv.
        apply (multi_tokens_valid _ _ _ _ Hv j tok); [lia|exact Hnth]. }
      intros logs _. kv_tac E Hc Hf. all: outv_tac.
  Qed.

End Transfers.
