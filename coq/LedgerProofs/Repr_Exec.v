(* C13 — representation independence, part 2: every helper, every built-in function and the dispatch
   respect the state equivalence ([resp], Repr_Core.v).  ANY environment: any fault plan, any codec
   (no codec_ok), any shard table / payability oracle / gas schedule; any input.

   exec_respects_equiv     the statement in the shape of the property text. *)
From EV Require Import Base.Bytes Base.Store Base.Monad gen.Consts Codec.Types Helpers.Helpers
  Ledger.Types Ledger.Env Ledger.Funcs Ledger.Transfers LedgerProofs.Defs LedgerProofs.Repr_Core.

Section Exec.
  Variable E : env.
  Notation MT := (@M err mstate).

  Hint Resolve resp_ret resp_fail resp_panic resp_guard resp_lift_opt resp_opt_or_panic
       resp_retrieve resp_write_kv resp_alloc resp_arg resp_args_from resp_val_of resp_meta_of : resp.
  Hint Resolve resp_dep : resp.

  (* an update that keeps the store and sets fields from values that do not depend on the log *)
  Ltac upd_ok :=
    let x := fresh "x" in let y := fresh "y" in
    intros x y [? (? & ? & ? & ?)]; split; [assumption|repeat split; cbn; congruence].
  (* the continuation of get_acct reads d only through its four fields *)
  Ltac ext_ok :=
    let d := fresh "d" in let d' := fresh "d'" in let s0 := fresh "s0" in
    let Hb := fresh "Hb" in let Ho := fresh "Ho" in let Hu := fresh "Hu" in let Hr := fresh "Hr" in
    intros d d' [_ (Hb & Ho & Hu & Hr)] s0; cbv beta zeta; rewrite ?Hb, ?Ho, ?Hu, ?Hr; reflexivity.
  Ltac resp_step :=
    lazymatch goal with
    | |- resp (bind (get_acct _) _) => apply resp_get_acct_bind; [ext_ok|intros ?; cbv beta]
    | |- resp (bind _ _) => apply resp_bind; [|intros ?; cbv beta]
    | |- resp (upd_acct _ _) => apply resp_upd_acct; upd_ok
    | |- resp (if ?b then _ else _) => destruct b
    | |- resp (match ?x with _ => _ end) => destruct x
    | |- _ => solve [auto with resp]
    end.
  Ltac resp_tac := cbv beta zeta; repeat resp_step.

  (* ---- Env.v ---- *)
  Lemma resp_save_kv a k v : resp (save_kv E a k v).
  Proof. unfold save_kv. resp_tac. Qed.
  Lemma resp_load_account a : resp (load_account E a). Proof. exact (resp_dep E). Qed.
  Lemma resp_save_account a : resp (save_account E a). Proof. exact (resp_dep E). Qed.
  Lemma resp_marshal_tok t : resp (marshal_tok E t).
  Proof. unfold marshal_tok. resp_tac. Qed.
  Lemma resp_unmarshal_tok b : resp (unmarshal_tok E b).
  Proof. unfold unmarshal_tok. resp_tac. Qed.
  Lemma resp_marshal_rol r : resp (marshal_rol E r).
  Proof. unfold marshal_rol. resp_tac. Qed.
  Lemma resp_unmarshal_rol b : resp (unmarshal_rol E b).
  Proof. unfold unmarshal_rol. resp_tac. Qed.
  Lemma resp_is_payable a : resp (is_payable E a).
  Proof. unfold is_payable. resp_tac. Qed.
  Hint Resolve resp_save_kv resp_load_account resp_save_account resp_marshal_tok resp_unmarshal_tok
       resp_marshal_rol resp_unmarshal_rol resp_is_payable : resp.

  Lemma resp_check_basic i : resp (check_basic i).
  Proof. unfold check_basic. resp_tac. Qed.
  Lemma resp_get_esdt_data a key : resp (get_esdt_data E a key).
  Proof. unfold get_esdt_data. resp_tac. Qed.
  Lemma resp_is_paused key : resp (is_paused key).
  Proof. unfold is_paused. resp_tac. Qed.
  Hint Resolve resp_check_basic resp_get_esdt_data resp_is_paused : resp.
  Lemma resp_check_froze_and_pause addr key t rae : resp (check_froze_and_pause addr key t rae).
  Proof. unfold check_froze_and_pause. resp_tac. Qed.
  Lemma resp_save_esdt_data a t key : resp (save_esdt_data E a t key).
  Proof. unfold save_esdt_data. resp_tac. Qed.
  Hint Resolve resp_check_froze_and_pause resp_save_esdt_data : resp.
  Lemma resp_add_to_esdt_balance a key delta rae : resp (add_to_esdt_balance E a key delta rae).
  Proof. unfold add_to_esdt_balance. resp_tac. Qed.
  Lemma resp_get_nft_on_destination a key nonce : resp (get_nft_on_destination E a key nonce).
  Proof. unfold get_nft_on_destination. resp_tac. Qed.
  Hint Resolve resp_add_to_esdt_balance resp_get_nft_on_destination : resp.
  Lemma resp_get_nft_on_sender a key nonce : resp (get_nft_on_sender E a key nonce).
  Proof. unfold get_nft_on_sender. resp_tac. Qed.
  Lemma resp_save_nft a key t rae : resp (save_nft E a key t rae).
  Proof. unfold save_nft. resp_tac. Qed.
  Lemma resp_get_latest_nonce a tok : resp (get_latest_nonce a tok).
  Proof. unfold get_latest_nonce. resp_tac. Qed.
  Lemma resp_save_latest_nonce a tok n : resp (save_latest_nonce E a tok n).
  Proof. unfold save_latest_nonce. resp_tac. Qed.
  Lemma resp_get_roles a key : resp (get_roles E a key).
  Proof. unfold get_roles. resp_tac. Qed.
  Hint Resolve resp_get_nft_on_sender resp_save_nft resp_get_latest_nonce resp_save_latest_nonce resp_get_roles : resp.
  Lemma resp_check_allowed snd a tok role : resp (check_allowed E snd a tok role).
  Proof. unfold check_allowed. resp_tac. Qed.
  Lemma resp_save_roles a key r : resp (save_roles E a key r).
  Proof. unfold save_roles. resp_tac. Qed.
  Hint Resolve resp_check_allowed resp_save_roles : resp.

  (* ---- Funcs.v ---- *)
  Lemma resp_check_local_action i cost : resp (check_local_action i cost).
  Proof. unfold check_local_action. resp_tac. Qed.
  Lemma resp_check_create_burn_add i cost : resp (check_create_burn_add i cost).
  Proof. unfold check_create_burn_add. resp_tac. Qed.
  Lemma resp_check_system_one_arg i : resp (check_system_one_arg i).
  Proof. unfold check_system_one_arg. resp_tac. Qed.
  Lemma resp_delete_create_role a key : resp (delete_create_role E a key).
  Proof. unfold delete_create_role. resp_tac. Qed.
  Lemma resp_add_create_role a key : resp (add_create_role E a key).
  Proof. unfold add_create_role. resp_tac. Qed.
  Hint Resolve resp_check_local_action resp_check_create_burn_add resp_check_system_one_arg
       resp_delete_create_role resp_add_create_role : resp.

  Lemma resp_f_local_mint i : resp (f_local_mint E i).
  Proof. unfold f_local_mint. resp_tac. Qed.
  Lemma resp_f_local_burn i : resp (f_local_burn E i).
  Proof. unfold f_local_burn. resp_tac. Qed.
  Lemma resp_f_esdt_burn i : resp (f_esdt_burn E i).
  Proof. unfold f_esdt_burn. resp_tac. Qed.
  Lemma resp_f_nft_create i : resp (f_nft_create E i).
  Proof. unfold f_nft_create. resp_tac. Qed.
  Lemma resp_f_nft_add_quantity i : resp (f_nft_add_quantity E i).
  Proof. unfold f_nft_add_quantity. resp_tac. Qed.
  Lemma resp_f_nft_burn i : resp (f_nft_burn E i).
  Proof. unfold f_nft_burn. resp_tac. Qed.
  Lemma resp_f_nft_add_uri i : resp (f_nft_add_uri E i).
  Proof. unfold f_nft_add_uri. resp_tac. Qed.
  Lemma resp_f_nft_update_attributes i : resp (f_nft_update_attributes E i).
  Proof. unfold f_nft_update_attributes. resp_tac. Qed.
  Lemma resp_f_freeze_wipe fr wi i : resp (f_freeze_wipe E fr wi i).
  Proof. unfold f_freeze_wipe. resp_tac. Qed.
  Lemma resp_f_pause p i : resp (f_pause E p i).
  Proof. unfold f_pause. resp_tac. Qed.
  Lemma resp_f_roles set i : resp (f_roles E set i).
  Proof. unfold f_roles. resp_tac. Qed.
  Lemma resp_f_create_role_transfer i : resp (f_create_role_transfer E i).
  Proof. unfold f_create_role_transfer. resp_tac. Qed.
  (* the three functions that read and write account FIELDS *)
  Lemma resp_f_change_owner i : resp (f_change_owner E i).
  Proof. unfold f_change_owner. resp_tac. Qed.
  Lemma resp_f_claim_rewards i : resp (f_claim_rewards E i).
  Proof. unfold f_claim_rewards. resp_tac. Qed.
  Lemma resp_f_set_user_name i : resp (f_set_user_name E i).
  Proof. unfold f_set_user_name. resp_tac. Qed.

  (* SaveKeyValue's loop over (key, value) pairs *)
  Lemma resp_skv_loop a g pairs :
    (forall use, resp (skv_loop E a g pairs use)) /\ (forall x use, resp (skv_loop E a g (x :: pairs) use)).
  Proof.
    induction pairs as [|y rest [IH1 IH2]].
    - split; intros; cbn [skv_loop]; resp_tac.
    - split; [intros use; apply IH2|].
      intros x use. cbn [skv_loop]. resp_tac; try apply IH1.
  Qed.
  Lemma resp_skv a g pairs use : resp (skv_loop E a g pairs use).
  Proof. apply resp_skv_loop. Qed.
  Hint Resolve resp_skv : resp.
  Lemma resp_f_save_key_value i : resp (f_save_key_value E i).
  Proof. unfold f_save_key_value. resp_tac. Qed.

  (* ---- Transfers.v ---- *)
  Lemma resp_check_payable v a : resp (check_payable E v a).
  Proof. unfold check_payable. resp_tac. Qed.
  Hint Resolve resp_check_payable : resp.
  Lemma resp_f_esdt_transfer i : resp (f_esdt_transfer E i).
  Proof. unfold f_esdt_transfer. resp_tac. Qed.
  Lemma resp_add_nft_to_destination dst key t v rae : resp (add_nft_to_destination E dst key t v rae).
  Proof. unfold add_nft_to_destination. resp_tac. Qed.
  Hint Resolve resp_add_nft_to_destination : resp.
  Lemma resp_f_nft_transfer_sender i : resp (f_nft_transfer_sender E i).
  Proof. unfold f_nft_transfer_sender. resp_tac. Qed.
  Hint Resolve resp_f_nft_transfer_sender : resp.
  Lemma resp_f_nft_transfer i : resp (f_nft_transfer E i).
  Proof. unfold f_nft_transfer. resp_tac. Qed.
  Lemma resp_transfer_one_sender sp c dl dst tok nonce q v rae :
    resp (transfer_one_sender E sp c dl dst tok nonce q v rae).
  Proof. unfold transfer_one_sender. resp_tac. Qed.
  Hint Resolve resp_transfer_one_sender : resp.
  (* the loops of MultiESDTNFTTransfer, both sides *)
  Lemma resp_multi_sender_loop fuel i dl dst v : forall idx acc logs,
    resp (multi_sender_loop E fuel i dl dst v idx acc logs).
  Proof. induction fuel as [|f IH]; intros; cbn [multi_sender_loop]; resp_tac; try apply IH. Qed.
  Lemma resp_multi_out_args l : forall o acc, resp (multi_out_args E l o acc).
  Proof. induction l as [|[tok t] r IH]; intros; cbn [multi_out_args]; resp_tac; try apply IH. Qed.
  Lemma resp_multi_dest_loop fuel i minArgs : forall idx logs, resp (multi_dest_loop E fuel i minArgs idx logs).
  Proof. induction fuel as [|f IH]; intros; cbn [multi_dest_loop]; resp_tac; try apply IH. Qed.
  Hint Resolve resp_multi_sender_loop resp_multi_out_args resp_multi_dest_loop : resp.
  Lemma resp_f_multi_transfer_sender i : resp (f_multi_transfer_sender E i).
  Proof. unfold f_multi_transfer_sender. resp_tac. Qed.
  Hint Resolve resp_f_multi_transfer_sender : resp.
  Lemma resp_f_multi_transfer i : resp (f_multi_transfer E i).
  Proof. unfold f_multi_transfer. resp_tac. Qed.

  Hint Resolve resp_f_local_mint resp_f_local_burn resp_f_esdt_burn resp_f_nft_create resp_f_nft_add_quantity
       resp_f_nft_burn resp_f_nft_add_uri resp_f_nft_update_attributes resp_f_freeze_wipe resp_f_pause
       resp_f_roles resp_f_create_role_transfer resp_f_change_owner resp_f_claim_rewards resp_f_set_user_name
       resp_f_save_key_value resp_f_esdt_transfer resp_f_nft_transfer resp_f_multi_transfer : resp.

  (* all 23 functions and the unknown-name case *)
  Theorem resp_exec f i : resp (exec E f i).
  Proof. unfold exec. resp_tac. Qed.

  (* REPRESENTATION INDEPENDENCE of one execution: from states with extensionally equal storage and equal
     account fields (and the same position in the fault plan) the call returns the same result - Ok with the
     same complete output, the same error, or panic -, equivalent post-states, the same number of dependency
     calls and the same number of requested elements *)
  Theorem exec_respects_equiv f i s u :
    state_equiv s u -> calls s = calls u ->
    let '(r1, s') := exec E f i s in
    let '(r2, u') := exec E f i u in
    r1 = r2 /\ state_equiv s' u' /\ calls s' = calls u' /\ (allocs s' - allocs s = allocs u' - allocs u)%N.
  Proof.
    intros Hs Hc. pose proof (resp_run (exec E f i) s u (resp_exec f i) Hs Hc) as H.
    destruct (exec E f i s) as [r1 s']. destruct (exec E f i u) as [r2 u']. cbn [fst snd] in H.
    destruct H as (H1 & H2 & H3 & H4 & _). auto.
  Qed.
  (* the same, case by case on the status *)
  Corollary exec_respects_equiv_cases f i s u :
    state_equiv s u -> calls s = calls u ->
    match exec E f i s, exec E f i u with
    | (Ok o, s'), (Ok o', u') => o = o' /\ state_equiv s' u' /\ calls s' = calls u'
    | (Err e, s'), (Err e', u') => e = e' /\ state_equiv s' u'
    | (Panic, s'), (Panic, u') => state_equiv s' u'
    | _, _ => False
    end.
  Proof.
    intros Hs Hc. pose proof (exec_respects_equiv f i s u Hs Hc) as H.
    destruct (exec E f i s) as [r1 s']. destruct (exec E f i u) as [r2 u'].
    destruct H as (<- & H2 & H3 & _). destruct r1; auto.
  Qed.
End Exec.

Print Assumptions resp_exec.
Print Assumptions exec_respects_equiv.
