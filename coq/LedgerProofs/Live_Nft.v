(* C01, liveness half for ESDTNFTTransfer (the ESDTTransfer half is C01_Live.v).
     antd_succeeds_obs        add_nft_to_destination succeeds, conditions stated with the observables of Defs.v
     nft_dest_succeeds        the destination side of ESDTNFTTransfer SUCCEEDS (and returns exactly nft_dest_out) whenever
                              the input has the delivered shape, >= 4 arguments, a payload that decodes to an entry with a
                              value and metadata, the recipient is payable (when payability is checked), the entry stored
                              under the cell the payload will be written to is absent or decodes with a value and, if it
                              carries metadata, the same hash, and (unless return-after-error / recipient = SC) neither
                              that entry nor the incoming properties are frozen and neither the token key nor the full key
                              is paused
     emitted_nft_wf           the message emitted by an accepted cross-shard sender side satisfies the static part
                              ([nft_msg]): payload = the sender's entry with Value = quantity, same metadata, same
                              properties (not frozen unless rae / caller = SC); what it leaves at the sender is absent
                              or the same entry with the remaining value ([nft_entry_ok] for the refund)
     deliver_succeeds_nft / deliver_accepted_nft   world level: ODeliver of such a message commits, consumes the message
                              and credits the destination exactly [credits m]
     refund_succeeds_nft / rejected_then_refund_nft   a rejected delivery marks the message failed; ORefund (rae = true,
                              callback call type: no payable / frozen / paused check) succeeds provided the debited
                              account's entry under that cell is absent or decodes with a value and the same hash; the
                              debited account gets the quantity back; totals are unchanged
     nft_cross_emits / nft_rejected_refund_restores   composition with the sender side: the emitted message is found under
                              the world's next id, and if the sender's cell is untouched between emission and refund, the
                              balance after the refund is the balance before the transfer. *)
From Coq.Strings Require Import String.
From EV Require Import Base.Bytes Base.Store Base.Monad gen.Consts Codec.Types Helpers.Helpers
  Ledger.Types Ledger.Env Ledger.Funcs Ledger.Transfers Ledger.World
  LedgerProofs.Defs LedgerProofs.EnvSpec LedgerProofs.WorldDefs LedgerProofs.WorldSpec
  LedgerProofs.Spec_Transfers_Base LedgerProofs.Spec_Transfers_Esdt LedgerProofs.Spec_Transfers_Nft
  LedgerProofs.Spec_Transfers_Multi LedgerProofs.Spec_Transfers
  LedgerProofs.C01_World LedgerProofs.C01_Step LedgerProofs.C01_Exact LedgerProofs.C01_Live
  LedgerProofs.C10_Accept LedgerProofs.Live_World.

Section Live.
  Variable E : env.
  Hypothesis Hc : codec_ok (cdc E).
  Hypothesis Hnf : no_faults E.

  (* the entry stored at account a under cell k does not stand in the way of adding the incoming entry t:
     absent, or it decodes, has a value and, if it carries metadata, t carries metadata with the same hash *)
  Definition nft_entry_ok (s : mstate) (a k : bytes) (t : token) : Prop :=
    cell s a k = []
    \/ exists cur, tok_at E s a k = Some cur /\ t_value cur <> None
         /\ forall cm, t_meta cur = Some cm -> exists m, t_meta t = Some m /\ md_hash cm = md_hash m.

  (* neither the stored entry nor the incoming properties are frozen; neither the token key nor the full key is paused *)
  Definition nft_flags_ok (s : mstate) (a key : bytes) (t : token) : Prop :=
    frozen_at E s a (nft_key key (tok_nonce t)) = false /\ frozen_props (t_props t) = false
    /\ paused_at s key = false /\ paused_at s (nft_key key (tok_nonce t)) = false.

  Lemma nft_entry_ok_accts s s' a k t : accts s' = accts s -> nft_entry_ok s a k t -> nft_entry_ok s' a k t.
  Proof.
    intros Ha [H|(cur & H1 & H2)]; [left|right; exists cur].
    - rewrite (cell_accts _ _ _ _ Ha). exact H.
    - rewrite (tok_at_accts E _ _ _ _ Ha). auto.
  Qed.
  Lemma nft_flags_ok_accts s s' a key t : accts s' = accts s -> nft_flags_ok s a key t -> nft_flags_ok s' a key t.
  Proof.
    intros Ha (H1 & H2 & H3 & H4). unfold nft_flags_ok.
    rewrite (frozen_at_accts E _ _ _ _ Ha), !(paused_at_accts _ _ _ Ha). auto.
  Qed.

  Lemma antd_succeeds_obs dst key t verify rae s v :
    (verify = true -> payable E dst = PayYes) -> t_value t = Some v ->
    nft_entry_ok s dst (nft_key key (tok_nonce t)) t ->
    (rae = false -> dst <> SC -> nft_flags_ok s dst key t) ->
    exists t' s', add_nft_to_destination E dst key t verify rae s = (Ok t', s').
  Proof.
    intros Hpay Hv Hent Hfl.
    assert (exists cur cv, tok_or_default E s dst (nft_key key (tok_nonce t)) = Some cur /\ t_value cur = Some cv
              /\ forall cm, t_meta cur = Some cm -> exists m, t_meta t = Some m /\ md_hash cm = md_hash m)
      as (cur & cv & Htod & Hcv & Hh).
    { destruct Hent as [Hnil|(cur & Hcur & Hcv & Hh)].
      - exists (default_tok), 0%Z. split; [apply tod_nil; exact Hnil|]. split; [reflexivity|]. intros cm Hcm. discriminate Hcm.
      - destruct (t_value cur) as [cv|] eqn:Ecv; [|congruence]. exists cur, cv.
        split; [apply tok_at_tod; exact Hcur|]. split; [exact Ecv|exact Hh]. }
    destruct (add_nft_to_destination_succeeds E Hc dst key t verify rae s cur v cv Hnf Hpay Htod Hv Hcv Hh) as (s' & H).
    - intros h1 h2. destruct (Hfl h1 h2) as (F1 & F2 & P1 & P2).
      rewrite (frozen_at_tod E _ _ _ _ Htod) in F1. auto.
    - eexists. eexists. exact H.
  Qed.

  Theorem nft_dest_succeeds i s t v m :
    i_value i = 0%Z -> (4 <= alen (i_args i))%N -> i_snd i = false -> i_dst i = true -> i_caller i <> i_rcpt i ->
    dec_tok (cdc E) (argn i 3) = Some t -> t_value t = Some v -> t_meta t = Some m ->
    (must_verify_payable i 4 = true -> payable E (i_rcpt i) = PayYes) ->
    nft_entry_ok s (i_rcpt i) (nft_full i t) t ->
    (i_rae i = false -> i_rcpt i <> SC -> nft_flags_ok s (i_rcpt i) (nft_tkey i) t) ->
    exists s', f_nft_transfer E i s = (Ok (nft_dest_out i t), s').
  Proof.
    intros Hval Hlen Hsnd Hdst Hne Hdec Hv Hm Hpay Hent Hfl.
    assert (Hg : nft_dest_guards E i).
    { split; [repeat split; assumption|]. split; [exact Hlen|]. exists t, m. split; [exact Hdec|]. split; [congruence|exact Hm]. }
    destruct (nft_dest_guards_pass E i Hg s) as [Heq _]. rewrite Heq.
    destruct (unmarshal_tok_succeeds E (argn i 3) t s (Hnf _) Hdec) as (s1 & H1).
    rewrite (bind_eq _ _ _ _ _ H1). apply unmarshal_tok_ok in H1 as [_ Hrd].
    pose proof (rd_accts E _ _ Hrd) as Ha.
    destruct (antd_succeeds_obs (i_rcpt i) (P ++ argn i 0) t (must_verify_payable i 4) (i_rae i) s1 v Hpay Hv) as (t' & s2 & H2).
    - apply (nft_entry_ok_accts s s1 _ _ _ Ha). exact Hent.
    - intros h1 h2. apply (nft_flags_ok_accts s s1 _ _ _ Ha). exact (Hfl h1 h2).
    - rewrite (bind_eq _ _ _ _ _ H2). eexists. reflexivity.
  Qed.
End Live.

Section LiveWorldNft.
  Variable c : wcfg.
  Hypothesis Hc : codec_ok (wc_cdc c).
  Notation shof := (wc_shard_of c).

  (* token identifier and destination cell of an ESDTNFTTransfer message whose payload decodes to t *)
  Definition nmsg_tok (m : msg) : bytes := nth 0 (m_args m) [].
  Definition nmsg_key (m : msg) (t : token) : bytes := nft_key (P ++ nmsg_tok m) (tok_nonce t).

  (* the static part of "the destination accepts": an ESDTNFTTransfer message with at least four arguments whose fourth
     argument decodes to the entry t, which has a value and metadata (emitted_nft_wf: every emitted one is such) *)
  Definition nft_msg (m : msg) (t : token) : Prop :=
    m_fn m = C.BuiltInFunctionESDTNFTTransfer /\ (4 <= alen (m_args m))%N
    /\ dec_tok (wc_cdc c) (nth 3 (m_args m) []) = Some t /\ t_value t <> None /\ t_meta t <> None.

  Lemma nft_msg_credits m t : nft_msg m t -> credits c m = [(nmsg_key m t, val_or_0 t)].
  Proof.
    intros (Hfn & Hlen & Hdec & Hv & _). unfold credits, nmsg_key, nmsg_tok. rewrite Hfn, fn_nft_ne_esdt, beqb_refl.
    unfold alen in Hlen. destruct (m_args m) as [|a0 [|a1 [|a2 [|a3 r]]]]; cbn [length] in Hlen; try lia.
    cbn [nth] in *. unfold nft_credit. rewrite Hdec. unfold val_or_0. destruct (t_value t); [reflexivity|congruence].
  Qed.
  Lemma nft_msg_qty m t k : nft_msg m t -> qty c k m = (if beqb k (nmsg_key m t) then val_or_0 t else 0)%Z.
  Proof. intros H. unfold qty. rewrite (nft_msg_credits m t H). apply qty_list_single. Qed.

  (* the destination side accepts the arguments of such a message, on any input of the delivered shape *)
  Lemma nft_msg_dest_succeeds sh m0 m t i :
    nft_msg m t -> i_args i = m_args m -> i_value i = 0%Z -> i_snd i = false -> i_dst i = true -> i_caller i <> i_rcpt i ->
    (must_verify_payable i 4 = true -> wc_payable c (i_rcpt i) = PayYes) ->
    nft_entry_ok (env_at c sh) (mk_state m0) (i_rcpt i) (nmsg_key m t) t ->
    (i_rae i = false -> i_rcpt i <> SC -> nft_flags_ok (env_at c sh) (mk_state m0) (i_rcpt i) (P ++ nmsg_tok m) t) ->
    exists o s', exec (env_at c sh) (m_fn m) i (mk_state m0) = (Ok o, s').
  Proof.
    intros (Hfn & Hlen & Hdec & Hv & Hm) Hargs Hval Hsnd Hdst Hne Hpay Hent Hfl. rewrite Hfn, exec_nft_transfer.
    destruct (t_value t) as [v|] eqn:Ev; [|congruence]. destruct (t_meta t) as [md|] eqn:Em; [|congruence].
    destruct (nft_dest_succeeds (env_at c sh) Hc (env_at_no_faults c sh) i (mk_state m0) t v md) as (s' & H); try assumption.
    - rewrite Hargs. exact Hlen.
    - unfold argn. rewrite Hargs. exact Hdec.
    - unfold nft_full, nft_tkey, argn. rewrite Hargs. exact Hent.
    - unfold nft_tkey, argn. rewrite Hargs. exact Hfl.
    - eexists. eexists. exact H.
  Qed.

  (* delivery succeeds under the conditions of the property text *)
  Theorem deliver_succeeds_nft m0 m gas t :
    let sh := shof (m_dest m) in
    let i := deliver_input c m sh gas in
    nft_msg m t -> msg_ok c m ->
    (must_verify_payable i 4 = true -> wc_payable c (m_dest m) = PayYes) ->
    nft_entry_ok (env_at c sh) (mk_state m0) (m_dest m) (nmsg_key m t) t ->
    (m_dest m <> SC -> nft_flags_ok (env_at c sh) (mk_state m0) (m_dest m) (P ++ nmsg_tok m) t) ->
    exists o s', exec (env_at c sh) (m_fn m) i (mk_state m0) = (Ok o, s').
  Proof.
    intros sh i Hem Hm Hpay Hent Hfl.
    apply (nft_msg_dest_succeeds sh m0 m t i Hem); try assumption; try reflexivity.
    - cbn [i deliver_input i_snd]. apply N.eqb_neq. exact (mo_caller c m Hm).
    - cbn [i deliver_input i_caller i_rcpt]. intros He. apply (mo_caller c m Hm). rewrite He. reflexivity.
    - intros _. exact Hfl.
  Qed.

  (* the refund (return-after-error, callback call type: no payability / frozen / paused check) succeeds *)
  Theorem refund_succeeds_nft m0 m gas t :
    let sh := shof (m_sender m) in
    nft_msg m t -> msg_ok c m ->
    nft_entry_ok (env_at c sh) (mk_state m0) (m_sender m) (nmsg_key m t) t ->
    exists o s', exec (env_at c sh) (m_fn m) (refund_input c m sh gas) (mk_state m0) = (Ok o, s').
  Proof.
    intros sh Hem Hm Hent.
    apply (nft_msg_dest_succeeds sh m0 m t (refund_input c m sh gas) Hem); try assumption; try reflexivity.
    - cbn [refund_input i_snd]. apply N.eqb_neq. intros He. apply (mo_sender c m Hm). symmetry. exact He.
    - cbn [refund_input i_caller i_rcpt]. intros He. apply (mo_sender c m Hm). rewrite He. reflexivity.
    - intros Hx. vm_compute in Hx. discriminate.
    - intros Hx. discriminate.
  Qed.

  (* ---- world level ---- *)
  Theorem deliver_accepted_nft w id gas m t :
    let sh := shof (m_dest m) in
    let s := mk_state (shard_accts w sh) in
    WInv c w -> find_msg (inflight w) id = Some m -> nft_msg m t -> (sh <? wc_nshards c)%N = true ->
    (must_verify_payable (deliver_input c m sh gas) 4 = true -> wc_payable c (m_dest m) = PayYes) ->
    nft_entry_ok (env_at c sh) s (m_dest m) (nmsg_key m t) t ->
    (m_dest m <> SC -> nft_flags_ok (env_at c sh) s (m_dest m) (P ++ nmsg_tok m) t) ->
    let w' := wstep c w (ODeliver id gas) in
    inflight w' = drop_msg (inflight w) id /\ failed w' = failed w
    /\ wbal c w' (m_dest m) (nmsg_key m t) = (wbal c w (m_dest m) (nmsg_key m t) + val_or_0 t)%Z
    /\ forall a k, a <> m_dest m \/ k <> nmsg_key m t -> wbal c w' a k = wbal c w a k.
  Proof.
    intros sh s Hinv Hfind Hem Hsh Hpay Hent Hfl.
    pose proof (inflight_msg_ok c w id m Hinv Hfind) as Hm.
    destruct (deliver_succeeds_nft (shard_accts w sh) m gas t Hem Hm Hpay Hent Hfl) as (o & s' & Hex).
    destruct (deliver_commits c Hc w id gas m o s' Hinv Hfind Hsh Hex) as (Hi & Hf & _ & Hb).
    cbv zeta. split; [exact Hi|]. split; [exact Hf|]. split.
    - rewrite Hb, beqb_refl, (nft_msg_qty m t _ Hem), beqb_refl. reflexivity.
    - intros a k Hak. rewrite Hb, (nft_msg_qty m t _ Hem).
      destruct (beqb_spec a (m_dest m)) as [->|_]; [|lia]. destruct (beqb_spec k (nmsg_key m t)) as [->|_]; [|lia].
      destruct Hak as [Hx|Hx]; contradiction Hx; reflexivity.
  Qed.

  Theorem rejected_then_refund_nft w id gas gas' m t :
    let shd := shof (m_dest m) in
    let shs := shof (m_sender m) in
    WInv c w -> find_msg (inflight w) id = Some m -> nft_msg m t ->
    (shd <? wc_nshards c)%N = true -> (shs <? wc_nshards c)%N = true ->
    (* the delivery is rejected, for whatever reason (frozen, paused, not payable, other hash, undecodable entry) *)
    (forall o s', exec (env_at c shd) (m_fn m) (deliver_input c m shd gas) (mk_state (shard_accts w shd)) <> (Ok o, s')) ->
    (* at refund time the debited account's entry under that cell is absent or has a value and the same hash;
       NO condition on frozen / paused / payable *)
    nft_entry_ok (env_at c shs) (mk_state (shard_accts w shs)) (m_sender m) (nmsg_key m t) t ->
    let w1 := wstep c w (ODeliver id gas) in
    let w2 := wstep c w1 (ORefund id gas') in
    shards w1 = shards w /\ inflight w1 = inflight w /\ nat_in id (failed w1) = true
    /\ inflight w2 = drop_msg (inflight w) id /\ nat_in id (failed w2) = false
    /\ wbal c w2 (m_sender m) (nmsg_key m t) = (wbal c w (m_sender m) (nmsg_key m t) + val_or_0 t)%Z
    /\ (forall a k, a <> m_sender m \/ k <> nmsg_key m t -> wbal c w2 a k = wbal c w a k)
    /\ forall k, total c k w2 = total c k w.
  Proof.
    intros shd shs Hinv Hfind Hem Hshd Hshs Hrej Hent.
    pose proof (inflight_msg_ok c w id m Hinv Hfind) as Hm.
    pose proof (refund_succeeds_nft (shard_accts w shs) m gas' t Hem Hm Hent) as Hex.
    destruct (rejected_then_refund c Hc w id gas gas' m Hinv Hfind Hshd Hshs Hrej Hex) as (H1 & H2 & H3 & H4 & H5 & Hb & Ht).
    cbv zeta. repeat (split; [assumption|]). split; [|split; [|exact Ht]].
    - rewrite Hb, beqb_refl, (nft_msg_qty m t _ Hem), beqb_refl. reflexivity.
    - intros a k Hak. rewrite Hb, (nft_msg_qty m t _ Hem).
      destruct (beqb_spec a (m_sender m)) as [->|_]; [|lia]. destruct (beqb_spec k (nmsg_key m t)) as [->|_]; [|lia].
      destruct Hak as [Hx|Hx]; contradiction Hx; reflexivity.
  Qed.

  (* ---- what the sender side emits ---- *)
  Lemma origin_nft_caller_is_rcpt sh i s o s' : origin_call c sh i ->
    f_nft_transfer (env_at c sh) i s = (Ok o, s') -> i_caller i = i_rcpt i.
  Proof.
    intros (Hcal & Hsnd & _) H. pose proof (nft_transfer_needs_sender (env_at c sh) Hc _ _ _ _ H) as Hx.
    destruct (beqb_spec (i_caller i) (i_rcpt i)) as [He'|_]; [exact He'|]. rewrite Hcal, N.eqb_refl in Hsnd. destruct Hx; congruence.
  Qed.

  Lemma emitted_nft_wf sh m0 i id o s' m :
    origin_call c sh i -> exec (env_at c sh) C.BuiltInFunctionESDTNFTTransfer i (mk_state m0) = (Ok o, s') ->
    In m (collect c sh C.BuiltInFunctionESDTNFTTransfer i id o) ->
    exists t0, tok_at (env_at c sh) (mk_state m0) (i_caller i) (nft_cell i) = Some t0
      /\ let t := set_value t0 (Some (nft_qty i)) in
         nft_msg m t /\ collect c sh C.BuiltInFunctionESDTNFTTransfer i id o = [m]
         /\ m_id m = id /\ m_dest m = nft_dst i /\ m_sender m = i_caller i /\ m_caller m = i_caller i
         /\ nmsg_tok m = argn i 0 /\ nmsg_key m t = nft_full i t0 /\ val_or_0 t = nft_qty i
         /\ shof (m_dest m) <> sh
         (* the travelling properties are the sender's: not frozen unless return-after-error / system contract *)
         /\ (i_rae i = false -> i_caller i <> SC -> frozen_props (t_props t) = false)
         (* what is left at the sender does not stand in the way of a refund *)
         /\ nft_entry_ok (env_at c sh) s' (i_caller i) (nmsg_key m t) t.
  Proof.
    intros Hor H Hin. rewrite exec_nft_transfer in H.
    pose proof (origin_nft_caller_is_rcpt sh i _ _ _ Hor H) as Heq. destruct Hor as (Hcal & Hsnd & Hdst).
    destruct (nft_sender_post (env_at c sh) Hc _ _ _ _ H Heq) as (t0 & Hp).
    assert (Hsame : nft_same (env_at c sh) i = (shof (argn i 3) =? sh)%N).
    { unfold nft_same. cbn [self_shard shard_of env_at]. apply N.eqb_sym. }
    destruct (shof (argn i 3) =? sh)%N eqn:Ed.
    { exfalso. apply N.eqb_eq in Ed.
      rewrite (collect_all_local c sh _ i id o) in Hin; [contradiction| |right; exact travels_nft]. intros oa Hoa.
      rewrite (ns_out _ _ _ _ _ _ Hp) in Hoa. unfold nft_sender_out in Hoa. cbv zeta in Hoa. rewrite Hsame in Hoa. cbn [negb] in Hoa.
      destruct (nft_call_after i (nft_dst i)); cbn in Hoa; [|contradiction]. destruct Hoa as [<-|[]]. exact Ed. }
    apply N.eqb_neq in Ed.
    destruct (nft_out_accounts_cross (env_at c sh) Hc _ _ _ _ H Heq Hsame) as (t & Ht & Hwf & (md & Hmd) & Hout). cbv zeta in Hout.
    pose proof (collect_one_cross c sh C.BuiltInFunctionESDTNFTTransfer i id o _ _ _ _ Hout eq_refl emittable_nft Ed Hcal) as Hcol.
    cbn [tr_sender tr_callType tr_gasLimit tr_gasLocked] in Hcol.
    destruct (ns_debit _ _ _ _ _ _ Hp) as (s1 & D & Hrd). specialize (Hrd Hsame).
    assert (t0 = t) by (pose proof (db_entry _ _ _ _ _ _ _ _ _ D) as Hx; unfold nft_cell in Ht; congruence). subst t0.
    exists t. split; [exact Ht|]. cbv zeta.
    rewrite Hcol in Hin. destruct Hin as [Hm|[]]. rewrite Hm in Hcol.
    assert (Hargs : m_args m = [argn i 0; argn i 1; argn i 2] ++ [enc_tok (wc_cdc c) (set_value t (Some (nft_qty i)))] ++ skipn 4 (i_args i))
      by (rewrite <- Hm; reflexivity).
    assert (Hk : nmsg_key m (set_value t (Some (nft_qty i))) = nft_full i t).
    { unfold nmsg_key, nmsg_tok, nft_full, nft_tkey. rewrite Hargs. cbn [app nth]. rewrite tok_nonce_set_value. reflexivity. }
    split.
    { split; [rewrite <- Hm; reflexivity|]. rewrite Hargs. split; [unfold alen; cbn [app length]; lia|]. cbn [app nth].
      split; [apply (dec_enc_tok _ Hc); apply wf_set_value; exact Hwf|]. split; [discriminate|]. rewrite t_meta_set_value, Hmd. discriminate. }
    split; [exact Hcol|]. split; [rewrite <- Hm; reflexivity|]. split; [rewrite <- Hm; reflexivity|].
    split; [rewrite <- Hm; reflexivity|]. split; [rewrite <- Hm; reflexivity|].
    split; [unfold nmsg_tok; rewrite Hargs; reflexivity|].
    split; [exact Hk|]. split; [apply val_or_0_set_value|]. split; [rewrite <- Hm; exact Ed|]. split.
    - intros h1 h2. destruct (db_flags _ _ _ _ _ _ _ _ _ D h1 h2) as (F & _). exact F.
    - rewrite Hk. unfold nft_full.
      destruct (val_or_0 t - nft_qty i <=? 0)%Z eqn:Ev.
      + left. rewrite (rd_cell (env_at c sh) _ _ _ _ Hrd). rewrite (db_cell _ _ _ _ _ _ _ _ _ D), Ev. reflexivity.
      + right. exists (set_value t (Some (val_or_0 t - nft_qty i)%Z)).
        split; [rewrite (rd_tok_at (env_at c sh) _ _ _ _ Hrd), (db_tok_at _ _ _ _ _ _ _ _ _ D), Ev; reflexivity|].
        split; [discriminate|]. intros cm Hcm. rewrite t_meta_set_value in *. exists cm. split; [exact Hcm|reflexivity].
  Qed.

  (* ---- composition: transfer, (anything that leaves the sender's cell alone), rejected delivery, refund ---- *)
  Theorem nft_rejected_refund_restores sh m0 i id0 o s1 m w id gas gas' :
    let E := env_at c sh in
    let s := mk_state (shard_accts w sh) in
    (* the accepted cross-shard transfer, F4b hypothesis as in the conservation theorem *)
    origin_call c sh i -> lookup_consistent E (mk_state m0) (i_caller i) (nft_tkey i) (nft_nonce i) ->
    exec E C.BuiltInFunctionESDTNFTTransfer i (mk_state m0) = (Ok o, s1) ->
    In m (collect c sh C.BuiltInFunctionESDTNFTTransfer i id0 o) ->
    (* a later world: the message is still in flight; the sender's holding of the cell is what the transfer left and
       its entry (possibly frozen meanwhile) is absent or has a value and the hash of the transferred NFT *)
    WInv c w -> find_msg (inflight w) id = Some m ->
    (shof (m_dest m) <? wc_nshards c)%N = true -> (sh <? wc_nshards c)%N = true ->
    balance E s (i_caller i) (nft_cell i) = balance E s1 (i_caller i) (nft_cell i) ->
    (forall t0, tok_at E (mk_state m0) (i_caller i) (nft_cell i) = Some t0 -> nft_entry_ok E s (i_caller i) (nft_cell i) t0) ->
    (forall o' s', exec (env_at c (shof (m_dest m))) (m_fn m) (deliver_input c m (shof (m_dest m)) gas)
                     (mk_state (shard_accts w (shof (m_dest m)))) <> (Ok o', s')) ->
    let w2 := wstep c (wstep c w (ODeliver id gas)) (ORefund id gas') in
    inflight w2 = drop_msg (inflight w) id /\ nat_in id (failed w2) = false
    /\ wbal c w2 (i_caller i) (nft_cell i) = balance E (mk_state m0) (i_caller i) (nft_cell i)
    /\ forall k, total c k w2 = total c k w.
  Proof.
    intros E s Hor Hlc Hex Hin Hinv Hfind Hshd Hshs Hbal Hcomp Hrej.
    destruct (emitted_nft_wf sh m0 i id0 o s1 m Hor Hex Hin) as (t0 & Ht0 & Hw). cbv zeta in Hw.
    destruct Hw as (Hem & _ & _ & _ & Hms & _ & _ & Hk & Hq & _ & _ & _).
    assert (Hfull : nft_full i t0 = nft_cell i) by (unfold nft_full, nft_cell; rewrite (Hlc t0 Ht0); reflexivity).
    rewrite Hfull in Hk.
    pose proof Hor as (Hcal & _).
    assert (Hent' : nft_entry_ok (env_at c (shof (m_sender m))) (mk_state (shard_accts w (shof (m_sender m)))) (m_sender m)
                      (nmsg_key m (set_value t0 (Some (nft_qty i)))) (set_value t0 (Some (nft_qty i)))).
    { rewrite Hms, Hcal, Hk. destruct (Hcomp t0 Ht0) as [Hn|(cur & Hcur & Hv & Hh)]; [left; exact Hn|right].
      exists cur. split; [exact Hcur|]. split; [exact Hv|]. rewrite t_meta_set_value. exact Hh. }
    assert (Hshs' : (shof (m_sender m) <? wc_nshards c)%N = true) by (rewrite Hms, Hcal; exact Hshs).
    destruct (rejected_then_refund_nft w id gas gas' m _ Hinv Hfind Hem Hshd Hshs' Hrej Hent') as (_ & _ & _ & H4 & H5 & Hb & _ & Ht).
    cbv zeta. split; [exact H4|]. split; [exact H5|]. split; [|exact Ht].
    rewrite Hms, Hk, Hq in Hb. rewrite Hb, wbal_state, Hcal. fold E. fold s. rewrite Hbal.
    pose proof Hex as Hex'. rewrite exec_nft_transfer in Hex'.
    pose proof (origin_nft_caller_is_rcpt sh i _ _ _ Hor Hex') as Heq.
    destruct (sender_debits_exact_nft E Hc i _ _ _ Hex Heq Hlc) as [_ Hd]. rewrite Hd. lia.
  Qed.

  (* the case "nothing touched that cell in between": both conditions follow from the sender-side post-state *)
  Corollary nft_rejected_refund_restores_untouched sh m0 i id0 o s1 m w id gas gas' :
    let E := env_at c sh in
    origin_call c sh i -> lookup_consistent E (mk_state m0) (i_caller i) (nft_tkey i) (nft_nonce i) ->
    exec E C.BuiltInFunctionESDTNFTTransfer i (mk_state m0) = (Ok o, s1) ->
    In m (collect c sh C.BuiltInFunctionESDTNFTTransfer i id0 o) ->
    WInv c w -> find_msg (inflight w) id = Some m ->
    (shof (m_dest m) <? wc_nshards c)%N = true -> (sh <? wc_nshards c)%N = true ->
    cell (mk_state (shard_accts w sh)) (i_caller i) (nft_cell i) = cell s1 (i_caller i) (nft_cell i) ->
    (forall o' s', exec (env_at c (shof (m_dest m))) (m_fn m) (deliver_input c m (shof (m_dest m)) gas)
                     (mk_state (shard_accts w (shof (m_dest m)))) <> (Ok o', s')) ->
    let w2 := wstep c (wstep c w (ODeliver id gas)) (ORefund id gas') in
    inflight w2 = drop_msg (inflight w) id /\ nat_in id (failed w2) = false
    /\ wbal c w2 (i_caller i) (nft_cell i) = balance E (mk_state m0) (i_caller i) (nft_cell i)
    /\ forall k, total c k w2 = total c k w.
  Proof.
    intros E Hor Hlc Hex Hin Hinv Hfind Hshd Hshs Hcell Hrej.
    apply (nft_rejected_refund_restores sh m0 i id0 o s1 m w id gas gas' Hor Hlc Hex Hin Hinv Hfind Hshd Hshs); [| |exact Hrej].
    - unfold balance. rewrite Hcell. reflexivity.
    - intros t0 Ht0.
      destruct (emitted_nft_wf sh m0 i id0 o s1 m Hor Hex Hin) as (t0' & Ht0' & Hw). cbv zeta in Hw.
      assert (t0' = t0) by congruence. subst t0'.
      destruct Hw as (_ & _ & _ & _ & _ & _ & _ & Hk & _ & _ & _ & Hent).
      assert (Hfull : nft_full i t0 = nft_cell i) by (unfold nft_full, nft_cell; rewrite (Hlc t0 Ht0); reflexivity).
      rewrite Hk, Hfull in Hent.
      destruct Hent as [Hn|(cur & Hcur & Hv & Hh)]; [left; rewrite Hcell; exact Hn|right].
      exists cur. split; [unfold tok_at in *; rewrite Hcell; exact Hcur|]. split; [exact Hv|].
      rewrite t_meta_set_value in Hh. exact Hh.
  Qed.
End LiveWorldNft.

Print Assumptions nft_dest_succeeds.
Print Assumptions emitted_nft_wf.
Print Assumptions deliver_accepted_nft.
Print Assumptions rejected_then_refund_nft.
Print Assumptions nft_rejected_refund_restores.
Print Assumptions nft_rejected_refund_restores_untouched.
