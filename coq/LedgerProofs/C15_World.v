(* C15 (well-formed token state), part 4: the invariant over histories of the world model (Ledger/World.v).
   [WInv c w]: every shard state satisfies [Inv] and every in-flight message is [msg_ok] (its NFT payloads are
   well-shaped; it is not an ESDTSetRole call).  [Inv_step]: one world operation preserves it; the only
   operations with a side condition are direct calls ([OCall]): the recipient's account is present only if it
   lives on the executing shard, and the call is [disciplined] (C15_Inv.v).  Deliveries, re-deliveries and
   refunds of in-flight messages need nothing: what they consume was emitted by a successful execution
   ([collect_ok]).  [Inv_histories]: induction over the operation list (the side condition of an operation
   refers to the world it is executed in). *)
From Coq.Strings Require Import String.
From Coq Require Import Lia.
From EV Require Import Base.Bytes Base.Store Base.Monad gen.Consts Codec.Types Helpers.Helpers
  Parsers.Tokenize Parsers.CallArgs Parsers.Builder Parsers.ParsersProofs
  Ledger.Types Ledger.Env Ledger.Funcs Ledger.Transfers Ledger.World
  LedgerProofs.Defs LedgerProofs.EnvSpec LedgerProofs.WorldDefs LedgerProofs.WorldSpec
  LedgerProofs.C15_Inv LedgerProofs.C15_Funcs LedgerProofs.C15_Transfers.

(* ---------------- the empty state ---------------- *)
Lemma cell_empty_state a k : cell (mk_state []) a k = [].
Proof. unfold cell, acct, mk_state. cbn [accts aget empty_account a_store]. apply sget_nil. Qed.
Theorem Inv_empty E : Inv E (mk_state []).
Proof. intros a k H. exfalso. apply H. apply cell_empty_state. Qed.

Lemma Inv_env E E' s : cdc E' = cdc E -> Inv E s -> Inv E' s.
Proof.
  intros He Hs a k Hne. destruct (Hs a k Hne) as (H1 & H2 & H3 & H4).
  split; [exact H1|]. split; [|split; [|exact H4]].
  - intros x Hx. rewrite He. exact (H2 x Hx).
  - intros x Hx. rewrite He. exact (H3 x Hx).
Qed.
Lemma Inv_mk_state E s : Inv E s -> Inv E (mk_state (accts s)).
Proof. apply Inv_accts. reflexivity. Qed.

(* ---------------- parsing back what the built-ins emit ---------------- *)
Lemma C15_msg_data_build_call fn args : msg_data fn args = build_call fn args.
Proof. reflexivity. Qed.
Ltac c15_notin40 := let H := fresh in intros H; vm_compute in H; repeat (destruct H as [H|H]; [discriminate H|]); exact H.
Lemma emit_names_parse F A : In F emit_names -> parse_call_data (msg_data F A) = Some (F, A).
Proof.
  intros H. rewrite C15_msg_data_build_call. unfold emit_names in H.
  repeat (destruct H as [<-|H]; [apply callargs_roundtrip; [discriminate|c15_notin40]|]). destruct H.
Qed.

Section World.
  Variable c : wcfg.
  Hypothesis Hc : codec_ok (wc_cdc c).
  Hypothesis Hf : flag_undec (wc_cdc c).
  Notation shof := (wc_shard_of c).
  Notation cd := (wc_cdc c).

  Definition msgs_inv (w : world) : Prop := forall m, In m (inflight w) -> msg_ok cd (m_fn m) (m_args m).
  Definition WInv (w : world) : Prop :=
    (forall sh, Inv (env_at c sh) (mk_state (shard_accts w sh))) /\ msgs_inv w.

  (* the side condition of a direct call executed on shard sh in world w *)
  Definition call_ok (w : world) (sh : N) (fn : bytes) (i : input) : Prop :=
    (i_dst i = true -> shof (i_rcpt i) = sh)
    /\ disciplined (env_at c sh) (mk_state (shard_accts w sh)) fn i.
  Definition reachable_op (w : world) (op : wop) : Prop :=
    match op with OCall sh fn i => call_ok w sh fn i | _ => True end.
  Fixpoint reachable_ops (w : world) (ops : list wop) : Prop :=
    match ops with
    | [] => True
    | op :: r => reachable_op w op /\ reachable_ops (wstep c w op) r
    end.

  (* ---------------- what [collect] makes of an [out_ok] output ---------------- *)
  Lemma msg_of_transfer_ok sh i id dest t m :
    tr_ok (env_at c sh) i dest t -> (i_dst i = true -> shof (i_rcpt i) = sh) ->
    msg_of_transfer c sh i id dest t = Some m -> msg_ok cd (m_fn m) (m_args m).
  Proof.
    intros Ht Hd Hm. unfold msg_of_transfer in Hm.
    assert (Hloc : shof dest = sh -> False).
    { intros Hl. destruct (tr_data t) as [|b r]; [discriminate|].
      destruct (parse_call_data (b :: r)) as [[fn args]|]; [|discriminate].
      destruct (negb (is_builtin fn)); [discriminate|]. rewrite Hl, N.eqb_refl in Hm. cbn [andb] in Hm.
      destruct (beqb fn C.BuiltInFunctionESDTNFTCreateRoleTransfer); discriminate. }
    destruct Ht as [Ht|[[Hi ->]|[Ht|(F & A & Ht & HF & Hok)]]].
    - rewrite Ht in Hm. discriminate.
    - exfalso. apply Hloc. apply Hd. exact Hi.
    - exfalso. apply Hloc. exact Ht.
    - rewrite Ht in Hm. pose proof (emit_names_parse F A HF) as Hp.
      destruct (msg_data F A) as [|b r]; [discriminate|]. rewrite Hp in Hm.
      destruct (negb (is_builtin F)); [discriminate|].
      destruct ((shof dest =? sh)%N && negb (beqb F C.BuiltInFunctionESDTNFTCreateRoleTransfer))%bool; [discriminate|].
      destruct (beqb F C.BuiltInFunctionESDTNFTCreateRoleTransfer && (shof dest =? sh)%N)%bool; [discriminate|].
      injection Hm as <-. cbn [m_fn m_args]. exact Hok.
  Qed.
  Lemma collect_transfers_ok sh i dest ts : (i_dst i = true -> shof (i_rcpt i) = sh) ->
    (forall t, In t ts -> tr_ok (env_at c sh) i dest t) ->
    forall id m, In m (collect_transfers c sh i id dest ts) -> msg_ok cd (m_fn m) (m_args m).
  Proof.
    intros Hd. induction ts as [|t r IH]; intros Hts id m Hm; [destruct Hm|]. cbn [collect_transfers] in Hm.
    destruct (msg_of_transfer c sh i id dest t) as [m0|] eqn:Em.
    - destruct Hm as [<-|Hm].
      + eapply msg_of_transfer_ok; [apply Hts; left; reflexivity|exact Hd|exact Em].
      + eapply IH; [intros t' Ht'; apply Hts; right; exact Ht'|exact Hm].
    - eapply IH; [intros t' Ht'; apply Hts; right; exact Ht'|exact Hm].
  Qed.
  Lemma collect_accounts_ok sh i oas : (i_dst i = true -> shof (i_rcpt i) = sh) ->
    (forall oa t, In oa oas -> In t (oc_transfers oa) -> tr_ok (env_at c sh) i (oc_addr oa) t) ->
    forall id m, In m (collect_accounts c sh i id oas) -> msg_ok cd (m_fn m) (m_args m).
  Proof.
    intros Hd. induction oas as [|oa r IH]; intros Ho id m Hm; [destruct Hm|]. cbn [collect_accounts] in Hm.
    cbv zeta in Hm. apply in_app_or in Hm as [Hm|Hm].
    - eapply collect_transfers_ok; [exact Hd| |exact Hm]. intros t Ht. apply Ho; [left; reflexivity|exact Ht].
    - eapply IH; [|exact Hm]. intros oa' t Hoa Ht. apply Ho; [right; exact Hoa|exact Ht].
  Qed.
  Lemma travels_msg_ok fn A : travels fn = true -> msg_ok cd fn A.
  Proof.
    unfold travels. intros H. apply orb_prop in H as [H|H]; [apply orb_prop in H as [H|H]|]; apply beqb_true in H; subst fn.
    - apply msg_ok_esdt_transfer.
    - apply msg_ok_change_owner.
    - apply msg_ok_claim.
  Qed.
  Lemma collect_ok sh fn i id o : (i_dst i = true -> shof (i_rcpt i) = sh) -> out_ok (env_at c sh) i o ->
    forall m, In m (collect c sh fn i id o) -> msg_ok cd (m_fn m) (m_args m).
  Proof.
    intros Hd Ho m Hm. unfold collect in Hm.
    destruct (collect_accounts c sh i id (o_accounts o)) as [|m0 ms] eqn:Ec.
    - destruct ((negb (shof (i_rcpt i) =? sh)%N && negb (shof (i_rcpt i) =? META)%N && (shof (i_caller i) =? sh)%N)
                && travels fn)%bool eqn:Et; [|destruct Hm].
      destruct Hm as [<-|[]]. cbn [m_fn m_args]. apply travels_msg_ok. apply andb_prop in Et as [_ Et]. exact Et.
    - eapply (collect_accounts_ok sh i (o_accounts o) Hd Ho id). rewrite Ec. exact Hm.
  Qed.

  (* ---------------- committing one successful execution ---------------- *)
  Lemma shards_commit w sh s' :
    (forall sh', Inv (env_at c sh') (mk_state (shard_accts w sh'))) -> Inv (env_at c sh) s' ->
    forall sh', Inv (env_at c sh') (mk_state (shard_accts (set_shard w sh (accts s')) sh')).
  Proof.
    intros Hw Hs sh'. destruct (N.eq_dec sh' sh) as [->|Hne].
    - destruct (Nat.lt_ge_cases (N.to_nat sh) (nshards w)) as [Hlt|Hge].
      + rewrite shard_accts_set_shard_eq by exact Hlt. apply Inv_mk_state. exact Hs.
      + unfold shard_accts, set_shard. cbn [shards]. rewrite set_nth_out by exact Hge. apply Hw.
    - rewrite shard_accts_set_shard_ne by exact Hne. apply Hw.
  Qed.

  Lemma exec_commit w sh fn i o s' :
    WInv w -> call_ok w sh fn i ->
    exec (env_at c sh) fn i (mk_state (shard_accts w sh)) = (Ok o, s') ->
    (forall sh', Inv (env_at c sh') (mk_state (shard_accts (set_shard w sh (accts s')) sh')))
    /\ forall id m, In m (collect c sh fn i id o) -> msg_ok cd (m_fn m) (m_args m).
  Proof.
    intros [Hsh Hms] [Hd Hdisc] Hx.
    destruct (Inv_exec_out (env_at c sh) fn i _ o s' Hc Hf (Hsh sh) Hdisc Hx) as [Hi Ho].
    split; [apply shards_commit; assumption|]. intros id m. apply collect_ok; assumption.
  Qed.

  (* an in-flight message consumed by a delivery or a refund is a disciplined call *)
  Lemma msg_call_ok w m (i : input) sh :
    msg_ok cd (m_fn m) (m_args m) -> i_args i = m_args m -> i_dst i = true -> shof (i_rcpt i) = sh ->
    call_ok w sh (m_fn m) i.
  Proof.
    intros (Hnr & Hn & Hm) Ha Hd Hr. split; [intros _; exact Hr|]. split.
    - intros He. contradiction.
    - intros _. rewrite Ha. split; assumption.
  Qed.

  Theorem Inv_step w op : WInv w -> reachable_op w op -> WInv (wstep c w op).
  Proof.
    intros HW Hop. pose proof HW as [Hsh Hms].
    destruct (wstep_cases c w op) as [->|id gas m Hk Hfind ->|sh fn i o s' -> Hlt Hx ->|id gas m o s' consume Hk Hfind sh Hlt Hx ->
                                     |id gas m o s' Hk Hfind Hfl sh Hlt Hx ->].
    - exact HW.
    - split; [exact Hsh|exact Hms].
    - (* a direct call *)
      destruct (exec_commit w sh fn i o s' HW Hop Hx) as [H1 H2]. split; [exact H1|].
      intros m Hm. cbn [inflight with_msgs] in Hm. apply in_app_or in Hm as [Hm|Hm]; [apply Hms; exact Hm|eapply H2; exact Hm].
    - (* delivery / re-delivery *)
      destruct (find_msg_In _ _ _ Hfind) as [Hin _].
      assert (Hcall : call_ok w sh (m_fn m) (deliver_input c m sh gas))
        by (apply msg_call_ok; [apply Hms; exact Hin|reflexivity|reflexivity|reflexivity]).
      destruct (exec_commit w sh (m_fn m) _ o s' HW Hcall Hx) as [H1 H2]. split; [exact H1|].
      intros m' Hm. cbn [inflight with_msgs] in Hm. apply in_app_or in Hm as [Hm|Hm]; [|eapply H2; exact Hm].
      apply Hms. destruct consume; [eapply in_drop_msg; exact Hm|exact Hm].
    - (* refund *)
      destruct (find_msg_In _ _ _ Hfind) as [Hin _].
      assert (Hcall : call_ok w sh (m_fn m) (refund_input c m sh gas))
        by (apply msg_call_ok; [apply Hms; exact Hin|reflexivity|reflexivity|reflexivity]).
      destruct (exec_commit w sh (m_fn m) _ o s' HW Hcall Hx) as [H1 _]. split; [exact H1|].
      intros m' Hm. cbn [inflight with_msgs] in Hm. apply Hms. eapply in_drop_msg; exact Hm.
  Qed.

  Theorem Inv_histories : forall ops w0, WInv w0 -> reachable_ops w0 ops -> WInv (wrun c w0 ops).
  Proof.
    induction ops as [|op ops IH]; intros w0 HW Hops; [exact HW|].
    destruct Hops as [Hop Hr]. rewrite wrun_cons. apply IH; [apply Inv_step; assumption|exact Hr].
  Qed.

  (* ... and therefore after every prefix of the history *)
  Lemma reachable_ops_firstn : forall n ops w0, reachable_ops w0 ops -> reachable_ops w0 (firstn n ops).
  Proof.
    induction n as [|n IH]; intros ops w0 H; [exact I|]. destruct ops as [|op ops]; [exact I|].
    destruct H as [H1 H2]. cbn [firstn reachable_ops]. split; [exact H1|apply IH; exact H2].
  Qed.
  Corollary Inv_every_prefix ops w0 n : WInv w0 -> reachable_ops w0 ops -> WInv (wrun c w0 (firstn n ops)).
  Proof. intros HW Hops. apply Inv_histories; [exact HW|apply reachable_ops_firstn; exact Hops]. Qed.

  (* ---------------- the initial world ---------------- *)
  Definition empty_world (n : nat) : world := {| shards := repeat [] n; inflight := []; failed := []; next_id := 0 |}.
  Lemma shard_accts_empty_world n sh : shard_accts (empty_world n) sh = [].
  Proof.
    unfold shard_accts, empty_world. cbn [shards]. generalize (N.to_nat sh). clear sh.
    induction n as [|n IH]; intros [|k]; cbn; auto.
  Qed.
  Theorem WInv_empty n : WInv (empty_world n).
  Proof. split; [intros sh; rewrite shard_accts_empty_world; apply Inv_empty|intros m []]. Qed.

  (* ---------------- which direct calls are [call_ok] ---------------- *)
  (* a transaction of an account that lives on the executing shard: only the role discipline remains *)
  Lemma origin_call_ok w sh fn i :
    origin_call c sh i -> roles_disciplined (env_at c sh) (mk_state (shard_accts w sh)) fn i -> call_ok w sh fn i.
  Proof.
    intros [Hcl [Hs Hd]] Hr. split.
    - intros H. rewrite H in Hd. symmetry in Hd. apply N.eqb_eq in Hd. exact Hd.
    - split; [exact Hr|]. apply origin_payload_disciplined. rewrite Hs, Hcl. apply N.eqb_refl.
  Qed.
  (* any call, e.g. one issued by the system contract, of a function other than the two NFT transfers *)
  Lemma plain_call_ok w sh fn i :
    presence_ok c sh i -> fn <> C.BuiltInFunctionESDTNFTTransfer -> fn <> C.BuiltInFunctionMultiESDTNFTTransfer ->
    roles_disciplined (env_at c sh) (mk_state (shard_accts w sh)) fn i -> call_ok w sh fn i.
  Proof.
    intros [_ Hd] H1 H2 Hr. split.
    - intros H. rewrite H in Hd. symmetry in Hd. apply N.eqb_eq in Hd. exact Hd.
    - split; [exact Hr|]. intros _. split; intros; contradiction.
  Qed.
End World.

Print Assumptions Inv_step.
Print Assumptions Inv_histories.
