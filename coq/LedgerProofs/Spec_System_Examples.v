(* Non-vacuity of the specifications of LedgerProofs/Spec_System.v: concrete environments, inputs and
   states on which each function succeeds, evaluated by vm_compute.
   Two environments that differ only in the codec:
     E0 : the concrete protobuf codec of Corr/Exec.v ([the_codec]; it is NOT [codec_ok] without a size
          bound, see Codec/CodecOk.v: proto_codec_not_ok)
     EI : [ideal_codec] (same encoder, same decoder on every byte string of Go length), which satisfies
          [codec_ok] ([ideal_codec_ok]) -- so the section hypothesis of Spec_System is satisfiable and
          every spec can be instantiated ([inst_*] below).
   Each example states the result for E0 and EI at once. *)
From Coq.Strings Require Import String.
From EV Require Import Base.Bytes Base.Store Base.Monad gen.Consts Codec.Types Codec.Proto Codec.Ideal Codec.CodecOk
  Helpers.Helpers Ledger.Types Ledger.Env Ledger.Funcs Ledger.Transfers Corr.Exec
  LedgerProofs.Defs LedgerProofs.EnvSpec LedgerProofs.Spec_System.

Definition alice : bytes := repeat x01 32.
Definition bob : bytes := repeat x02 32.     (* lives on shard 1 *)
Definition carol : bytes := repeat x03 32.
Definition dnsA : bytes := repeat x04 32.
Definition tokA : bytes := str "TOK-a1b2c3"%string.

Definition cfg0 : xcfg :=
  {| xc_shards := [(bob, 1%N)]; xc_shard_default := 0%N; xc_pay := []; xc_pay_default := 0%N;
     xc_dns := [dnsA]; xc_enable := false; xc_gas := repeat 10%N 22 |}.
Definition E0 : env := env_of cfg0 0%N None.
Definition EI : env :=
  {| plan := plan E0; cdc := ideal_codec; shard_of := shard_of E0; self_shard := self_shard E0;
     payable := payable E0; dns := dns E0; enable_change := enable_change E0; gas := gas E0 |}.
Lemma EI_ok : codec_ok (cdc EI). Proof. exact ideal_codec_ok. Qed.
Lemma EI_nf : no_faults EI. Proof. intros n. reflexivity. Qed.

Definition tk (v : Z) (props : bytes) : token :=
  {| t_type := C.Fungible; t_value := Some v; t_props := props; t_meta := None; t_reserved := [] |}.
Definition mkacct (st : list (bytes * bytes)) : acctl :=
  {| al_store := st; al_balance := 100; al_owner := carol; al_username := []; al_reward := 7 |}.
Definition mkin (caller rcpt : bytes) (args : list bytes) (snd dst : bool) : input :=
  {| i_caller := caller; i_rcpt := rcpt; i_args := args; i_value := 0; i_gas := 1000; i_gasLocked := 0;
     i_callType := C.DirectCall; i_rae := false; i_snd := snd; i_dst := dst |}.

(* a state: alice holds 5 TOK (not frozen), a role list [LocalMint; NFTCreate], counter 9; SYS empty *)
Definition s0 : mstate :=
  state_of [(alice, mkacct [(P ++ tokA, enc_token (tk 5 []));
                            (RP ++ tokA, enc_roles [C.ESDTRoleLocalMint; C.ESDTRoleNFTCreate]);
                            (NP ++ tokA, u64_bytes 9)]);
            (carol, mkacct [])].
(* alice's entry frozen with value 0 *)
Definition s_frozen0 : mstate := state_of [(alice, mkacct [(P ++ tokA, enc_token (tk 0 (flag_bytes true)))])].
Definition s_frozen5 : mstate := state_of [(alice, mkacct [(P ++ tokA, enc_token (tk 5 (flag_bytes true)))])].

Definition ok_both {A} (m0 mI : MT A) (s : mstate) (chk : A -> mstate -> bool) : bool :=
  match m0 s, mI s with
  | (Ok a, s1), (Ok b, s2) => chk a s1 && chk b s2
  | _, _ => false
  end.
Lemma ok_both_I {A} (m0 mI : MT A) s chk : ok_both m0 mI s chk = true -> exists o s', mI s = (Ok o, s') /\ chk o s' = true.
Proof.
  unfold ok_both. destruct (m0 s) as [[a|e|] s1]; try discriminate. destruct (mI s) as [[b|e|] s2]; try discriminate.
  intros H. apply andb_prop in H as [_ H]. eauto.
Qed.

(* ---------------- pause / unpause ---------------- *)
Definition in_pause := mkin SC SYS [tokA] false false.
Example ex_pause :
  ok_both (f_pause E0 true in_pause) (f_pause EI true in_pause) s0
    (fun o s' => paused_val (cell s' SYS (P ++ tokA)) && (o_rc o =? C.Ok)%N && Nat.eqb (calls s') 3) = true.
Proof. vm_compute. reflexivity. Qed.
Example inst_pause : exists o s', f_pause EI true in_pause s0 = (Ok o, s') /\ paused_at s' (P ++ tokA) = true
                                  /\ forall a k, ~ (a = SYS /\ k = P ++ tokA) -> balance EI s' a k = balance EI s0 a k.
Proof.
  destruct (ok_both_I _ _ _ _ ex_pause) as (o & s' & H & _). exists o, s'. split; [exact H|].
  pose proof (pause_spec EI _ _ _ _ _ H) as (_ & tok & Ha & _ & _ & Hp & _ & Hu & _).
  inversion Ha; subst tok. split; [exact Hp|]. intros a k Hn. apply (ue_balance EI _ _ _ _ Hu). exact Hn.
Qed.
Example ex_unpause :
  ok_both (f_pause E0 false in_pause) (f_pause EI false in_pause) s0
    (fun o s' => negb (paused_val (cell s' SYS (P ++ tokA))) && beqb (cell s' SYS (P ++ tokA)) (flag_bytes false)) = true.
Proof. vm_compute. reflexivity. Qed.
(* guards are real: a caller other than the system contract is refused *)
Example ex_pause_not_sc : fst (f_pause E0 true (mkin alice SYS [tokA] true false) s0) = Err EAddressIsNotESDTSystemSC.
Proof. vm_compute. reflexivity. Qed.

(* ---------------- freeze / unfreeze / wipe ---------------- *)
Definition in_fr := mkin SC alice [tokA] false true.
Definition bal (E : env) (s : mstate) (a k : bytes) : Z := balance E s a k.
Example ex_freeze :
  ok_both (f_freeze_wipe E0 true false in_fr) (f_freeze_wipe EI true false in_fr) s0
    (fun o s' => frozen_at E0 s' alice (P ++ tokA) && (balance E0 s' alice (P ++ tokA) =? 5)%Z
                 && frozen_at EI s' alice (P ++ tokA) && (balance EI s' alice (P ++ tokA) =? 5)%Z) = true.
Proof. vm_compute. reflexivity. Qed.
Example inst_freeze : exists o s', f_freeze_wipe EI true false in_fr s0 = (Ok o, s')
    /\ frozen_at EI s' alice (P ++ tokA) = true /\ balance EI s' alice (P ++ tokA) = balance EI s0 alice (P ++ tokA).
Proof.
  destruct (ok_both_I _ _ _ _ ex_freeze) as (o & s' & H & _). exists o, s'. split; [exact H|].
  pose proof (freeze_spec EI EI_ok _ _ _ _ _ H) as (_ & tok & t & Ha & _ & _ & _ & _ & _ & Hb & Hf & _).
  inversion Ha; subst tok. auto.
Qed.
(* freezing an absent entry creates a frozen entry of value 0 *)
Example ex_freeze_absent :
  ok_both (f_freeze_wipe E0 true false (mkin SC carol [tokA] false true))
          (f_freeze_wipe EI true false (mkin SC carol [tokA] false true)) s0
    (fun o s' => frozen_at E0 s' carol (P ++ tokA) && (balance E0 s' carol (P ++ tokA) =? 0)%Z
                 && negb (beqb (cell s' carol (P ++ tokA)) [])) = true.
Proof. vm_compute. reflexivity. Qed.
(* unfreezing a zero-value entry deletes it; unfreezing a non-zero entry keeps the value *)
Example ex_unfreeze_zero :
  ok_both (f_freeze_wipe E0 false false in_fr) (f_freeze_wipe EI false false in_fr) s_frozen0
    (fun o s' => beqb (cell s' alice (P ++ tokA)) []) = true.
Proof. vm_compute. reflexivity. Qed.
Example ex_unfreeze_five :
  ok_both (f_freeze_wipe E0 false false in_fr) (f_freeze_wipe EI false false in_fr) s_frozen5
    (fun o s' => negb (frozen_at E0 s' alice (P ++ tokA)) && (balance E0 s' alice (P ++ tokA) =? 5)%Z) = true.
Proof. vm_compute. reflexivity. Qed.
Example ex_wipe :
  ok_both (f_freeze_wipe E0 false true in_fr) (f_freeze_wipe EI false true in_fr) s_frozen5
    (fun o s' => beqb (cell s' alice (P ++ tokA)) [] && (balance E0 s' alice (P ++ tokA) =? 0)%Z
                 && Nat.eqb (length (o_logs o)) 1) = true.
Proof. vm_compute. reflexivity. Qed.
Example inst_wipe : exists o s', f_freeze_wipe EI false true in_fr s_frozen5 = (Ok o, s')
    /\ frozen_at EI s_frozen5 alice (P ++ tokA) = true /\ balance EI s' alice (P ++ tokA) = 0%Z.
Proof.
  destruct (ok_both_I _ _ _ _ ex_wipe) as (o & s' & H & _). exists o, s'. split; [exact H|].
  pose proof (wipe_spec EI EI_ok _ _ _ _ _ H) as (_ & tok & t & Ha & _ & _ & _ & Hf & _ & _ & Hb & _).
  inversion Ha; subst tok. auto.
Qed.
(* wiping an entry that is not frozen is refused *)
Example ex_wipe_not_frozen : fst (f_freeze_wipe E0 false true in_fr s0) = Err ECannotWipeAccountNotFrozen.
Proof. vm_compute. reflexivity. Qed.

(* ---------------- roles ---------------- *)
Definition in_roles := mkin SC alice [tokA; C.ESDTRoleLocalBurn; C.ESDTRoleNFTBurn] false true.
Example ex_set_roles :
  ok_both (f_roles E0 true in_roles) (f_roles EI true in_roles) s0
    (fun o s' => list_eqb beqb (roles_at E0 s' alice tokA)
                   [C.ESDTRoleLocalMint; C.ESDTRoleNFTCreate; C.ESDTRoleLocalBurn; C.ESDTRoleNFTBurn]) = true.
Proof. vm_compute. reflexivity. Qed.
Example ex_unset_roles :
  ok_both (f_roles E0 false (mkin SC alice [tokA; C.ESDTRoleLocalMint; C.ESDTRoleNFTBurn] false true))
          (f_roles EI false (mkin SC alice [tokA; C.ESDTRoleLocalMint; C.ESDTRoleNFTBurn] false true)) s0
    (fun o s' => list_eqb beqb (roles_at E0 s' alice tokA) [C.ESDTRoleNFTCreate]) = true.
Proof. vm_compute. reflexivity. Qed.
Example inst_roles : exists o s', f_roles EI true in_roles s0 = (Ok o, s')
    /\ roles_at EI s' alice tokA = roles_at EI s0 alice tokA ++ [C.ESDTRoleLocalBurn; C.ESDTRoleNFTBurn].
Proof.
  destruct (ok_both_I _ _ _ _ ex_set_roles) as (o & s' & H & _). exists o, s'. split; [exact H|].
  pose proof (roles_spec EI EI_ok _ _ _ _ _ H) as (_ & tok & rs & Ha & _ & _ & Hr & _).
  inversion Ha; subst tok rs. exact Hr.
Qed.

(* ---------------- create-role transfer ---------------- *)
(* same shard: alice -> carol *)
Definition in_rt_same := mkin SC alice [tokA; carol] false true.
Example ex_role_transfer_same :
  ok_both (f_create_role_transfer E0 in_rt_same) (f_create_role_transfer EI in_rt_same) s0
    (fun o s' => (counter_at s' alice tokA =? 0)%N && (counter_at s' carol tokA =? 9)%N
                 && list_eqb beqb (roles_at E0 s' alice tokA) [C.ESDTRoleLocalMint]
                 && list_eqb beqb (roles_at E0 s' carol tokA) [C.ESDTRoleNFTCreate]
                 && Nat.eqb (length (o_accounts o)) 1) = true.
Proof. vm_compute. reflexivity. Qed.
(* cross shard: alice -> bob (shard 1): only alice changes; the counter 9 travels in the message *)
Definition in_rt_cross := mkin SC alice [tokA; bob] false true.
Example ex_role_transfer_cross :
  ok_both (f_create_role_transfer E0 in_rt_cross) (f_create_role_transfer EI in_rt_cross) s0
    (fun o s' => (counter_at s' alice tokA =? 0)%N && beqb (cell s' bob (NP ++ tokA)) []
                 && list_eqb beqb (roles_at E0 s' alice tokA) [C.ESDTRoleLocalMint]
                 && list_eqb outacct_eqb (o_accounts o)
                      [{| oc_addr := bob; oc_delta := 0; oc_transfers := [handover_msg SC tokA 9] |}]) = true.
Proof. vm_compute. reflexivity. Qed.
Example inst_role_transfer_cross : exists o s', f_create_role_transfer EI in_rt_cross s0 = (Ok o, s')
    /\ counter_at s' alice tokA = 0%N /\ ~ In C.ESDTRoleNFTCreate (roles_at EI s' alice tokA).
Proof.
  destruct (ok_both_I _ _ _ _ ex_role_transfer_cross) as (o & s' & H & _). exists o, s'. split; [exact H|].
  pose proof (role_transfer_owner_spec EI EI_ok _ _ _ _ H eq_refl) as (_ & tok & no & Ha & _ & _ & _ & Hsh & _).
  inversion Ha; subst tok no. change (shard_of EI bob =? self_shard EI)%N with false in Hsh.
  destruct Hsh as (Hc & Hr & _). split; [exact Hc|].
  change (roles_at EI s' alice tokA = del_create (roles_at EI s0 alice tokA)) in Hr. rewrite Hr. apply del_create_removed.
  vm_compute. repeat constructor; simpl; intuition discriminate.
Qed.
(* the delivered hand-over at bob's shard (here: carol plays the next owner; the caller is alice) *)
Definition in_rt_deliv := mkin alice carol [tokA; u64_bytes 9] false true.
Example ex_role_transfer_delivered :
  ok_both (f_create_role_transfer E0 in_rt_deliv) (f_create_role_transfer EI in_rt_deliv) s0
    (fun o s' => (counter_at s' carol tokA =? 9)%N
                 && list_eqb beqb (roles_at E0 s' carol tokA) [C.ESDTRoleNFTCreate]) = true.
Proof. vm_compute. reflexivity. Qed.
Example inst_role_transfer_delivered : exists o s', f_create_role_transfer EI in_rt_deliv s0 = (Ok o, s')
    /\ counter_at s' carol tokA = 9%N /\ In C.ESDTRoleNFTCreate (roles_at EI s' carol tokA).
Proof.
  destruct (ok_both_I _ _ _ _ ex_role_transfer_delivered) as (o & s' & H & _). exists o, s'. split; [exact H|].
  assert (Hne : i_caller in_rt_deliv <> SC) by (intros Hx; vm_compute in Hx; discriminate).
  pose proof (role_transfer_delivered_spec EI EI_ok _ _ _ _ H Hne) as (_ & tok & a1 & Ha & _ & _ & Hc & Hr & _).
  inversion Ha; subst tok a1. split; [exact Hc|].
  change (roles_at EI s' carol tokA = add_create (roles_at EI s0 carol tokA)) in Hr. rewrite Hr. apply In_add_create.
Qed.
(* a sender account on this shard is refused in both branches *)
Example ex_role_transfer_snd : fst (f_create_role_transfer E0 (mkin SC alice [tokA; carol] true true) s0) = Err EInvalidArguments.
Proof. vm_compute. reflexivity. Qed.

(* ---------------- change owner ---------------- *)
(* carol owns alice's account (mkacct) *)
Definition in_co := mkin carol alice [bob] true true.
Example ex_change_owner :
  ok_both (f_change_owner E0 in_co) (f_change_owner EI in_co) s0
    (fun o s' => beqb (a_owner (acct s' alice)) bob && (o_gasRemaining o =? 990)%N
                 && beqb (cell s' alice (P ++ tokA)) (cell s0 alice (P ++ tokA))) = true.
Proof. vm_compute. reflexivity. Qed.
Example ex_change_owner_not_owner : fst (f_change_owner E0 (mkin bob alice [bob] true true) s0) = Err EOperationNotPermitted.
Proof. vm_compute. reflexivity. Qed.
Example inst_change_owner : exists o s', f_change_owner EI in_co s0 = (Ok o, s')
    /\ acct s' alice = with_owner (acct s0 alice) bob.
Proof.
  destruct (ok_both_I _ _ _ _ ex_change_owner) as (o & s' & H & _). exists o, s'. split; [exact H|].
  pose proof (change_owner_spec EI _ _ _ _ H) as (_ & a0 & rest & Ha & _ & _ & _ & _ & Hd & _).
  inversion Ha; subst a0 rest. apply (Hd eq_refl).
Qed.

(* ---------------- claim developer rewards ---------------- *)
Definition in_claim := mkin carol alice [] true true.
Example ex_claim :
  ok_both (f_claim_rewards E0 in_claim) (f_claim_rewards EI in_claim) s0
    (fun o s' => (a_devreward (acct s' alice) =? 0)%Z && (a_balance (acct s' carol) =? 107)%Z
                 && (a_balance (acct s' alice) =? 100)%Z
                 && list_eqb outacct_eqb (o_accounts o) (o_accounts (claim_out E0 in_claim 7))) = true.
Proof. vm_compute. reflexivity. Qed.
Example inst_claim : exists o s', f_claim_rewards EI in_claim s0 = (Ok o, s')
    /\ a_devreward (acct s' alice) = 0%Z /\ a_balance (acct s' carol) = (a_balance (acct s0 carol) + 7)%Z.
Proof.
  destruct (ok_both_I _ _ _ _ ex_claim) as (o & s' & H & _). exists o, s'. split; [exact H|].
  pose proof (claim_rewards_spec EI _ _ _ _ H) as (_ & _ & Hd & _).
  destruct (Hd eq_refl) as (_ & _ & _ & _ & Hr & Hb & _). split; [exact Hr|exact Hb].
Qed.

(* ---------------- set user name ---------------- *)
Definition in_un_dst := mkin dnsA alice [str "alice.elrond"%string] false true.
Definition in_un_org := mkin dnsA bob [str "bob.elrond"%string] true false.
Example ex_set_user_name_dst :
  ok_both (f_set_user_name E0 in_un_dst) (f_set_user_name EI in_un_dst) s0
    (fun o s' => beqb (a_username (acct s' alice)) (str "alice.elrond"%string) && (o_gasRemaining o =? 990)%N) = true.
Proof. vm_compute. reflexivity. Qed.
Example ex_set_user_name_org :
  ok_both (f_set_user_name E0 in_un_org) (f_set_user_name EI in_un_org) s0
    (fun o s' => list_eqb outacct_eqb (o_accounts o)
                   [{| oc_addr := bob; oc_delta := 0; oc_transfers := [username_msg in_un_org (str "bob.elrond"%string)] |}]
                 && beqb (a_username (acct s' bob)) []) = true.
Proof. vm_compute. reflexivity. Qed.
Example ex_set_user_name_not_dns : fst (f_set_user_name E0 (mkin carol alice [str "x"%string] false true) s0) = Err ECallerIsNotTheDNSAddress.
Proof. vm_compute. reflexivity. Qed.
Example inst_set_user_name : exists o s', f_set_user_name EI in_un_dst s0 = (Ok o, s')
    /\ acct s' alice = with_username (acct s0 alice) (str "alice.elrond"%string).
Proof.
  destruct (ok_both_I _ _ _ _ ex_set_user_name_dst) as (o & s' & H & _). exists o, s'. split; [exact H|].
  pose proof (set_user_name_spec EI _ _ _ _ H) as (_ & a0 & Ha & _ & Hd & _).
  inversion Ha; subst a0. apply (Hd eq_refl).
Qed.

(* ---------------- save key value ---------------- *)
Definition k1 : bytes := str "k1"%string.
Definition k2 : bytes := str "k2"%string.
(* k1 is written twice: the later pair wins *)
Definition in_skv := mkin alice alice [k1; str "v1"%string; k2; str "v2"%string; k1; str "v3"%string] true true.
Example ex_save_key_value :
  ok_both (f_save_key_value E0 in_skv) (f_save_key_value EI in_skv) s0
    (fun o s' => beqb (cell s' alice k1) (str "v3"%string) && beqb (cell s' alice k2) (str "v2"%string)
                 && beqb (cell s' alice (P ++ tokA)) (cell s0 alice (P ++ tokA))
                 && (o_gasRemaining o =? 1000 - skv_use E0 (a_store (acct s0 alice)) (i_args in_skv) 10)%N) = true.
Proof. vm_compute. reflexivity. Qed.
Example ex_last_val : last_val (pairs_of (i_args in_skv)) k1 = Some (str "v3"%string)
                      /\ last_val (pairs_of (i_args in_skv)) (P ++ tokA) = None.
Proof. vm_compute. split; reflexivity. Qed.
(* a key with the protected prefix is refused, wherever it occurs in the list *)
Example ex_save_key_value_protected :
  fst (f_save_key_value E0 (mkin alice alice [k1; str "v1"%string; P ++ tokA; enc_token (tk 1000000 [])] true true) s0)
  = Err EOperationNotPermitted.
Proof. vm_compute. reflexivity. Qed.
Example ex_save_key_value_odd :
  fst (f_save_key_value E0 (mkin alice alice [k1; str "v1"%string; k2] true true) s0) = Err EInvalidArguments.
Proof. vm_compute. reflexivity. Qed.
Example inst_save_key_value : exists o s', f_save_key_value EI in_skv s0 = (Ok o, s')
    /\ cell s' alice k1 = str "v3"%string
    /\ forall a x, balance EI s' a (P ++ x) = balance EI s0 a (P ++ x).
Proof.
  destruct (ok_both_I _ _ _ _ ex_save_key_value) as (o & s' & H & _). exists o, s'. split; [exact H|].
  pose proof (savekv_writes_exactly EI _ _ _ _ H) as (Hcell & _).
  split; [exact (Hcell k1)|].
  intros a x. apply (system_balance_effect_save_key_value EI _ _ _ _ H). apply P_protected.
Qed.

Print Assumptions inst_pause.
Print Assumptions inst_freeze.
Print Assumptions inst_wipe.
Print Assumptions inst_roles.
Print Assumptions inst_role_transfer_cross.
Print Assumptions inst_role_transfer_delivered.
Print Assumptions inst_change_owner.
Print Assumptions inst_claim.
Print Assumptions inst_set_user_name.
Print Assumptions inst_save_key_value.
