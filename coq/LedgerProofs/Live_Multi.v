(* C01, liveness half for MultiESDTNFTTransfer.
     triple_ready             what ONE triple of a delivered message needs from the state it is processed in:
                              recipient payable (when checked) and
                                NFT triple (nonce > 0): payload decodes with a value; the entry under the cell it will be
                                  written to is absent or decodes with a value and (if it has metadata) the same hash;
                                  unless return-after-error / recipient = SC: that entry and the incoming properties not
                                  frozen, token key and full key not paused
                                fungible triple (nonce = 0): entry absent or fungible with a value; unless rae / SC: not
                                  frozen, not paused; balance + quantity non-negative
     dest_ready               the recursive predicate over the triple list: triple k is ready in EVERY state that the
                              one-step post-condition (Spec_Transfers_Multi.one_dst_post) allows after triples < k
     dest_ready_distinct      for pairwise distinct written cells (and recipient <> SYS when flags matter), readiness of
                              every triple in the PRE-state suffices
     multi_dest_succeeds      guards (C10_Accept.multi_dest_guards) + count <= 2^40 + dest_ready  =>  the destination side
                              returns Ok (multi_dest_out i)
     emitted_multi_wf         the message emitted by an accepted cross-shard sender side satisfies the static part
     deliver_accepted_multi, refund_succeeds_multi, rejected_then_refund_multi   world level, as for the single NFT. *)
From Coq.Strings Require Import String.
From EV Require Import Base.Bytes Base.Store Base.Monad gen.Consts Codec.Types Helpers.Helpers
  Ledger.Types Ledger.Env Ledger.Funcs Ledger.Transfers Ledger.World
  LedgerProofs.Defs LedgerProofs.EnvSpec LedgerProofs.WorldDefs LedgerProofs.WorldSpec
  LedgerProofs.Spec_Transfers_Base LedgerProofs.Spec_Transfers_Esdt LedgerProofs.Spec_Transfers_Nft
  LedgerProofs.Spec_Transfers_Multi LedgerProofs.Spec_Transfers
  LedgerProofs.C01_World LedgerProofs.C01_Step LedgerProofs.C01_Exact LedgerProofs.C01_Live
  LedgerProofs.C10_Emit LedgerProofs.C10_Parser LedgerProofs.C10_Accept LedgerProofs.Live_World LedgerProofs.Live_Nft.

Section LiveMulti.
  Variable E : env.
  Hypothesis Hc : codec_ok (cdc E).
  Hypothesis Hnf : no_faults E.

  Definition triple_ready (rcpt : bytes) (verify rae : bool) (x : rawtriple) (s : mstate) : Prop :=
    (verify = true -> payable E rcpt = PayYes)
    /\ if (0 <? rt_nonce x)%N then
         exists t, dec_tok (cdc E) (rt_third x) = Some t /\ t_value t <> None
           /\ nft_entry_ok E s rcpt (nft_key (P ++ rt_tok x) (tok_nonce t)) t
           /\ (rae = false -> rcpt <> SC -> nft_flags_ok E s rcpt (P ++ rt_tok x) t)
       else
         fungible_or_absent E s rcpt (P ++ rt_tok x)
         /\ (rae = false -> rcpt <> SC -> frozen_at E s rcpt (P ++ rt_tok x) = false /\ paused_at s (P ++ rt_tok x) = false)
         /\ (0 <= balance E s rcpt (P ++ rt_tok x) + rt_qty x)%Z.

  Fixpoint dest_ready (rcpt : bytes) (verify rae : bool) (trs : list rawtriple) (s : mstate) : Prop :=
    match trs with
    | [] => True
    | x :: r => triple_ready rcpt verify rae x s
                /\ forall s0 s1, accts s0 = accts s -> one_dst_post E rcpt verify rae x s0 s1 -> dest_ready rcpt verify rae r s1
    end.

  (* introduction forms (for concrete triples) *)
  Lemma triple_ready_nft rcpt verify rae x s t :
    (verify = true -> payable E rcpt = PayYes) -> (0 <? rt_nonce x)%N = true ->
    dec_tok (cdc E) (rt_third x) = Some t -> t_value t <> None ->
    nft_entry_ok E s rcpt (nft_key (P ++ rt_tok x) (tok_nonce t)) t ->
    (rae = false -> rcpt <> SC -> nft_flags_ok E s rcpt (P ++ rt_tok x) t) ->
    triple_ready rcpt verify rae x s.
  Proof. intros Hp Hn Hd Hv He Hf. split; [exact Hp|]. rewrite Hn. exists t. auto. Qed.
  Lemma triple_ready_fungible rcpt verify rae x s :
    (verify = true -> payable E rcpt = PayYes) -> (0 <? rt_nonce x)%N = false ->
    fungible_or_absent E s rcpt (P ++ rt_tok x) ->
    (rae = false -> rcpt <> SC -> frozen_at E s rcpt (P ++ rt_tok x) = false /\ paused_at s (P ++ rt_tok x) = false) ->
    (0 <= balance E s rcpt (P ++ rt_tok x) + rt_qty x)%Z ->
    triple_ready rcpt verify rae x s.
  Proof. intros Hp Hn He Hf Hb. split; [exact Hp|]. rewrite Hn. auto. Qed.

  Lemma fungible_or_absent_accts s s' a k : accts s' = accts s -> fungible_or_absent E s a k -> fungible_or_absent E s' a k.
  Proof.
    intros Ha [H|(t & H1 & H2)]; [left|right; exists t].
    - rewrite (cell_accts _ _ _ _ Ha). exact H.
    - rewrite (tok_at_accts E _ _ _ _ Ha). auto.
  Qed.
  Lemma triple_ready_accts rcpt verify rae x s s' : accts s' = accts s ->
    triple_ready rcpt verify rae x s -> triple_ready rcpt verify rae x s'.
  Proof.
    intros Ha [Hp H]. split; [exact Hp|]. destruct (0 <? rt_nonce x)%N.
    - destruct H as (t & H1 & H2 & H3 & H4). exists t. split; [exact H1|]. split; [exact H2|].
      split; [apply (nft_entry_ok_accts E s s' _ _ _ Ha); exact H3|].
      intros h1 h2. apply (nft_flags_ok_accts E s s' _ _ _ Ha). exact (H4 h1 h2).
    - destruct H as (H1 & H2 & H3). split; [apply (fungible_or_absent_accts s s' _ _ Ha); exact H1|].
      rewrite (frozen_at_accts E _ _ _ _ Ha), (paused_at_accts _ _ _ Ha), (balance_accts E _ _ _ _ Ha). auto.
  Qed.
  Lemma dest_ready_accts rcpt verify rae trs s s' : accts s' = accts s ->
    dest_ready rcpt verify rae trs s -> dest_ready rcpt verify rae trs s'.
  Proof.
    destruct trs as [|x r]; [auto|]. intros Ha [H1 H2]. split; [apply (triple_ready_accts _ _ _ _ s s' Ha); exact H1|].
    intros s0 s1 H0. apply H2. congruence.
  Qed.

  (* ---- one step of the destination loop ---- *)
  Lemma dest_step_succeeds i minArgs tok a1 start s :
    (start + 2 < alen (i_args i))%N ->
    triple_ready (i_rcpt i) (must_verify_payable i minArgs) (i_rae i) (tok, a1, argn i (N.to_nat (start + 2))) s ->
    exists s1,
      (if (0 <? bigU64 a1)%N then
         payload <- arg (i_args i) (start + 2) ;;
         t <- unmarshal_tok E payload ;;
         _ <- add_nft_to_destination E (i_rcpt i) (P ++ tok) t (must_verify_payable i minArgs) (i_rae i) ;; ret tt
       else
         check_payable E (must_verify_payable i minArgs) (i_rcpt i) ;;;
         a2 <- arg (i_args i) (start + 2) ;;
         add_to_esdt_balance E (i_rcpt i) (P ++ tok) (bigZ a2) (i_rae i)) s = (Ok tt, s1).
  Proof.
    intros Hlt [Hpay H]. unfold rt_nonce, rt_third, rt_tok, rt_qty in H. cbn [fst snd] in H.
    destruct (0 <? bigU64 a1)%N.
    - destruct H as (t & Hdec & Hv & Hent & Hfl).
      rewrite (bind_eq _ _ _ _ _ (arg_argn i (start + 2) s Hlt)).
      destruct (unmarshal_tok_succeeds E _ t s (Hnf _) Hdec) as (s1 & H1).
      rewrite (bind_eq _ _ _ _ _ H1). apply unmarshal_tok_ok in H1 as [_ Hrd]. pose proof (rd_accts E _ _ Hrd) as Ha.
      destruct (t_value t) as [v|] eqn:Ev; [|congruence].
      destruct (antd_succeeds_obs E Hc Hnf (i_rcpt i) (P ++ tok) t (must_verify_payable i minArgs) (i_rae i) s1 v Hpay Ev) as (t' & s2 & H2).
      + apply (nft_entry_ok_accts E s s1 _ _ _ Ha). exact Hent.
      + intros h1 h2. apply (nft_flags_ok_accts E s s1 _ _ _ Ha). exact (Hfl h1 h2).
      + rewrite (bind_eq _ _ _ _ _ H2). eexists. reflexivity.
    - destruct H as (Hent & Hfl & Hbal).
      destruct (check_payable_succeeds E (must_verify_payable i minArgs) (i_rcpt i) s (Hnf _) Hpay) as (s1 & H1).
      rewrite (bind_eq _ _ _ _ _ H1). apply check_payable_ok in H1 as [Hrd _]. pose proof (rd_accts E _ _ Hrd) as Ha.
      rewrite (bind_eq _ _ _ _ _ (arg_argn i (start + 2) s1 Hlt)).
      apply (add_to_esdt_balance_succeeds' E Hc); [exact Hnf| | |].
      + apply (fungible_or_absent_accts s s1 _ _ Ha). exact Hent.
      + rewrite (frozen_at_accts E _ _ _ _ Ha), (paused_at_accts _ _ _ Ha). exact Hfl.
      + rewrite (balance_accts E _ _ _ _ Ha). exact Hbal.
  Qed.

  (* ---- the loop ---- *)
  Lemma multi_dest_loop_succeeds fuel : forall i minArgs idx logs s,
    (1 + (idx + N.of_nat fuel) * 3 <= alen (i_args i))%N ->
    dest_ready (i_rcpt i) (must_verify_payable i minArgs) (i_rae i) (multi_triples fuel i 1 idx) s ->
    exists lgs s', multi_dest_loop E fuel i minArgs idx logs s = (Ok lgs, s').
  Proof.
    induction fuel as [|f IH]; intros i minArgs idx logs s Hlen Hr.
    - eexists. eexists. reflexivity.
    - cbn [multi_triples dest_ready] in Hr. destruct Hr as [Hx Hrest].
      cbn [multi_dest_loop]. cbv zeta. change apt with 3%N.
      rewrite (bind_eq _ _ _ _ _ (arg_argn i (1 + idx * 3) s ltac:(lia))).
      rewrite (bind_eq _ _ _ _ _ (arg_argn i (1 + idx * 3 + 1) s ltac:(lia))).
      destruct (dest_step_succeeds i minArgs (argn i (N.to_nat (1 + idx * 3))) (argn i (N.to_nat (1 + idx * 3 + 1))) (1 + idx * 3) s
                  ltac:(lia) Hx) as (s1 & H1).
      rewrite (bind_eq _ _ _ _ _ H1).
      assert (Hth : nth_error (i_args i) (N.to_nat (1 + idx * 3 + 2)) = Some (argn i (N.to_nat (1 + idx * 3 + 2)))).
      { apply argn_nth_error. lia. }
      pose proof (dest_step_spec E Hc i minArgs _ _ _ (i_args i) (1 + idx * 3) s tt s1 Hth H1) as Hpost.
      apply IH; [lia|]. apply (Hrest s s1 eq_refl Hpost).
  Qed.

  (* ---- the function ---- *)
  Theorem multi_dest_succeeds i s :
    multi_dest_guards E i -> (multi_n_dst i <= 1099511627776)%N ->
    dest_ready (i_rcpt i) (must_verify_payable i (multi_min 1 (multi_n_dst i))) (i_rae i) (multi_dst_triples i) s ->
    exists s', f_multi_transfer E i s = (Ok (multi_dest_out i), s').
  Proof.
    intros Hg Hn Hr.
    assert (exists o s', f_multi_transfer E i s = (Ok o, s')) as (o & s' & H).
    { rewrite (multi_dest_guards_pass E i Hg s).
      destruct Hg as (_ & _ & Hpos & _ & Hmin & Hlen & _).
      destruct (alloc_succeeds (multi_n_dst i) s Hn) as (s0 & H0). rewrite (bind_eq _ _ _ _ _ H0).
      apply alloc_ok in H0 as (_ & Ha & _).
      destruct (multi_dest_loop_succeeds (N.to_nat (multi_n_dst i)) i (multi_min 1 (multi_n_dst i)) 0 [] s0) as (lgs & s1 & H1).
      - rewrite N2Nat.id. lia.
      - apply (dest_ready_accts _ _ _ _ s s0 Ha). exact Hr.
      - rewrite (bind_eq _ _ _ _ _ H1). unfold multi_dest_finish. cbv zeta.
        destruct ((multi_min 1 (multi_n_dst i) <? alen (i_args i))%N && is_sc (i_rcpt i))%bool eqn:Ea; [|eexists; eexists; reflexivity].
        apply andb_prop in Ea as [Ea _]. apply N.ltb_lt in Ea.
        rewrite (bind_eq _ _ _ _ _ (arg_argn i _ s1 Ea)).
        destruct (multi_min 1 (multi_n_dst i) + 1 <? alen (i_args i))%N eqn:E5.
        + rewrite (bind_eq _ _ _ _ _ (args_from_succeeds (i_args i) (multi_min 1 (multi_n_dst i) + 1) s1 ltac:(lia))). eexists; eexists; reflexivity.
        + eexists; eexists; reflexivity. }
    exists s'. rewrite H. destruct (multi_transfer_spec E Hc _ _ _ _ H) as (_ & _ & Hp).
    destruct Hg as ((_ & _ & _ & Hne) & _). rewrite (beqb_false _ _ Hne) in Hp. rewrite (mq_out E _ _ _ _ Hp). reflexivity.
  Qed.

  (* ================================================================ *)
  (* pairwise distinct cells: readiness in the pre-state suffices       *)
  (* ================================================================ *)
  (* the cell a triple writes *)
  Definition dest_cell (x : rawtriple) : bytes :=
    if (0 <? rt_nonce x)%N then
      match dec_tok (cdc E) (rt_third x) with
      | Some t => nft_key (P ++ rt_tok x) (tok_nonce t)
      | None => P ++ rt_tok x
      end
    else P ++ rt_tok x.

  Lemma one_dst_post_frame rcpt verify rae x s s1 : one_dst_post E rcpt verify rae x s s1 ->
    unchanged_except (fun a k => a = rcpt /\ k = dest_cell x) (fun _ => False) s s1.
  Proof.
    intros Hp. destruct Hp. unfold dest_cell. destruct (0 <? rt_nonce x)%N eqn:En.
    - destruct od_nft as (t & Hdec & _ & _ & _ & _ & _ & _ & _ & Hue); [lia|]. rewrite Hdec. exact Hue.
    - destruct od_fungible as (_ & _ & _ & Hue); [apply N.ltb_ge in En; lia|]. exact Hue.
  Qed.

  (* a step on another cell keeps a triple ready; the pause flags live in the system account, so either they do not
     matter (rae / SC) or the recipient must not be the system account *)
  Lemma triple_ready_frame rcpt verify rae y s s1 cellx :
    unchanged_except (fun a k => a = rcpt /\ k = cellx) (fun _ => False) s s1 ->
    dest_cell y <> cellx -> (rae = false -> rcpt <> SC -> rcpt <> SYS) ->
    triple_ready rcpt verify rae y s -> triple_ready rcpt verify rae y s1.
  Proof.
    intros Hue Hne Hsys [Hp H]. split; [exact Hp|]. unfold dest_cell in Hne.
    assert (Hpa : rae = false -> rcpt <> SC -> forall k, paused_at s1 k = paused_at s k).
    { intros h1 h2 k. apply (ue_paused_at _ _ _ _ Hue). intros [Hx _]. apply (Hsys h1 h2). auto. }
    destruct (0 <? rt_nonce y)%N.
    - destruct H as (t & Hdec & Hv & Hent & Hfl). rewrite Hdec in Hne. exists t. split; [exact Hdec|]. split; [exact Hv|].
      assert (Hnf' : ~ (rcpt = rcpt /\ nft_key (P ++ rt_tok y) (tok_nonce t) = cellx)) by (intros [_ ?]; contradiction).
      split.
      + destruct Hent as [Hn|(cur & Hcur & Hrest)]; [left|right; exists cur].
        * rewrite (ue_cell _ _ _ _ Hue) by exact Hnf'. exact Hn.
        * rewrite (ue_tok_at E _ _ _ _ Hue) by exact Hnf'. auto.
      + intros h1 h2. destruct (Hfl h1 h2) as (F1 & F2 & P1 & P2). unfold nft_flags_ok.
        rewrite (ue_frozen_at E _ _ _ _ Hue) by exact Hnf'. rewrite !(Hpa h1 h2). auto.
    - destruct H as (Hent & Hfl & Hbal).
      assert (Hnf' : ~ (rcpt = rcpt /\ P ++ rt_tok y = cellx)) by (intros [_ ?]; contradiction).
      split.
      + destruct Hent as [Hn|(cur & Hcur & Hrest)]; [left|right; exists cur].
        * rewrite (ue_cell _ _ _ _ Hue) by exact Hnf'. exact Hn.
        * rewrite (ue_tok_at E _ _ _ _ Hue) by exact Hnf'. auto.
      + split.
        * intros h1 h2. rewrite (ue_frozen_at E _ _ _ _ Hue) by exact Hnf'. rewrite (Hpa h1 h2). exact (Hfl h1 h2).
        * rewrite (ue_balance E _ _ _ _ Hue) by exact Hnf'. exact Hbal.
  Qed.

  Theorem dest_ready_distinct rcpt verify rae trs : forall s,
    NoDup (map dest_cell trs) -> (rae = false -> rcpt <> SC -> rcpt <> SYS) ->
    Forall (fun x => triple_ready rcpt verify rae x s) trs ->
    dest_ready rcpt verify rae trs s.
  Proof.
    induction trs as [|x r IH]; intros s Hnd Hsys Hall; [exact I|].
    inversion Hall as [|x0 r0 Hx Hr]; subst. cbn [map] in Hnd. inversion Hnd as [|c0 l0 Hnotin Hnd']; subst.
    split; [exact Hx|]. intros s0 s1 Ha Hpost. apply IH; [exact Hnd'|exact Hsys|].
    pose proof (one_dst_post_frame _ _ _ _ _ _ Hpost) as Hue.
    rewrite Forall_forall in *. intros y Hy.
    apply (triple_ready_frame rcpt verify rae y s0 s1 (dest_cell x) Hue); [|exact Hsys|].
    - intros Heq. apply Hnotin. rewrite <- Heq. apply in_map. exact Hy.
    - apply (triple_ready_accts _ _ _ _ s s0 Ha). apply Hr. exact Hy.
  Qed.
End LiveMulti.

(* the destination-side notions depend on the input through its argument list only *)
Lemma multi_triples_args fuel i i' off : i_args i' = i_args i ->
  forall idx, multi_triples fuel i' off idx = multi_triples fuel i off idx.
Proof.
  intros Ha. induction fuel as [|f IH]; intros idx; [reflexivity|]. cbn [multi_triples]. rewrite IH. unfold argn. rewrite Ha. reflexivity.
Qed.
Lemma multi_n_dst_args i i' : i_args i' = i_args i -> multi_n_dst i' = multi_n_dst i.
Proof. intros Ha. unfold multi_n_dst, argn. rewrite Ha. reflexivity. Qed.
Lemma multi_dst_triples_args i i' : i_args i' = i_args i -> multi_dst_triples i' = multi_dst_triples i.
Proof. intros Ha. unfold multi_dst_triples. rewrite (multi_n_dst_args i i' Ha). apply multi_triples_args. exact Ha. Qed.
Lemma multi_dest_guards_args E i i' : i_args i' = i_args i -> delivered_shape i' ->
  multi_dest_guards E i -> multi_dest_guards E i'.
Proof.
  intros Ha Hs (_ & H). unfold multi_dest_guards. rewrite (multi_n_dst_args i i' Ha), (multi_dst_triples_args i i' Ha), Ha.
  split; [exact Hs|exact H].
Qed.

(* the sender side allocated three slices of the announced count: the count fits *)
Lemma multi_sender_count_fits E i s o s' : f_multi_transfer E i s = (Ok o, s') -> i_caller i = i_rcpt i ->
  (multi_n_snd i <= 1099511627776)%N.
Proof.
  unfold f_multi_transfer. cbv zeta. intros H Heq.
  apply bind_ok in H as (u0 & s0 & _ & H). apply bind_ok in H as (u1 & s1 & _ & H).
  rewrite Heq, beqb_refl in H. unfold f_multi_transfer_sender in H. cbv zeta in H.
  apply bind_ok in H as (dst & s2 & H0 & H). apply arg_ok in H0 as (_ & _ & ->).
  apply bind_ok in H as (g1 & s3 & _ & H). apply bind_ok in H as (g2 & s4 & _ & H). apply bind_ok in H as (g3 & s5 & _ & H).
  apply bind_ok in H as (a1 & s6 & H0 & H). apply arg_ok in H0 as (Ha1 & _ & ->).
  change (N.to_nat 1) with 1%nat in Ha1. apply nth_error_argn in Ha1. subst a1.
  apply bind_ok in H as (g4 & s7 & _ & H). apply bind_ok in H as (g5 & s8 & _ & H). apply bind_ok in H as (g6 & s9 & _ & H).
  apply bind_ok in H as (g7 & s10 & _ & H). apply bind_ok in H as (g8 & s11 & _ & H).
  apply bind_ok in H as (g9 & s12 & H0 & _). apply alloc_ok in H0 as (Hn & _). exact Hn.
Qed.

Section LiveWorldMulti.
  Variable c : wcfg.
  Hypothesis Hc : codec_ok (wc_cdc c).
  Notation shof := (wc_shard_of c).

  (* count and triples of a MultiESDTNFTTransfer message (through any input that carries its arguments) *)
  Definition mmsg_input (m : msg) : input := deliver_input c m (shof (m_dest m)) 0.
  Definition mmsg_n (m : msg) : N := multi_n_dst (mmsg_input m).
  Definition mmsg_triples (m : msg) : list rawtriple := multi_dst_triples (mmsg_input m).

  (* the static part of "the destination accepts": the argument-count / shape guards of the destination side
     (C10_Accept.multi_dest_guards: at least four arguments, count non-zero, every announced triple present, every NFT
     payload decodes with a value) and a count for which the destination can allocate (2^40) *)
  Definition multi_msg (m : msg) : Prop :=
    m_fn m = C.BuiltInFunctionMultiESDTNFTTransfer /\ (mmsg_n m <= 1099511627776)%N
    /\ multi_dest_guards (env_at c (shof (m_dest m))) (mmsg_input m).

  (* the destination side accepts the arguments of such a message, on any input of the delivered shape *)
  Lemma multi_msg_dest_succeeds sh m0 m i :
    multi_msg m -> i_args i = m_args m -> delivered_shape i ->
    dest_ready (env_at c sh) (i_rcpt i) (must_verify_payable i (multi_min 1 (mmsg_n m))) (i_rae i) (mmsg_triples m) (mk_state m0) ->
    exists o s', exec (env_at c sh) (m_fn m) i (mk_state m0) = (Ok o, s').
  Proof.
    intros (Hfn & Hn & Hg) Hargs Hshape Hr. rewrite Hfn, exec_multi_transfer.
    assert (Ha : i_args i = i_args (mmsg_input m)) by exact Hargs.
    destruct (multi_dest_succeeds (env_at c sh) Hc (env_at_no_faults c sh) i (mk_state m0)) as (s' & H).
    - apply (multi_dest_guards_args _ (mmsg_input m) i Ha Hshape). exact Hg.
    - rewrite (multi_n_dst_args _ _ Ha). exact Hn.
    - rewrite (multi_n_dst_args _ _ Ha), (multi_dst_triples_args _ _ Ha). exact Hr.
    - eexists. eexists. exact H.
  Qed.

  Lemma deliver_shape m gas : msg_ok c m -> delivered_shape (deliver_input c m (shof (m_dest m)) gas).
  Proof.
    intros Hm. apply deliver_input_shape.
    - apply N.eqb_neq. exact (mo_caller c m Hm).
    - intros He. apply (mo_caller c m Hm). rewrite He. reflexivity.
  Qed.
  Lemma refund_shape m gas : msg_ok c m -> delivered_shape (refund_input c m (shof (m_sender m)) gas).
  Proof.
    intros Hm. unfold delivered_shape. cbn [refund_input i_value i_snd i_dst i_caller i_rcpt].
    split; [reflexivity|]. split; [|split; [reflexivity|]].
    - apply N.eqb_neq. intros He. apply (mo_sender c m Hm). symmetry. exact He.
    - intros He. apply (mo_sender c m Hm). rewrite He. reflexivity.
  Qed.

  (* delivery succeeds under the conditions of the property text, triple by triple *)
  Theorem deliver_succeeds_multi m0 m gas :
    let sh := shof (m_dest m) in
    let i := deliver_input c m sh gas in
    multi_msg m -> msg_ok c m ->
    dest_ready (env_at c sh) (m_dest m) (must_verify_payable i (multi_min 1 (mmsg_n m))) false (mmsg_triples m) (mk_state m0) ->
    exists o s', exec (env_at c sh) (m_fn m) i (mk_state m0) = (Ok o, s').
  Proof.
    intros sh i Hem Hm Hr. apply (multi_msg_dest_succeeds sh m0 m i Hem eq_refl (deliver_shape m gas Hm)). exact Hr.
  Qed.

  (* the refund: return-after-error and callback call type, so payability / frozen / paused are not looked at *)
  Theorem refund_succeeds_multi m0 m gas :
    let sh := shof (m_sender m) in
    multi_msg m -> msg_ok c m ->
    dest_ready (env_at c sh) (m_sender m) false true (mmsg_triples m) (mk_state m0) ->
    exists o s', exec (env_at c sh) (m_fn m) (refund_input c m sh gas) (mk_state m0) = (Ok o, s').
  Proof.
    intros sh Hem Hm Hr. apply (multi_msg_dest_succeeds sh m0 m (refund_input c m sh gas) Hem eq_refl (refund_shape m gas Hm)). exact Hr.
  Qed.

  (* ---- world level ---- *)
  Theorem deliver_accepted_multi w id gas m :
    let sh := shof (m_dest m) in
    let s := mk_state (shard_accts w sh) in
    let i := deliver_input c m sh gas in
    WInv c w -> find_msg (inflight w) id = Some m -> multi_msg m -> (sh <? wc_nshards c)%N = true ->
    dest_ready (env_at c sh) (m_dest m) (must_verify_payable i (multi_min 1 (mmsg_n m))) false (mmsg_triples m) s ->
    let w' := wstep c w (ODeliver id gas) in
    inflight w' = drop_msg (inflight w) id /\ failed w' = failed w
    /\ forall a k, wbal c w' a k = (wbal c w a k + (if beqb a (m_dest m) then qty c k m else 0))%Z.
  Proof.
    intros sh s i Hinv Hfind Hem Hsh Hr.
    pose proof (inflight_msg_ok c w id m Hinv Hfind) as Hm.
    destruct (deliver_succeeds_multi (shard_accts w sh) m gas Hem Hm Hr) as (o & s' & Hex).
    destruct (deliver_commits c Hc w id gas m o s' Hinv Hfind Hsh Hex) as (Hi & Hf & _ & Hb).
    cbv zeta. split; [exact Hi|]. split; [exact Hf|exact Hb].
  Qed.

  Theorem rejected_then_refund_multi w id gas gas' m :
    let shd := shof (m_dest m) in
    let shs := shof (m_sender m) in
    WInv c w -> find_msg (inflight w) id = Some m -> multi_msg m ->
    (shd <? wc_nshards c)%N = true -> (shs <? wc_nshards c)%N = true ->
    (forall o s', exec (env_at c shd) (m_fn m) (deliver_input c m shd gas) (mk_state (shard_accts w shd)) <> (Ok o, s')) ->
    (* at refund time every triple finds the debited account's entry absent or compatible (rae: no flag is looked at) *)
    dest_ready (env_at c shs) (m_sender m) false true (mmsg_triples m) (mk_state (shard_accts w shs)) ->
    let w1 := wstep c w (ODeliver id gas) in
    let w2 := wstep c w1 (ORefund id gas') in
    shards w1 = shards w /\ inflight w1 = inflight w /\ nat_in id (failed w1) = true
    /\ inflight w2 = drop_msg (inflight w) id /\ nat_in id (failed w2) = false
    /\ (forall a k, wbal c w2 a k = (wbal c w a k + (if beqb a (m_sender m) then qty c k m else 0))%Z)
    /\ forall k, total c k w2 = total c k w.
  Proof.
    intros shd shs Hinv Hfind Hem Hshd Hshs Hrej Hr.
    pose proof (inflight_msg_ok c w id m Hinv Hfind) as Hm.
    pose proof (refund_succeeds_multi (shard_accts w shs) m gas' Hem Hm Hr) as Hex.
    exact (rejected_then_refund c Hc w id gas gas' m Hinv Hfind Hshd Hshs Hrej Hex).
  Qed.

  (* ---- what the sender side emits ---- *)
  Lemma origin_multi_caller_is_rcpt sh i s o s' : origin_call c sh i ->
    f_multi_transfer (env_at c sh) i s = (Ok o, s') -> i_caller i = i_rcpt i.
  Proof.
    intros (Hcal & Hsnd & _) H. pose proof (multi_transfer_needs_sender (env_at c sh) Hc _ _ _ _ H) as Hx.
    destruct (beqb_spec (i_caller i) (i_rcpt i)) as [He'|_]; [exact He'|]. rewrite Hcal, N.eqb_refl in Hsnd. destruct Hx; congruence.
  Qed.

  Lemma emitted_multi_wf sh m0 i id o s' m :
    origin_call c sh i -> exec (env_at c sh) C.BuiltInFunctionMultiESDTNFTTransfer i (mk_state m0) = (Ok o, s') ->
    In m (collect c sh C.BuiltInFunctionMultiESDTNFTTransfer i id o) ->
    multi_msg m /\ collect c sh C.BuiltInFunctionMultiESDTNFTTransfer i id o = [m]
    /\ m_id m = id /\ m_dest m = multi_dst i /\ m_sender m = i_caller i /\ m_caller m = i_caller i
    /\ shof (m_dest m) <> sh /\ mmsg_n m = multi_n_snd i
    (* the triples of the message are the encodings of the travelling entries *)
    /\ exists lst, multi_snd_post (env_at c sh) i lst (mk_state m0) o s'
         /\ mmsg_triples m = map (raw_of (env_at c sh)) lst
         (* ... which, under the F4b hypothesis, are the sender's entries with Value = the requested quantity (same
            metadata, same properties: not frozen unless return-after-error / system contract); the message credits
            exactly the debits *)
         /\ (triples_consistent (env_at c sh) (mk_state m0) (i_caller i) (multi_snd_triples i) ->
             credits c m = debit_list (multi_snd_triples i)
             /\ Forall2 (fun x y => fst y = rt_tok x
                           /\ exists t0, tok_at (env_at c sh) (mk_state m0) (i_caller i) (rt_cell x) = Some t0
                                /\ snd y = set_value t0 (Some (rt_qty x))
                                /\ (i_rae i = false -> i_caller i <> SC -> frozen_props (t_props t0) = false))
                  (multi_snd_triples i) lst).
  Proof.
    intros Hor H Hin. pose proof H as Hex. rewrite exec_multi_transfer in H.
    pose proof (origin_multi_caller_is_rcpt sh i _ _ _ Hor H) as Heq. pose proof Hor as Hor'. destruct Hor as (Hcal & Hsnd & Hdst).
    assert (Hsame : multi_same (env_at c sh) i = (shof (argn i 0) =? sh)%N).
    { unfold multi_same. cbn [self_shard shard_of env_at]. apply N.eqb_sym. }
    destruct (multi_sender_post (env_at c sh) Hc _ _ _ _ H Heq) as (lst & Hp).
    destruct (shof (argn i 0) =? sh)%N eqn:Ed.
    { exfalso. apply N.eqb_eq in Ed.
      rewrite (collect_all_local c sh _ i id o) in Hin; [contradiction| |right; exact travels_multi]. intros oa Hoa.
      rewrite (mp_out _ _ _ _ _ _ Hp) in Hoa. unfold multi_sender_out in Hoa. cbv zeta in Hoa. rewrite Hsame in Hoa. cbn [negb] in Hoa.
      destruct ((multi_min 2 (multi_n_snd i) <? alen (i_args i))%N && is_sc (multi_dst i))%bool; cbn in Hoa; [|contradiction].
      destruct Hoa as [<-|[]]. exact Ed. }
    apply N.eqb_neq in Ed.
    pose proof (multi_out_accounts_cross (env_at c sh) _ _ _ _ _ Hp Hsame) as Hout. cbv zeta in Hout.
    pose proof (collect_one_cross c sh C.BuiltInFunctionMultiESDTNFTTransfer i id o _ _ _ _ Hout eq_refl emittable_multi Ed Hcal) as Hcol.
    cbn [tr_sender tr_callType tr_gasLimit tr_gasLocked] in Hcol.
    rewrite Hcol in Hin. destruct Hin as [Hm|[]]. rewrite Hm in Hcol.
    assert (Hargs : m_args m = (u64_bytes (multi_n_snd i) :: out_args_pure (env_at c sh) lst)
                               ++ skipn (N.to_nat (multi_min 2 (multi_n_snd i))) (i_args i)) by (rewrite <- Hm; reflexivity).
    assert (Hdest : m_dest m = multi_dst i) by (rewrite <- Hm; reflexivity).
    assert (Hmcal : m_caller m = i_caller i) by (rewrite <- Hm; reflexivity).
    (* the guards, from C10 *)
    destruct (world_continuation_accepted_shape_multi c sh i (mk_state m0) o s' id Hc Hex Heq Hcal Ed) as (m' & Hca & _ & _ & _ & Hg).
    assert (m' = m).
    { assert (Hx : collect c sh C.BuiltInFunctionMultiESDTNFTTransfer i id o = [m']) by (unfold collect; rewrite Hca; reflexivity).
      rewrite Hcol in Hx. inversion Hx. reflexivity. }
    subst m'. specialize (Hg 0%N).
    destruct (emitted_multi_faithful_args (env_at c sh) Hc _ _ _ _ _ Hp (mmsg_input m) Hargs) as (_ & Hn & _ & Hlen).
    split; [|split; [exact Hcol|]].
    { split; [rewrite <- Hm; reflexivity|]. split; [|exact Hg].
      unfold mmsg_n. rewrite Hn. apply (multi_sender_count_fits (env_at c sh) i _ _ _ H Heq). }
    split; [rewrite <- Hm; reflexivity|]. split; [exact Hdest|]. split; [rewrite <- Hm; reflexivity|]. split; [exact Hmcal|].
    split; [rewrite Hdest; exact Ed|]. split; [exact Hn|].
    exists lst. split; [exact Hp|]. split.
    { unfold mmsg_triples, multi_dst_triples. fold (mmsg_n m). unfold mmsg_n. rewrite Hn, <- Hlen. change 0%N with (N.of_nat 0).
      apply (multi_triples_out_args (env_at c sh) (mmsg_input m) lst [u64_bytes (multi_n_snd i)]
               (skipn (N.to_nat (multi_min 2 (multi_n_snd i))) (i_args i)) 0); [|reflexivity].
      change (i_args (mmsg_input m)) with (m_args m). rewrite Hargs. reflexivity. }
    intros Hcons. split.
    { assert (Hcc : call_consistent_at c m0 sh C.BuiltInFunctionMultiESDTNFTTransfer i).
      { split; [intros e; discriminate e|intros _; exact Hcons]. }
      pose proof (emitted_message_carries_debit c Hc sh m0 _ i id o s' is_transfer_multi Hor' Hcc Hex) as He.
      unfold transfer_dest, transfer_debits in He. rewrite fn_multi_ne_esdt, fn_multi_ne_nft in He.
      apply N.eqb_neq in Ed. rewrite Ed in He. destruct He as (m' & Hcol' & Hcr & _).
      rewrite Hcol in Hcol'. inversion Hcol'. exact Hcr. }
    destruct Hp. destruct mp_steps as (s0 & s1 & Q0 & Hs & Q1).
    pose proof (silent_consistent (env_at c sh) _ _ _ _ Q0 Hcons) as Hcons0.
    destruct (snd_steps_spec (env_at c sh) _ _ _ _ _ _ _ _ _ mp_dst_ne Hs Hcons0) as (_ & Hf & _).
    { intros h. rewrite Hsame in h. discriminate h. }
    destruct (snd_steps_entries (env_at c sh) _ _ _ _ _ _ _ _ _ mp_dst_ne Hs Hcons0 s0 (same_upto_value_refl (env_at c sh) _ _)) as [Hf2 _].
    rewrite Hsame in Hf. clear - Hf Hf2 Q0.
    induction Hf2 as [|x y l1 l2 (t0 & Ht0 & Hy & Hfr) Hf2 IH]; inversion Hf as [|x' y' l1' l2' Hxy Hf']; subst; constructor; [|apply IH; exact Hf'].
    destruct Hxy as (Hfst & _ & _ & Hv & _ & _ & _ & Hq). split; [exact Hfst|].
    rewrite (silent_tok_at (env_at c sh) _ _ _ _ Q0) in Ht0. exists t0. split; [exact Ht0|].
    split; [rewrite Hy, Hv, (Hq eq_refl); reflexivity|exact Hfr].
  Qed.

  (* ---- composition: transfer, (anything that leaves the sender's holdings alone), rejected delivery, refund ---- *)
  Theorem multi_rejected_refund_restores sh m0 i id0 o s1 m w id gas gas' :
    let E := env_at c sh in
    let s := mk_state (shard_accts w sh) in
    (* the accepted cross-shard transfer, F4b hypothesis as in the conservation theorem *)
    origin_call c sh i -> triples_consistent E (mk_state m0) (i_caller i) (multi_snd_triples i) ->
    exec E C.BuiltInFunctionMultiESDTNFTTransfer i (mk_state m0) = (Ok o, s1) ->
    In m (collect c sh C.BuiltInFunctionMultiESDTNFTTransfer i id0 o) ->
    (* a later world: the message is still in flight and every triple finds a compatible entry at the sender (no flag is
       looked at: return-after-error) *)
    WInv c w -> find_msg (inflight w) id = Some m ->
    (shof (m_dest m) <? wc_nshards c)%N = true -> (sh <? wc_nshards c)%N = true ->
    dest_ready E (i_caller i) false true (mmsg_triples m) s ->
    (forall o' s', exec (env_at c (shof (m_dest m))) (m_fn m) (deliver_input c m (shof (m_dest m)) gas)
                     (mk_state (shard_accts w (shof (m_dest m)))) <> (Ok o', s')) ->
    let w2 := wstep c (wstep c w (ODeliver id gas)) (ORefund id gas') in
    inflight w2 = drop_msg (inflight w) id /\ nat_in id (failed w2) = false
    (* every cell of the sender whose holding is what the transfer left is back to its holding before the transfer *)
    /\ (forall k, balance E s (i_caller i) k = balance E s1 (i_caller i) k ->
                  wbal c w2 (i_caller i) k = balance E (mk_state m0) (i_caller i) k)
    /\ forall k, total c k w2 = total c k w.
  Proof.
    intros E s Hor Hcons Hex Hin Hinv Hfind Hshd Hshs Hr Hrej.
    destruct (emitted_multi_wf sh m0 i id0 o s1 m Hor Hex Hin) as (Hem & _ & _ & Hmd & Hms & _ & Hne & _ & lst & _ & _ & Hcr).
    destruct (Hcr Hcons) as [Hcred _].
    pose proof Hor as (Hcal & _).
    assert (Hshs' : (shof (m_sender m) <? wc_nshards c)%N = true) by (rewrite Hms, Hcal; exact Hshs).
    assert (Hr' : dest_ready (env_at c (shof (m_sender m))) (m_sender m) false true (mmsg_triples m)
                    (mk_state (shard_accts w (shof (m_sender m))))) by (rewrite Hms, Hcal; exact Hr).
    destruct (rejected_then_refund_multi w id gas gas' m Hinv Hfind Hem Hshd Hshs' Hrej Hr') as (_ & _ & _ & H4 & H5 & Hb & Ht).
    cbv zeta. split; [exact H4|]. split; [exact H5|]. split; [|exact Ht].
    intros k Hbal. rewrite Hb, Hms, beqb_refl, wbal_state, Hcal. fold E. fold s. rewrite Hbal.
    unfold qty. rewrite Hcred.
    pose proof Hex as Hex'. rewrite exec_multi_transfer in Hex'.
    pose proof (origin_multi_caller_is_rcpt sh i _ _ _ Hor Hex') as Heq.
    destruct (sender_debits_exact_multi E Hc i _ _ _ Hex Heq Hcons) with (k := k) as [_ Hd].
    { intros h. exfalso. unfold multi_same in h. cbn [self_shard shard_of env_at E] in h. apply N.eqb_eq in h.
      apply Hne. rewrite Hmd. unfold multi_dst. symmetry. exact h. }
    rewrite Hd. lia.
  Qed.
End LiveWorldMulti.

Print Assumptions multi_dest_succeeds.
Print Assumptions dest_ready_distinct.
Print Assumptions emitted_multi_wf.
Print Assumptions deliver_accepted_multi.
Print Assumptions rejected_then_refund_multi.
Print Assumptions multi_rejected_refund_restores.
