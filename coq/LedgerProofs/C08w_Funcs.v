(* C08, world-level formulation, part 2: the non-transfer built-in functions keep the provenance invariant.

   17 functions go through the judgement [kp] with [V] FIXED (none of them produces a new metadata value):
   every entry they write carries the metadata of an entry they have read under the same token identifier.
   The three functions that DO produce metadata values -- ESDTNFTCreate, ESDTNFTAddURI,
   ESDTNFTUpdateAttributes -- are handled through their exact effects (Spec_Supply.v / C08_Base.v): the one cell
   they write holds the value [produced] lists; every other cell is unchanged. *)
From Coq Require Import Lia.
From EV Require Import Base.Bytes Base.Store Base.Monad gen.Consts Codec.Types Helpers.Helpers
  Ledger.Types Ledger.Env Ledger.Funcs Ledger.Transfers LedgerProofs.Defs LedgerProofs.EnvSpec
  LedgerProofs.Spec_Transfers_Base LedgerProofs.Spec_Transfers_Multi LedgerProofs.Spec_Supply
  LedgerProofs.C01_Consistent LedgerProofs.C05_Footprint LedgerProofs.C15_Inv LedgerProofs.C15_Funcs
  LedgerProofs.C15_Transfers LedgerProofs.ValidIds_Id LedgerProofs.ValidIds_Inv LedgerProofs.ValidIds_Funcs
  LedgerProofs.ValidIds_Exec LedgerProofs.C08_Base LedgerProofs.C08w_Inv.

Ltac w_const_ne := let H := fresh in intros H; vm_compute in H; discriminate.

Section Funcs.
  Variable V : bytes -> N -> metadata -> Prop.
  Variable E : env.
  Hypothesis Hc : codec_ok (cdc E).
  Hypothesis Hf : flag_undec (cdc E).
  Notation okout i := (outp V E i).

  Lemma kp_check_local_action i cost : kp V E (check_local_action i cost) (fun _ => True).
  Proof. unfold check_local_action. kp_tac V E Hc Hf. Qed.
  Lemma kp_check_create_burn_add i cost : kp V E (check_create_burn_add i cost) (fun _ => True).
  Proof. unfold check_create_burn_add. kp_tac V E Hc Hf. Qed.
  Lemma kp_check_system_one_arg i : kp V E (check_system_one_arg i) (fun _ => True).
  Proof. unfold check_system_one_arg. kp_tac V E Hc Hf. Qed.
  Hint Resolve kp_check_local_action kp_check_create_burn_add kp_check_system_one_arg : kpdb.

  Lemma kp_f_local_mint i : tok0v i -> kp V E (f_local_mint E i) (okout i).
  Proof. intros Hv. unfold f_local_mint. kp_tac V E Hc Hf. outp_tac. Qed.
  Lemma kp_f_local_burn i : tok0v i -> kp V E (f_local_burn E i) (okout i).
  Proof. intros Hv. unfold f_local_burn. kp_tac V E Hc Hf. outp_tac. Qed.
  Lemma kp_f_esdt_burn i : tok0v i -> kp V E (f_esdt_burn E i) (okout i).
  Proof.
    intros Hv. unfold f_esdt_burn. kp_tac V E Hc Hf. cbv zeta. apply outp_add_log.
    destruct (is_sc (i_caller i)); [|apply outp_mk].
    apply outp_aot_plain; [cbn; auto|w_const_ne|w_const_ne].
  Qed.

  Lemma kp_f_nft_add_quantity i : tok0v i -> kp V E (f_nft_add_quantity E i) (okout i).
  Proof. intros Hv. unfold f_nft_add_quantity. kp_tac V E Hc Hf. outp_tac. Qed.
  Lemma kp_f_nft_burn i : tok0v i -> kp V E (f_nft_burn E i) (okout i).
  Proof. intros Hv. unfold f_nft_burn. kp_tac V E Hc Hf. outp_tac. Qed.

  Lemma kp_f_freeze_wipe fr wp i : tok0v i -> kp V E (f_freeze_wipe E fr wp i) (okout i).
  Proof. intros Hv. unfold f_freeze_wipe. kp_tac V E Hc Hf. all: outp_tac. Qed.

  Lemma kp_f_pause p i : kp V E (f_pause E p i) (okout i).
  Proof.
    unfold f_pause. kp_tac V E Hc Hf.
    eapply (kp_bind V E); [apply (kp_save_kv V E); apply (pgoodw_flag V E Hf)|kp_intro].
    kp_tac V E Hc Hf. outp_tac.
  Qed.

  Lemma kp_f_roles b i : kp V E (f_roles E b i) (okout i).
  Proof. unfold f_roles. kp_tac V E Hc Hf. outp_tac. Qed.

  Lemma kp_delete_create_role a tok : kp V E (delete_create_role E a (RP ++ tok)) (fun _ => True).
  Proof. unfold delete_create_role. kp_tac V E Hc Hf. Qed.
  Lemma kp_add_create_role a tok : kp V E (add_create_role E a (RP ++ tok)) (fun _ => True).
  Proof. unfold add_create_role. kp_tac V E Hc Hf. all: try exact I. Qed.
  Hint Resolve kp_delete_create_role kp_add_create_role : kpdb.

  Lemma kp_f_create_role_transfer i : kp V E (f_create_role_transfer E i) (okout i).
  Proof.
    unfold f_create_role_transfer. kp_tac V E Hc Hf. all: try outp_tac.
    all: apply outp_one; eapply trp_plain; cbn [tr_data]; [reflexivity|cbn; auto|w_const_ne|w_const_ne].
  Qed.

  Lemma kp_f_change_owner i : kp V E (f_change_owner E i) (okout i).
  Proof. unfold f_change_owner. kp_tac V E Hc Hf. all: outp_tac. Qed.
  Lemma kp_f_claim_rewards i : kp V E (f_claim_rewards E i) (okout i).
  Proof.
    unfold f_claim_rewards. kp_tac V E Hc Hf. all: try outp_tac.
    all: try (destruct (is_sc (i_caller i)); [apply outp_set_accounts_nil|]).
    all: apply outp_one; left; reflexivity.
  Qed.
  Lemma kp_f_set_user_name i : kp V E (f_set_user_name E i) (okout i).
  Proof.
    unfold f_set_user_name. kp_tac V E Hc Hf. all: try outp_tac.
    apply outp_one; eapply trp_plain; cbn [tr_data]; [reflexivity|cbn; auto|w_const_ne|w_const_ne].
  Qed.

  Lemma kp_skv_loop a gp n : forall pairs use, length pairs = (2 * n)%nat ->
    kp V E (skv_loop E a gp pairs use) (fun _ => True).
  Proof.
    induction n as [|n IH]; intros pairs use Hl.
    - destruct pairs; [|discriminate]. cbn [skv_loop]. apply (kp_ret V E). exact I.
    - destruct pairs as [|k [|v rest]]; [discriminate|simpl in Hl; lia|].
      assert (Hr : length rest = (2 * n)%nat) by (simpl in Hl; lia).
      cbn [skv_loop]. kp_tac V E Hc Hf.
      eapply (kp_bind V E); [apply (kp_save_kv V E); apply pgoodw_allowed; assumption|kp_intro].
      apply IH. exact Hr.
  Qed.

  Lemma kp_f_save_key_value i : kp V E (f_save_key_value E i) (okout i).
  Proof.
    unfold f_save_key_value. kp_tac V E Hc Hf.
    eapply (kp_bind V E); [apply (kp_skv_loop _ _ (length (i_args i) / 2)%nat); unfold alen in *; lia|kp_intro].
    kp_tac V E Hc Hf. outp_tac.
  Qed.

  (* ================================================================ *)
  (* the three functions that produce metadata values                   *)
  (* ================================================================ *)
  (* the metadata values a call produces, computed from the input and the PRE-state:
       ESDTNFTCreate            the metadata of the created entry, under the issued nonce;
       ESDTNFTAddURI            the caller's current copy with the given URIs appended;
       ESDTNFTUpdateAttributes  the caller's current copy with the attributes replaced.
     (whether the call succeeds is the world level's concern) *)
  Definition own_meta (i : input) (s : mstate) : option metadata :=
    match tok_at E s (i_caller i) (nft_key (P ++ argn i 0) (bigU64 (argn i 1))) with
    | Some t => t_meta t
    | None => None
    end.
  Definition produced (f : bytes) (i : input) (s : mstate) : list (bytes * N * metadata) :=
    if beqb f F_CREATE then
      match t_meta (created_token i s) with
      | Some m => [(argn i 0, create_nonce i s, m)]
      | None => []
      end
    else if beqb f F_ADDURI then
      match own_meta i s with
      | Some m => [(argn i 0, bigU64 (argn i 1), set_uris m (md_uris m ++ skipn 2 (i_args i)))]
      | None => []
      end
    else if beqb f F_UPDATTR then
      match own_meta i s with
      | Some m => [(argn i 0, bigU64 (argn i 1), set_attributes m (argn i 2))]
      | None => []
      end
    else [].
  Definition produced_ok (f : bytes) (i : input) (s : mstate) : Prop :=
    forall tok n m, In (tok, n, m) (produced f i s) -> V tok n m.

  Lemma call_ids_arg0 b i : named_tokens_b b i = [argn i 0] -> call_ids (bfn_name b) i -> valid_id (argn i 0).
  Proof.
    intros Hn H. unfold call_ids, named_tokens in H. rewrite classify_name, Hn in H. inversion H; assumption.
  Qed.

  (* one written token cell whose new content is known, every other token cell unchanged *)
  Lemma prov_one_cell s s' a0 tok0 n0 :
    valid_id tok0 -> prov V E s ->
    (forall a tok n, ~ (a = a0 /\ nft_key (P ++ tok) n = nft_key (P ++ tok0) n0) ->
       tok_at E s' a (nft_key (P ++ tok) n) = tok_at E s a (nft_key (P ++ tok) n)) ->
    (forall t m, tok_at E s' a0 (nft_key (P ++ tok0) n0) = Some t -> t_meta t = Some m -> V tok0 n0 m) ->
    prov V E s'.
  Proof.
    intros Hv0 Hp Hfr Hnew a tok n t m Hv Ht Hm.
    destruct (beqb_spec a a0) as [->|Hna].
    - destruct (beqb_spec (nft_key (P ++ tok) n) (nft_key (P ++ tok0) n0)) as [Hk|Hnk].
      + destruct (valid_id_key_injective _ _ _ _ Hv Hv0 Hk) as [-> ->]. eapply Hnew; eauto.
      + rewrite Hfr in Ht by (intros [_ H]; exact (Hnk H)). eapply Hp; eauto.
    - rewrite Hfr in Ht by (intros [H _]; exact (Hna H)). eapply Hp; eauto.
  Qed.

  Theorem PInv_create i s o s' :
    PInv V E s -> call_ids F_CREATE i -> produced_ok F_CREATE i s ->
    exec E F_CREATE i s = (Ok o, s') -> PInv V E s' /\ okout i o.
  Proof.
    intros Hs Hids Hprod Hx. pose proof (call_ids_arg0 BNftCreate i eq_refl Hids) as Hv0.
    split.
    { apply PInv_iff. split.
      - eapply ids_valid_exec; [exact Hc|exact Hf|apply (PInv_ids V); exact Hs|exact Hids|exact Hx].
      - change (exec E F_CREATE i) with (f_nft_create E i) in Hx.
        apply (f_nft_create_spec E Hc) in Hx. destruct Hx.
        apply (prov_one_cell s s' (i_caller i) (argn i 0) (create_nonce i s) Hv0 (PInv_prov V E s Hs)).
        + intros a tok n Hn. apply (ue_tok_at E _ _ _ _ nc_frame).
          intros [Ha [Hk|Hk]]; [apply Hn; auto|]. exact (nft_key_NP_disjoint _ _ _ Hk).
        + intros t m Ht Hm. rewrite nc_entry in Ht. injection Ht as <-. apply Hprod.
          unfold produced. rewrite beqb_refl, Hm. left. reflexivity. }
    change (exec E F_CREATE i) with (f_nft_create E i) in Hx.
    apply (f_nft_create_spec E Hc) in Hx. destruct Hx.
    subst o. apply outp_add_log, outp_set_returnData, outp_mk.
  Qed.

  (* ESDTNFTAddURI / ESDTNFTUpdateAttributes: the caller's own entry is rewritten with the produced value *)
  Lemma PInv_update i s s' (g : metadata -> metadata) :
    PInv V E s -> valid_id (argn i 0) -> ids_valid E s' ->
    (forall m, own_meta i s = Some m -> V (argn i 0) (bigU64 (argn i 1)) (g m)) ->
    (let key := nft_key (P ++ argn i 0) (bigU64 (argn i 1)) in
     exists t m v,
         tok_at E s (i_caller i) key = Some t /\ t_meta t = Some m /\ t_value t = Some v
         /\ tok_at E s' (i_caller i) key = (if (v <=? 0)%Z then None else Some (set_meta t (Some (g m))))
         /\ (forall a k, ~ (a = i_caller i /\ k = key) -> cell s' a k = cell s a k)
         /\ (forall a, acct_fields_eq (acct s' a) (acct s a))) ->
    PInv V E s'.
  Proof.
    intros Hs Hv0 Hids' Hprod (t & m & v & Ht & Hm & _ & Ht' & Hfr & _).
    apply PInv_iff. split; [exact Hids'|].
    apply (prov_one_cell s s' (i_caller i) (argn i 0) (bigU64 (argn i 1)) Hv0 (PInv_prov V E s Hs)).
    - intros a tok n Hn. unfold tok_at. rewrite Hfr; [reflexivity|]. exact Hn.
    - intros t1 m1 Ht1 Hm1. rewrite Ht' in Ht1. destruct (v <=? 0)%Z; [discriminate|]. injection Ht1 as <-.
      cbn [set_meta t_meta] in Hm1. injection Hm1 as <-. apply Hprod. unfold own_meta. rewrite Ht. exact Hm.
  Qed.

  Theorem PInv_add_uri i s o s' :
    PInv V E s -> call_ids F_ADDURI i -> produced_ok F_ADDURI i s ->
    exec E F_ADDURI i s = (Ok o, s') -> PInv V E s' /\ okout i o.
  Proof.
    intros Hs Hids Hprod Hx. pose proof (call_ids_arg0 BAddUri i eq_refl Hids) as Hv0.
    pose proof (PInv_ids V E s Hs) as Hiv.
    assert (Hlc : lookup_consistent E s (i_caller i) (P ++ argn i 0) (bigU64 (argn i 1)))
      by (apply ids_valid_lookup_consistent; assumption).
    split.
    - destruct (add_uri_effect_exec E Hc i s o s' Hx Hlc) as (_ & _ & _ & _ & Heff).
      eapply (PInv_update i s s' (fun m => set_uris m (md_uris m ++ skipn 2 (i_args i)))); eauto.
      + eapply ids_valid_exec; eauto.
      + intros m Hm. apply Hprod. unfold produced.
        replace (beqb F_ADDURI F_CREATE) with false by (vm_compute; reflexivity). rewrite beqb_refl, Hm. left. reflexivity.
    - change (exec E F_ADDURI i) with (f_nft_add_uri E i) in Hx.
      apply (f_nft_add_uri_spec E Hc) in Hx as (t0 & m0 & v0 & Hx). destruct Hx. subst o. apply outp_add_log, outp_mk.
  Qed.
  Theorem PInv_update_attributes i s o s' :
    PInv V E s -> call_ids F_UPDATTR i -> produced_ok F_UPDATTR i s ->
    exec E F_UPDATTR i s = (Ok o, s') -> PInv V E s' /\ okout i o.
  Proof.
    intros Hs Hids Hprod Hx. pose proof (call_ids_arg0 BUpdateAttributes i eq_refl Hids) as Hv0.
    pose proof (PInv_ids V E s Hs) as Hiv.
    assert (Hlc : lookup_consistent E s (i_caller i) (P ++ argn i 0) (bigU64 (argn i 1)))
      by (apply ids_valid_lookup_consistent; assumption).
    split.
    - destruct (update_attributes_effect_exec E Hc i s o s' Hx Hlc) as (_ & _ & _ & _ & Heff).
      eapply (PInv_update i s s' (fun m => set_attributes m (argn i 2))); eauto.
      + eapply ids_valid_exec; eauto.
      + intros m Hm. apply Hprod. unfold produced.
        replace (beqb F_UPDATTR F_CREATE) with false by (vm_compute; reflexivity).
        replace (beqb F_UPDATTR F_ADDURI) with false by (vm_compute; reflexivity). rewrite beqb_refl, Hm. left. reflexivity.
    - change (exec E F_UPDATTR i) with (f_nft_update_attributes E i) in Hx.
      apply (f_nft_update_attributes_spec E Hc) in Hx as (t0 & m0 & v0 & Hx). destruct Hx. subst o. apply outp_add_log, outp_mk.
  Qed.
End Funcs.
