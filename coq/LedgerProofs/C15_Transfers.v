(* C15 (well-formed token state), part 3: the three transfer functions keep the invariant on both execution
   sides (the destination side under [payload_disciplined]: a decodable NFT payload is well-shaped -- payloads
   of messages emitted by successful sender-side executions are, see [out_ok]), and the theorem about [exec]:
   [Inv_exec], for all 23 functions. *)
From Coq Require Import Lia.
From EV Require Import Base.Bytes Base.Store Base.Monad gen.Consts Codec.Types Helpers.Helpers
  Ledger.Types Ledger.Env Ledger.Funcs Ledger.Transfers LedgerProofs.Defs LedgerProofs.EnvSpec
  LedgerProofs.C15_Inv LedgerProofs.C15_Funcs.

Lemma skipn_three {A} (l : list A) : forall n x y z,
  nth_error l n = Some x -> nth_error l (n + 1) = Some y -> nth_error l (n + 2) = Some z ->
  skipn n l = x :: y :: z :: skipn (n + 3) l.
Proof.
  induction l as [|h l IH]; intros n x y z Hx Hy Hz; [destruct n; discriminate|].
  destruct n as [|n].
  - cbn in *. destruct l as [|h1 [|h2 l]]; try discriminate. cbn in *. congruence.
  - cbn [nth_error Nat.add skipn] in *. apply IH; assumption.
Qed.

Lemma bigU64_zero_byte : bigU64 [x00] = 0%N. Proof. reflexivity. Qed.

Section Transfers.
  Variable E : env.
  Hypothesis Hc : codec_ok (cdc E).
  Hypothesis Hf : flag_undec (cdc E).
  Notation okout i := (out_ok E i).
  Notation cd := (cdc E).

  Lemma out_ok_aot_esdt_transfer i sender A dst gl ct o :
    out_ok E i (add_output_transfer sender C.BuiltInFunctionESDTTransfer A dst gl ct o).
  Proof. apply out_ok_aot_msg; [cbn; auto 10|apply msg_ok_esdt_transfer]. Qed.
  Hint Resolve out_ok_aot_esdt_transfer : outdb.

  (* ---------------- ESDTTransfer: every input ---------------- *)
  Lemma keeps_f_esdt_transfer i : keeps E (f_esdt_transfer E i) (okout i).
  Proof. unfold f_esdt_transfer. keeps_tac E Hc Hf. all: out_tac. Qed.

  Lemma payload_shaped_enc t : wf_token t -> shape_ok t -> payload_shaped cd (enc_tok cd t).
  Proof. intros Hw Hs t' Hd. rewrite (dec_enc_tok _ Hc t Hw) in Hd. injection Hd as <-. exact Hs. Qed.

  (* ---------------- ESDTNFTTransfer ---------------- *)
  Lemma keeps_f_nft_transfer_sender i : (4 <= alen (i_args i))%N -> keeps E (f_nft_transfer_sender E i) (okout i).
  Proof.
    intros Hlen. unfold f_nft_transfer_sender. keeps_tac0 E Hc Hf.
    keeps_ifT E; [keeps_tac0 E Hc Hf..|]. keeps_tac0 E Hc Hf.
    eapply (keeps_bind E) with (Q := fun t2 : token => wf_token t2 /\ shape_ok t2).
    { keeps_tac0 E Hc Hf.
      - match goal with H : exists v, _ = set_value _ (Some v) |- _ => destruct H as (v & ->) end.
        split; shape_solve.
      - split; shape_solve. }
    intros t2 [Hw2 Hs2]. keeps_tac0 E Hc Hf.
    eapply (keeps_bind E) with (Q := fun l => l = firstn 3 (i_args i)).
    { match goal with |- keeps _ (if ?b then _ else _) _ => destruct b end; [apply (keeps_ret_eq E)|apply (keeps_panic E)]. }
    intros first3 ->.
    keeps_ifT E; [keeps_tac0 E Hc Hf..|].
    eapply (keeps_bind E) with (Q := okout i).
    { keeps_tac E Hc Hf.
      - (* cross-shard: the message *)
        apply out_ok_ant_msg; [cbn; auto 10|]. apply msg_ok_nft. intros b Hb.
        assert (Hl3 : length (firstn 3 (i_args i)) = 3%nat) by (rewrite firstn_length; unfold alen in Hlen; lia).
        rewrite nth_error_app2 in Hb by lia. rewrite Hl3 in Hb. cbn in Hb. injection Hb as <-.
        subst. apply payload_shaped_enc; assumption.
      - apply out_ok_aot_same.
        match goal with H : negb (_ =? _)%N = false |- _ => apply Bool.negb_false_iff, N.eqb_eq in H; symmetry; exact H end.
      - out_tac. }
    intros o Ho. keeps_tac0 E Hc Hf. apply out_ok_add_log. exact Ho.
  Qed.

  Lemma keeps_f_nft_transfer i :
    (dest_side i -> nft_args_shaped cd (i_args i)) -> keeps E (f_nft_transfer E i) (okout i).
  Proof.
    intros Hin. unfold f_nft_transfer. do 2 (keeps_step0 E Hc Hf).
    destruct (beqb (i_caller i) (i_rcpt i)) eqn:Ecr.
    - apply keeps_f_nft_transfer_sender. lia.
    - keeps_tac0 E Hc Hf.
      match goal with Hd : dec_tok cd _ = Some ?t |- _ => assert (Hs : shape_ok t) end.
      { eapply Hin; [|eassumption|eassumption].
        split; [destruct (i_snd i); [discriminate|reflexivity]|]. intros He. rewrite He, beqb_refl in Ecr. discriminate. }
      keeps_tac0 E Hc Hf.
      eapply (keeps_bind E) with (Q := okout i).
      { keeps_tac E Hc Hf. all: out_tac. }
      intros o Ho. keeps_tac0 E Hc Hf. apply out_ok_add_log. exact Ho.
  Qed.

  (* ---------------- MultiESDTNFTTransfer ---------------- *)
  Definition tokshaped (p : bytes * token) : Prop := wf_token (snd p) /\ shape_ok (snd p).

  Lemma keeps_transfer_one_sender snd caller dstLocal dst tok nonce q verify rae :
    keeps E (transfer_one_sender E snd caller dstLocal dst tok nonce q verify rae)
          (fun t => wf_token t /\ shape_ok t).
  Proof.
    unfold transfer_one_sender. keeps_tac0 E Hc Hf.
    keeps_ifT E; [keeps_tac0 E Hc Hf..|]. keeps_tac0 E Hc Hf.
    - match goal with H : exists v, _ = set_value _ (Some v) |- _ => destruct H as (v & ->) end.
      split; shape_solve.
    - split; shape_solve.
  Qed.

  Lemma keeps_multi_sender_loop i dstLocal dst verify :
    forall fuel idx acc logs,
      Forall tokshaped acc ->
      keeps E (multi_sender_loop E fuel i dstLocal dst verify idx acc logs)
            (fun r => Forall tokshaped (fst r) /\ length (fst r) = (fuel + length acc)%nat).
  Proof.
    induction fuel as [|f IH]; intros idx acc logs Hacc.
    - cbn [multi_sender_loop]. apply (keeps_ret E). cbn [fst]. split; [apply Forall_rev; exact Hacc|].
      rewrite rev_length. reflexivity.
    - cbn [multi_sender_loop]. keeps_tac0 E Hc Hf.
      eapply (keeps_bind E); [apply keeps_transfer_one_sender|].
      keeps_intro. cbv zeta. eapply (keeps_weaken E).
      + apply IH. constructor; [split; assumption|exact Hacc].
      + cbv beta. intros r [H1 H2]. split; [exact H1|]. rewrite H2. cbn [length]. lia.
  Qed.

  Lemma keeps_multi_out_args i : forall l o acc, Forall tokshaped l -> okout i o ->
    keeps E (multi_out_args E l o acc)
          (fun r => okout i (snd r)
                    /\ exists L, fst r = acc ++ L /\ forall rest, triples_shaped cd (length l) (L ++ rest)).
  Proof.
    induction l as [|[tok t] r IH]; intros o acc Hl Ho.
    - cbn [multi_out_args]. apply (keeps_ret E). cbn [fst snd length]. split; [exact Ho|].
      exists []. split; [rewrite app_nil_r; reflexivity|intros; exact I].
    - inversion Hl as [|? ? [Hw Hs] Hr]; subst. cbn [snd] in *. cbn [multi_out_args].
      destruct (t_meta t) as [m|] eqn:Em.
      + eapply (keeps_bind E); [apply (keeps_marshal_tok E)|]. intros b ->.
        eapply (keeps_bind E); [apply (keeps_guard E)|]. intros _ _.
        eapply (keeps_weaken E); [apply IH; [exact Hr|apply out_ok_set_gasrem; exact Ho]|].
        cbv beta. intros x (H1 & L & HL & HT). split; [exact H1|].
        exists ([tok; u64_bytes (md_nonce m); enc_tok cd t] ++ L). split; [rewrite HL, <- app_assoc; reflexivity|].
        intros rest. cbn [length app triples_shaped]. split; [|apply HT].
        intros _. apply payload_shaped_enc; assumption.
      + eapply (keeps_bind E); [apply (keeps_val_of E)|]. intros v _.
        eapply (keeps_weaken E); [apply IH; [exact Hr|exact Ho]|].
        cbv beta. intros x (H1 & L & HL & HT). split; [exact H1|].
        exists ([tok; [x00]; Z_bytes v] ++ L). split; [rewrite HL, <- app_assoc; reflexivity|].
        intros rest. cbn [length app triples_shaped]. split; [|apply HT].
        rewrite bigU64_zero_byte. lia.
  Qed.

  Lemma keeps_f_multi_transfer_sender i : keeps E (f_multi_transfer_sender E i) (okout i).
  Proof.
    unfold f_multi_transfer_sender. keeps_tac0 E Hc Hf.
    keeps_ifT E; [keeps_tac0 E Hc Hf..|].
    match goal with H : nth_error (i_args i) (N.to_nat 1) = Some ?a1 |- _ => set (n := bigU64 a1) in * end.
    do 3 (eapply (keeps_bind E); [apply (keeps_alloc E)|intros _ _]).
    eapply (keeps_bind E); [apply keeps_multi_sender_loop; constructor|].
    intros [lst logs] [Hl Hlen]. cbn [fst length] in Hl, Hlen. rewrite Nat.add_0_r in Hlen.
    keeps_ifT E; [keeps_tac0 E Hc Hf..|].
    eapply (keeps_bind E); [apply (keeps_alloc E)|intros _ _].
    eapply (keeps_bind E); [apply (keeps_multi_out_args i); [exact Hl|out_tac]|].
    intros [args' o] (Ho & L & HL & HT). cbn [fst snd] in *. subst args'.
    keeps_ifT E; [keeps_tac0 E Hc Hf..|]. cbv zeta.
    match goal with |- keeps _ (if ?b then _ else _) _ => destruct b eqn:Esame end.
    - (* cross-shard: the message *)
      apply (keeps_ret E).
      apply out_ok_ant_msg; [cbn; auto 10|]. apply msg_ok_multi. intros a00 Ha0.
      cbn in Ha0. injection Ha0 as <-. rewrite bigU64_u64_bytes, u64_small by apply bigU64_lt.
      cbn [app skipn]. rewrite <- Hlen. apply HT.
    - apply Bool.negb_false_iff, N.eqb_eq in Esame.
      keeps_tac E Hc Hf; [apply out_ok_aot_same; symmetry; exact Esame|exact Ho].
  Qed.

  Lemma keeps_multi_dest_loop i minArgs :
    forall fuel idx logs,
      triples_shaped cd fuel (skipn (N.to_nat (1 + idx * 3)) (i_args i)) ->
      keeps E (multi_dest_loop E fuel i minArgs idx logs) (fun _ => True).
  Proof.
    induction fuel as [|f IH]; intros idx logs Hb.
    - cbn [multi_dest_loop]. apply (keeps_ret E). exact I.
    - cbn [multi_dest_loop]. unfold apt, C.bif_argumentsPerTransfer. keeps_tac0 E Hc Hf.
      eapply (keeps_bind E) with
        (Q := fun _ => exists z, nth_error (i_args i) (N.to_nat (1 + idx * 3 + 2)) = Some z).
      + match goal with |- keeps _ (if ?b then _ else _) _ => destruct b eqn:Epos end.
        * keeps_tac0 E Hc Hf.
          match goal with Hd : dec_tok cd ?b = Some ?t |- _ => assert (Hs : shape_ok t) end.
          { erewrite skipn_three in Hb; [| |replace (N.to_nat (1 + idx * 3) + 1)%nat with (N.to_nat (1 + idx * 3 + 1)) by lia|
                                           replace (N.to_nat (1 + idx * 3) + 2)%nat with (N.to_nat (1 + idx * 3 + 2)) by lia];
              [|eassumption..].
            cbn [triples_shaped] in Hb. destruct Hb as [Hb _]. eapply Hb; [lia|eassumption]. }
          keeps_tac0 E Hc Hf. eauto.
        * keeps_tac0 E Hc Hf. eauto.
      + intros _ [z Hz]. cbv zeta. apply IH.
        erewrite skipn_three in Hb; [| |replace (N.to_nat (1 + idx * 3) + 1)%nat with (N.to_nat (1 + idx * 3 + 1)) by lia|
                                         replace (N.to_nat (1 + idx * 3) + 2)%nat with (N.to_nat (1 + idx * 3 + 2)) by lia];
          [|eassumption..].
        cbn [triples_shaped] in Hb. destruct Hb as [_ Hb].
        replace (N.to_nat (1 + (idx + 1) * 3)) with (N.to_nat (1 + idx * 3) + 3)%nat by lia. exact Hb.
  Qed.

  Lemma keeps_f_multi_transfer i :
    (dest_side i -> multi_args_shaped cd (i_args i)) -> keeps E (f_multi_transfer E i) (okout i).
  Proof.
    intros Hin. unfold f_multi_transfer. do 2 (keeps_step0 E Hc Hf).
    destruct (beqb (i_caller i) (i_rcpt i)) eqn:Ecr.
    - apply keeps_f_multi_transfer_sender.
    - keeps_tac0 E Hc Hf.
      assert (Hds : dest_side i).
      { split; [destruct (i_snd i); [discriminate|reflexivity]|]. intros He. rewrite He, beqb_refl in Ecr. discriminate. }
      eapply (keeps_bind E).
      { apply keeps_multi_dest_loop. change (N.to_nat (1 + 0 * 3)) with 1%nat. apply (Hin Hds). assumption. }
      intros logs _. keeps_tac E Hc Hf. all: out_tac.
  Qed.

  (* ---------------- exec ---------------- *)
  Theorem keeps_exec f i :
    f <> C.BuiltInFunctionSetESDTRole -> payload_disciplined E f i -> keeps E (exec E f i) (okout i).
  Proof.
    intros Hnr Hin. unfold exec.
    repeat match goal with |- keeps _ (if beqb f ?c then _ else _) _ => destruct (beqb_spec f c) as [Heq|?] end.
    all: try solve [ first
      [ apply keeps_f_claim_rewards | apply keeps_f_change_owner | apply keeps_f_set_user_name
      | apply keeps_f_save_key_value | apply keeps_f_pause | apply keeps_f_esdt_transfer
      | apply keeps_f_esdt_burn | apply keeps_f_freeze_wipe | apply keeps_f_roles_unset
      | apply keeps_f_local_burn | apply keeps_f_local_mint | apply keeps_f_nft_add_quantity
      | apply keeps_f_nft_burn | apply keeps_f_nft_create | apply keeps_f_create_role_transfer
      | apply keeps_f_nft_update_attributes | apply keeps_f_nft_add_uri | apply (keeps_fail E) ]; assumption ].
    - contradiction.
    - apply keeps_f_nft_transfer. intros Hd. apply (Hin Hd). exact Heq.
    - apply keeps_f_multi_transfer. intros Hd. apply (Hin Hd). exact Heq.
  Qed.
End Transfers.

(* ---------------- the theorems about [exec] ---------------- *)
(* every successful call of any of the 23 functions, on ANY input that respects the two disciplines (roles given
   to ESDTSetRole are new and distinct; a destination-side NFT payload is well-shaped), re-establishes the
   invariant, and the transfers it emits are [out_ok] *)
Theorem Inv_exec_out E f i s o s' :
  codec_ok (cdc E) -> flag_undec (cdc E) -> Inv E s -> disciplined E s f i ->
  exec E f i s = (Ok o, s') -> Inv E s' /\ out_ok E i o.
Proof.
  intros Hc Hf Hs [Hr Hp] Hx.
  destruct (beqb_spec f C.BuiltInFunctionSetESDTRole) as [->|Hne].
  - change (exec E C.BuiltInFunctionSetESDTRole i) with (f_roles E true i) in Hx.
    eapply Inv_f_roles_set; eauto.
  - apply (keeps_ok E _ _ _ _ _ (keeps_exec E Hc Hf f i Hne Hp) Hs Hx).
Qed.

Theorem Inv_exec E f i s o s' :
  codec_ok (cdc E) -> flag_undec (cdc E) -> Inv E s -> disciplined E s f i ->
  exec E f i s = (Ok o, s') -> Inv E s'.
Proof. intros Hc Hf Hs Hd Hx. eapply Inv_exec_out; eauto. Qed.

(* origin-side calls (the caller's account lives on the executing shard) carry no payload obligation *)
Lemma origin_payload_disciplined E f i : i_snd i = true -> payload_disciplined E f i.
Proof. intros H [H' _]. congruence. Qed.
(* only ESDTSetRole has a role obligation *)
Lemma other_roles_disciplined E s f i : f <> C.BuiltInFunctionSetESDTRole -> roles_disciplined E s f i.
Proof. intros H H'. contradiction. Qed.

Print Assumptions Inv_exec_out.
