(* C01 liveness, non-vacuity (ideal_codec, which is codec_ok; the two-shard world w0 of C01_Examples.v: alice on
   shard 0 holds 5 TOK and 3 of NFT#1; bob on shard 1 ALREADY holds 7 TOK and 1 of NFT#1).
   Single NFT:
     wN1            alice sends 2 of NFT#1 to bob: message 0 in flight
     ex_nft_accepted          deliver_accepted_nft applies to (wN1, message 0): delivered, bob holds 3
     wF1            after the emission bob's entry is FROZEN (ESDTFreeze addressed to "NFT-d4e5f6 || 01" on shard 1), and on
                    alice's shard her remaining entry is frozen and the token PAUSED
     ex_nft_rejected_refund   rejected_then_refund_nft applies: delivery rejected (EFrozenForAccount), marked failed; the
                              refund succeeds although frozen and paused; alice holds 3 again (nft_rejected_refund_restores:
                              = her balance before the transfer)
   Mixed multi-transfer (1 of NFT#1 and 3 TOK):
     ex_multi_accepted        deliver_accepted_multi applies (through dest_ready_distinct)
     ex_multi_rejected_refund bob's TOK entry frozen after the emission: the SECOND triple is rejected, the whole delivery
                              is rolled back; the refund restores both of alice's holdings while her NFT entry is frozen
                              and TOK is paused on her shard. *)
From Coq.Strings Require Import String.
From EV Require Import Base.Bytes Base.Store Base.Monad gen.Consts Codec.Types Codec.Proto Codec.Ideal Codec.CodecOk
  Helpers.Helpers Ledger.Types Ledger.Env Ledger.Funcs Ledger.Transfers Ledger.World Corr.Exec
  LedgerProofs.Defs LedgerProofs.EnvSpec LedgerProofs.WorldDefs LedgerProofs.WorldSpec
  LedgerProofs.Spec_Transfers_Base LedgerProofs.Spec_Transfers_Esdt LedgerProofs.Spec_Transfers_Nft
  LedgerProofs.Spec_Transfers_Multi LedgerProofs.Spec_Transfers
  LedgerProofs.C01_World LedgerProofs.C01_Step LedgerProofs.C01_Exact LedgerProofs.C01_Check LedgerProofs.C01_Live
  LedgerProofs.C01_Examples LedgerProofs.C10_Emit LedgerProofs.C10_Parser LedgerProofs.C10_Accept
  LedgerProofs.Live_World LedgerProofs.Live_Nft LedgerProofs.Live_Multi LedgerProofs.Live_MultiRefund.

(* a call by the system contract (freeze / pause), executed on the shard of the target account *)
Definition sysin (rcpt : bytes) (args : list bytes) : input :=
  {| i_caller := SC; i_rcpt := rcpt; i_args := args; i_value := 0; i_gas := 100000; i_gasLocked := 0;
     i_callType := C.DirectCall; i_rae := false; i_snd := false; i_dst := true |}.
Definition nft1 : bytes := nftA ++ u64_bytes 1.            (* "token id || nonce": the key of the NFT entry *)
Definition msg_dummy : msg := Build_msg 0 [] [] [] [] 0 0 0 0 [].
Definition first_msg (w : world) : msg := hd msg_dummy (inflight w).
Definition E0 : env := env_at c0 0.
Definition E1 : env := env_at c0 1.

Ltac by_compute := vm_compute; reflexivity.
Ltac by_neq := let H := fresh in intros H; vm_compute in H; discriminate H.
Ltac rejected := let o := fresh in let s := fresh in let H := fresh in intros o s H; vm_compute in H; discriminate H.

(* ================================================================ *)
(* single NFT                                                         *)
(* ================================================================ *)
Definition iNft : input := mkin alice alice [nftA; u64_bytes 1; u64_bytes 2; bob] true true.
Definition wN1 : world := wstep c0 w0 (OCall 0 C.BuiltInFunctionESDTNFTTransfer iNft).
Definition mN : msg := first_msg wN1.

Example ex_nft_emitted : inflight wN1 = [mN] /\ m_id mN = 0%nat /\ m_dest mN = bob /\ m_sender mN = alice
  /\ nft_msg c0 mN (nf 1 2) /\ nmsg_key mN (nf 1 2) = kNft /\ wbal c0 wN1 alice kNft = 1%Z.
Proof.
  split; [by_compute|]. split; [by_compute|]. split; [by_compute|]. split; [by_compute|]. split; [|split; by_compute].
  split; [by_compute|]. split; [vm_compute; discriminate|]. split; [by_compute|]. split; discriminate.
Qed.

Lemma wN1_inv : WInv c0 wN1. Proof. apply winv_b_ok. by_compute. Qed.
Lemma mN_msg : nft_msg c0 mN (nf 1 2). Proof. apply ex_nft_emitted. Qed.

(* the theorem applies: the dynamic conditions hold at bob's shard (payable, holds 1 of the same NFT with the same hash,
   nothing frozen, nothing paused) *)
Example ex_nft_accepted :
  let w' := wstep c0 wN1 (ODeliver 0 100000) in
  inflight w' = [] /\ failed w' = [] /\ wbal c0 wN1 bob kNft = 1%Z /\ wbal c0 w' bob kNft = 3%Z.
Proof.
  destruct (deliver_accepted_nft c0 c0_ok wN1 0 100000 mN (nf 1 2) wN1_inv) as (H1 & H2 & H3 & _).
  - by_compute.
  - exact mN_msg.
  - by_compute.
  - intros _. by_compute.
  - right. exists (nf 1 1). split; [by_compute|]. split; [discriminate|].
    intros cm Hcm. inversion Hcm; subst cm. exists (md 1). split; reflexivity.
  - intros _. repeat split; by_compute.
  - change (m_dest mN) with bob in H3. change (nmsg_key mN (nf 1 2)) with kNft in H3.
    cbv zeta. rewrite H1, H2, H3. split; [by_compute|]. split; [by_compute|]. split; by_compute.
Qed.

(* ---- frozen after the emission ---- *)
Definition wF1 : world := wrun c0 wN1
  [OCall 1 C.BuiltInFunctionESDTFreeze (sysin bob [nft1]);        (* bob's entry of NFT#1 frozen *)
   OCall 0 C.BuiltInFunctionESDTFreeze (sysin alice [nft1]);      (* alice's remaining entry frozen *)
   OCall 0 C.BuiltInFunctionESDTPause (sysin SYS [nftA])].        (* the token paused on alice's shard *)

Example ex_nft_frozen_world :
  inflight wF1 = [mN]
  /\ frozen_at E1 (mk_state (shard_accts wF1 1)) bob kNft = true
  /\ frozen_at E0 (mk_state (shard_accts wF1 0)) alice kNft = true
  /\ paused_at (mk_state (shard_accts wF1 0)) (P ++ nftA) = true
  /\ wbal c0 wF1 alice kNft = 1%Z /\ wbal c0 wF1 bob kNft = 1%Z
  /\ fst (exec E1 (m_fn mN) (deliver_input c0 mN 1 100000) (mk_state (shard_accts wF1 1))) = Err EFrozenForAccount.
Proof. do 6 (split; [by_compute|]). by_compute. Qed.

Lemma wF1_inv : WInv c0 wF1. Proof. apply winv_b_ok. by_compute. Qed.

Example ex_nft_rejected_refund :
  let w1 := wstep c0 wF1 (ODeliver 0 100000) in
  let w2 := wstep c0 w1 (ORefund 0 100000) in
  shards w1 = shards wF1 /\ inflight w1 = [mN] /\ failed w1 = [0%nat]
  /\ inflight w2 = [] /\ failed w2 = []
  /\ wbal c0 w2 alice kNft = 3%Z /\ wbal c0 w2 bob kNft = 1%Z
  /\ forall k, total c0 k w2 = total c0 k wF1.
Proof.
  destruct (rejected_then_refund_nft c0 c0_ok wF1 0 100000 100000 mN (nf 1 2) wF1_inv) as (H1 & H2 & H3 & H4 & H5 & H6 & H7 & H8).
  - by_compute.
  - exact mN_msg.
  - by_compute.
  - by_compute.
  - rejected.
  - (* alice's remaining entry: 1 of NFT#1, frozen, same hash *)
    right. eexists. split; [by_compute|]. split; [discriminate|].
    intros cm Hcm. inversion Hcm; subst cm. exists (md 1). split; reflexivity.
  - change (m_sender mN) with alice in H6, H7. change (nmsg_key mN (nf 1 2)) with kNft in H6, H7.
    cbv zeta. split; [exact H1|]. split; [rewrite H2; by_compute|]. split; [by_compute|].
    split; [rewrite H4; by_compute|]. split; [by_compute|].
    split; [rewrite H6; by_compute|]. split; [|exact H8].
    rewrite H7; [by_compute|]. left. discriminate.
Qed.

(* the composition theorem applies too: the balance after the refund is the balance BEFORE the transfer *)
Example ex_nft_restored :
  let w2 := wstep c0 (wstep c0 wF1 (ODeliver 0 100000)) (ORefund 0 100000) in
  wbal c0 w2 alice kNft = wbal c0 w0 alice kNft /\ wbal c0 w0 alice kNft = 3%Z.
Proof.
  cbv zeta. split; [|by_compute].
  destruct (exec E0 C.BuiltInFunctionESDTNFTTransfer iNft (mk_state (shard_accts w0 0))) as [[o| |] s1] eqn:Hex;
    try (exfalso; vm_compute in Hex; discriminate Hex).
  destruct (nft_rejected_refund_restores c0 c0_ok 0 (shard_accts w0 0) iNft 0 o s1 mN wF1 0 100000 100000) as (_ & _ & Hb & _).
  - repeat split.
  - intros t Ht. vm_compute in Ht. inversion Ht; subst t. reflexivity.
  - exact Hex.
  - assert (Ho : o = match fst (exec E0 C.BuiltInFunctionESDTNFTTransfer iNft (mk_state (shard_accts w0 0))) with Ok x => x | _ => o end)
      by (rewrite Hex; reflexivity).
    rewrite Ho. vm_compute. left. reflexivity.
  - exact wF1_inv.
  - by_compute.
  - by_compute.
  - by_compute.
  - assert (Hs : s1 = snd (exec E0 C.BuiltInFunctionESDTNFTTransfer iNft (mk_state (shard_accts w0 0)))) by (rewrite Hex; reflexivity).
    rewrite Hs. by_compute.
  - intros t0 Ht0. vm_compute in Ht0. inversion Ht0; subst t0.
    right. eexists. split; [by_compute|]. split; [discriminate|].
    intros cm Hcm. inversion Hcm; subst cm. exists (md 1). split; reflexivity.
  - rejected.
  - change (nft_cell iNft) with kNft in Hb. change (i_caller iNft) with alice in Hb. rewrite Hb. rewrite wbal_state. reflexivity.
Qed.

(* ================================================================ *)
(* mixed multi-transfer: 1 of NFT#1 and 3 TOK                         *)
(* ================================================================ *)
Definition iMul : input := mkin alice alice [bob; u64_bytes 2; nftA; u64_bytes 1; u64_bytes 1; tokA; []; u64_bytes 3] true true.
Definition wM1 : world := wstep c0 w0 (OCall 0 C.BuiltInFunctionMultiESDTNFTTransfer iMul).
Definition mM : msg := first_msg wM1.
Definition trNft : rawtriple := (nftA, u64_bytes 1, enc_tok ideal_codec (nf 1 1)).     (* NFT triple: payload *)
Definition trTok : rawtriple := (tokA, [x00], u64_bytes 3).                            (* fungible triple: quantity *)

Example ex_multi_emitted : inflight wM1 = [mM] /\ m_id mM = 0%nat /\ m_dest mM = bob /\ m_sender mM = alice
  /\ mmsg_n c0 mM = 2%N /\ mmsg_triples c0 mM = [trNft; trTok]
  /\ map (dest_cell E1) (mmsg_triples c0 mM) = [kNft; kTok]
  /\ credits c0 mM = [(kNft, 1%Z); (kTok, 3%Z)]
  /\ wbal c0 wM1 alice kNft = 2%Z /\ wbal c0 wM1 alice kTok = 2%Z.
Proof. do 9 (split; [by_compute|]). by_compute. Qed.

Lemma wM1_inv : WInv c0 wM1. Proof. apply winv_b_ok. by_compute. Qed.
Lemma mM_triples : mmsg_triples c0 mM = [trNft; trTok]. Proof. apply ex_multi_emitted. Qed.
Lemma mM_shd : wc_shard_of c0 (m_dest mM) = 1%N. Proof. by_compute. Qed.
Lemma mM_shs : wc_shard_of c0 (m_sender mM) = 0%N. Proof. by_compute. Qed.
Lemma cells_distinct : NoDup [kNft; kTok].
Proof. constructor; [intros [H|[]]; discriminate H|]. constructor; [intros []|constructor]. Qed.

(* the static part (C10's guards + the count bound), by computation here; emitted_multi_wf proves it of every emitted message *)
Lemma mM_msg : multi_msg c0 mM.
Proof.
  split; [by_compute|]. split; [vm_compute; discriminate|].
  unfold multi_dest_guards, delivered_shape.
  split; [split; [by_compute|split; [by_compute|split; [by_compute|intros H; vm_compute in H; discriminate H]]]|].
  split; [vm_compute; discriminate|]. split; [vm_compute; discriminate|]. split; [vm_compute; discriminate|].
  split; [vm_compute; discriminate|]. split; [vm_compute; discriminate|].
  change (multi_dst_triples (mmsg_input c0 mM)) with (mmsg_triples c0 mM). rewrite mM_triples.
  constructor; [intros _; exists (nf 1 1); split; [by_compute|discriminate]|].
  constructor; [intros H; vm_compute in H; discriminate H|constructor].
Qed.

Example ex_multi_accepted :
  let w' := wstep c0 wM1 (ODeliver 0 100000) in
  inflight w' = [] /\ failed w' = []
  /\ wbal c0 wM1 bob kNft = 1%Z /\ wbal c0 w' bob kNft = 2%Z
  /\ wbal c0 wM1 bob kTok = 7%Z /\ wbal c0 w' bob kTok = 10%Z.
Proof.
  destruct (deliver_accepted_multi c0 c0_ok wM1 0 100000 mM wM1_inv) as (H1 & H2 & Hb).
  - by_compute.
  - exact mM_msg.
  - by_compute.
  - rewrite mM_triples, mM_shd. apply (dest_ready_distinct (env_at c0 1)).
    + replace (map (dest_cell (env_at c0 1)) [trNft; trTok]) with [kNft; kTok] by by_compute. exact cells_distinct.
    + intros _ _. by_neq.
    + constructor; [|constructor; [|constructor]].
      * apply (triple_ready_nft _ _ _ _ _ _ (nf 1 1)); [intros _; by_compute|by_compute|by_compute|discriminate| |].
        -- right. exists (nf 1 1). split; [by_compute|]. split; [discriminate|].
           intros cm Hcm. inversion Hcm; subst cm. exists (md 1). split; reflexivity.
        -- intros _ _. repeat split; by_compute.
      * apply triple_ready_fungible; [intros _; by_compute|by_compute| | |vm_compute; discriminate].
        -- right. exists (tk 7). split; [by_compute|]. split; [reflexivity|discriminate].
        -- intros _ _. split; by_compute.
  - cbv zeta. rewrite H1, H2, (Hb bob kNft), (Hb bob kTok). do 5 (split; [by_compute|]). by_compute.
Qed.

(* ---- bob's TOK entry frozen after the emission: the second triple is refused, the delivery is rolled back ---- *)
Definition wG1 : world := wrun c0 wM1
  [OCall 1 C.BuiltInFunctionESDTFreeze (sysin bob [tokA]);        (* bob's TOK entry frozen *)
   OCall 0 C.BuiltInFunctionESDTFreeze (sysin alice [nft1]);      (* alice's remaining NFT entry frozen *)
   OCall 0 C.BuiltInFunctionESDTPause (sysin SYS [tokA])].        (* TOK paused on alice's shard *)

Example ex_multi_frozen_world :
  inflight wG1 = [mM]
  /\ frozen_at E1 (mk_state (shard_accts wG1 1)) bob kTok = true
  /\ frozen_at E0 (mk_state (shard_accts wG1 0)) alice kNft = true
  /\ paused_at (mk_state (shard_accts wG1 0)) kTok = true
  /\ fst (exec E1 (m_fn mM) (deliver_input c0 mM 1 100000) (mk_state (shard_accts wG1 1))) = Err EFrozenForAccount.
Proof. do 4 (split; [by_compute|]). by_compute. Qed.

Lemma wG1_inv : WInv c0 wG1. Proof. apply winv_b_ok. by_compute. Qed.

Example ex_multi_rejected_refund :
  let w1 := wstep c0 wG1 (ODeliver 0 100000) in
  let w2 := wstep c0 w1 (ORefund 0 100000) in
  shards w1 = shards wG1 /\ inflight w1 = [mM] /\ failed w1 = [0%nat]
  /\ inflight w2 = [] /\ failed w2 = []
  /\ wbal c0 wG1 alice kNft = 2%Z /\ wbal c0 w2 alice kNft = 3%Z /\ wbal c0 w0 alice kNft = 3%Z
  /\ wbal c0 wG1 alice kTok = 2%Z /\ wbal c0 w2 alice kTok = 5%Z /\ wbal c0 w0 alice kTok = 5%Z
  /\ wbal c0 w2 bob kNft = 1%Z /\ wbal c0 w2 bob kTok = 7%Z
  /\ forall k, total c0 k w2 = total c0 k wG1.
Proof.
  destruct (rejected_then_refund_multi c0 c0_ok wG1 0 100000 100000 mM wG1_inv) as (H1 & H2 & H3 & H4 & H5 & Hb & Ht).
  - by_compute.
  - exact mM_msg.
  - by_compute.
  - by_compute.
  - rejected.
  - rewrite mM_triples, mM_shs. apply (dest_ready_distinct (env_at c0 0)).
    + replace (map (dest_cell (env_at c0 0)) [trNft; trTok]) with [kNft; kTok] by by_compute. exact cells_distinct.
    + intros H. discriminate H.
    + constructor; [|constructor; [|constructor]].
      * apply (triple_ready_nft _ _ _ _ _ _ (nf 1 1)); [intros H; discriminate H|by_compute|by_compute|discriminate| |intros H; discriminate H].
        right. eexists. split; [by_compute|]. split; [discriminate|].
        intros cm Hcm. inversion Hcm; subst cm. exists (md 1). split; reflexivity.
      * apply triple_ready_fungible; [intros H; discriminate H|by_compute| |intros H; discriminate H|vm_compute; discriminate].
        right. exists (tk 2). split; [by_compute|]. split; [reflexivity|discriminate].
  - cbv zeta. split; [exact H1|]. split; [rewrite H2; by_compute|]. split; [by_compute|].
    split; [rewrite H4; by_compute|]. split; [by_compute|].
    rewrite (Hb alice kNft), (Hb alice kTok), (Hb bob kNft), (Hb bob kTok).
    do 8 (split; [by_compute|]). exact Ht.
Qed.

(* ---- the composition theorem for the multi transfer applies: untouched cells (bob frozen, TOK paused at alice's shard;
        alice's own cells are what the transfer left) ---- *)
Definition wH1 : world := wrun c0 wM1
  [OCall 1 C.BuiltInFunctionESDTFreeze (sysin bob [tokA]);
   OCall 0 C.BuiltInFunctionESDTPause (sysin SYS [tokA])].
Lemma wH1_inv : WInv c0 wH1. Proof. apply winv_b_ok. by_compute. Qed.

Lemma iMul_consistent : triples_consistent E0 (mk_state (shard_accts w0 0)) alice (multi_snd_triples iMul).
Proof.
  replace (multi_snd_triples iMul) with [(nftA, u64_bytes 1, u64_bytes 1); (tokA, [], u64_bytes 3)] by by_compute.
  constructor; [|constructor; [|constructor]]; intros t Ht; vm_compute in Ht; inversion Ht; subst t; reflexivity.
Qed.

Example ex_multi_restored_untouched :
  let w2 := wstep c0 (wstep c0 wH1 (ODeliver 0 100000)) (ORefund 0 100000) in
  inflight w2 = [] /\ wbal c0 w2 alice kNft = wbal c0 w0 alice kNft /\ wbal c0 w2 alice kTok = wbal c0 w0 alice kTok
  /\ wbal c0 wH1 alice kNft = 2%Z /\ wbal c0 w0 alice kNft = 3%Z /\ wbal c0 wH1 alice kTok = 2%Z /\ wbal c0 w0 alice kTok = 5%Z.
Proof.
  cbv zeta.
  destruct (exec E0 C.BuiltInFunctionMultiESDTNFTTransfer iMul (mk_state (shard_accts w0 0))) as [[o| |] s1] eqn:Hex;
    try (exfalso; vm_compute in Hex; discriminate Hex).
  destruct (multi_rejected_refund_restores_untouched c0 c0_ok 0 (shard_accts w0 0) iMul 0 o s1 mM wH1 0 100000 100000)
    as (H1 & _ & Hb & _).
  - split; [reflexivity|]. split; reflexivity.
  - exact iMul_consistent.
  - replace (map rt_cell (multi_snd_triples iMul)) with [kNft; kTok] by by_compute. exact cells_distinct.
  - intros x t Hx Hn Ht.
    replace (multi_snd_triples iMul) with [(nftA, u64_bytes 1, u64_bytes 1); (tokA, [], u64_bytes 3)] in Hx by by_compute.
    destruct Hx as [<-|[<-|[]]]; [vm_compute in Hn; discriminate Hn|]. vm_compute in Ht. inversion Ht; subst t. reflexivity.
  - exact Hex.
  - assert (Ho : o = match fst (exec E0 C.BuiltInFunctionMultiESDTNFTTransfer iMul (mk_state (shard_accts w0 0))) with Ok x => x | _ => o end)
      by (rewrite Hex; reflexivity).
    rewrite Ho. vm_compute. left. reflexivity.
  - exact wH1_inv.
  - by_compute.
  - by_compute.
  - by_compute.
  - assert (Hs : s1 = snd (exec E0 C.BuiltInFunctionMultiESDTNFTTransfer iMul (mk_state (shard_accts w0 0)))) by (rewrite Hex; reflexivity).
    rewrite Hs. intros x Hx.
    replace (multi_snd_triples iMul) with [(nftA, u64_bytes 1, u64_bytes 1); (tokA, [], u64_bytes 3)] in Hx by by_compute.
    destruct Hx as [<-|[<-|[]]]; by_compute.
  - rejected.
  - split; [rewrite H1; by_compute|].
    assert (Hn : wbal c0 (wstep c0 (wstep c0 wH1 (ODeliver 0 100000)) (ORefund 0 100000)) alice kNft = wbal c0 w0 alice kNft).
    { replace kNft with (rt_cell (nftA, u64_bytes 1, u64_bytes 1)) by by_compute.
      change alice with (i_caller iMul) at 1. rewrite Hb; [|replace (multi_snd_triples iMul) with [(nftA, u64_bytes 1, u64_bytes 1); (tokA, [], u64_bytes 3)] by by_compute; left; reflexivity].
      rewrite wbal_state. reflexivity. }
    assert (Ht : wbal c0 (wstep c0 (wstep c0 wH1 (ODeliver 0 100000)) (ORefund 0 100000)) alice kTok = wbal c0 w0 alice kTok).
    { replace kTok with (rt_cell (tokA, [], u64_bytes 3)) by by_compute.
      change alice with (i_caller iMul) at 1. rewrite Hb; [|replace (multi_snd_triples iMul) with [(nftA, u64_bytes 1, u64_bytes 1); (tokA, [], u64_bytes 3)] by by_compute; right; left; reflexivity].
      rewrite wbal_state. reflexivity. }
    split; [exact Hn|]. split; [exact Ht|]. do 3 (split; [by_compute|]). by_compute.
Qed.

Print Assumptions ex_nft_accepted.
Print Assumptions ex_nft_rejected_refund.
Print Assumptions ex_nft_restored.
Print Assumptions ex_multi_accepted.
Print Assumptions ex_multi_rejected_refund.
Print Assumptions ex_multi_restored_untouched.
