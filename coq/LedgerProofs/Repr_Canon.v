(* C13 — representation independence, part 3: canonical forms, permutations, histories.

   dedup / canon_store / canon     a canonical form of a state: shadowed log entries and shadowed account
                                   entries dropped, empty ("deleted") cells dropped; [state_equiv s (canon s)].
   sget_perm / aget_perm           a log / an account list with distinct keys may be reordered freely.
   same_run                        the conclusion of exec_respects_equiv as a predicate on two start states;
   exec_canon, exec_account_order, exec_log_order      the corollaries for [exec].
   after_respects_equiv            two histories that reach extensionally equal states are indistinguishable
                                   by any later call and any later history ([after] of SliceModel/ExecDeterminism.v). *)
From Coq Require Import Permutation.
From EV Require Import Base.Bytes Base.Store Base.Monad gen.Consts Codec.Types Helpers.Helpers
  Ledger.Types Ledger.Env Ledger.Funcs Ledger.Transfers LedgerProofs.Defs LedgerProofs.Repr_Core LedgerProofs.Repr_Exec
  SliceModel.ExecDeterminism.

Local Transparent sget sput.

(* the storage log is read like an association list with default [] *)
Lemma sget_aget (s : store) k : sget s k = aget [] s k.
Proof. induction s as [|[k' v] r IH]; [reflexivity|]. cbn [sget aget]. rewrite IH. reflexivity. Qed.

Section Assoc.
  Context {A : Type}.
  Variable d : A.
  Notation al := (list (bytes * A)).

  Lemma in_or_not (a : bytes) (l : list bytes) : In a l \/ ~ In a l.
  Proof.
    induction l as [|b r [IH|IH]]; [right; intros []|left; right; exact IH|].
    destruct (beqb_spec a b) as [->|Hne]; [left; left; reflexivity|]. right. intros [H|H]; [congruence|contradiction].
  Qed.
  Lemma aget_notin (l : al) a : ~ In a (map fst l) -> aget d l a = d.
  Proof.
    induction l as [|[a' x] r IH]; [reflexivity|]. cbn [map fst aget]. intros H.
    destruct (beqb_spec a a') as [->|Hne]; [exfalso; apply H; left; reflexivity|]. apply IH. intros Hin. apply H. right. exact Hin.
  Qed.
  Lemma aget_in (l : al) a x : NoDup (map fst l) -> In (a, x) l -> aget d l a = x.
  Proof.
    induction l as [|[a' y] r IH]; [intros _ []|]. cbn [map fst aget]. intros Hnd [H|H].
    - inversion H; subst. rewrite beqb_refl. reflexivity.
    - inversion Hnd as [|? ? Hni Hnd']; subst. destruct (beqb_spec a a') as [->|Hne]; [|apply IH; assumption].
      exfalso. apply Hni. apply (in_map fst) in H. exact H.
  Qed.
  Lemma in_keys (l : al) a : In a (map fst l) -> exists x, In (a, x) l.
  Proof. intros H. apply in_map_iff in H as ([a' x] & Ha & Hin). cbn in Ha. subst a'. eauto. Qed.

  (* distinct keys: the order of the entries is immaterial *)
  Lemma aget_perm (l l' : al) a : NoDup (map fst l) -> Permutation l l' -> aget d l a = aget d l' a.
  Proof.
    intros Hnd Hp. assert (Hp' : Permutation (map fst l) (map fst l')) by (apply Permutation_map; exact Hp).
    assert (Hnd' : NoDup (map fst l')) by (eapply Permutation_NoDup; eauto).
    destruct (in_or_not a (map fst l)) as [Hin|Hni].
    - destruct (in_keys _ _ Hin) as [x Hx]. rewrite (aget_in l a x Hnd Hx).
      symmetry. apply aget_in; [exact Hnd'|]. eapply Permutation_in; eauto.
    - rewrite (aget_notin l a Hni). symmetry. apply aget_notin. intros H. apply Hni.
      eapply Permutation_in; [apply Permutation_sym; exact Hp'|exact H].
  Qed.

  (* drop every entry that an earlier entry with the same key shadows *)
  Fixpoint dedup (l : al) : al :=
    match l with
    | [] => []
    | (a, x) :: r => (a, x) :: filter (fun p => negb (beqb (fst p) a)) (dedup r)
    end.
  Lemma aget_filter_ne (l : al) a b : b <> a -> aget d (filter (fun p => negb (beqb (fst p) a)) l) b = aget d l b.
  Proof.
    intros Hne. induction l as [|[a' x] r IH]; [reflexivity|]. cbn [filter fst aget].
    destruct (beqb_spec a' a) as [->|Hn]; cbn [negb].
    - rewrite (beqb_false _ _ Hne). exact IH.
    - cbn [aget]. rewrite IH. reflexivity.
  Qed.
  Lemma aget_dedup (l : al) a : aget d (dedup l) a = aget d l a.
  Proof.
    induction l as [|[a' x] r IH]; [reflexivity|]. cbn [dedup aget].
    destruct (beqb_spec a a') as [->|Hne]; [reflexivity|]. rewrite aget_filter_ne by exact Hne. exact IH.
  Qed.
  Lemma in_filter_keys (f : bytes * A -> bool) (l : al) a : In a (map fst (filter f l)) -> In a (map fst l).
  Proof.
    intros H. apply in_map_iff in H as (p & Hp & Hin). apply filter_In in Hin as [Hin _].
    apply in_map_iff. exists p. split; assumption.
  Qed.
  Lemma NoDup_filter_keys (f : bytes * A -> bool) (l : al) : NoDup (map fst l) -> NoDup (map fst (filter f l)).
  Proof.
    induction l as [|p r IH]; [intros; constructor|]. cbn [map filter]. intros Hnd. inversion Hnd as [|? ? Hni Hnd']; subst.
    destruct (f p); [|apply IH; exact Hnd']. cbn [map]. constructor; [|apply IH; exact Hnd'].
    intros H. apply Hni. eapply in_filter_keys. exact H.
  Qed.
  Lemma dedup_NoDup (l : al) : NoDup (map fst (dedup l)).
  Proof.
    induction l as [|[a x] r IH]; [constructor|]. cbn [dedup map fst]. constructor.
    - intros H. apply in_map_iff in H as (p & Hp & Hin). apply filter_In in Hin as [_ Hf].
      rewrite Hp, beqb_refl in Hf. discriminate.
    - apply NoDup_filter_keys. exact IH.
  Qed.
End Assoc.

(* ---------------- canonical form of a storage log ---------------- *)
Definition live (kv : bytes * bytes) : bool := negb (beqb (snd kv) []).
Definition canon_store (s : store) : store := filter live (dedup s).

Lemma sget_filter_live (l : store) k : NoDup (map fst l) -> sget (filter live l) k = sget l k.
Proof.
  induction l as [|[k' v] r IH]; [reflexivity|]. cbn [map fst filter]. intros Hnd.
  inversion Hnd as [|? ? Hni Hnd']; subst. unfold live at 1. cbn [snd].
  destruct (beqb_spec v []) as [->|Hv]; cbn [negb].
  - rewrite (IH Hnd'). cbn [sget]. destruct (beqb_spec k k') as [->|Hne]; [|reflexivity].
    apply sget_notin. exact Hni.
  - cbn [sget]. rewrite (IH Hnd'). reflexivity.
Qed.
Lemma sget_canon_store s k : sget (canon_store s) k = sget s k.
Proof.
  unfold canon_store. rewrite sget_filter_live by apply dedup_NoDup.
  rewrite !sget_aget. apply aget_dedup.
Qed.
Lemma canon_store_NoDup s : NoDup (skeys (canon_store s)).
Proof. unfold canon_store, skeys. apply NoDup_filter_keys, dedup_NoDup. Qed.
Lemma canon_store_live s k v : In (k, v) (canon_store s) -> v <> [].
Proof.
  unfold canon_store. intros H. apply filter_In in H as [_ H]. unfold live in H. cbn [snd] in H.
  intros ->. discriminate.
Qed.
(* a log with distinct keys may be reordered *)
Lemma sget_perm (l l' : store) k : NoDup (skeys l) -> Permutation l l' -> sget l k = sget l' k.
Proof. intros Hnd Hp. rewrite !sget_aget. apply aget_perm; assumption. Qed.

(* ---------------- canonical form of a state ---------------- *)
Definition canon_account (x : account) : account := set_store x (canon_store (a_store x)).
Definition canon_accts (m : amap account) : amap account :=
  map (fun p => (fst p, canon_account (snd p))) (dedup m).
Definition canon (s : mstate) : mstate := with_accts s (canon_accts (accts s)).

Lemma acct_eq_canon_account x : acct_eq x (canon_account x).
Proof.
  split; [|repeat split]. intros k. unfold canon_account. cbn [set_store a_store]. symmetry. apply sget_canon_store.
Qed.
Lemma aget_map_canon (l : amap account) a :
  aget empty_account (map (fun p => (fst p, canon_account (snd p))) l) a = canon_account (aget empty_account l a).
Proof.
  induction l as [|[a' x] r IH]; [reflexivity|]. cbn [map fst snd aget]. destruct (beqb a a'); [reflexivity|exact IH].
Qed.
Lemma acct_canon s a : acct (canon s) a = canon_account (acct s a).
Proof. unfold acct, canon, canon_accts. cbn [with_accts accts]. rewrite aget_map_canon, aget_dedup. reflexivity. Qed.

Theorem state_equiv_canon s : state_equiv s (canon s).
Proof. intros a. rewrite acct_canon. apply acct_eq_canon_account. Qed.
Lemma calls_canon s : calls (canon s) = calls s. Proof. reflexivity. Qed.
(* the canonical form is canonical: distinct addresses, and in every account distinct keys and no empty cell *)
Theorem canon_is_canonical s :
  NoDup (map fst (accts (canon s)))
  /\ forall a, NoDup (skeys (a_store (acct (canon s) a)))
               /\ forall k v, In (k, v) (a_store (acct (canon s) a)) -> v <> [].
Proof.
  split.
  - unfold canon, canon_accts. cbn [with_accts accts]. rewrite map_map. cbn [fst]. apply (dedup_NoDup (accts s)).
  - intros a. rewrite acct_canon. unfold canon_account. cbn [set_store a_store].
    split; [apply canon_store_NoDup|apply canon_store_live].
Qed.
(* equivalent states are exactly the states that agree on every cell and every account field *)
Lemma state_equiv_iff s u :
  state_equiv s u <-> (forall a k, cell s a k = cell u a k) /\ (forall a, acct_fields_eq (acct s a) (acct u a)).
Proof.
  split.
  - intros H. split; [intros a k; apply (proj1 (H a))|intros a; apply (proj2 (H a))].
  - intros [H1 H2] a. split; [intros k; apply H1|apply H2].
Qed.

(* ---------------- corollaries for exec ---------------- *)
Definition same_run (E : env) (f : bytes) (i : input) (s u : mstate) : Prop :=
  let '(r1, s') := exec E f i s in
  let '(r2, u') := exec E f i u in
  r1 = r2 /\ state_equiv s' u' /\ calls s' = calls u' /\ (allocs s' - allocs s = allocs u' - allocs u)%N.

Lemma same_run_unfold E f i s u :
  same_run E f i s u <->
  (let '(r1, s') := exec E f i s in
   let '(r2, u') := exec E f i u in
   r1 = r2 /\ state_equiv s' u' /\ calls s' = calls u' /\ (allocs s' - allocs s = allocs u' - allocs u)%N).
Proof. reflexivity. Qed.
Lemma canon_equiv s : state_equiv s (canon s) /\ calls (canon s) = calls s.
Proof. split; [apply state_equiv_canon|reflexivity]. Qed.

Section Corollaries.
  Variable E : env.

  Lemma same_run_of_equiv f i s u : state_equiv s u -> calls s = calls u -> same_run E f i s u.
  Proof. exact (exec_respects_equiv E f i s u). Qed.

  (* compacting the logs and the account list does not change what a call does *)
  Theorem exec_canon f i s : same_run E f i s (canon s).
  Proof. apply same_run_of_equiv; [apply state_equiv_canon|reflexivity]. Qed.

  (* reordering the account list (distinct addresses) *)
  Lemma state_equiv_account_order s u :
    NoDup (map fst (accts s)) -> Permutation (accts s) (accts u) -> state_equiv s u.
  Proof.
    intros Hnd Hp a. unfold acct. rewrite (aget_perm empty_account _ _ a Hnd Hp). apply acct_eq_refl.
  Qed.
  Theorem exec_account_order f i s u :
    NoDup (map fst (accts s)) -> Permutation (accts s) (accts u) -> calls s = calls u -> same_run E f i s u.
  Proof. intros Hnd Hp Hc. apply same_run_of_equiv; [apply state_equiv_account_order; assumption|exact Hc]. Qed.

  (* reordering the storage log of every account (distinct keys), fields equal *)
  Definition log_perm (x y : account) : Prop :=
    NoDup (skeys (a_store x)) /\ Permutation (a_store x) (a_store y) /\ acct_fields_eq x y.
  Lemma log_perm_acct_eq x y : log_perm x y -> acct_eq x y.
  Proof. intros (Hnd & Hp & Hf). split; [intros k; apply sget_perm; assumption|exact Hf]. Qed.
  Theorem exec_log_order f i s u :
    (forall a, log_perm (acct s a) (acct u a)) -> calls s = calls u -> same_run E f i s u.
  Proof. intros H Hc. apply same_run_of_equiv; [|exact Hc]. intros a. apply log_perm_acct_eq, H. Qed.

  (* ---------------- histories on one shard ---------------- *)
  Lemma after_SE h : forall s u, SE s u -> SE (after E h s) (after E h u).
  Proof.
    induction h as [|[f i] r IH]; intros s u Hs; [exact Hs|]. cbn [after]. apply IH.
    destruct Hs as [Hs Hc]. pose proof (exec_respects_equiv E f i s u Hs Hc) as H.
    destruct (exec E f i s) as [r1 s']. destruct (exec E f i u) as [r2 u']. destruct H as (<- & H2 & _).
    destruct r1; cbn [settle]; [|split; assumption|split; assumption].
    split; [|reflexivity]. exact H2.
  Qed.
  (* "independent of earlier calls except through the state they left", up to representation: two histories
     that end in equivalent states cannot be told apart by any later call ... *)
  Theorem exec_after_respects_equiv h1 h2 s1 s2 f i :
    SE (after E h1 s1) (after E h2 s2) -> same_run E f i (after E h1 s1) (after E h2 s2).
  Proof. intros [Hs Hc]. apply same_run_of_equiv; assumption. Qed.
  (* ... nor by any later history *)
  Theorem after_respects_equiv h1 h2 s1 s2 h :
    SE (after E h1 s1) (after E h2 s2) -> SE (after E (h1 ++ h) s1) (after E (h2 ++ h) s2).
  Proof.
    assert (Happ : forall h1 h s, after E (h1 ++ h) s = after E h (after E h1 s)).
    { intros k1. induction k1 as [|[f i] r IH]; intros k s; [reflexivity|]. cbn [after app]. apply IH. }
    intros H. rewrite !Happ. apply after_SE. exact H.
  Qed.
End Corollaries.

Print Assumptions state_equiv_canon.
Print Assumptions canon_is_canonical.
Print Assumptions exec_canon.
Print Assumptions exec_account_order.
Print Assumptions exec_log_order.
Print Assumptions exec_after_respects_equiv.
Print Assumptions after_respects_equiv.
