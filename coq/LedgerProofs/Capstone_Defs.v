(* Capstone, part 1: ONE class of histories for all the world-level results.

   [honest_op c w op]: the operations a real node performs at world w
     - user transactions  OCall sh fn i : executed on the shard of the caller with the presence flags the shard table
       implies (WorldDefs.origin_call), the caller is not the ESDT system contract, fewer than 2^40 arguments, every
       token identifier the call names is [valid_id] (ticker '-' 6 bytes); ANY of the 23 function names (and unknown
       names), any arguments, any recipient.  One state condition remains: ESDTNFTCreate only when nothing is stored
       under the nonce about to be given out (C02's freshness condition);
     - system-contract calls  OCall sh fn i : caller = SC, no caller account, recipient account present, function among
       ESDTFreeze / ESDTUnFreeze / ESDTWipe / ESDTPause / ESDTUnPause / ESDTSetRole / ESDTUnSetRole /
       ESDTNFTCreateRoleTransfer / the issuing ESDTTransfer, valid identifier; the recipient lives on the executing
       shard (pause / unpause: the recipient is the system account, which is present on EVERY shard -- see
       [wstep_pause_dst] for how the conflict with C15's and ValidIds' shard condition is resolved);
       ESDTSetRole gives new, pairwise distinct roles (C15); ESDTPause / ESDTUnPause only when the system account
       holds nothing under the token key (F8);
     - ODeliver / ORefund of any id with any gas; no ORedeliver (F9).
   [JInv c w]: the JOINT invariant: Supply_Step.WInv' /\ C15_World.WInv /\ NoPanicWorld.PInv /\ ValidIds_World.VInv
   /\ C02_World.WNonNeg, plus one auxiliary clause about the NAMES of in-flight messages ([msg_fn_ok]: no message
   is named after a function that emits nothing -- needed because Supply's [call_ok] asks freshness / F8 of every
   executed ESDTNFTCreate / ESDTPause, a delivered one included).

   This file: definitions, the codec facts ([flag_undec] implies the three other flag hypotheses), frame lemmas. *)
From Coq.Strings Require Import String.
From Coq Require Import Lia List.
From EV Require Import Base.Bytes Base.Store Base.Monad gen.Consts Codec.Types Helpers.Helpers
  Ledger.Types Ledger.Env Ledger.Funcs Ledger.Transfers Ledger.World
  LedgerProofs.Defs LedgerProofs.EnvSpec LedgerProofs.WorldDefs LedgerProofs.WorldSpec
  LedgerProofs.Spec_Transfers_Base LedgerProofs.Spec_Transfers_Esdt LedgerProofs.Spec_Transfers_Nft
  LedgerProofs.Spec_Transfers_Multi LedgerProofs.Spec_Transfers LedgerProofs.Spec_Supply LedgerProofs.Spec_System
  LedgerProofs.C01_World LedgerProofs.C01_Step LedgerProofs.C01_Consistent
  LedgerProofs.C02_Effects LedgerProofs.C02_NonNeg LedgerProofs.C02_World
  LedgerProofs.C05_Footprint LedgerProofs.C07_Exec LedgerProofs.C07_Emit
  LedgerProofs.C15_Inv LedgerProofs.C15_Transfers LedgerProofs.C15_World
  LedgerProofs.NoPanic LedgerProofs.NoPanicWorldEmit LedgerProofs.NoPanicWorld
  LedgerProofs.Supply_Base LedgerProofs.Supply_Calls LedgerProofs.Supply_Step
  LedgerProofs.ValidIds_Id LedgerProofs.ValidIds_Inv LedgerProofs.ValidIds_Exec LedgerProofs.ValidIds_World.
Import ListNotations.

Notation FEsdt := C.BuiltInFunctionESDTTransfer.
Notation FPause := C.BuiltInFunctionESDTPause.
Notation FUnPause := C.BuiltInFunctionESDTUnPause.
Notation FFreeze := C.BuiltInFunctionESDTFreeze.
Notation FUnFreeze := C.BuiltInFunctionESDTUnFreeze.
Notation FWipe := C.BuiltInFunctionESDTWipe.
Notation FUnSetRole := C.BuiltInFunctionUnSetESDTRole.
Notation FAddQuantity := C.BuiltInFunctionESDTNFTAddQuantity.
Notation FNftBurn := C.BuiltInFunctionESDTNFTBurn.
Notation FAddURI := C.BuiltInFunctionESDTNFTAddURI.
Notation FUpdAttr := C.BuiltInFunctionESDTNFTUpdateAttributes.

(* ---------------- the codec facts ---------------- *)
(* the 2-byte pause flag does not decode (true of the protobuf codec and of ideal_codec): the flag hypotheses of
   NoPanic (flag_ok), Supply (flag_neutral) and C02 (flag_nonneg) all follow *)
Lemma flag_undec_ok cd : flag_undec cd -> flag_ok cd.
Proof. intros H f t Hd. rewrite H in Hd. discriminate. Qed.
Lemma flag_undec_neutral cd : flag_undec cd -> flag_neutral cd.
Proof. intros H f t Hd. rewrite H in Hd. discriminate. Qed.
Lemma flag_undec_nonneg cd : flag_undec cd -> flag_nonneg cd.
Proof. intros H. apply flag_neutral_nonneg, flag_undec_neutral. exact H. Qed.

(* ---------------- function names ---------------- *)
(* what the system contract calls on the shards *)
Definition sys_fns : list bytes :=
  [FFreeze; FUnFreeze; FWipe; FPause; FUnPause; FSetRole; FUnSetRole; CRT; FEsdt].
(* functions whose successful execution emits nothing at all: no in-flight message is ever named after one of them *)
Definition silent_fns : list bytes :=
  [FAddQuantity; FNftBurn; FAddURI; FUpdAttr; FCreate; FPause; FUnPause; FUnSetRole].
Definition msg_fn_ok (f : bytes) : Prop := ~ In f silent_fns.

Lemma SYS_not_SC : SYS <> SC.
Proof. intros H. vm_compute in H. discriminate H. Qed.

Section Capstone.
  Variable c : wcfg.
  Notation shof := (wc_shard_of c).

  (* the state of shard sh in world w *)
  Definition sstate (w : world) (sh : N) : mstate := mk_state (shard_accts w sh).

  (* ---------------- honest operations ---------------- *)
  (* the identifiers a user transaction names: argument 0, or the token of every triple of a multi-transfer *)
  Definition user_ids (fn : bytes) (i : input) : Prop :=
    call_ids fn i /\ (fn = FMulti -> Forall (fun x => valid_id (rt_tok x)) (multi_snd_triples i)).

  (* C02's freshness condition for ESDTNFTCreate: nothing is held under the nonce about to be given out *)
  Definition create_fresh (w : world) (sh : N) (i : input) : Prop :=
    balance (env_at c sh) (sstate w sh) (i_caller i) (nft_key (P ++ argn i 0) (create_nonce i (sstate w sh))) = 0%Z.
  (* F8: the system account holds nothing under the key the pause flag is written to *)
  Definition pause_clear (w : world) (sh : N) (i : input) : Prop :=
    balance (env_at c sh) (sstate w sh) SYS (P ++ argn i 0) = 0%Z.

  Definition user_call (w : world) (sh : N) (fn : bytes) (i : input) : Prop :=
    origin_call c sh i /\ i_caller i <> SC /\ user_ids fn i
    /\ (fn = FCreate -> create_fresh w sh i).

  Definition system_call (w : world) (sh : N) (fn : bytes) (i : input) : Prop :=
    In fn sys_fns /\ i_caller i = SC /\ i_snd i = false /\ i_dst i = true /\ call_ids fn i
    /\ (is_pause_fn fn -> i_rcpt i = SYS /\ pause_clear w sh i)
    /\ (~ is_pause_fn fn -> shof (i_rcpt i) = sh /\ i_rcpt i <> SC)
    /\ roles_disciplined (env_at c sh) (sstate w sh) fn i.

  Definition honest_op (w : world) (op : wop) : Prop :=
    match op with
    | OCall sh fn i => (alen (i_args i) < 2 ^ 40)%N /\ (user_call w sh fn i \/ system_call w sh fn i)
    | ODeliver _ _ | ORefund _ _ => True
    | ORedeliver _ _ => False
    end.
  (* along a history: every operation is honest at the world it is executed in *)
  Fixpoint honest_ops (w : world) (ops : list wop) : Prop :=
    match ops with
    | [] => True
    | op :: r => honest_op w op /\ honest_ops (wstep c w op) r
    end.

  Lemma honest_ops_app ops1 : forall w ops2,
    honest_ops w (ops1 ++ ops2) <-> honest_ops w ops1 /\ honest_ops (wrun c w ops1) ops2.
  Proof.
    induction ops1 as [|op r IH]; intros w ops2; cbn [app honest_ops].
    - unfold wrun. cbn. tauto.
    - rewrite wrun_cons, IH. tauto.
  Qed.
  Lemma honest_ops_firstn n : forall ops w, honest_ops w ops -> honest_ops w (firstn n ops).
  Proof.
    induction n as [|n IH]; intros ops w H; [exact I|]. destruct ops as [|op ops]; [exact I|].
    destruct H as [H1 H2]. cbn [firstn honest_ops]. split; [exact H1|apply IH; exact H2].
  Qed.

  (* ---------------- the joint invariant ---------------- *)
  Definition names_ok (w : world) : Prop := Forall (fun m => msg_fn_ok (m_fn m)) (inflight w).

  Record JInv (w : world) : Prop := {
    j_supply : WInv' c w;                 (* Supply_Step / C01: shards exist, one object per address, no negative
                                             balance under a protocol key, transfer messages are C01's msg_ok *)
    j_c15 : C15_World.WInv c w;           (* C15: every shard state satisfies Inv, payloads in flight are shaped *)
    j_nopanic : PInv c w;                 (* C11: StoreOK, payload hypothesis of in-flight messages *)
    j_ids : VInv c w;                     (* ValidIds: entries sit under keys of valid identifiers; so do messages *)
    j_nonneg : WNonNeg c w;               (* C02: no stored balance under a protocol key is negative *)
    j_names : names_ok w }.               (* auxiliary: names of in-flight messages *)

  (* all clauses speak about the shard list and the in-flight messages only *)
  Lemma shard_accts_same w w' sh : shards w' = shards w -> shard_accts w' sh = shard_accts w sh.
  Proof. intros H. unfold shard_accts. rewrite H. reflexivity. Qed.
  Lemma JInv_same w w' : shards w' = shards w -> inflight w' = inflight w -> JInv w -> JInv w'.
  Proof.
    intros Hs Hi [H1 H2 H3 H4 H5 H6]. constructor.
    - exact (WInv'_same c w w' Hs Hi H1).
    - destruct H2 as [Ha Hb]. split.
      + intros sh. rewrite (shard_accts_same w w' sh Hs). apply Ha.
      + intros m Hm. rewrite Hi in Hm. apply Hb. exact Hm.
    - destruct H3 as [Ha Hb]. split.
      + intros sh. rewrite (shard_accts_same w w' sh Hs). apply Ha.
      + intros m Hm. rewrite Hi in Hm. apply Hb. exact Hm.
    - destruct H4 as [Ha Hb]. split.
      + intros sh. rewrite (shard_accts_same w w' sh Hs). apply Ha.
      + rewrite Hi. exact Hb.
    - intros sh. rewrite (shard_accts_same w w' sh Hs). apply H5.
    - unfold names_ok. rewrite Hi. exact H6.
  Qed.

  (* ---------------- the initial world ---------------- *)
  Theorem JInv_empty n : (wc_nshards c <= N.of_nat n)%N -> JInv (C15_World.empty_world n).
  Proof.
    intros Hn. constructor.
    - constructor.
      + unfold nshards, C15_World.empty_world. cbn [shards]. rewrite repeat_length. exact Hn.
      + intros sh. rewrite C15_World.shard_accts_empty_world. constructor.
      + intros sh a x. rewrite C15_World.shard_accts_empty_world.
        unfold balance, tok_at. rewrite cell_empty_state. cbn. lia.
      + constructor.
    - apply C15_World.WInv_empty.
    - apply (PInv_empty c n).
    - apply VInv_empty.
    - apply (WTokInv_empty_world c nonneg_tok n).
    - constructor.
  Qed.
End Capstone.
