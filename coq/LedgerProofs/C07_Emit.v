(* C07, part 2 (messages): which cross-shard messages one successful call can put in flight.
   [emit_local_or_cont]: every output transfer of every built-in function either carries no data, or carries
   [msg_data f args] for the executing function's OWN name f (its continuation on another shard), or is addressed to
   an account of the executing shard (an attached call, run by the VM there) — the last needs the recipient-presence
   flag of the input to be truthful.  Hence [collect_not_handover]: no function other than
   ESDTNFTCreateRoleTransfer puts a message NAMED ESDTNFTCreateRoleTransfer in flight (a forged hand-over).
   [collect_handover_*]: the messages of the hand-over itself. *)
From Coq.Strings Require Import String.
From Coq Require Import Lia List.
From EV Require Import Base.Bytes Base.Store Base.Monad gen.Consts Codec.Types Helpers.Helpers
  Parsers.Tokenize Parsers.CallArgs Parsers.Builder Parsers.TokenizeProofs Parsers.ParsersProofs
  Ledger.Types Ledger.Env Ledger.Funcs Ledger.Transfers Ledger.World
  LedgerProofs.Defs LedgerProofs.EnvSpec LedgerProofs.WorldDefs LedgerProofs.WorldSpec SliceModel.OutputShape
  LedgerProofs.Spec_Transfers_Base LedgerProofs.Spec_System LedgerProofs.C07_Exec.
Import ListNotations.

(* the ledger's encoder is the parsers' builder *)
Lemma c07_msg_data_build_call fn args : msg_data fn args = build_call fn args.
Proof. reflexivity. Qed.
Lemma c07_msg_data_parses_back fn args : fn <> [] -> ~ In x40 fn -> parse_call_data (msg_data fn args) = Some (fn, args).
Proof. intros H1 H2. rewrite c07_msg_data_build_call. apply callargs_roundtrip; assumption. Qed.
Lemma c07_msg_data_nonempty fn args : fn <> [] -> msg_data fn args <> [].
Proof. unfold msg_data. destruct fn; [congruence|]. intros _. discriminate. Qed.

Definition c07_valid_fnameb (fn : bytes) : bool :=
  match fn with [] => false | _ => negb (existsb (fun b => (b2n b =? 64)%N) fn) end.
Lemma c07_valid_fnameb_ok fn : c07_valid_fnameb fn = true -> fn <> [] /\ ~ In x40 fn.
Proof.
  unfold c07_valid_fnameb. destruct fn as [|b r]; [discriminate|]. intros H.
  split; [discriminate|]. intros Hin. apply Bool.negb_true_iff in H.
  assert (existsb (fun b0 => (b2n b0 =? 64)%N) (b :: r) = true); [|congruence].
  apply existsb_exists. exists x40. split; [exact Hin|reflexivity].
Qed.
Lemma builtin_names_valid : forallb c07_valid_fnameb builtin_names = true.
Proof. vm_compute. reflexivity. Qed.
Lemma is_builtin_valid f : is_builtin f = true -> f <> [] /\ ~ In x40 f.
Proof.
  intros H. unfold is_builtin in H. apply bytes_in_true in H.
  pose proof builtin_names_valid as Hv. rewrite forallb_forall in Hv. apply c07_valid_fnameb_ok. apply Hv. exact H.
Qed.

(* ------------------------------------------------------------------ *)
(* shape of the output transfers                                        *)
(* ------------------------------------------------------------------ *)
Section Shape.
  Variable E : env.
  Variable f : bytes.

  Definition tr_ok (dest : bytes) (t : transfer) : Prop :=
    tr_data t = [] \/ (exists args, tr_data t = msg_data f args) \/ shard_of E dest = self_shard E.
  Definition loc (o : output) : Prop :=
    forall oa t, In oa (o_accounts o) -> In t (oc_transfers oa) -> tr_ok (oc_addr oa) t.

  Lemma loc_mk rc g : loc (mk_out rc g). Proof. intros oa t []. Qed.
  Lemma loc_set_gasrem o g : loc o -> loc (set_gasrem o g). Proof. exact (fun H => H). Qed.
  Lemma loc_set_logs o l : loc o -> loc (set_logs o l). Proof. exact (fun H => H). Qed.
  Lemma loc_set_returnData o l : loc o -> loc (set_returnData o l). Proof. exact (fun H => H). Qed.
  Lemma loc_add_log o l : loc o -> loc (add_log o l). Proof. exact (fun H => H). Qed.
  Lemma loc_set_accounts_nil o : loc (set_accounts o []). Proof. intros oa t []. Qed.
  Lemma loc_set_accounts_one o a d tr :
    tr_ok a tr -> loc (set_accounts o [{| oc_addr := a; oc_delta := d; oc_transfers := [tr] |}]).
  Proof. intros H oa t [<-|[]] Ht. cbn [oc_transfers] in Ht. destruct Ht as [<-|[]]. exact H. Qed.
  Lemma loc_if (b : bool) o1 o2 : loc o1 -> loc o2 -> loc (if b then o1 else o2).
  Proof. destruct b; auto. Qed.
  Lemma loc_add_output_transfer_cont snd args rc gl ct o : loc (add_output_transfer snd f args rc gl ct o).
  Proof. unfold add_output_transfer. apply loc_set_gasrem, loc_set_accounts_one. right. left. eexists. reflexivity. Qed.
  Lemma loc_add_output_transfer_local snd fn args rc gl ct o :
    shard_of E rc = self_shard E -> loc (add_output_transfer snd fn args rc gl ct o).
  Proof. intros H. unfold add_output_transfer. apply loc_set_gasrem, loc_set_accounts_one. right. right. exact H. Qed.
  Lemma loc_add_nft_transfer_cont snd rc args gl g ct o : loc (add_nft_transfer snd rc f args gl g ct o).
  Proof. unfold add_nft_transfer. apply loc_set_accounts_one. right. left. eexists. reflexivity. Qed.
End Shape.

Global Hint Resolve loc_mk loc_set_gasrem loc_set_logs loc_set_returnData loc_add_log loc_set_accounts_nil loc_if
  loc_add_output_transfer_cont loc_add_nft_transfer_cont : c07db.

Section Emit.
  Variable E : env.

  Ltac fin := subst; eauto 8 with c07db.
  Ltac same_shard :=
    first [ exfalso; match goal with
                     | H : negb false = false |- _ => discriminate H
                     | H : negb true = true |- _ => discriminate H
                     | H : (false && _)%bool = true |- _ => discriminate H
                     end
          | match goal with
            | H : (self_shard E =? shard_of E _)%N = true |- _ => apply N.eqb_eq in H; symmetry; exact H
            | H : negb (self_shard E =? shard_of E _)%N = false |- _ =>
              apply Bool.negb_false_iff, N.eqb_eq in H; symmetry; exact H
            end ].
  Ltac shape g := let H := fresh "H" in intros *; intros H; unfold g in H; oinv; fin.

  Lemma multi_out_args_accounts l : forall o acc s r o' s',
    multi_out_args E l o acc s = (Ok (r, o'), s') -> o_accounts o' = o_accounts o.
  Proof.
    induction l as [|[tk t] l IH]; intros o acc s r o' s' H; cbn [multi_out_args] in H.
    - oinv. inversion H; subst. reflexivity.
    - destruct (t_meta t) eqn:Em; oinv.
      + match goal with Hm : multi_out_args _ _ _ _ _ = _ |- _ => apply IH in Hm; rewrite Hm end. reflexivity.
      + match goal with Hm : multi_out_args _ _ _ _ _ = _ |- _ => apply IH in Hm; rewrite Hm end. reflexivity.
  Qed.
  Lemma multi_out_args_loc n l o acc s r o' s' :
    multi_out_args E l o acc s = (Ok (r, o'), s') -> loc E n o -> loc E n o'.
  Proof. intros H Ho. unfold loc. rewrite (multi_out_args_accounts _ _ _ _ _ _ _ H). exact Ho. Qed.

  Lemma c07_f_local_mint : forall n i s o s', f_local_mint E i s = (Ok o, s') -> loc E n o.
  Proof. shape f_local_mint. Qed.
  Lemma c07_f_local_burn : forall n i s o s', f_local_burn E i s = (Ok o, s') -> loc E n o.
  Proof. shape f_local_burn. Qed.
  Lemma c07_f_esdt_burn : forall i s o s', f_esdt_burn E i s = (Ok o, s') -> loc E C.BuiltInFunctionESDTBurn o.
  Proof. shape f_esdt_burn. Qed.
  Lemma c07_f_nft_create : forall n i s o s', f_nft_create E i s = (Ok o, s') -> loc E n o.
  Proof. shape f_nft_create. Qed.
  Lemma c07_f_nft_add_quantity : forall n i s o s', f_nft_add_quantity E i s = (Ok o, s') -> loc E n o.
  Proof. shape f_nft_add_quantity. Qed.
  Lemma c07_f_nft_burn : forall n i s o s', f_nft_burn E i s = (Ok o, s') -> loc E n o.
  Proof. shape f_nft_burn. Qed.
  Lemma c07_f_nft_add_uri : forall n i s o s', f_nft_add_uri E i s = (Ok o, s') -> loc E n o.
  Proof. shape f_nft_add_uri. Qed.
  Lemma c07_f_nft_update_attributes : forall n i s o s', f_nft_update_attributes E i s = (Ok o, s') -> loc E n o.
  Proof. shape f_nft_update_attributes. Qed.
  Lemma c07_f_create_role_transfer : forall i s o s', f_create_role_transfer E i s = (Ok o, s') -> loc E CRT o.
  Proof.
    intros *; intros H; unfold f_create_role_transfer in H; oinv; subst; auto with c07db;
      apply loc_set_accounts_one; right; left; eexists; reflexivity.
  Qed.
  Lemma c07_f_change_owner : forall n i s o s', f_change_owner E i s = (Ok o, s') -> loc E n o.
  Proof. shape f_change_owner. Qed.
  Lemma c07_f_claim_rewards : forall n i s o s', f_claim_rewards E i s = (Ok o, s') -> loc E n o.
  Proof.
    intros *; intros H; unfold f_claim_rewards in H; oinv; subst; auto with c07db;
      try apply loc_if; auto with c07db; apply loc_set_accounts_one; left; reflexivity.
  Qed.
  Lemma c07_f_set_user_name : forall i s o s', f_set_user_name E i s = (Ok o, s') -> loc E C.BuiltInFunctionSetUserName o.
  Proof.
    intros *; intros H; unfold f_set_user_name in H; oinv; subst; auto with c07db;
      apply loc_set_accounts_one; right; left; eexists; reflexivity.
  Qed.
  Lemma c07_f_save_key_value : forall n i s o s', f_save_key_value E i s = (Ok o, s') -> loc E n o.
  Proof. shape f_save_key_value. Qed.
  Lemma c07_f_freeze_wipe : forall n a b i s o s', f_freeze_wipe E a b i s = (Ok o, s') -> loc E n o.
  Proof. shape f_freeze_wipe. Qed.
  Lemma c07_f_pause : forall n a i s o s', f_pause E a i s = (Ok o, s') -> loc E n o.
  Proof. shape f_pause. Qed.
  Lemma c07_f_roles : forall n a i s o s', f_roles E a i s = (Ok o, s') -> loc E n o.
  Proof. shape f_roles. Qed.

  (* the three transfer functions: an attached call goes to the recipient / destination, which is on this shard *)
  Definition dst_truthful (i : input) : Prop := i_dst i = (shard_of E (i_rcpt i) =? self_shard E)%N.

  Lemma dst_truthful_local i : dst_truthful i -> i_dst i = true -> shard_of E (i_rcpt i) = self_shard E.
  Proof. unfold dst_truthful. intros H1 H2. rewrite H2 in H1. symmetry in H1. apply N.eqb_eq in H1. exact H1. Qed.

  Lemma c07_f_esdt_transfer : forall i s o s', dst_truthful i ->
    f_esdt_transfer E i s = (Ok o, s') -> loc E C.BuiltInFunctionESDTTransfer o.
  Proof.
    intros i s o s' Hp H. unfold f_esdt_transfer in H. oinv; subst; auto 8 with c07db.
    all: apply loc_add_log, loc_add_output_transfer_local; apply dst_truthful_local; assumption.
  Qed.
  Lemma c07_f_nft_transfer_sender : forall i s o s',
    f_nft_transfer_sender E i s = (Ok o, s') -> loc E C.BuiltInFunctionESDTNFTTransfer o.
  Proof.
    intros i s o s' H. unfold f_nft_transfer_sender in H. oinv; subst; auto 8 with c07db.
    all: apply loc_add_log, loc_add_output_transfer_local;
      same_shard.
  Qed.
  Lemma c07_f_nft_transfer : forall i s o s', dst_truthful i ->
    f_nft_transfer E i s = (Ok o, s') -> loc E C.BuiltInFunctionESDTNFTTransfer o.
  Proof.
    intros i s o s' Hp H. unfold f_nft_transfer in H. oinv;
      try (eapply c07_f_nft_transfer_sender; eassumption); subst; auto 8 with c07db.
    all: apply loc_add_log, loc_add_output_transfer_local; apply dst_truthful_local; assumption.
  Qed.
  Lemma c07_f_multi_transfer_sender : forall i s o s',
    f_multi_transfer_sender E i s = (Ok o, s') -> loc E C.BuiltInFunctionMultiESDTNFTTransfer o.
  Proof.
    intros i s o s' H. unfold f_multi_transfer_sender in H. oinv;
      try match goal with Hm : multi_out_args _ _ _ _ _ = (Ok (_, ?o1), _) |- _ =>
            assert (loc E C.BuiltInFunctionMultiESDTNFTTransfer o1)
              by (eapply multi_out_args_loc; [exact Hm|eauto with c07db]) end; subst; auto 8 with c07db.
    all: apply loc_add_output_transfer_local;
      same_shard.
  Qed.
  Lemma c07_f_multi_transfer : forall i s o s', dst_truthful i ->
    f_multi_transfer E i s = (Ok o, s') -> loc E C.BuiltInFunctionMultiESDTNFTTransfer o.
  Proof.
    intros i s o s' Hp H. unfold f_multi_transfer in H. oinv;
      try (eapply c07_f_multi_transfer_sender; eassumption); subst; auto 8 with c07db.
    all: apply loc_add_output_transfer_local; apply dst_truthful_local; assumption.
  Qed.

  (* every function, through the dispatch *)
  Theorem emit_local_or_cont f i s o s' : (is_transfer_fn f = true -> dst_truthful i) ->
    exec E f i s = (Ok o, s') -> loc E f o /\ is_builtin f = true.
  Proof.
    intros Hp H. unfold exec in H.
    repeat match type of H with
           | (if beqb f ?c then _ else _) _ = _ => destruct (beqb_spec f c) as [->|?]
           end;
      try (split; [|reflexivity]);
      try (specialize (Hp eq_refl));
      eauto using c07_f_local_mint, c07_f_local_burn, c07_f_esdt_burn, c07_f_nft_create, c07_f_nft_add_quantity,
        c07_f_nft_burn, c07_f_nft_add_uri, c07_f_nft_update_attributes, c07_f_create_role_transfer, c07_f_change_owner,
        c07_f_claim_rewards, c07_f_set_user_name, c07_f_save_key_value, c07_f_freeze_wipe, c07_f_pause, c07_f_roles,
        c07_f_esdt_transfer, c07_f_nft_transfer, c07_f_multi_transfer.
    discriminate H.
  Qed.
End Emit.

(* ------------------------------------------------------------------ *)
(* from output transfers to in-flight messages                          *)
(* ------------------------------------------------------------------ *)
Section Collect.
  Variable c : wcfg.

  Lemma msg_of_transfer_fn sh f i id dest t m :
    is_builtin f = true -> tr_ok (env_at c sh) f dest t -> msg_of_transfer c sh i id dest t = Some m -> m_fn m = f.
  Proof.
    intros Hb Hok H. unfold msg_of_transfer in H. destruct (is_builtin_valid _ Hb) as (Hne & Hat).
    destruct Hok as [Hd|[(args & Hd)|Hl]].
    - rewrite Hd in H. discriminate.
    - rewrite Hd in H. destruct (msg_data f args) eqn:Em; [discriminate|]. rewrite <- Em in H.
      rewrite (c07_msg_data_parses_back _ _ Hne Hat) in H. rewrite Hb in H. cbn [negb] in H.
      repeat match type of H with (if ?b then _ else _) = _ => destruct b; [discriminate|] end.
      inversion H. reflexivity.
    - rewrite env_at_shard_of, env_at_self in Hl. destruct (tr_data t) as [|b r]; [discriminate|].
      destruct (parse_call_data (b :: r)) as [[fn args]|]; [|discriminate].
      destruct (negb (is_builtin fn)); [discriminate|].
      rewrite Hl, N.eqb_refl in H. destruct (beqb fn CRT); cbn in H; discriminate.
  Qed.
  Lemma collect_transfers_fn sh f i dest ts : is_builtin f = true ->
    (forall t, In t ts -> tr_ok (env_at c sh) f dest t) ->
    forall id m, In m (collect_transfers c sh i id dest ts) -> m_fn m = f.
  Proof.
    intros Hb. induction ts as [|t r IH]; intros Hok id m Hin; [destruct Hin|].
    cbn [collect_transfers] in Hin. destruct (msg_of_transfer c sh i id dest t) as [m0|] eqn:Em.
    - destruct Hin as [<-|Hin].
      + eapply msg_of_transfer_fn; [exact Hb| |exact Em]. apply Hok. left. reflexivity.
      + eapply IH; [|exact Hin]. intros t' Ht'. apply Hok. right. exact Ht'.
    - eapply IH; [|exact Hin]. intros t' Ht'. apply Hok. right. exact Ht'.
  Qed.
  Lemma collect_accounts_fn sh f i oas : is_builtin f = true ->
    (forall oa t, In oa oas -> In t (oc_transfers oa) -> tr_ok (env_at c sh) f (oc_addr oa) t) ->
    forall id m, In m (collect_accounts c sh i id oas) -> m_fn m = f.
  Proof.
    intros Hb. induction oas as [|oa r IH]; intros Hok id m Hin; [destruct Hin|].
    cbn [collect_accounts] in Hin. apply in_app_or in Hin as [Hin|Hin].
    - eapply collect_transfers_fn; [exact Hb| |exact Hin]. intros t Ht. apply Hok; [left; reflexivity|exact Ht].
    - eapply IH; [|exact Hin]. intros oa' t Hoa Ht. apply Hok; [right; exact Hoa|exact Ht].
  Qed.

  (* every message a successful call puts in flight is named after the executing function *)
  Theorem collect_fn sh f i id o :
    is_builtin f = true -> loc (env_at c sh) f o -> forall m, In m (collect c sh f i id o) -> m_fn m = f.
  Proof.
    intros Hb Hl m Hin. unfold collect in Hin.
    destruct (collect_accounts c sh i id (o_accounts o)) as [|m0 ms] eqn:Ec.
    - destruct (_ && travels f)%bool; [|destruct Hin]. destruct Hin as [<-|[]]. reflexivity.
    - rewrite <- Ec in Hin. eapply collect_accounts_fn; [exact Hb|exact Hl|exact Hin].
  Qed.

  Theorem collect_not_handover sh f i id o s s' :
    exec (env_at c sh) f i s = (Ok o, s') ->
    (is_transfer_fn f = true -> i_dst i = (wc_shard_of c (i_rcpt i) =? sh)%N) -> f <> CRT ->
    forall m, In m (collect c sh f i id o) -> m_fn m <> CRT.
  Proof.
    intros H Hp Hne m Hin. destruct (emit_local_or_cont (env_at c sh) f i s o s' Hp H) as (Hl & Hb).
    rewrite (collect_fn _ _ _ _ _ Hb Hl _ Hin). exact Hne.
  Qed.

  (* the hand-over itself *)
  Lemma collect_no_accounts sh f i id o : o_accounts o = [] -> travels f = false -> collect c sh f i id o = [].
  Proof. intros H1 H2. unfold collect. rewrite H1, H2. cbn [collect_accounts]. rewrite Bool.andb_false_r. reflexivity. Qed.
  Lemma travels_CRT : travels CRT = false. Proof. reflexivity. Qed.
  Lemma travels_Create : travels FCreate = false. Proof. reflexivity. Qed.
  Lemma travels_SetRole : travels FSetRole = false. Proof. reflexivity. Qed.
  Lemma travels_UnSetRole : travels FUnSetRole = false. Proof. reflexivity. Qed.
  Lemma is_builtin_CRT : is_builtin CRT = true. Proof. reflexivity. Qed.

  Definition handover_message (sh : N) (i : input) (id : nat) (new tk : bytes) (n : N) : msg :=
    {| m_id := id; m_fn := CRT;
       m_caller := if (wc_shard_of c SC =? sh)%N then SC else i_rcpt i;
       m_dest := new; m_args := [tk; u64_bytes n];
       m_callType := C.DirectCall; m_gasLimit := 0; m_locked := 0; m_origin := sh; m_sender := i_caller i |}.

  Lemma collect_handover sh i id o new tk n :
    o_accounts o = [{| oc_addr := new; oc_delta := 0; oc_transfers := [handover_msg SC tk n] |}] ->
    collect c sh CRT i id o =
    if (wc_shard_of c new =? sh)%N then [] else [handover_message sh i id new tk n].
  Proof.
    intros Ho. unfold collect. rewrite Ho. cbn [collect_accounts collect_transfers oc_addr oc_transfers].
    unfold msg_of_transfer, handover_msg. cbn [tr_data tr_sender tr_callType tr_gasLimit tr_gasLocked].
    destruct (is_builtin_valid _ is_builtin_CRT) as (Hne & Hat).
    destruct (msg_data CRT [tk; u64_bytes n]) eqn:Em; [exfalso; revert Em; apply c07_msg_data_nonempty; exact Hne|].
    rewrite <- Em. rewrite (c07_msg_data_parses_back _ _ Hne Hat). rewrite is_builtin_CRT. cbn [negb].
    rewrite beqb_refl. cbn [negb andb]. rewrite Bool.andb_false_r.
    destruct (wc_shard_of c new =? sh)%N.
    - cbn [app length]. rewrite travels_CRT, Bool.andb_false_r. reflexivity.
    - cbn [app]. reflexivity.
  Qed.
End Collect.

Print Assumptions emit_local_or_cont.
Print Assumptions collect_not_handover.
Print Assumptions collect_handover.
