(* C01, part 3: the exactness statements of the property text, one by one.
     sender_debits_exact_{esdt,nft,multi}       the sender loses exactly the requested quantity of every listed cell
     same_shard_credits_exact_{esdt,nft,multi}  a destination on the executing shard gains exactly that quantity
     emitted_message_carries_debit              otherwise exactly one message is emitted and what it will credit
                                                (WorldDefs.credits) is exactly what was debited
     deliver_credits_exact / refund_credits_exact   executing the message at the destination (or the refund at the
                                                origin) credits exactly [credits m], cell by cell
   (the frame statements are Spec_Transfers.transfer_footprint_esdt, _nft, _multi).  Corollaries of Spec_Transfers*.v. *)
From Coq.Strings Require Import String.
From EV Require Import Base.Bytes Base.Store Base.Monad gen.Consts Codec.Types Helpers.Helpers
  Parsers.Tokenize Parsers.CallArgs
  Ledger.Types Ledger.Env Ledger.Funcs Ledger.Transfers Ledger.World
  LedgerProofs.Defs LedgerProofs.EnvSpec LedgerProofs.WorldDefs LedgerProofs.WorldSpec
  LedgerProofs.Spec_Transfers_Base LedgerProofs.Spec_Transfers_Esdt LedgerProofs.Spec_Transfers_Nft
  LedgerProofs.Spec_Transfers_Multi LedgerProofs.Spec_Transfers LedgerProofs.C01_World LedgerProofs.C01_Step.

(* the destination named by an origin-side call and the list of (cell, quantity) it asks to move *)
Definition transfer_dest (fn : bytes) (i : input) : bytes :=
  if beqb fn C.BuiltInFunctionESDTTransfer then i_rcpt i
  else if beqb fn C.BuiltInFunctionESDTNFTTransfer then argn i 3 else argn i 0.
Definition transfer_debits (fn : bytes) (i : input) : list (bytes * Z) :=
  if beqb fn C.BuiltInFunctionESDTTransfer then [(esdt_key i, esdt_val i)]
  else if beqb fn C.BuiltInFunctionESDTNFTTransfer then [(nft_cell i, nft_qty i)]
  else debit_list (multi_snd_triples i).

Section Exact.
  Variable E : env.
  Hypothesis Hc : codec_ok (cdc E).

  (* ---------------- the sender ---------------- *)
  Theorem sender_debits_exact_esdt i s o s' :
    exec E C.BuiltInFunctionESDTTransfer i s = (Ok o, s') -> i_snd i = true ->
    (0 < esdt_val i <= balance E s (i_caller i) (esdt_key i))%Z
    /\ balance E s' (i_caller i) (esdt_key i) =
       (balance E s (i_caller i) (esdt_key i) - esdt_val i
        + (if (i_dst i && beqb (i_caller i) (i_rcpt i))%bool then esdt_val i else 0))%Z.
  Proof.
    rewrite exec_esdt_transfer. intros H Hsnd. pose proof (esdt_transfer_spec E Hc _ _ _ _ H) as Hp.
    split; [split; [apply (ep_pos E _ _ _ _ Hp)|apply (ep_snd_funds E _ _ _ _ Hp Hsnd)]|].
    rewrite (ep_balance E _ _ _ _ Hp). unfold esdt_delta. rewrite Hsnd, !beqb_refl, !andb_true_r. cbn [andb]. lia.
  Qed.

  Theorem sender_debits_exact_nft i s o s' :
    exec E C.BuiltInFunctionESDTNFTTransfer i s = (Ok o, s') -> i_caller i = i_rcpt i ->
    lookup_consistent E s (i_caller i) (nft_tkey i) (nft_nonce i) ->
    (0 <= nft_qty i <= balance E s (i_caller i) (nft_cell i))%Z
    /\ balance E s' (i_caller i) (nft_cell i) = (balance E s (i_caller i) (nft_cell i) - nft_qty i)%Z.
  Proof.
    rewrite exec_nft_transfer. intros H Heq Hlc. destruct (nft_sender_post E Hc _ _ _ _ H Heq) as (t & Hp). destruct Hp.
    destruct ns_debit as (s1 & D & _). destruct D.
    assert (Hfull : nft_full i t = nft_cell i) by (unfold nft_full, nft_cell; rewrite (Hlc t db_entry); reflexivity).
    rewrite Hfull in ns_snd_balance. unfold nft_cell at 1 3. rewrite (balance_tok_at E _ _ _ _ db_entry).
    pose proof (bigZ_nonneg (argn i 2)) as Hq. fold (nft_qty i) in Hq.
    split; [lia|exact ns_snd_balance].
  Qed.

  Theorem sender_debits_exact_multi i s o s' :
    exec E C.BuiltInFunctionMultiESDTNFTTransfer i s = (Ok o, s') -> i_caller i = i_rcpt i ->
    triples_consistent E s (i_caller i) (multi_snd_triples i) ->
    (multi_same E i = true -> nonneg_balances E s (multi_dst i)) ->
    forall k, (qty_list k (debit_list (multi_snd_triples i)) <= balance E s (i_caller i) k
               \/ qty_list k (debit_list (multi_snd_triples i)) = 0)%Z
              /\ balance E s' (i_caller i) k = (balance E s (i_caller i) k - qty_list k (debit_list (multi_snd_triples i)))%Z.
  Proof.
    rewrite exec_multi_transfer. intros H Heq Hcons Hnn k.
    destruct (multi_sender_effects E Hc _ _ _ _ H Heq Hcons Hnn) as (lst & Hp & Hb & _ & _ & _ & Hpos).
    pose proof (mp_dst_ne E _ _ _ _ _ Hp) as Hne.
    assert (Hk : balance E s' (i_caller i) k = (balance E s (i_caller i) k - qty_list k (debit_list (multi_snd_triples i)))%Z).
    { rewrite Hb, snd_delta_caller by exact Hne. lia. }
    split; [|exact Hk].
    destruct (cell_dec (multi_snd_triples i) k) as [(x & Hx & <-)|Hno].
    - left. specialize (Hpos x Hx). lia.
    - right. pose proof (snd_delta_caller (i_caller i) (multi_dst i) (multi_same E i) (multi_snd_triples i) k Hne) as H1.
      rewrite snd_delta_notin in H1 by exact Hno. lia.
  Qed.

  (* ---------------- a destination on the executing shard ---------------- *)
  Theorem same_shard_credits_exact_esdt i s o s' :
    exec E C.BuiltInFunctionESDTTransfer i s = (Ok o, s') -> i_dst i = true ->
    balance E s' (i_rcpt i) (esdt_key i) =
      (balance E s (i_rcpt i) (esdt_key i) + esdt_val i
       - (if (i_snd i && beqb (i_rcpt i) (i_caller i))%bool then esdt_val i else 0))%Z.
  Proof.
    rewrite exec_esdt_transfer. intros H Hdst. pose proof (esdt_transfer_spec E Hc _ _ _ _ H) as Hp.
    rewrite (ep_balance E _ _ _ _ Hp). unfold esdt_delta. rewrite Hdst, !beqb_refl, !andb_true_r. cbn [andb].
    destruct (i_snd i && beqb (i_rcpt i) (i_caller i))%bool; lia.
  Qed.

  Theorem same_shard_credits_exact_nft i s o s' :
    exec E C.BuiltInFunctionESDTNFTTransfer i s = (Ok o, s') -> i_caller i = i_rcpt i -> nft_same E i = true ->
    lookup_consistent E s (i_caller i) (nft_tkey i) (nft_nonce i) ->
    (0 <= balance E s (nft_dst i) (nft_cell i))%Z ->
    balance E s' (nft_dst i) (nft_cell i) = (balance E s (nft_dst i) (nft_cell i) + nft_qty i)%Z.
  Proof.
    rewrite exec_nft_transfer. intros H Heq Hs Hlc Hnn.
    rewrite (transfer_balance_effect_nft_sender E Hc _ _ _ _ H Heq Hlc (fun _ => Hnn)).
    destruct (nft_sender_post E Hc _ _ _ _ H Heq) as (t & Hp). pose proof (ns_dst_ne E _ _ _ _ _ Hp) as Hne.
    unfold nft_snd_delta. rewrite Hs, !beqb_refl, (beqb_false _ _ Hne). cbn [andb]. lia.
  Qed.

  Theorem same_shard_credits_exact_multi i s o s' :
    exec E C.BuiltInFunctionMultiESDTNFTTransfer i s = (Ok o, s') -> i_caller i = i_rcpt i -> multi_same E i = true ->
    triples_consistent E s (i_caller i) (multi_snd_triples i) ->
    nonneg_balances E s (multi_dst i) ->
    forall k, balance E s' (multi_dst i) k = (balance E s (multi_dst i) k + qty_list k (debit_list (multi_snd_triples i)))%Z.
  Proof.
    rewrite exec_multi_transfer. intros H Heq Hs Hcons Hnn k.
    destruct (multi_sender_effects E Hc _ _ _ _ H Heq Hcons (fun _ => Hnn)) as (lst & Hp & Hb & _).
    pose proof (mp_dst_ne E _ _ _ _ _ Hp) as Hne.
    rewrite Hb, Hs, snd_delta_dst by exact Hne. reflexivity.
  Qed.

  (* every other account, on the executing shard, keeps every balance (same hypotheses; all cells in one statement) *)
  Theorem others_unchanged i s o s' fn : is_transfer_fn fn = true -> exec E fn i s = (Ok o, s') ->
    forall a k, a <> i_caller i -> a <> i_rcpt i -> a <> transfer_dest fn i -> balance E s' a k = balance E s a k.
  Proof.
    intros Hfn H a k H1 H2 H3.
    destruct (exec_transfer_cases E fn i Hfn) as [[Hf He]|[[Hf He]|[Hf He]]]; rewrite He in H; subst fn.
    - apply (ue_balance E _ _ _ _ (transfer_footprint_esdt E Hc _ _ _ _ H)). intros [_ [[_ ?]|[_ ?]]]; contradiction.
    - apply (ue_balance E _ _ _ _ (transfer_footprint_nft E Hc _ _ _ _ H)).
      unfold transfer_dest in H3. rewrite fn_nft_ne_esdt, beqb_refl in H3. intros [[?|[?|?]] _]; contradiction.
    - destruct (transfer_footprint_multi E Hc _ _ _ _ H) as (Hue & _).
      apply (ue_balance E _ _ _ _ Hue).
      unfold transfer_dest in H3. rewrite fn_multi_ne_esdt, fn_multi_ne_nft in H3. intros [[?|[?|?]] _]; contradiction.
  Qed.
End Exact.

(* ================================================================ *)
(* world level                                                        *)
(* ================================================================ *)
Section ExactWorld.
  Variable c : wcfg.
  Hypothesis Hc : codec_ok (wc_cdc c).
  Notation shof := (wc_shard_of c).

  (* ---------------- what the origin shard emits ---------------- *)
  Theorem emitted_message_carries_debit sh m0 fn i id o s' :
    is_transfer_fn fn = true -> origin_call c sh i -> call_consistent_at c m0 sh fn i ->
    exec (env_at c sh) fn i (mk_state m0) = (Ok o, s') ->
    if (shof (transfer_dest fn i) =? sh)%N then collect c sh fn i id o = []
    else exists m, collect c sh fn i id o = [m] /\ credits c m = transfer_debits fn i
           /\ m_id m = id /\ m_fn m = fn /\ m_dest m = transfer_dest fn i
           /\ m_caller m = i_caller i /\ m_sender m = i_caller i /\ m_origin m = sh.
  Proof.
    intros Hfn (Hcal & Hsnd & Hdst) [Hc1 Hc2] H. rewrite Hcal, N.eqb_refl in Hsnd.
    destruct (exec_transfer_cases (env_at c sh) fn i Hfn) as [[Hf He]|[[Hf He]|[Hf He]]]; rewrite He in H; subst fn;
      unfold transfer_dest, transfer_debits; rewrite ?beqb_refl, ?fn_nft_ne_esdt, ?fn_multi_ne_esdt, ?fn_multi_ne_nft.
    - (* ESDTTransfer *)
      pose proof (esdt_transfer_spec (env_at c sh) Hc _ _ _ _ H) as Hp.
      pose proof (esdt_out_accounts (env_at c sh) Hc _ _ _ _ H) as Hout. rewrite Hdst in Hout.
      destruct (shof (i_rcpt i) =? sh)%N eqn:Ed.
      + apply N.eqb_eq in Ed. apply collect_all_local; [|left; exact Ed]. intros oa Hin. rewrite Hout in Hin.
        destruct (esdt_call_after i); [|contradiction]. destruct Hin as [<-|[]]. exact Ed.
      + pose proof Ed as Ed'. apply N.eqb_neq in Ed'.
        assert (Hmsg : exists m, collect c sh C.BuiltInFunctionESDTTransfer i id o = [m]
                 /\ m_id m = id /\ m_fn m = C.BuiltInFunctionESDTTransfer /\ m_args m = i_args i
                 /\ m_caller m = i_caller i /\ m_dest m = i_rcpt i /\ m_sender m = i_caller i /\ m_origin m = sh).
        { destruct (is_sc (i_caller i)) eqn:Esc.
          - eexists. split; [eapply collect_one_cross; [exact Hout|reflexivity|apply emittable_esdt|exact Ed'|exact Hcal]|].
            cbn. repeat split; reflexivity.
          - eexists. split.
            + rewrite (collect_none c _ _ _ _ _ Hout). rewrite Ed, Hcal, N.eqb_refl, travels_esdt.
              pose proof (ep_not_meta _ _ _ _ _ Hp) as Hm. apply N.eqb_neq in Hm. cbn [shard_of env_at] in Hm. rewrite Hm.
              cbn [negb andb]. reflexivity.
            + cbn. repeat split; reflexivity. }
        destruct Hmsg as (m & Hcol & Hid & Hfn' & Hargs & Hmc & Hmd & Hms & Hmo). exists m.
        split; [exact Hcol|]. split; [apply (emitted_message_carries_debit_esdt c m i Hfn' Hargs (ep_nargs _ _ _ _ _ Hp))|].
        repeat split; assumption.
    - (* ESDTNFTTransfer *)
      assert (Heq : i_caller i = i_rcpt i).
      { pose proof (nft_transfer_needs_sender (env_at c sh) Hc _ _ _ _ H) as Hx.
        destruct (beqb_spec (i_caller i) (i_rcpt i)) as [He'|_]; [exact He'|]. destruct Hx; congruence. }
      destruct (nft_sender_post (env_at c sh) Hc _ _ _ _ H Heq) as (t0 & Hp).
      assert (Hsame : nft_same (env_at c sh) i = (shof (argn i 3) =? sh)%N).
      { unfold nft_same. cbn [self_shard shard_of env_at]. apply N.eqb_sym. }
      destruct (shof (argn i 3) =? sh)%N eqn:Ed.
      + apply N.eqb_eq in Ed. apply collect_all_local; [|right; exact travels_nft]. intros oa Hin.
        rewrite (ns_out _ _ _ _ _ _ Hp) in Hin. unfold nft_sender_out in Hin. cbv zeta in Hin. rewrite Hsame in Hin. cbn [negb] in Hin.
        destruct (nft_call_after i (nft_dst i)); cbn in Hin; [|contradiction]. destruct Hin as [<-|[]]. exact Ed.
      + apply N.eqb_neq in Ed.
        destruct (nft_out_accounts_cross (env_at c sh) Hc _ _ _ _ H Heq Hsame) as (t & Ht & Hwf & _ & Hout). cbv zeta in Hout.
        pose proof (collect_one_cross c sh C.BuiltInFunctionESDTNFTTransfer i id o _ _ _ _ Hout eq_refl emittable_nft Ed Hcal) as Hcol.
        cbn [tr_sender tr_callType tr_gasLimit tr_gasLocked] in Hcol. eexists. split; [exact Hcol|].
        split; [|cbn; repeat split; reflexivity].
        match goal with |- credits c ?m = _ =>
          rewrite (emitted_message_carries_debit_nft (env_at c sh) Hc c eq_refl m (argn i 0) (argn i 1) (argn i 2) t (nft_qty i)
                   (skipn 4 (i_args i)) Hwf eq_refl eq_refl) end.
        unfold nft_cell, nft_tkey. rewrite (Hc1 eq_refl t Ht). reflexivity.
    - (* MultiESDTNFTTransfer *)
      assert (Heq : i_caller i = i_rcpt i).
      { pose proof (multi_transfer_needs_sender (env_at c sh) Hc _ _ _ _ H) as Hx.
        destruct (beqb_spec (i_caller i) (i_rcpt i)) as [He'|_]; [exact He'|]. destruct Hx; congruence. }
      assert (Hsame : multi_same (env_at c sh) i = (shof (argn i 0) =? sh)%N).
      { unfold multi_same. cbn [self_shard shard_of env_at]. apply N.eqb_sym. }
      destruct (shof (argn i 0) =? sh)%N eqn:Ed.
      + apply N.eqb_eq in Ed. destruct (multi_sender_post (env_at c sh) Hc _ _ _ _ H Heq) as (lst & Hp).
        apply collect_all_local; [|right; exact travels_multi]. intros oa Hin.
        rewrite (mp_out _ _ _ _ _ _ Hp) in Hin. unfold multi_sender_out in Hin. cbv zeta in Hin. rewrite Hsame in Hin. cbn [negb] in Hin.
        destruct ((multi_min 2 (multi_n_snd i) <? alen (i_args i))%N && is_sc (multi_dst i))%bool; cbn in Hin; [|contradiction].
        destruct Hin as [<-|[]]. exact Ed.
      + apply N.eqb_neq in Ed.
        destruct (multi_sender_effects (env_at c sh) Hc _ _ _ _ H Heq (Hc2 eq_refl)) as (lst & Hp & _ & Hf & _).
        { intros Hx. rewrite Hsame in Hx. discriminate. }
        rewrite Hsame in Hf.
        pose proof (multi_out_accounts_cross (env_at c sh) _ _ _ _ _ Hp Hsame) as Hout. cbv zeta in Hout.
        pose proof (collect_one_cross c sh C.BuiltInFunctionMultiESDTNFTTransfer i id o _ _ _ _ Hout eq_refl emittable_multi Ed Hcal) as Hcol.
        cbn [tr_sender tr_callType tr_gasLimit tr_gasLocked] in Hcol. eexists. split; [exact Hcol|].
        split; [|cbn; repeat split; reflexivity].
        destruct (travel_ok_credits _ _ Hf) as [Hmap Hgood]. rewrite <- Hmap.
        match goal with |- credits c ?m = _ =>
        apply (emitted_message_credits_multi (env_at c sh) Hc c eq_refl m (multi_n_snd i) lst
                 (skipn (N.to_nat (multi_min 2 (multi_n_snd i))) (i_args i))) end; [apply bigU64_lt| |exact Hgood|reflexivity|reflexivity].
        rewrite <- (forall2_length _ _ _ Hf). unfold multi_snd_triples. apply multi_triples_length.
  Qed.

  (* ---------------- what the destination side credits, cell by cell ---------------- *)
  Lemma dest_side_cells sh m0 m i o s' :
    accts_nonneg c m0 -> msg_ok c m ->
    i_args i = m_args m -> i_snd i = false -> i_dst i = true -> i_caller i <> i_rcpt i ->
    exec (env_at c sh) (m_fn m) i (mk_state m0) = (Ok o, s') ->
    forall a k, balance (env_at c sh) s' a k =
      (balance (env_at c sh) (mk_state m0) a k + (if beqb a (i_rcpt i) then qty c k m else 0))%Z.
  Proof.
    intros Hnn [Hfn _ _ Hcn Hcount] Hargs Hsnd Hdst Hne H a k.
    pose proof (proj2 (st_nonneg_accts c sh (mk_state m0)) Hnn) as Hnn0.
    destruct (exec_transfer_cases (env_at c sh) (m_fn m) i Hfn) as [[Hf He]|[[Hf He]|[Hf He]]]; rewrite He in H.
    - pose proof (esdt_transfer_spec (env_at c sh) Hc _ _ _ _ H) as Hp.
      pose proof (emitted_message_carries_debit_esdt c m i Hf (eq_sym Hargs) (ep_nargs _ _ _ _ _ Hp)) as Hcr.
      rewrite (ep_balance _ _ _ _ _ Hp). unfold esdt_delta, qty. rewrite Hcr, qty_list_single, Hsnd, Hdst. cbn [andb].
      destruct (beqb a (i_rcpt i)); cbn [andb]; lia.
    - destruct (nft_dest_post (env_at c sh) Hc _ _ _ _ H Hne) as (t & Hp).
      destruct (nft_transfer_spec (env_at c sh) Hc _ _ _ _ H) as (_ & Hlen & _).
      pose proof (nd_dec _ _ _ _ _ _ Hp) as Hdec. pose proof (nd_value _ _ _ _ _ _ Hp) as Hv.
      assert (Hcr : credits c m = [(nft_full i t, val_or_0 t)]).
      { unfold credits. rewrite Hf, fn_nft_ne_esdt, beqb_refl, <- Hargs.
        unfold argn in Hdec. unfold nft_full, nft_tkey, argn. unfold alen in Hlen.
        destruct (i_args i) as [|a0 [|a1 [|a2 [|a3 r]]]]; cbn [length] in Hlen; try lia.
        cbn [nth] in *. unfold nft_credit. cbn [cdc env_at] in Hdec. rewrite Hdec, Hv. reflexivity. }
      rewrite Hcr in Hcn. inversion Hcn as [|kv l Hv0 _]; subst. cbn [snd] in Hv0.
      destruct (transfer_balance_effect_nft_dest (env_at c sh) Hc _ _ _ _ H Hne) as (t' & Hd' & _ & Hb).
      assert (t' = t) by congruence. subst t'. rewrite Hb by (specialize (Hnn0 (i_rcpt i) (nft_full i t)); lia).
      unfold qty. rewrite Hcr, qty_list_single. destruct (beqb a (i_rcpt i)); reflexivity.
    - assert (Hcr : credits c m = dst_credits (env_at c sh) (multi_dst_triples i)).
      { apply (delivered_message_credits_multi (env_at c sh) Hc c eq_refl m i _ _ _ H Hne Hf (eq_sym Hargs)).
        unfold argn. rewrite Hargs. apply Hcount. exact Hf. }
      rewrite Hcr in Hcn.
      assert (Hnnr : nonneg_balances (env_at c sh) (mk_state m0) (i_rcpt i)) by (intros k'; apply Hnn0).
      destruct (transfer_balance_effect_multi_dest (env_at c sh) Hc _ _ _ _ H Hne Hnnr Hcn) as [Hb _].
      rewrite Hb. unfold qty. rewrite Hcr. reflexivity.
  Qed.

  (* delivery of message m on the shard of its destination *)
  Theorem deliver_credits_exact m0 m gas o s' :
    let sh := shof (m_dest m) in
    accts_nonneg c m0 -> msg_ok c m ->
    exec (env_at c sh) (m_fn m) (deliver_input c m sh gas) (mk_state m0) = (Ok o, s') ->
    forall a k, balance (env_at c sh) s' a k =
      (balance (env_at c sh) (mk_state m0) a k + (if beqb a (m_dest m) then qty c k m else 0))%Z.
  Proof.
    intros sh Hnn Hm H. apply (dest_side_cells sh m0 m (deliver_input c m sh gas) o s' Hnn Hm eq_refl); [|reflexivity| |exact H].
    - cbn [deliver_input i_snd]. apply N.eqb_neq. exact (mo_caller c m Hm).
    - cbn [deliver_input i_caller i_rcpt]. intros He. apply (mo_caller c m Hm). rewrite He. reflexivity.
  Qed.
  (* the return-after-error refund on the shard of the debited account: the same quantities come back *)
  Theorem refund_credits_exact m0 m gas o s' :
    let sh := shof (m_sender m) in
    accts_nonneg c m0 -> msg_ok c m ->
    exec (env_at c sh) (m_fn m) (refund_input c m sh gas) (mk_state m0) = (Ok o, s') ->
    forall a k, balance (env_at c sh) s' a k =
      (balance (env_at c sh) (mk_state m0) a k + (if beqb a (m_sender m) then qty c k m else 0))%Z.
  Proof.
    intros sh Hnn Hm H. apply (dest_side_cells sh m0 m (refund_input c m sh gas) o s' Hnn Hm eq_refl); [|reflexivity| |exact H].
    - cbn [refund_input i_snd]. apply N.eqb_neq. intros He. apply (mo_sender c m Hm). symmetry. exact He.
    - cbn [refund_input i_caller i_rcpt]. intros He. apply (mo_sender c m Hm). rewrite He. reflexivity.
  Qed.
End ExactWorld.

Print Assumptions sender_debits_exact_multi.
Print Assumptions same_shard_credits_exact_multi.
Print Assumptions others_unchanged.
Print Assumptions emitted_message_carries_debit.
Print Assumptions deliver_credits_exact.
Print Assumptions refund_credits_exact.
