(* World-level observables: what an in-flight message will credit, the total supply of a
   storage-level token key over all shards plus undelivered messages, classification of world
   operations.  Definitions only; mirrors harness/world.go (credits, totals). *)
From EV Require Import Base.Bytes Base.Store Base.Monad gen.Consts Codec.Types Helpers.Helpers
  Ledger.Types Ledger.Env Ledger.Funcs Ledger.Transfers Ledger.World LedgerProofs.Defs.

Section WorldObs.
  Variable c : wcfg.
  Notation cd := (wc_cdc c).

  (* balance of one account value under the full storage key k *)
  Definition acct_balance (k : bytes) (a : account) : Z :=
    match sget (a_store a) k with
    | [] => 0%Z
    | b => match dec_tok cd b with
           | Some t => match t_value t with Some v => v | None => 0%Z end
           | None => 0%Z
           end
    end.
  Lemma acct_balance_empty k : acct_balance k empty_account = 0%Z.
  Proof. unfold acct_balance, empty_account. cbn [a_store]. rewrite sget_nil. reflexivity. Qed.

  Definition shard_total (k : bytes) (m : amap account) : Z := asum (acct_balance k) m.
  Definition shards_total (k : bytes) (l : list (amap account)) : Z :=
    fold_right (fun m acc => (shard_total k m + acc)%Z) 0%Z l.

  (* (full storage key, quantity) pairs the destination side credits for a message; mirrors hMsg.credits *)
  Definition nft_credit (tok payload : bytes) : list (bytes * Z) :=
    match dec_tok cd payload with
    | Some t => match t_value t with
                | Some v => [(nft_key (P ++ tok) (tok_nonce t), v)]
                | None => []
                end
    | None => []
    end.
  Fixpoint multi_credits (fuel : nat) (args : list bytes) (idx : N) : list (bytes * Z) :=
    match fuel with
    | O => []
    | S f =>
      let start := (1 + idx * 3)%N in
      match nth_error args (N.to_nat start), nth_error args (N.to_nat (start + 1)), nth_error args (N.to_nat (start + 2)) with
      | Some tok, Some nb, Some third =>
        (if (0 <? bigU64 nb)%N then nft_credit tok third else [(P ++ tok, bigZ third)])
        ++ multi_credits f args (idx + 1)
      | _, _, _ => []
      end
    end.
  Definition credits (m : msg) : list (bytes * Z) :=
    let A := m_args m in
    if beqb (m_fn m) C.BuiltInFunctionESDTTransfer then
      match A with tok :: v :: _ => [(P ++ tok, bigZ v)] | _ => [] end
    else if beqb (m_fn m) C.BuiltInFunctionESDTNFTTransfer then
      match A with tok :: _ :: _ :: payload :: _ => nft_credit tok payload | _ => [] end
    else if beqb (m_fn m) C.BuiltInFunctionMultiESDTNFTTransfer then
      match A with
      | a0 :: _ =>
        let n := bigU64 a0 in
        if ((be_to_N a0 <? two64) && (n <=? alen A / 3))%N%bool then multi_credits (N.to_nat n) A 0 else []
      | [] => []
      end
    else [].

  Definition qty_list (k : bytes) (l : list (bytes * Z)) : Z :=
    fold_right (fun kv acc => ((if beqb (fst kv) k then snd kv else 0) + acc)%Z) 0%Z l.
  Definition qty (k : bytes) (m : msg) : Z := qty_list k (credits m).
  Definition inflight_total (k : bytes) (l : list msg) : Z := fold_right (fun m acc => (qty k m + acc)%Z) 0%Z l.

  (* total supply of the storage-level key k: all accounts of all shards + undelivered transfers *)
  Definition total (k : bytes) (w : world) : Z := (shards_total k (shards w) + inflight_total k (inflight w))%Z.

  (* the operations C01 quantifies over: origin-side executions of the three transfer functions by an
     account that lives on the executing shard, deliveries and refunds of in-flight messages *)
  Definition is_transfer_fn (f : bytes) : bool :=
    beqb f C.BuiltInFunctionESDTTransfer || beqb f C.BuiltInFunctionESDTNFTTransfer
    || beqb f C.BuiltInFunctionMultiESDTNFTTransfer.
  Definition origin_call (sh : N) (i : input) : Prop :=
    wc_shard_of c (i_caller i) = sh /\ presence_ok c sh i.
  Definition transfer_op (op : wop) : Prop :=
    match op with
    | OCall sh fn i => is_transfer_fn fn = true /\ origin_call sh i
    | ODeliver _ _ => True
    | ORefund _ _ => True
    | ORedeliver _ _ => False
    end.
End WorldObs.
