(* Capstone, part 7: the create-freshness hypothesis of [honest_op] is DERIVABLE on disciplined honest histories.

   Capstone_Defs.honest_op asks, for a user's ESDTNFTCreate, [create_fresh]: the caller holds nothing under the nonce
   counter + 1 about to be issued (the F4c / F5 exclusion of C02).  Here:

     honest_op' / honest_ops7'     = honest_op / honest_ops7 WITHOUT that clause (nothing else changed);
     FInv G w                      the additional invariant: for every token identifier there is a list L of nonces such
                                   that C07's CInv holds for L (at most one holder of the create role, whose counter -- or
                                   the counter carried by the hand-over message in flight -- is >= every element of L)
                                   and C08w's MInv holds for the value predicate "the nonce is in L": every stored entry
                                   and every in-flight NFT payload of the token has its nonce in L.  Holds of the empty
                                   world ([FInv_empty]);
     holder_create_fresh           JInv-free: FInv, valid identifier, caller HOLDS the create role, counter + 1 < 2^64
                                   ==> create_fresh.  (stored_nonce_le_counter: every stored nonce <= the holder's counter.)
     honest_step'                  one honest_op' obeying creator_ok keeps JInv and FInv and moves the totals by the stated
                                   supply change: a create that succeeds is made by the holder (freshness derived, so it is
                                   an honest_op); a create that fails changes nothing;
     capstone_invariant', capstone_supply', capstone_supply_nonneg', capstone_wellformed', capstone_no_panic',
     honest7'_disciplined, capstone_nonces_unique'
                                   the capstone theorems for honest_ops7' (general start world: suffix _from; from the
                                   EMPTY world: no suffix).

   The literal implication  honest_ops7' -> honest_ops7  is FALSE: honest_op asks freshness of EVERY user ESDTNFTCreate,
   also of one that is refused because the caller does not hold the create role -- and an account that received NFT #1
   and has counter 0 is not "fresh" ([honest7'_implies_honest7_refuted]: grant, create, transfer to carol, carol's
   refused create).  [honest7'_implies_honest7_partial] is the exact statement: honest_ops7' + freshness of the creates
   of NON-holders (which fail anyway) gives honest_ops7; with [honest7_implies_honest7'] this is an equivalence.  Since
   the primed capstone theorems need no such hypothesis, nothing is lost. *)
From Coq.Strings Require Import String.
From Coq Require Import Lia List Sorted.
From EV Require Import Base.Bytes Base.Store Base.Monad gen.Consts Codec.Types Helpers.Helpers
  Ledger.Types Ledger.Env Ledger.Funcs Ledger.Transfers Ledger.World
  LedgerProofs.Defs LedgerProofs.EnvSpec LedgerProofs.WorldDefs LedgerProofs.WorldSpec
  LedgerProofs.Spec_Transfers_Base LedgerProofs.Spec_Transfers_Multi LedgerProofs.Spec_Supply LedgerProofs.Spec_System
  LedgerProofs.C01_World LedgerProofs.C01_Step LedgerProofs.C01_Consistent
  LedgerProofs.C02_Effects LedgerProofs.C02_NonNeg LedgerProofs.C02_World
  LedgerProofs.C05_Footprint LedgerProofs.C07_Exec LedgerProofs.C07_Emit LedgerProofs.C07_World
  LedgerProofs.C15_Inv LedgerProofs.C15_Transfers LedgerProofs.C15_World
  LedgerProofs.NoPanic LedgerProofs.NoPanicWorldEmit LedgerProofs.NoPanicWorld
  LedgerProofs.Supply_Base LedgerProofs.Supply_Calls LedgerProofs.Supply_Step LedgerProofs.Supply_Check
  LedgerProofs.ValidIds_Id LedgerProofs.ValidIds_Inv LedgerProofs.ValidIds_Exec LedgerProofs.ValidIds_World
  LedgerProofs.C08_Base LedgerProofs.C08w_Inv LedgerProofs.C08w_Funcs LedgerProofs.C08w_Transfers LedgerProofs.C08w_World
  LedgerProofs.C08w_Pause
  LedgerProofs.Capstone_Defs LedgerProofs.Capstone_Step LedgerProofs.Capstone_Histories LedgerProofs.Capstone_Check
  LedgerProofs.Capstone_Examples LedgerProofs.Capstone_Decide.
Import ListNotations.

Section Fresh.
  Variable c : wcfg.
  Hypothesis Hc : codec_ok (wc_cdc c).
  Hypothesis Hf : flag_undec (wc_cdc c).
  Notation shof := (wc_shard_of c).

  (* ================================================================ *)
  (* honest operations without the freshness clause                     *)
  (* ================================================================ *)
  Definition user_call' (sh : N) (fn : bytes) (i : input) : Prop :=
    origin_call c sh i /\ i_caller i <> SC /\ user_ids fn i.
  Definition honest_op' (w : world) (op : wop) : Prop :=
    match op with
    | OCall sh fn i => (alen (i_args i) < 2 ^ 40)%N /\ (user_call' sh fn i \/ system_call c w sh fn i)
    | ODeliver _ _ | ORefund _ _ => True
    | ORedeliver _ _ => False
    end.
  Fixpoint honest_ops' (w : world) (ops : list wop) : Prop :=
    match ops with
    | [] => True
    | op :: r => honest_op' w op /\ honest_ops' (wstep c w op) r
    end.
  Fixpoint honest_ops7' (G : list bytes) (w : world) (ops : list wop) : Prop :=
    match ops with
    | [] => True
    | op :: r => honest_op' w op /\ creator_ok c G w op /\ honest_ops7' (granted_after G op) (wstep c w op) r
    end.

  Lemma honest_op_weaken w op : Capstone_Defs.honest_op c w op -> honest_op' w op.
  Proof.
    destruct op as [sh fn i|? ?|? ?|? ?]; cbn [Capstone_Defs.honest_op honest_op']; auto.
    intros [Hl [(H1 & H2 & H3 & _)|Hs]]; (split; [exact Hl|]); [left; split; [exact H1|split; [exact H2|exact H3]]|right; exact Hs].
  Qed.
  Theorem honest7_implies_honest7' ops : forall G w, honest_ops7 c G w ops -> honest_ops7' G w ops.
  Proof.
    induction ops as [|op r IH]; intros G w H; [exact I|]. destruct H as (H1 & H2 & H3).
    split; [apply honest_op_weaken; exact H1|]. split; [exact H2|apply IH; exact H3].
  Qed.
  Lemma honest_ops7'_honest' ops : forall G w, honest_ops7' G w ops -> honest_ops' w ops.
  Proof.
    induction ops as [|op r IH]; intros G w H; [exact I|]. destruct H as (H1 & _ & H3). split; [exact H1|apply (IH _ _ H3)].
  Qed.
  Lemma honest_ops7'_firstn n : forall ops G w, honest_ops7' G w ops -> honest_ops7' G w (firstn n ops).
  Proof.
    induction n as [|n IH]; intros ops G w H; [exact I|]. destruct ops as [|op ops]; [exact I|].
    destruct H as (H1 & H2 & H3). cbn [firstn honest_ops7']. split; [exact H1|]. split; [exact H2|apply IH; exact H3].
  Qed.

  (* an honest_op' is an honest_op, or a user's ESDTNFTCreate *)
  Lemma honest'_cases w op : honest_op' w op ->
    Capstone_Defs.honest_op c w op
    \/ exists sh i, op = OCall sh FCreate i /\ (alen (i_args i) < 2 ^ 40)%N /\ user_call' sh FCreate i.
  Proof.
    destruct op as [sh fn i|? ?|? ?|? ?]; cbn [Capstone_Defs.honest_op honest_op']; auto.
    intros [Hl [Hu|Hs]]; [|left; split; [exact Hl|right; exact Hs]].
    destruct (beqb_spec fn FCreate) as [->|Hne].
    - right. exists sh, i. auto.
    - left. split; [exact Hl|]. left. destruct Hu as (H1 & H2 & H3).
      split; [exact H1|]. split; [exact H2|]. split; [exact H3|]. intros He. contradiction.
  Qed.
  Lemma honest_op_strengthen w op : honest_op' w op ->
    (forall sh i, op = OCall sh FCreate i -> i_caller i <> SC -> create_fresh c w sh i) -> Capstone_Defs.honest_op c w op.
  Proof.
    intros Hop Hfr. destruct (honest'_cases w op Hop) as [H|(sh & i & -> & Hl & Hu)]; [exact H|].
    split; [exact Hl|]. left. destruct Hu as (H1 & H2 & H3). split; [exact H1|]. split; [exact H2|]. split; [exact H3|].
    intros _. apply (Hfr sh i eq_refl H2).
  Qed.

  (* an honest_op' is an operation of the provenance histories of C08w (with the pause broadcast) *)
  Lemma honest'_c08w w op : honest_op' w op -> honest_op_p c op.
  Proof.
    destruct op as [sh fn i|? ?|? ?|? ?]; cbn [honest_op']; try (intros; left; exact I).
    - intros [_ [(Hor & _ & (Hids & _))|Hs]].
      + left. apply origin_call_honest; assumption.
      + destruct Hs as (Hin & _ & _ & _ & Hids & _ & Hnp & _). destruct (pause_dec fn) as [Hpf|Hnpf].
        * right. split; assumption.
        * left. destruct (sys_fn_not_nft fn Hin) as (H1 & H2 & _). split; [|split; [exact Hids|]].
          -- intros _. apply (Hnp Hnpf).
          -- intros [H|H]; contradiction.
  Qed.

  (* so every honest history of the capstone is a provenance history of C08w_Pause *)
  Lemma honest_c08w w op : Capstone_Defs.honest_op c w op -> honest_op_p c op.
  Proof. intros H. apply (honest'_c08w w). apply honest_op_weaken. exact H. Qed.
  Theorem honest_ops_c08w ops : forall w, honest_ops c w ops -> Forall (honest_op_p c) ops.
  Proof.
    induction ops as [|op r IH]; intros w H; [constructor|]. destruct H as [H1 H2].
    constructor; [apply (honest_c08w w); exact H1|apply (IH _ H2)].
  Qed.
  Theorem honest_ops'_c08w ops : forall w, honest_ops' w ops -> Forall (honest_op_p c) ops.
  Proof.
    induction ops as [|op r IH]; intros w H; [constructor|]. destruct H as [H1 H2].
    constructor; [apply (honest'_c08w w); exact H1|apply (IH _ H2)].
  Qed.

  (* honest_op' implies NoPanicWorld.tx_op *)
  Lemma honest_tx_op' w op : honest_op' w op -> tx_op c op.
  Proof.
    intros Hop. destruct (honest'_cases w op Hop) as [H|(sh & i & -> & Hl & Hu)]; [apply (honest_tx_op c w); exact H|].
    cbn [tx_op]. split; [left; apply Hu|exact Hl].
  Qed.
  Lemma honest_ops_tx_ops' ops : forall w, honest_ops' w ops -> Forall (tx_op c) ops.
  Proof.
    induction ops as [|op r IH]; intros w H; [constructor|]. destruct H as [H1 H2].
    constructor; [apply (honest_tx_op' w); exact H1|apply (IH _ H2)].
  Qed.

  (* ================================================================ *)
  (* the invariant                                                      *)
  (* ================================================================ *)
  (* "m is of record for (tok, n)" := the nonce n is in the list kept for tok; the metadata value itself is immaterial *)
  Definition nonce_rec (Lf : bytes -> list N) : bytes -> N -> metadata -> Prop := fun tok n _ => In n (Lf tok).
  Definition FInv (G : list bytes) (w : world) : Prop :=
    exists Lf : bytes -> list N,
      (forall tok, CInv c tok (bytes_in tok G) w (Lf tok)) /\ MInv c (nonce_rec Lf) w.

  Lemma init_ok_empty_le tok n : (wc_nshards c <= N.of_nat n)%N -> init_ok c tok (C15_World.empty_world n).
  Proof.
    intros Hn. split; [|split].
    - unfold wf_world, C15_World.empty_world. cbn [shards]. rewrite repeat_length. lia.
    - reflexivity.
    - intros sh a Hh. unfold holder, ncreate, wroles, wst in Hh. rewrite C15_World.shard_accts_empty_world in Hh.
      unfold roles_at in Hh. rewrite cell_empty_state in Hh. cbn in Hh. lia.
  Qed.
  Theorem FInv_empty G n : (wc_nshards c <= N.of_nat n)%N -> FInv G (C15_World.empty_world n).
  Proof.
    intros Hn. exists (fun _ => []). split.
    - intros tok. apply (CInv_g c tok false); [reflexivity|]. apply CInv_init. apply init_ok_empty_le. exact Hn.
    - apply MInv_empty.
  Qed.

  (* what the invariant says, unfolded: every stored NFT entry of a valid identifier has a nonce that the holder of
     the create role has already passed *)
  Theorem stored_nonce_le_counter G w tok sh a n t m sh' a' : FInv G w -> valid_id tok ->
    tok_at (env_at c sh) (sstate w sh) a (nft_key (P ++ tok) n) = Some t -> t_meta t = Some m ->
    holder c w tok sh' a' -> (n <= wcounter w tok sh' a')%N.
  Proof.
    intros (Lf & HC & [HP _]) Hv Ht Hm Hh.
    pose proof (PInv_prov _ _ _ (HP sh) a tok n t m Hv Ht Hm) as Hin. unfold nonce_rec in Hin.
    pose proof (ci_bound c tok _ w _ (HC tok) sh' a' Hh) as Hb. rewrite Forall_forall in Hb. apply (Hb n Hin).
  Qed.
  (* ... and likewise bounded by the counter that a hand-over message in flight carries *)
  Theorem stored_nonce_le_inflight G w tok sh a n t m msg : FInv G w -> valid_id tok ->
    tok_at (env_at c sh) (sstate w sh) a (nft_key (P ++ tok) n) = Some t -> t_meta t = Some m ->
    In msg (inflight w) -> is_hmsg tok msg = true ->
    exists k, m_args msg = [tok; u64_bytes k] /\ (n <= k)%N.
  Proof.
    intros (Lf & HC & [HP _]) Hv Ht Hm Hin Hh.
    pose proof (PInv_prov _ _ _ (HP sh) a tok n t m Hv Ht Hm) as Hn. unfold nonce_rec in Hn.
    pose proof (ci_msgs c tok _ w _ (HC tok)) as Hms. pose proof (hmsgs_in tok _ _ Hin Hh) as Hin'.
    destruct (hmsgs tok (inflight w)) as [|m0 [|m2 r]]; [destruct Hin'| |contradiction].
    destruct Hin' as [->|[]]. destruct Hms as (_ & k & Ha & _ & Hb). exists k. split; [exact Ha|].
    rewrite Forall_forall in Hb. apply (Hb n Hn).
  Qed.

  (* THE derivation: the holder of the create role holds nothing under counter + 1 *)
  Theorem holder_create_fresh G w sh i : FInv G w -> valid_id (argn i 0) ->
    has_role (env_at c sh) (sstate w sh) (i_caller i) (argn i 0) CR = true ->
    (counter_at (sstate w sh) (i_caller i) (argn i 0) + 1 < two64)%N ->
    create_fresh c w sh i.
  Proof.
    intros HF Hv Hrole Hnw. unfold create_fresh, balance, bal_of_bytes.
    destruct (cell (sstate w sh) (i_caller i) (nft_key (P ++ argn i 0) (create_nonce i (sstate w sh)))) as [|b0 br] eqn:Ecell;
      [reflexivity|].
    destruct (dec_tok (cdc (env_at c sh)) (b0 :: br)) as [t|] eqn:Ed; [|reflexivity]. exfalso.
    assert (Ht : tok_at (env_at c sh) (sstate w sh) (i_caller i) (nft_key (P ++ argn i 0) (create_nonce i (sstate w sh))) = Some t).
    { unfold tok_at. rewrite Ecell. exact Ed. }
    assert (Hn : create_nonce i (sstate w sh) = (counter_at (sstate w sh) (i_caller i) (argn i 0) + 1)%N).
    { unfold create_nonce. apply u64_small. exact Hnw. }
    pose proof HF as (Lf & HC & [HP _]).
    destruct (PI_nft _ _ _ _ _ _ _ (HP sh) Hv Ht) as [_ Htn]. unfold tok_nonce in Htn.
    destruct (t_meta t) as [m|] eqn:Em; [|rewrite Hn in Htn; lia].
    apply holder_has_role in Hrole.
    pose proof (stored_nonce_le_counter G w (argn i 0) sh (i_caller i) _ t m sh (i_caller i) HF Hv Ht Em Hrole) as Hle.
    rewrite Hn in Hle. unfold wcounter, wst in Hle. unfold sstate in Hle. lia.
  Qed.

  (* ================================================================ *)
  (* C07's discipline for one honest_op'                                *)
  (* ================================================================ *)
  Lemma honest_step_ok' tok G w op : JInv c w -> honest_op' w op -> creator_ok c G w op ->
    step_ok c tok (bytes_in tok G) w op /\ step_nowrap c tok w op
    /\ ((bytes_in tok G || grant_attempt c tok w op)%bool = true -> bytes_in tok (granted_after G op) = true).
  Proof.
    intros HJ Hop Hcr. destruct (honest'_cases w op Hop) as [H|(sh & i & -> & Hl & Hu)];
      [apply (honest_step_ok c); assumption|].
    assert (Hfs : beqb FCreate FSetRole = false) by reflexivity.
    split; [|split].
    - split; [cbn [dst_ok]; intros H; vm_compute in H; discriminate H|].
      cbn [op_exec]. destruct (sh <? wc_nshards c)%N; [|exact I]. split; [|split].
      + intros (Hx & _). discriminate Hx.
      + intros (Hx & _). discriminate Hx.
      + intros ((Hx & _) & _). discriminate Hx.
    - unfold step_nowrap. cbn [op_exec]. destruct (sh <? wc_nshards c)%N; [|exact I].
      intros He Ht. rewrite <- Ht. apply (proj2 Hcr He).
    - intros H. cbn [granted_after]. unfold grants_create. rewrite Hfs. cbn [andb].
      apply Bool.orb_true_iff in H as [H|H]; [exact H|]. unfold grant_attempt in H. cbn [op_exec] in H.
      destruct (sh <? wc_nshards c)%N; [|discriminate H]. rewrite Hfs in H. cbn [andb] in H. discriminate H.
  Qed.

  (* ================================================================ *)
  (* the invariant is kept                                              *)
  (* ================================================================ *)
  Lemma FInv_step G w op : JInv c w -> FInv G w -> honest_op' w op -> creator_ok c G w op ->
    FInv (granted_after G op) (wstep c w op).
  Proof.
    intros HJ (Lf & HC & HM) Hop Hcr.
    exists (fun tok => Lf tok ++ issued tok (opt_list (step_log c w op))). split.
    - intros tok. destruct (honest_step_ok' tok G w op HJ Hop Hcr) as (H1 & H2 & H3).
      pose proof (CInv_step c Hc tok _ w op _ (HC tok) H1 H2) as H.
      eapply CInv_g; [|exact H]. intros Hg.
      destruct (bytes_in tok G || grant_attempt c tok w op)%bool eqn:E; [|reflexivity].
      rewrite (H3 eq_refl) in Hg. discriminate Hg.
    - assert (HM' : MInv c (nonce_rec (fun tok => Lf tok ++ issued tok (opt_list (step_log c w op)))) w).
      { eapply MInv_mono; [|exact HM]. intros tok n m Hin. unfold nonce_rec in *. apply in_or_app. left. exact Hin. }
      apply (MInv_step_gen_p c Hc Hf); [exact HM'|apply (honest'_c08w w); exact Hop|].
      intros sh fn i o s' Hex Hx tok n m Hin. unfold nonce_rec.
      destruct (honest'_c08w w op Hop) as [Hh|Hp].
      2:{ destruct op as [sh0 fn0 i0|? ?|? ?|? ?]; [|destruct Hp..]. destruct Hp as [Hp _].
          exfalso. cbn [op_exec] in Hex. destruct (sh0 <? wc_nshards c)%N; [|discriminate Hex]. injection Hex as <- <- <-.
          rewrite (produced_pause _ fn0 i0 _ Hp) in Hin. destruct Hin. }
      destruct (op_exec_honest c _ w op sh fn i HM Hh Hex) as (_ & Hids & _).
      unfold produced in Hin. destruct (beqb_spec fn F_CREATE) as [Hfn|Hfn].
      + (* a creation: the nonce is the one issued by this step *)
        apply in_or_app. right. rewrite <- (step_issued c Hc tok w op). apply in_map_iff.
        exists (fn, (tok, n, m)). split; [reflexivity|]. apply filter_In. split.
        * unfold step_evs. rewrite Hex, Hx. apply in_map. unfold produced. rewrite Hfn, beqb_refl. exact Hin.
        * cbn [fst snd]. rewrite Hfn, !beqb_refl. reflexivity.
      + (* an update: the updater's copy is a stored entry, whose nonce is already of record *)
        apply in_or_app. left.
        assert (Hupd : forall g : metadata -> metadata,
                   valid_id (argn i 0) ->
                   In (tok, n, m) (match own_meta (env_at c sh) i (wst w sh) with
                                   | Some m0 => [(argn i 0, bigU64 (argn i 1), g m0)] | None => [] end) ->
                   In n (Lf tok)).
        { intros g Hv Hi. unfold own_meta in Hi.
          destruct (tok_at (env_at c sh) (wst w sh) (i_caller i) (nft_key (P ++ argn i 0) (bigU64 (argn i 1)))) as [t|] eqn:Et;
            [|destruct Hi].
          destruct (t_meta t) as [m0|] eqn:Em; [|destruct Hi]. destruct Hi as [Hi|[]]. injection Hi as <- <- _.
          destruct HM as [HP _]. apply (PInv_prov _ _ _ (HP sh) (i_caller i) (argn i 0) _ t m0 Hv Et Em). }
        destruct (beqb_spec fn F_ADDURI) as [Hfa|Hfa].
        * subst fn. apply (Hupd _ (C08w_Funcs.call_ids_arg0 BAddUri i eq_refl Hids) Hin).
        * destruct (beqb_spec fn F_UPDATTR) as [Hfu|Hfu]; [|destruct Hin].
          subst fn. apply (Hupd _ (C08w_Funcs.call_ids_arg0 BUpdateAttributes i eq_refl Hids) Hin).
  Qed.

  (* ================================================================ *)
  (* THE STEP                                                           *)
  (* ================================================================ *)
  (* an honest_op' obeying creator_ok is an honest_op (freshness derived), or a user's create that FAILS *)
  Lemma honest'_resolve G w op : FInv G w -> honest_op' w op -> creator_ok c G w op ->
    Capstone_Defs.honest_op c w op
    \/ (shards (wstep c w op) = shards w /\ inflight (wstep c w op) = inflight w
        /\ forall k, supply_delta c w op k = 0%Z).
  Proof.
    intros HF Hop Hcr. destruct (honest'_cases w op Hop) as [H|(sh & i & -> & Hl & Hu)]; [left; exact H|].
    pose proof (Supply_Step.wstep_shape c w (OCall sh FCreate i)) as Hshape. unfold supply_delta. cbn [step_call] in *.
    destruct (sh <? wc_nshards c)%N; [|right; destruct Hshape; auto].
    destruct Hshape as [_ Hshape].
    destruct (exec (env_at c sh) FCreate i (mk_state (shard_accts w sh))) as [[o|e|] s'] eqn:Hx;
      [|right; destruct Hshape; auto..].
    left. pose proof (create_returns_counter_succ (env_at c sh) Hc i _ o s' Hx) as Hspec. cbv zeta in Hspec.
    destruct Hspec as (Hrole & _). destruct Hu as (H1 & H2 & H3).
    split; [exact Hl|]. left. split; [exact H1|]. split; [exact H2|]. split; [exact H3|]. intros _.
    apply (holder_create_fresh G w sh i HF); [|exact Hrole|apply (proj2 Hcr eq_refl)].
    destruct H3 as [Hids _]. eapply call_ids_arg0'; [exact Hids|reflexivity|reflexivity].
  Qed.

  Theorem honest_step' G w op : JInv c w -> FInv G w -> honest_op' w op -> creator_ok c G w op ->
    JInv c (wstep c w op) /\ FInv (granted_after G op) (wstep c w op)
    /\ forall k, pkey k -> total c k (wstep c w op) = (total c k w + supply_delta c w op k)%Z.
  Proof.
    intros HJ HF Hop Hcr. pose proof (FInv_step G w op HJ HF Hop Hcr) as HF'.
    destruct (honest'_resolve G w op HF Hop Hcr) as [H|(H1 & H2 & H3)].
    - destruct (honest_step c Hc Hf w op HJ H) as [HJ' Ht]. split; [exact HJ'|]. split; [exact HF'|exact Ht].
    - split; [apply (JInv_same c w _ H1 H2 HJ)|]. split; [exact HF'|].
      intros k _. rewrite (total_same c w _ k H1 H2), H3. lia.
  Qed.

  (* the freshness clause, derived at the call itself *)
  Theorem create_fresh_derived G w sh i : FInv G w ->
    honest_op' w (OCall sh FCreate i) -> creator_ok c G w (OCall sh FCreate i) ->
    has_role (env_at c sh) (sstate w sh) (i_caller i) (argn i 0) CR = true -> create_fresh c w sh i.
  Proof.
    intros HF [_ [Hu|Hs]] Hcr Hrole.
    - destruct Hu as (_ & _ & [Hids _]).
      apply (holder_create_fresh G w sh i HF); [|exact Hrole|apply (proj2 Hcr eq_refl)].
      eapply call_ids_arg0'; [exact Hids|reflexivity|reflexivity].
    - destruct Hs as (Hin & _). destruct (sys_fn_not_nft _ Hin) as (_ & _ & Hx & _). contradiction.
  Qed.

  (* ================================================================ *)
  (* histories                                                          *)
  (* ================================================================ *)
  Theorem honest7'_histories ops : forall G w, JInv c w -> FInv G w -> honest_ops7' G w ops ->
    JInv c (wrun c w ops) /\ FInv (fold_left granted_after ops G) (wrun c w ops)
    /\ forall k, pkey k -> total c k (wrun c w ops) = (total c k w + supply_sum c w ops k)%Z.
  Proof.
    induction ops as [|op r IH]; intros G w HJ HF Hops.
    - split; [exact HJ|]. split; [exact HF|]. intros k _. cbn [wrun fold_left supply_sum]. lia.
    - destruct Hops as (Hop & Hcr & Hr). destruct (honest_step' G w op HJ HF Hop Hcr) as (HJ' & HF' & Hk).
      rewrite wrun_cons. cbn [fold_left]. destruct (IH _ _ HJ' HF' Hr) as (HJ'' & HF'' & Hk').
      split; [exact HJ''|]. split; [exact HF''|].
      intros k Hp. rewrite (Hk' k Hp), (Hk k Hp). cbn [supply_sum]. lia.
  Qed.

  (* honest_ops7' + freshness of the creates of NON-holders = honest_ops7 *)
  Definition nonholder_fresh_op (w : world) (op : wop) : Prop :=
    match op with
    | OCall sh fn i =>
      fn = FCreate -> i_caller i <> SC ->
      has_role (env_at c sh) (sstate w sh) (i_caller i) (argn i 0) CR = false -> create_fresh c w sh i
    | _ => True
    end.
  Fixpoint nonholder_fresh (w : world) (ops : list wop) : Prop :=
    match ops with
    | [] => True
    | op :: r => nonholder_fresh_op w op /\ nonholder_fresh (wstep c w op) r
    end.
  Theorem honest7'_implies_honest7_partial ops : forall G w, JInv c w -> FInv G w ->
    honest_ops7' G w ops -> nonholder_fresh w ops -> honest_ops7 c G w ops.
  Proof.
    induction ops as [|op r IH]; intros G w HJ HF Hops Hnf; [exact I|].
    destruct Hops as (Hop & Hcr & Hr). destruct Hnf as [Hn1 Hn2].
    destruct (honest_step' G w op HJ HF Hop Hcr) as (HJ' & HF' & _).
    split; [|split; [exact Hcr|apply IH; assumption]].
    apply (honest_op_strengthen w op Hop). intros sh i -> Hnsc.
    destruct (has_role (env_at c sh) (sstate w sh) (i_caller i) (argn i 0) CR) eqn:Er.
    - apply (create_fresh_derived G w sh i HF Hop Hcr Er).
    - apply (Hn1 eq_refl Hnsc Er).
  Qed.
  Theorem honest7_nonholder_fresh ops : forall G w, honest_ops7 c G w ops -> nonholder_fresh w ops.
  Proof.
    induction ops as [|op r IH]; intros G w H; [exact I|]. destruct H as (H1 & _ & H3). split; [|apply (IH _ _ H3)].
    destruct op as [sh fn i|? ?|? ?|? ?]; cbn [nonholder_fresh_op]; auto. intros -> Hnsc _.
    destruct H1 as [_ [Hu|Hs]]; [apply Hu; reflexivity|]. destruct Hs as (_ & Hx & _). contradiction.
  Qed.

  (* ---------------- level 1 ---------------- *)
  Theorem capstone_invariant'_from G w ops n : JInv c w -> FInv G w -> honest_ops7' G w ops ->
    JInv c (wrun c w (firstn n ops)) /\ FInv (fold_left granted_after (firstn n ops) G) (wrun c w (firstn n ops)).
  Proof.
    intros HJ HF Hops. destruct (honest7'_histories (firstn n ops) G w HJ HF (honest_ops7'_firstn n ops G w Hops)) as (H1 & H2 & _).
    split; assumption.
  Qed.
  Theorem capstone_no_panic'_from G w ops : JInv c w -> FInv G w -> honest_ops7' G w ops ->
    Forall (fun st => st <> Some SPanic) (statuses c w ops) /\ Forall step_total (results c w ops).
  Proof.
    intros HJ _ Hops. pose proof (honest_ops_tx_ops' ops w (honest_ops7'_honest' ops G w Hops)) as Htx. split.
    - apply (world_no_panic c Hc (flag_undec_ok _ Hf)); [apply (j_nopanic c w HJ)|exact Htx].
    - apply (world_total c Hc (flag_undec_ok _ Hf)); [apply (j_nopanic c w HJ)|exact Htx].
  Qed.
  Theorem capstone_supply'_from G w ops k : JInv c w -> FInv G w -> honest_ops7' G w ops -> pkey k ->
    total c k (wrun c w ops) = (total c k w + supply_sum c w ops k)%Z.
  Proof. intros HJ HF Hops Hk. apply (proj2 (proj2 (honest7'_histories ops G w HJ HF Hops)) k Hk). Qed.
  Theorem capstone_conservation'_from G w ops k : JInv c w -> FInv G w -> honest_ops7' G w ops -> no_supply_ops c w ops ->
    pkey k -> total c k (wrun c w ops) = total c k w.
  Proof.
    intros HJ HF Hops Hno Hk. rewrite (capstone_supply'_from G w ops k HJ HF Hops Hk), (supply_sum_no_supply_ops c ops w k Hno). lia.
  Qed.
  Theorem capstone_supply_nonneg'_from G w ops k : JInv c w -> FInv G w -> honest_ops7' G w ops -> pkey k ->
    (0 <= total c k (wrun c w ops))%Z.
  Proof.
    intros HJ HF Hops Hk. apply total_nonneg; [|exact Hk]. apply (j_supply c). apply (honest7'_histories ops G w HJ HF Hops).
  Qed.
  Theorem capstone_wellformed'_from G w ops n sh : JInv c w -> FInv G w -> honest_ops7' G w ops ->
    let s := sstate (wrun c w (firstn n ops)) sh in
    Inv (env_at c sh) s /\ forall a x, (0 <= balance (env_at c sh) s a (P ++ x))%Z.
  Proof.
    intros HJ HF Hops. cbv zeta. destruct (capstone_invariant'_from G w ops n HJ HF Hops) as [HJn _]. split.
    - apply (proj1 (j_c15 c _ HJn) sh).
    - intros a x. apply NonNeg_balance. apply (j_nonneg c _ HJn sh).
  Qed.

  (* ---------------- level 2 ---------------- *)
  Theorem honest7'_disciplined tok ops : forall G w, JInv c w -> FInv G w -> honest_ops7' G w ops ->
    C07_World.disciplined c tok (bytes_in tok G) w ops /\ nowrap c tok w ops.
  Proof.
    induction ops as [|op r IH]; intros G w HJ HF H; [split; exact I|]. destruct H as (Hop & Hcr & Hr).
    destruct (honest_step_ok' tok G w op HJ Hop Hcr) as (H1 & H2 & H3).
    destruct (honest_step' G w op HJ HF Hop Hcr) as (HJ' & HF' & _). destruct (IH _ _ HJ' HF' Hr) as [H4 H5].
    split; [split; [exact H1|]|split; [exact H2|exact H5]].
    apply (disciplined_mono c tok r (bytes_in tok (granted_after G op))); [exact H3|exact H4].
  Qed.
  Theorem capstone_nonces_unique'_from tok w ops : JInv c w -> FInv [] w -> init_ok c tok w -> honest_ops7' [] w ops ->
    let L := issued tok (snd (wrun_log c w ops)) in NoDup L /\ StronglySorted N.lt L.
  Proof.
    intros HJ HF Hi H. destruct (honest7'_disciplined tok ops [] w HJ HF H) as [Hd Hn].
    apply (nonces_unique_histories c Hc tok w ops Hi Hd Hn).
  Qed.

  (* ---------------- from the EMPTY world ---------------- *)
  Section Empty.
    Variable n : nat.
    Hypothesis Hn : (wc_nshards c <= N.of_nat n)%N.
    Notation w0 := (C15_World.empty_world n).

    Theorem capstone_invariant' ops k : honest_ops7' [] w0 ops -> JInv c (wrun c w0 (firstn k ops)).
    Proof. intros H. apply (capstone_invariant'_from [] w0 ops k (JInv_empty c n Hn) (FInv_empty [] n Hn) H). Qed.
    Theorem capstone_no_panic' ops : honest_ops7' [] w0 ops ->
      Forall (fun st => st <> Some SPanic) (statuses c w0 ops) /\ Forall step_total (results c w0 ops).
    Proof. intros H. apply (capstone_no_panic'_from [] w0 ops (JInv_empty c n Hn) (FInv_empty [] n Hn) H). Qed.
    Theorem capstone_supply' ops k : honest_ops7' [] w0 ops -> pkey k ->
      total c k (wrun c w0 ops) = (total c k w0 + supply_sum c w0 ops k)%Z.
    Proof. intros H Hk. apply (capstone_supply'_from [] w0 ops k (JInv_empty c n Hn) (FInv_empty [] n Hn) H Hk). Qed.
    Theorem capstone_supply_nonneg' ops k : honest_ops7' [] w0 ops -> pkey k -> (0 <= total c k (wrun c w0 ops))%Z.
    Proof. intros H Hk. apply (capstone_supply_nonneg'_from [] w0 ops k (JInv_empty c n Hn) (FInv_empty [] n Hn) H Hk). Qed.
    Theorem capstone_wellformed' ops k sh : honest_ops7' [] w0 ops ->
      let s := sstate (wrun c w0 (firstn k ops)) sh in
      Inv (env_at c sh) s /\ forall a x, (0 <= balance (env_at c sh) s a (P ++ x))%Z.
    Proof. intros H. apply (capstone_wellformed'_from [] w0 ops k sh (JInv_empty c n Hn) (FInv_empty [] n Hn) H). Qed.
    Theorem capstone_nonces_unique' tok ops : honest_ops7' [] w0 ops ->
      let L := issued tok (snd (wrun_log c w0 ops)) in NoDup L /\ StronglySorted N.lt L.
    Proof.
      intros H. apply (capstone_nonces_unique'_from tok w0 ops (JInv_empty c n Hn) (FInv_empty [] n Hn) (init_ok_empty_le tok n Hn) H).
    Qed.
    (* the freshness clause holds at every ESDTNFTCreate of a role holder along the run *)
    Theorem capstone_create_fresh' ops sh i : honest_ops7' [] w0 (ops ++ [OCall sh FCreate i]) ->
      let w := wrun c w0 ops in
      has_role (env_at c sh) (sstate w sh) (i_caller i) (argn i 0) CR = true -> create_fresh c w sh i.
    Proof.
      intros H. cbv zeta. revert H. generalize (JInv_empty c n Hn). generalize (FInv_empty [] n Hn).
      generalize (@nil bytes). generalize w0. induction ops as [|op r IH]; intros w G HF HJ H.
      - destruct H as (Hop & Hcr & _). apply (create_fresh_derived G w sh i HF Hop Hcr).
      - destruct H as (Hop & Hcr & Hr). destruct (honest_step' G w op HJ HF Hop Hcr) as (HJ' & HF' & _).
        rewrite wrun_cons. apply (IH _ _ HF' HJ' Hr).
    Qed.
  End Empty.

  (* ================================================================ *)
  (* boolean deciders                                                   *)
  (* ================================================================ *)
  Definition user_call'_b (sh : N) (fn : bytes) (i : input) : bool :=
    origin_b c sh i && negb (beqb (i_caller i) SC) && user_ids_b fn i.
  Lemma user_call'_b_ok sh fn i : user_call'_b sh fn i = true -> user_call' sh fn i.
  Proof.
    unfold user_call'_b, user_call'. intros H. apply andb_prop in H as [H H3]. apply andb_prop in H as [H1 H2].
    split; [apply origin_b_ok; exact H1|]. split; [|apply user_ids_b_ok; exact H3].
    intros He. rewrite He, beqb_refl in H2. discriminate H2.
  Qed.
  Definition honest_op'_b (w : world) (op : wop) : bool :=
    match op with
    | OCall sh fn i => (alen (i_args i) <? 2 ^ 40)%N && (user_call'_b sh fn i || system_call_b c w sh fn i)
    | ODeliver _ _ | ORefund _ _ => true
    | ORedeliver _ _ => false
    end.
  Lemma honest_op'_b_ok w op : honest_op'_b w op = true -> honest_op' w op.
  Proof.
    destruct op as [sh fn i|? ?|? ?|? ?]; cbn [honest_op'_b honest_op']; intros H; try exact I; try discriminate H.
    apply andb_prop in H as [H1 H2]. split; [apply N.ltb_lt; exact H1|].
    apply Bool.orb_prop in H2 as [H2|H2]; [left; apply user_call'_b_ok|right; apply system_call_b_ok]; exact H2.
  Qed.
  Fixpoint honest_ops7'_b (G : list bytes) (w : world) (ops : list wop) : bool :=
    match ops with
    | [] => true
    | op :: r => honest_op'_b w op && creator_ok_b c G w op && honest_ops7'_b (granted_after G op) (wstep c w op) r
    end.
  Lemma honest_ops7'_b_ok ops : forall G w, honest_ops7'_b G w ops = true -> honest_ops7' G w ops.
  Proof.
    induction ops as [|op r IH]; intros G w H; [exact I|]. cbn [honest_ops7'_b] in H.
    apply andb_prop in H as [H H3]. apply andb_prop in H as [H1 H2].
    split; [apply honest_op'_b_ok; exact H1|]. split; [apply creator_ok_b_ok; exact H2|apply IH; exact H3].
  Qed.
End Fresh.

(* ================================================================ *)
(* non-vacuity, and the witness against the literal implication       *)
(* ================================================================ *)
(* Capstone_Examples' world (two shards, ideal_codec, from the EMPTY world).  The system contract gives alice the create
   role; alice creates NFT#1 (4 units) and sends 2 of them to carol on the same shard; carol -- who does not hold the
   role and whose counter is 0 -- calls ESDTNFTCreate: REFUSED, and not "fresh" (she holds 2 units under nonce 0 + 1);
   the system contract hands the role over to carol (the counter 1 moves with it); carol creates NFT#2 -- fresh, by the
   theorem, although she holds NFT#1; alice, whose counter is back to 0 and who still holds 2 units of NFT#1, calls
   ESDTNFTCreate: refused, not fresh. *)
Definition k_fresh : list wop :=
  [ (* 0 *) OCall 0 FSetRole (k_in SC k_alice [k_nft; C.ESDTRoleNFTCreate; C.ESDTRoleNFTAddQuantity] false true);
    (* 1 *) k_create 0 k_alice 4;
    (* 2 *) OCall 0 FNft (k_in k_alice k_alice [k_nft; k_num 1; k_num 2; k_carol] true true);
    (* 3 *) k_create 0 k_carol 1;
    (* 4 *) OCall 0 CRT (k_in SC k_alice [k_nft; k_carol] false true);
    (* 5 *) k_create 0 k_carol 1;
    (* 6 *) k_create 0 k_alice 1 ].

Example fresh_example_checked :
  honest_ops7'_b kc [] kw0 k_fresh = true /\ honest_ops7_b kc [] kw0 k_fresh = false
  /\ honest_ops7_b kc [] kw0 (firstn 3 k_fresh) = true.
Proof. vm_compute. repeat split. Qed.
Example fresh_example_honest' : honest_ops7' kc [] kw0 k_fresh.
Proof. apply honest_ops7'_b_ok. apply fresh_example_checked. Qed.
(* THE WITNESS: the history is honest without the freshness clause, obeys creator_ok, starts from the empty world
   (JInv, FInv) -- and is not an honest_ops7 history: operation 3 is a user's ESDTNFTCreate that is not fresh *)
Example honest7'_implies_honest7_refuted :
  JInv kc kw0 /\ FInv kc [] kw0 /\ honest_ops7' kc [] kw0 k_fresh /\ ~ honest_ops7 kc [] kw0 k_fresh.
Proof.
  split; [apply capstone2_start|]. split; [apply FInv_empty; vm_compute; discriminate|]. split; [exact fresh_example_honest'|].
  intros H. destruct H as (_ & _ & H). destruct H as (_ & _ & H). destruct H as (_ & _ & H). destruct H as (H & _).
  destruct H as [_ [Hu|Hs]].
  - destruct Hu as (_ & _ & _ & Hfr). specialize (Hfr eq_refl). vm_compute in Hfr. discriminate Hfr.
  - destruct Hs as (_ & Hsc & _). vm_compute in Hsc. discriminate Hsc.
Qed.
(* what happened: statuses; nonces issued; freshness evaluated at the four creates (1: alice, holder; 3: carol without
   the role; 5: carol, holder; 6: alice without the role); carol's holdings when she creates NFT#2 *)
Example fresh_example_computed :
  statuses kc kw0 k_fresh = [Some SOk; Some SOk; Some SOk; Some SErr; Some SOk; Some SOk; Some SErr]
  /\ issued k_nft (snd (wrun_log kc kw0 k_fresh)) = [1; 2]%N
  /\ map (fun n => create_fresh_b kc (wrun kc kw0 (firstn n k_fresh)) 0
                     (k_in (if Nat.eqb n 1 || Nat.eqb n 6 then k_alice else k_carol)
                           (if Nat.eqb n 1 || Nat.eqb n 6 then k_alice else k_carol)
                           [k_nft; k_num 1] true true)) [1; 3; 5; 6]%nat = [true; false; true; false]
  /\ k_bal (wrun kc kw0 (firstn 5 k_fresh)) 0 k_carol k_kN1 = 2%Z
  /\ counter_at (sstate (wrun kc kw0 (firstn 5 k_fresh)) 0) k_carol k_nft = 1%N
  /\ counter_at (sstate (wrun kc kw0 (firstn 3 k_fresh)) 0) k_carol k_nft = 0%N
  /\ k_bal (wrun kc kw0 k_fresh) 0 k_carol k_kN2 = 1%Z.
Proof. vm_compute. repeat split. Qed.
(* the primed capstone theorems apply to the witness (to which the unprimed ones do not) *)
Example fresh_example_supply : forall x,
  total kc (P ++ x) (wrun kc kw0 k_fresh) = (total kc (P ++ x) kw0 + supply_sum kc kw0 k_fresh (P ++ x))%Z.
Proof.
  intros x. apply (capstone_supply' kc kc_ok kc_flag 2); [vm_compute; discriminate|exact fresh_example_honest'|apply pkey_P].
Qed.
Example fresh_example_wellformed : forall n sh,
  let s := sstate (wrun kc kw0 (firstn n k_fresh)) sh in
  Inv (env_at kc sh) s /\ forall a x, (0 <= balance (env_at kc sh) s a (P ++ x))%Z.
Proof.
  intros n sh. apply (capstone_wellformed' kc kc_ok kc_flag 2); [vm_compute; discriminate|exact fresh_example_honest'].
Qed.
Example fresh_example_nonces_unique : forall tok,
  let L := issued tok (snd (wrun_log kc kw0 k_fresh)) in NoDup L /\ StronglySorted N.lt L.
Proof.
  intros tok. apply (capstone_nonces_unique' kc kc_ok kc_flag 2); [vm_compute; discriminate|exact fresh_example_honest'].
Qed.
(* freshness at carol's successful create (operation 5), by the theorem -- and computed above *)
Example fresh_example_create_fresh :
  create_fresh kc (wrun kc kw0 (firstn 5 k_fresh)) 0
    (k_in k_carol k_carol [k_nft; k_num 1; str "name"%string; k_num 5; str "hash"%string; str "attr"%string; str "uri"%string] true true).
Proof.
  apply (capstone_create_fresh' kc kc_ok kc_flag 2); [vm_compute; discriminate| |vm_compute; reflexivity].
  apply (honest_ops7'_firstn kc 6 k_fresh [] kw0 fresh_example_honest').
Qed.
Example fresh_example_supply_computed :
  total kc k_kN1 (wrun kc kw0 k_fresh) = 4%Z /\ supply_sum kc kw0 k_fresh k_kN1 = 4%Z
  /\ total kc k_kN2 (wrun kc kw0 k_fresh) = 1%Z /\ supply_sum kc kw0 k_fresh k_kN2 = 1%Z.
Proof. vm_compute. repeat split. Qed.

(* the 34-operation history of Capstone_Decide, decided WITHOUT the freshness clause; theorems instantiated *)
Example fresh_history2_checked : honest_ops7'_b kc [] kw0 k_history2 = true.
Proof. vm_compute. reflexivity. Qed.
Example fresh_history2_honest' : honest_ops7' kc [] kw0 k_history2.
Proof. apply honest_ops7'_b_ok. exact fresh_history2_checked. Qed.
Example fresh_history2_supply : forall x,
  total kc (P ++ x) (wrun kc kw0 k_history2) = (total kc (P ++ x) kw0 + supply_sum kc kw0 k_history2 (P ++ x))%Z.
Proof.
  intros x. apply (capstone_supply' kc kc_ok kc_flag 2); [vm_compute; discriminate|exact fresh_history2_honest'|apply pkey_P].
Qed.
Example fresh_history2_nonces_unique : forall tok,
  let L := issued tok (snd (wrun_log kc kw0 k_history2)) in NoDup L /\ StronglySorted N.lt L.
Proof.
  intros tok. apply (capstone_nonces_unique' kc kc_ok kc_flag 2); [vm_compute; discriminate|exact fresh_history2_honest'].
Qed.
Example fresh_history2_wellformed : forall n sh,
  let s := sstate (wrun kc kw0 (firstn n k_history2)) sh in
  Inv (env_at kc sh) s /\ forall a x, (0 <= balance (env_at kc sh) s a (P ++ x))%Z.
Proof.
  intros n sh. apply (capstone_wellformed' kc kc_ok kc_flag 2); [vm_compute; discriminate|exact fresh_history2_honest'].
Qed.
(* the invariant at the end of the 34 operations, unfolded on bob (holder of the create role after the hand-over) *)
Example fresh_history2_invariant :
  FInv kc (fold_left granted_after k_history2 []) (wrun kc kw0 k_history2).
Proof.
  apply (honest7'_histories kc kc_ok kc_flag k_history2 [] kw0 capstone2_start); [|exact fresh_history2_honest'].
  apply FInv_empty. vm_compute. discriminate.
Qed.

Print Assumptions holder_create_fresh.
Print Assumptions honest_step'.
Print Assumptions honest7'_implies_honest7_partial.
Print Assumptions capstone_supply'.
Print Assumptions capstone_wellformed'.
Print Assumptions capstone_nonces_unique'.
Print Assumptions capstone_create_fresh'.
Print Assumptions honest7'_implies_honest7_refuted.
Print Assumptions fresh_example_computed.
Print Assumptions fresh_example_create_fresh.
Print Assumptions fresh_history2_invariant.
