(* C06 / C16 — gas accounting of the 23 built-in functions (model: Ledger/Funcs.v, Ledger/Transfers.v).

   For an ARBITRARY environment E (any codec, any fault plan, any schedule) every successful
   execution satisfies  [gas_spec i o (charge E f i s)]:
       either  charge <= GasProvided  and  GasRemaining + sum GasLimit = GasProvided - charge   ("priced")
       or      GasRemaining = 0 and sum GasLimit = 0                                            ("all consumed")
   where [charge E f i s] is a function of the environment, the input WITHOUT its gas field, and
   the pre-state, written in Go's uint64 arithmetic (u64/mul64).  [exact_charge] is the same formula
   in exact arithmetic; [charge_exact] shows they coincide whenever the exact value is < 2^64
   (no wrap-around), in particular for 32-bit costs and < 2^31 argument/payload bytes.

   Self-contained: local helper lemmas carry the prefix c06_ (LedgerProofs/EnvSpec.v is not imported). *)
From EV Require Import Base.Bytes Base.Store Base.Monad gen.Consts Codec.Types Helpers.Helpers
  Ledger.Types Ledger.Env Ledger.Funcs Ledger.Transfers.

Arguments sub64 : simpl never.
Arguments add64 : simpl never.
Arguments mul64 : simpl never.
Arguments u64 : simpl never.

Local Open Scope N_scope.

(* ------------------------------------------------------------------ *)
(* machine arithmetic                                                  *)
(* ------------------------------------------------------------------ *)
Lemma c06_two64 : two64 = 18446744073709551616. Proof. reflexivity. Qed.
Lemma c06_u64_small n : n < two64 -> u64 n = n.
Proof. unfold u64. rewrite c06_two64. intros H. apply N.mod_small. exact H. Qed.
Lemma c06_u64_lt n : u64 n < two64.
Proof. unfold u64. rewrite c06_two64. apply N.mod_lt. discriminate. Qed.
Lemma c06_u64_le n : u64 n <= n.
Proof. unfold u64. apply N.mod_le. discriminate. Qed.
Lemma c06_sub64_exact a b : b <= a -> a < two64 -> sub64 a b = a - b.
Proof.
  unfold sub64. rewrite c06_two64. intros H1 H2.
  replace (a + 18446744073709551616 - b) with ((a - b) + 1 * 18446744073709551616) by lia.
  rewrite N.mod_add by discriminate. apply N.mod_small. lia.
Qed.
Lemma c06_mul64_small a b : a * b < two64 -> mul64 a b = a * b.
Proof. unfold mul64. apply c06_u64_small. Qed.
Lemma c06_mul64_lt a b : mul64 a b < two64.
Proof. unfold mul64. apply c06_u64_lt. Qed.

(* ------------------------------------------------------------------ *)
(* the two outcomes                                                    *)
(* ------------------------------------------------------------------ *)
Definition priced (i : input) (o : output) (c : N) : Prop :=
  c <= i_gas i /\ o_gasRemaining o + sum_gasLimit o = i_gas i - c.
Definition all_consumed (o : output) : Prop := o_gasRemaining o = 0 /\ sum_gasLimit o = 0.
Definition gas_spec (i : input) (o : output) (c : N) : Prop := priced i o c \/ all_consumed o.

Lemma priced_not_created i o c : priced i o c -> o_gasRemaining o + sum_gasLimit o <= i_gas i.
Proof. unfold priced. lia. Qed.
Lemma gas_spec_not_created i o c : gas_spec i o c -> o_gasRemaining o + sum_gasLimit o <= i_gas i.
Proof. unfold gas_spec, priced, all_consumed. lia. Qed.
Lemma gas_spec_underfunded i o c : gas_spec i o c -> i_gas i < c -> all_consumed o.
Proof. unfold gas_spec, priced. intros [[H _]|H] Hlt; [lia|exact H]. Qed.

(* gas projections of the output constructors *)
Ltac gsimpl :=
  unfold gas_spec, priced, all_consumed, sum_gasLimit, add_output_transfer, add_nft_transfer, add_log, set_logs,
    set_returnData, set_accounts, set_gasrem, mk_out in *;
  cbn [o_gasRemaining o_accounts oc_transfers tr_gasLimit fold_right o_rc o_logs o_returnData] in *.

(* inversion of a successful run: monad steps, conditionals, pattern-matching binds *)
Ltac ginv_step :=
  first
  [ minv_step
  | match goal with
    | H : (match ?x with _ => _ end) _ = (Ok _, _) |- _ => destruct x eqn:?
    end ].
Ltac ginv := repeat ginv_step.

Ltac gas_arith :=
  repeat match goal with
         | H : negb _ = true |- _ => apply Bool.negb_true_iff in H
         | H : negb _ = false |- _ => apply Bool.negb_false_iff in H
         | H : (_ <? _) = false |- _ => apply N.ltb_ge in H
         | H : (_ <? _) = true |- _ => apply N.ltb_lt in H
         end.

(* inversion of the argument accessors *)
Lemma c06_arg_ok args k s x s' : arg args k s = (Ok x, s') -> nth (N.to_nat k) args [] = x /\ s' = s.
Proof.
  unfold arg. destruct (k <? alen args); [|intros H; minv].
  intros H. minv. split; [|reflexivity]. apply nth_error_nth. assumption.
Qed.
Lemma c06_args_from_ok args k s l s' : args_from args k s = (Ok l, s') -> l = skipn (N.to_nat k) args /\ s' = s.
Proof. unfold args_from. destruct (k <=? alen args); intros H; minv. split; reflexivity. Qed.

Ltac ainv :=
  repeat match goal with
         | H : arg _ _ _ = (Ok _, _) |- _ => apply c06_arg_ok in H; destruct H as [? ?]; subst
         | H : args_from _ _ _ = (Ok _, _) |- _ => apply c06_args_from_ok in H; destruct H as [? ?]; subst
         end;
  change (N.to_nat 0) with 0%nat in *; change (N.to_nat 1) with 1%nat in *; change (N.to_nat 2) with 2%nat in *;
  change (N.to_nat 3) with 3%nat in *; change (N.to_nat 4) with 4%nat in *.

Lemma c06_sub64_twice g c st : c <= g -> g < two64 -> st < two64 -> u64 (c + st) <= g ->
  sub64 (sub64 g c) st = g - u64 (c + st).
Proof.
  intros H1 H2 H3 H4. rewrite (c06_sub64_exact g c) by assumption.
  unfold sub64, u64 in *. rewrite c06_two64 in *. lia.
Qed.

Section GasSpec.
  Variable E : env.
  Notation G := (gas E).

  Lemma c06_cgr_snd p c : c <= p -> p < two64 -> compute_gas_remaining true p c = p - c.
  Proof.
    unfold compute_gas_remaining. intros H1 H2. destruct (p <? c) eqn:Hc; [apply N.ltb_lt in Hc; lia|].
    apply c06_sub64_exact; assumption.
  Qed.
  Lemma c06_cgr_nosnd p c : compute_gas_remaining false p c = 0.
  Proof. unfold compute_gas_remaining. destruct (p <? c); reflexivity. Qed.
  Lemma c06_cgr_under snd p c : p < c -> compute_gas_remaining snd p c = 0.
  Proof. unfold compute_gas_remaining. intros H. apply N.ltb_lt in H. rewrite H. reflexivity. Qed.

  (* ================================================================ *)
  (* supply functions with a flat charge                               *)
  (* ================================================================ *)
  Lemma gas_local_mint i s o s' : f_local_mint E i s = (Ok o, s') -> i_gas i < two64 ->
    priced i o (g_ESDTLocalMint G) /\ sum_gasLimit o = 0.
  Proof.
    unfold f_local_mint, check_local_action. cbv zeta. intros H Hg. ginv. gas_arith. gsimpl.
    rewrite c06_sub64_exact by assumption. lia.
  Qed.

  Lemma gas_local_burn i s o s' : f_local_burn E i s = (Ok o, s') -> i_gas i < two64 ->
    priced i o (g_ESDTLocalBurn G) /\ sum_gasLimit o = 0.
  Proof.
    unfold f_local_burn, check_local_action. cbv zeta. intros H Hg. ginv. gas_arith. gsimpl.
    rewrite c06_sub64_exact by assumption. lia.
  Qed.
  Lemma gas_nft_add_quantity i s o s' : f_nft_add_quantity E i s = (Ok o, s') -> i_gas i < two64 ->
    priced i o (g_ESDTNFTAddQuantity G) /\ sum_gasLimit o = 0.
  Proof.
    unfold f_nft_add_quantity, check_create_burn_add. cbv zeta. intros H Hg. ginv. gas_arith. gsimpl.
    rewrite c06_sub64_exact by assumption. lia.
  Qed.
  Lemma gas_nft_burn i s o s' : f_nft_burn E i s = (Ok o, s') -> i_gas i < two64 ->
    priced i o (g_ESDTNFTBurn G) /\ sum_gasLimit o = 0.
  Proof.
    unfold f_nft_burn, check_create_burn_add. cbv zeta. intros H Hg. ginv. gas_arith. gsimpl.
    rewrite c06_sub64_exact by assumption. lia.
  Qed.
  Lemma gas_esdt_burn i s o s' : f_esdt_burn E i s = (Ok o, s') -> i_gas i < two64 ->
    priced i o (g_ESDTBurn G).
  Proof.
    unfold f_esdt_burn. cbv zeta. intros H Hg. ginv. gas_arith.
    match goal with H : i_snd i = true |- _ => rewrite H in * end.
    rewrite c06_cgr_snd by assumption.
    destruct (is_sc (i_caller i)); gsimpl; lia.
  Qed.

  (* ================================================================ *)
  (* supply functions with a per-byte component (StorePerByte)          *)
  (* ================================================================ *)
  Definition charge_nft_create (A : list bytes) : N :=
    u64 (u64 (total_len A * g_StorePerByte G) + g_ESDTNFTCreate G).
  Definition charge_add_uri (A : list bytes) : N :=
    u64 (g_ESDTNFTAddURI G + u64 (total_len (skipn 2 A) * g_StorePerByte G)).
  Definition charge_update_attributes (A : list bytes) : N :=
    u64 (g_ESDTNFTUpdateAttributes G + u64 (zlen (nth 2 A []) * g_StorePerByte G)).

  Lemma gas_nft_create i s o s' : f_nft_create E i s = (Ok o, s') -> i_gas i < two64 ->
    priced i o (charge_nft_create (i_args i)) /\ sum_gasLimit o = 0.
  Proof.
    unfold f_nft_create, check_create_burn_add, charge_nft_create. cbv zeta. intros H Hg. ginv; gas_arith; gsimpl;
      (rewrite c06_sub64_exact by assumption; lia).
  Qed.
  Lemma gas_nft_add_uri i s o s' : f_nft_add_uri E i s = (Ok o, s') -> i_gas i < two64 ->
    priced i o (charge_add_uri (i_args i)) /\ sum_gasLimit o = 0.
  Proof.
    unfold f_nft_add_uri, check_create_burn_add, charge_add_uri. cbv zeta. intros H Hg. ginv. ainv. gas_arith. gsimpl.
    rewrite c06_sub64_twice; try assumption; [lia|apply c06_u64_lt].
  Qed.
  Lemma gas_nft_update_attributes i s o s' : f_nft_update_attributes E i s = (Ok o, s') -> i_gas i < two64 ->
    priced i o (charge_update_attributes (i_args i)) /\ sum_gasLimit o = 0.
  Proof.
    unfold f_nft_update_attributes, check_create_burn_add, charge_update_attributes. cbv zeta. intros H Hg. ginv. ainv. gas_arith. gsimpl.
    rewrite c06_sub64_twice; try assumption; [lia|apply c06_u64_lt].
  Qed.

  (* ================================================================ *)
  (* system-contract functions: nothing is returned, nothing forwarded  *)
  (* ================================================================ *)
  Lemma gas_freeze_wipe fz wp i s o s' : f_freeze_wipe E fz wp i s = (Ok o, s') -> all_consumed o.
  Proof. unfold f_freeze_wipe, check_system_one_arg. intros H. ginv; gsimpl; auto. Qed.
  Lemma gas_pause p i s o s' : f_pause E p i s = (Ok o, s') -> all_consumed o.
  Proof. unfold f_pause, check_system_one_arg. intros H. ginv; gsimpl; auto. Qed.
  Lemma gas_roles st i s o s' : f_roles E st i s = (Ok o, s') -> all_consumed o.
  Proof. unfold f_roles. cbv zeta. intros H. ginv; gsimpl; auto. Qed.
  Lemma gas_create_role_transfer i s o s' : f_create_role_transfer E i s = (Ok o, s') -> all_consumed o.
  Proof. unfold f_create_role_transfer. cbv zeta. intros H. ginv; gsimpl; auto. Qed.

  (* ================================================================ *)
  (* account-level functions                                            *)
  (* ================================================================ *)
  Lemma gas_change_owner i s o s' : f_change_owner E i s = (Ok o, s') -> i_gas i < two64 ->
    g_ChangeOwnerAddress G <= i_gas i /\ sum_gasLimit o = 0 /\
    if i_snd i then priced i o (g_ChangeOwnerAddress G) else all_consumed o.
  Proof.
    unfold f_change_owner. cbv zeta. intros H Hg. ginv; gas_arith;
      (destruct (i_snd i); [rewrite c06_cgr_snd by assumption|rewrite c06_cgr_nosnd]; gsimpl; lia).
  Qed.

  (* quirk: a same-shard asynchronous call by a contract moves the remaining gas into a call-back
     transfer and then drops the transfer: the remaining gas is lost (never created) *)
  Definition claim_drops_gas (i : input) : bool :=
    (i_dst i && (i_callType i =? C.AsynchronousCall) && is_sc (i_caller i))%bool.
  Lemma gas_claim_rewards i s o s' : f_claim_rewards E i s = (Ok o, s') -> i_gas i < two64 ->
    if i_snd i then gas_spec i o (g_ClaimDeveloperRewards G)
                    /\ (g_ClaimDeveloperRewards G <= i_gas i -> claim_drops_gas i = false -> priced i o (g_ClaimDeveloperRewards G))
    else all_consumed o.
  Proof.
    unfold f_claim_rewards, claim_drops_gas. cbv zeta. intros H Hg.
    destruct (i_snd i) eqn:Hs.
    - destruct (N.le_gt_cases (g_ClaimDeveloperRewards G) (i_gas i)) as [Hc|Hc].
      + rewrite c06_cgr_snd in H by assumption. ginv; gas_arith;
          repeat match goal with |- context [if ?b then _ else _] => destruct b eqn:? end; gsimpl;
          repeat match goal with H : ?b = true |- context [?b] => rewrite H end; cbn [andb]; try lia;
          (split; [lia|intros; discriminate]).
      + rewrite c06_cgr_under in H by assumption. ginv; gas_arith;
          repeat match goal with |- context [if ?b then _ else _] => destruct b end; gsimpl; lia.
    - rewrite c06_cgr_nosnd in H. ginv; gas_arith;
        repeat match goal with |- context [if ?b then _ else _] => destruct b end; gsimpl; lia.
  Qed.

  Lemma gas_set_user_name i s o s' : f_set_user_name E i s = (Ok o, s') -> i_gas i < two64 ->
    g_SaveUserName G <= i_gas i /\
    if i_dst i then priced i o (g_SaveUserName G) /\ sum_gasLimit o = 0
    else o_gasRemaining o = 0 /\ sum_gasLimit o = i_gas i.
  Proof.
    unfold f_set_user_name. cbv zeta. intros H Hg. ginv; gas_arith; gsimpl;
      match goal with H : i_dst i = _ |- _ => rewrite H end.
    - lia.
    - rewrite c06_sub64_exact by assumption. lia.
  Qed.

  (* ================================================================ *)
  (* state lemmas needed by the state-dependent charges                 *)
  (* ================================================================ *)
  Lemma c06_acct_accts s s' a : accts s' = accts s -> acct s' a = acct s a.
  Proof. unfold acct. intros ->. reflexivity. Qed.
  Lemma c06_dep_ok s u s' : dep E s = (Ok u, s') ->
    s' = {| accts := accts s; calls := S (calls s); allocs := allocs s |}.
  Proof. unfold dep. destruct (plan E (calls s)); intros H; inversion H; reflexivity. Qed.
  Lemma c06_dep_accts s u s' : dep E s = (Ok u, s') -> accts s' = accts s.
  Proof. intros H. apply c06_dep_ok in H. subst. reflexivity. Qed.
  Lemma c06_retrieve_ok a k s b s' : retrieve a k s = (Ok b, s') -> b = sget (a_store (acct s a)) k /\ s' = s.
  Proof. unfold retrieve. intros H. inversion H. split; reflexivity. Qed.
  Lemma c06_write_kv_ok a k v s u s' : write_kv a k v s = (Ok u, s') ->
    a_store (acct s' a) = sput (a_store (acct s a)) k v /\ (forall a', a' <> a -> acct s' a' = acct s a').
  Proof.
    unfold write_kv. intros H. inversion H. subst. unfold acct at 1. cbn [accts with_accts]. split.
    - rewrite aget_aput_eq. reflexivity.
    - intros a' Hne. unfold acct at 1. cbn [accts with_accts]. rewrite aget_aput_ne by assumption. reflexivity.
  Qed.
  Lemma c06_save_kv_ok a k v s u s' : save_kv E a k v s = (Ok u, s') ->
    a_store (acct s' a) = sput (a_store (acct s a)) k v /\ (forall a', a' <> a -> acct s' a' = acct s a').
  Proof.
    unfold save_kv. intros H. minv.
    match goal with H : dep E _ = _ |- _ => apply c06_dep_accts in H; rename H into Hd end.
    match goal with H : write_kv _ _ _ _ = _ |- _ => apply c06_write_kv_ok in H; destruct H as [H1 H2] end.
    rewrite H1. rewrite (c06_acct_accts _ _ a Hd). split; [reflexivity|].
    intros a' Hne. rewrite H2 by assumption. apply c06_acct_accts. assumption.
  Qed.

  (* ================================================================ *)
  (* SaveKeyValue                                                       *)
  (* ================================================================ *)
  (* the gas the loop accumulates, as a function of the caller's storage (Go arithmetic) *)
  Fixpoint skv_charge (st : store) (pairs : list bytes) (use : N) : N :=
    match pairs with
    | k :: v :: rest =>
      let use1 := u64 (use + u64 (u64 (zlen v + zlen k) * g_PersistPerByte G)) in
      let old := sget st k in
      if beqb old v then skv_charge st rest use1 else
      let change := if zlen old <? zlen v then zlen v - zlen old else 0 in
      skv_charge (sput st k v) rest (u64 (use1 + u64 (g_StorePerByte G * change)))
    | _ => use
    end.
  Definition charge_save_key_value (i : input) (s : mstate) : N :=
    skv_charge (a_store (acct s (i_caller i))) (i_args i) (g_SaveKeyValue G).

  Lemma c06_skv_loop_ok a gp : forall n pairs use s u s', (length pairs <= n)%nat ->
    skv_loop E a gp pairs use s = (Ok u, s') -> u = skv_charge (a_store (acct s a)) pairs use.
  Proof.
    induction n as [|n IH]; intros pairs use s u s' Hlen H.
    - destruct pairs; [|simpl in Hlen; lia]. cbn [skv_loop] in H. minv. reflexivity.
    - destruct pairs as [|k [|v rest]]; cbn [skv_loop] in H; [minv; reflexivity|minv|].
      cbv zeta in H. minv.
      match goal with H : retrieve _ _ _ = _ |- _ => apply c06_retrieve_ok in H; destruct H as [-> ->] end.
      cbn [skv_charge]. cbv zeta.
      destruct (beqb (sget (a_store (acct s a)) k) v) eqn:Eq.
      + eapply IH; [|eassumption]. simpl in Hlen. lia.
      + minv.
        match goal with H : save_kv _ _ _ _ _ = _ |- _ => apply c06_save_kv_ok in H; destruct H as [Hst _] end.
        rewrite <- Hst. eapply IH; [|eassumption]. simpl in Hlen. lia.
  Qed.

  Lemma gas_save_key_value i s o s' : f_save_key_value E i s = (Ok o, s') -> i_gas i < two64 ->
    priced i o (charge_save_key_value i s) /\ sum_gasLimit o = 0.
  Proof.
    unfold f_save_key_value, charge_save_key_value. cbv zeta. intros H Hg. ginv. gas_arith.
    match goal with H : skv_loop _ _ _ _ _ _ = _ |- _ => eapply c06_skv_loop_ok in H; [|apply Nat.le_refl] end.
    subst. gsimpl. rewrite c06_sub64_exact by assumption. lia.
  Qed.

  (* ================================================================ *)
  (* ESDTTransfer, both sides                                           *)
  (* ================================================================ *)
  Definition sc_call_after (i : input) : bool :=
    (is_sc (i_rcpt i) && (C.MinLenArgumentsESDTTransfer <? alen (i_args i)))%bool.
  (* sender present: the function's cost.  Destination side (sender absent): a contract call forwards
     GasProvided -. cost (saturating); a call-back returns everything; otherwise nothing is returned. *)
  Definition charge_esdt_transfer (i : input) : N :=
    if i_snd i then g_ESDTTransfer G
    else if (i_dst i && sc_call_after i)%bool then g_ESDTTransfer G else 0.

  Lemma gas_esdt_transfer i s o s' : f_esdt_transfer E i s = (Ok o, s') -> i_gas i < two64 ->
    if i_snd i then priced i o (g_ESDTTransfer G)
    else if (i_dst i && sc_call_after i)%bool
         then gas_spec i o (g_ESDTTransfer G) /\ (g_ESDTTransfer G <= i_gas i -> priced i o (g_ESDTTransfer G))
         else if (i_dst i && (i_callType i =? C.AsynchronousCallBack))%bool then priced i o 0
         else all_consumed o.
  Proof.
    unfold f_esdt_transfer, sc_call_after. cbv zeta. intros H Hg.
    destruct (i_snd i) eqn:Hs.
    - ginv; gas_arith; rewrite c06_cgr_snd by assumption; unfold safe_sub_u64;
        repeat match goal with |- context [if ?b then _ else _] => destruct b eqn:? end; gas_arith; gsimpl; lia.
    - rewrite c06_cgr_nosnd in H. ginv; gas_arith; unfold safe_sub_u64;
        repeat match goal with H : ?b = _ |- context [?b] => rewrite H end; cbn [andb negb];
        repeat match goal with |- context [if ?b then _ else _] => destruct b eqn:? end; gas_arith; gsimpl; lia.
  Qed.

  (* ================================================================ *)
  (* helper inversions for the NFT transfers                            *)
  (* ================================================================ *)
  Lemma c06_unmarshal_tok_ok b s t s' : unmarshal_tok E b s = (Ok t, s') ->
    dec_tok (cdc E) b = Some t /\ accts s' = accts s.
  Proof.
    unfold unmarshal_tok. intros H. minv.
    match goal with H : dep E _ = _ |- _ => apply c06_dep_accts in H end. split; assumption.
  Qed.
  Lemma c06_marshal_tok_ok t s b s' : marshal_tok E t s = (Ok b, s') ->
    b = enc_tok (cdc E) t /\ accts s' = accts s.
  Proof.
    unfold marshal_tok. intros H. minv.
    match goal with H : dep E _ = _ |- _ => apply c06_dep_accts in H end. split; [reflexivity|assumption].
  Qed.
  Lemma c06_cfp_ok a key t rae s u s' : check_froze_and_pause a key t rae s = (Ok u, s') -> s' = s.
  Proof.
    unfold check_froze_and_pause, is_paused. intros H. ginv; try reflexivity.
    match goal with H : retrieve _ _ _ = _ |- _ => apply c06_retrieve_ok in H; destruct H as [_ ->] end. reflexivity.
  Qed.
  Lemma c06_val_of_ok t s v s' : val_of t s = (Ok v, s') -> t_value t = Some v /\ s' = s.
  Proof. unfold val_of. intros H. minv. split; [assumption|reflexivity]. Qed.
  Lemma c06_meta_of_ok t s m s' : meta_of t s = (Ok m, s') -> t_meta t = Some m /\ s' = s.
  Proof. unfold meta_of. intros H. minv. split; [assumption|reflexivity]. Qed.

  (* the entry found at (a, key ‖ nonce): the default entry when the cell is empty *)
  Definition entry_at (s : mstate) (a key : bytes) (nonce : N) : option token :=
    match sget (a_store (acct s a)) (nft_key key nonce) with
    | [] => Some default_tok
    | b => dec_tok (cdc E) b
    end.
  Lemma c06_get_nft_dest_ok a key n s t isNew s' : get_nft_on_destination E a key n s = (Ok (t, isNew), s') ->
    entry_at s a key n = Some t /\ accts s' = accts s
    /\ (isNew = true <-> sget (a_store (acct s a)) (nft_key key n) = []).
  Proof.
    unfold get_nft_on_destination, entry_at. intros H. minv.
    match goal with H : retrieve _ _ _ = _ |- _ => apply c06_retrieve_ok in H; destruct H as [-> ->] end.
    destruct (sget (a_store (acct s a)) (nft_key key n)) eqn:Eb.
    - minv. match goal with H : (_, _) = (_, _) |- _ => inversion H; subst end.
      repeat split; auto.
    - minv. match goal with H : (_, _) = (_, _) |- _ => inversion H; subst end.
      match goal with H : unmarshal_tok _ _ _ = _ |- _ => apply c06_unmarshal_tok_ok in H; destruct H as [Hd Ha] end.
      repeat split; auto; intros; discriminate.
  Qed.
  Lemma c06_get_nft_sender_ok a key n s t s' : get_nft_on_sender E a key n s = (Ok t, s') ->
    dec_tok (cdc E) (sget (a_store (acct s a)) (nft_key key n)) = Some t /\ accts s' = accts s.
  Proof.
    unfold get_nft_on_sender. intros H. ginv.
    match goal with H : get_nft_on_destination _ _ _ _ _ = _ |- _ => apply c06_get_nft_dest_ok in H; destruct H as (He & Ha & Hn) end.
    unfold entry_at in He. split; [|assumption].
    destruct (sget (a_store (acct s a)) (nft_key key n)); [|assumption].
    exfalso. destruct Hn as [_ Hn]. specialize (Hn eq_refl). subst.
    match goal with H : negb true = true |- _ => discriminate H end.
  Qed.
  Lemma c06_save_nft_other a key t rae s b s' : save_nft E a key t rae s = (Ok b, s') ->
    forall a', a' <> a -> acct s' a' = acct s a'.
  Proof.
    unfold save_nft. cbv zeta. intros H a' Hne. ginv;
      repeat match goal with
             | H : check_froze_and_pause _ _ _ _ _ = _ |- _ => apply c06_cfp_ok in H; subst
             | H : val_of _ _ = _ |- _ => apply c06_val_of_ok in H; destruct H as [? ?]; subst
             | H : marshal_tok _ _ _ = _ |- _ => apply c06_marshal_tok_ok in H; destruct H as [? Hm]
             | H : save_kv _ _ _ _ _ = _ |- _ => apply c06_save_kv_ok in H; destruct H as [_ Hs]
             end.
    - apply Hs. assumption.
    - rewrite Hs by assumption. apply c06_acct_accts. assumption.
  Qed.
  Lemma c06_check_payable_accts v a s u s' : check_payable E v a s = (Ok u, s') -> accts s' = accts s.
  Proof.
    unfold check_payable, is_payable. intros H. ginv; try reflexivity;
      match goal with H : dep E _ = _ |- _ => apply c06_dep_accts in H end; assumption.
  Qed.
  (* what the destination ends up holding: the travelling entry with the current holding added *)
  Lemma c06_add_nft_dest_ok dst key t verify rae s t' s' :
    add_nft_to_destination E dst key t verify rae s = (Ok t', s') ->
    exists cur v cv, entry_at s dst key (tok_nonce t) = Some cur /\ t_value t = Some v /\ t_value cur = Some cv
                     /\ t' = set_value t (Some (v + cv)%Z).
  Proof.
    unfold add_nft_to_destination. cbv zeta. intros H. ginv;
      repeat match goal with
             | H : check_payable _ _ _ _ = _ |- _ => apply c06_check_payable_accts in H
             | H : check_froze_and_pause _ _ _ _ _ = _ |- _ => apply c06_cfp_ok in H; subst
             | H : val_of _ _ = _ |- _ => apply c06_val_of_ok in H; destruct H as [? ?]; subst
             | H : meta_of _ _ = _ |- _ => apply c06_meta_of_ok in H; destruct H as [? ?]; subst
             | H : get_nft_on_destination _ _ _ _ _ = _ |- _ => apply c06_get_nft_dest_ok in H; destruct H as (He & Ha & _)
             end;
      unfold entry_at in *;
      match goal with Hp : accts ?s1 = accts s, He : context [acct ?s1 dst] |- _ => rewrite (c06_acct_accts _ _ dst Hp) in He end;
      eauto 8.
  Qed.

  (* ================================================================ *)
  (* ESDTNFTTransfer                                                    *)
  (* ================================================================ *)
  (* the entry that travels: the sender's stored entry with Value := quantity; when the destination
     lives on the same shard the Value already includes the destination's current holding *)
  Definition nft_sender_entry (i : input) (s : mstate) : option token :=
    let A := i_args i in
    let key := P ++ nth 0 A [] in
    let nonce := bigU64 (nth 1 A []) in
    let q := bigZ (nth 2 A []) in
    let dst := nth 3 A [] in
    match dec_tok (cdc E) (sget (a_store (acct s (i_caller i))) (nft_key key nonce)) with
    | None => None
    | Some t =>
      if self_shard E =? shard_of E dst then
        match entry_at s dst key (tok_nonce t) with
        | Some cur => match t_value cur with Some cv => Some (set_value t (Some (q + cv)%Z)) | None => None end
        | None => None
        end
      else Some (set_value t (Some q))
    end.
  Definition payload_price (t : token) : N := mul64 (zlen (enc_tok (cdc E) t)) (g_DataCopyPerByte G).
  Definition charge_nft_transfer (i : input) (s : mstate) : N :=
    if beqb (i_caller i) (i_rcpt i) then
      g_ESDTNFTTransfer G + match nft_sender_entry i s with Some t2 => payload_price t2 | None => 0 end
    else 0.

  Lemma c06_tok_nonce_set_value t v : tok_nonce (set_value t v) = tok_nonce t.
  Proof. reflexivity. Qed.
  Lemma gas_nft_transfer_sender i s o s' : f_nft_transfer_sender E i s = (Ok o, s') -> i_gas i < two64 ->
    exists t2, nft_sender_entry i s = Some t2 /\ priced i o (g_ESDTNFTTransfer G + payload_price t2).
  Proof.
    unfold f_nft_transfer_sender. cbv zeta. intros H Hg.
    ginv; ainv; gas_arith;
      repeat match goal with
             | H : val_of _ _ = _ |- _ => apply c06_val_of_ok in H; destruct H as [? ?]; subst
             | H : meta_of _ _ = _ |- _ => apply c06_meta_of_ok in H; destruct H as [? ?]; subst
             | H : get_nft_on_sender _ _ _ _ _ = _ |- _ => apply c06_get_nft_sender_ok in H; destruct H as [Hsnd Hacc]
             | H : save_nft _ _ _ _ _ _ = _ |- _ => pose proof (c06_save_nft_other _ _ _ _ _ _ _ H) as Hsave; clear H
             | H : load_account _ _ _ = _ |- _ => apply c06_dep_accts in H
             | H : save_account _ _ _ = _ |- _ => apply c06_dep_accts in H
             | H : add_nft_to_destination _ _ _ _ _ _ _ = _ |- _ =>
               apply c06_add_nft_dest_ok in H; destruct H as (cur & v & cv & He & Hv & Hcv & ->)
             | H : marshal_tok _ _ _ = _ |- _ => apply c06_marshal_tok_ok in H; destruct H as [-> ?]
             end;
      try congruence.
    all: match goal with H : beqb (nth 3 _ []) _ = false |- _ => apply beqb_false_iff in H; rename H into Hne end.
    (* same shard: the destination's holding as seen from the pre-state *)
    all: try match goal with
         | He : entry_at ?s4 _ _ _ = Some _, H1 : accts ?s4 = accts ?s3, Hsave : forall a', _ -> acct ?s3 a' = acct ?s2 a',
           Hacc : accts ?s2 = accts _ |- _ =>
           unfold entry_at in He; rewrite c06_tok_nonce_set_value in He;
           rewrite (c06_acct_accts _ _ _ H1), (Hsave _ Hne), (c06_acct_accts _ _ _ Hacc) in He;
           cbn [set_value t_value] in Hv; inversion Hv; subst v
         end.
    all: eexists; (split; [unfold nft_sender_entry, entry_at; cbv zeta; rewrite Hsnd;
                           match goal with H : (self_shard E =? _) = _ |- _ => rewrite H end;
                           try (rewrite He, Hcv); reflexivity|]).
    all: unfold payload_price; gsimpl; unfold set_value in *; cbn [t_type t_value t_props t_meta t_reserved] in *;
      match goal with H : mul64 ?a ?b <= sub64 _ _ |- _ => rewrite c06_sub64_exact in H by assumption; set (pp := mul64 a b) in * end;
      rewrite (c06_sub64_exact (i_gas _)) by assumption;
      repeat match goal with |- context [if ?b then _ else _] => destruct b end; gsimpl;
      rewrite ?c06_sub64_exact by lia; lia.
  Qed.


  Lemma c06_check_basic_ok i s u s' : check_basic i s = (Ok u, s') -> s' = s.
  Proof. unfold check_basic. intros H. minv. reflexivity. Qed.

  (* destination side: everything provided is returned, or forwarded to the called contract *)
  Lemma gas_nft_transfer i s o s' : f_nft_transfer E i s = (Ok o, s') -> i_gas i < two64 ->
    priced i o (charge_nft_transfer i s)
    /\ (beqb (i_caller i) (i_rcpt i) = true ->
        exists t2, nft_sender_entry i s = Some t2 /\ priced i o (g_ESDTNFTTransfer G + payload_price t2)).
  Proof.
    unfold f_nft_transfer, charge_nft_transfer. cbv zeta. intros H Hg.
    do 3 ginv_step. apply c06_check_basic_ok in H. subst.
    destruct (beqb (i_caller i) (i_rcpt i)) eqn:Eq.
    - match goal with H : f_nft_transfer_sender _ _ _ = _ |- _ => apply gas_nft_transfer_sender in H; [|assumption]; destruct H as (t2 & Ht & Hp) end.
      split; [rewrite Ht; exact Hp|]. intros _. exists t2. split; [exact Ht|exact Hp].
    - split; [|discriminate]. clear Eq. ginv; gsimpl; lia.
  Qed.

  (* ================================================================ *)
  (* MultiESDTNFTTransfer                                               *)
  (* ================================================================ *)
  (* data-copy price of the NFT payloads of the travelling entries (fungible entries travel as plain values) *)
  Fixpoint payload_gas (l : list (bytes * token)) : N :=
    match l with
    | [] => 0
    | (_, t) :: r => match t_meta t with Some _ => payload_price t | None => 0 end + payload_gas r
    end.

  Lemma c06_multi_out_args_ok : forall lst o acc s args' o' s',
    multi_out_args E lst o acc s = (Ok (args', o'), s') -> o_gasRemaining o < two64 ->
    payload_gas lst <= o_gasRemaining o /\ o_gasRemaining o' = o_gasRemaining o - payload_gas lst
    /\ o_accounts o' = o_accounts o.
  Proof.
    induction lst as [|[tok t] r IH]; intros o acc s args' o' s' H Hlt; cbn [multi_out_args payload_gas] in *.
    - minv. match goal with H : (_, _) = (_, _) |- _ => inversion H; subst end. repeat split; lia.
    - destruct (t_meta t) eqn:Em.
      + cbv zeta in H. minv.
        match goal with H : marshal_tok _ _ _ = _ |- _ => apply c06_marshal_tok_ok in H; destruct H as [-> _] end.
        gas_arith. fold (payload_price t) in *.
        match goal with H : multi_out_args _ _ _ _ _ = _ |- _ => apply IH in H; [destruct H as (H1 & H2 & H3)|] end.
        * cbn [o_gasRemaining o_accounts set_gasrem] in *. rewrite c06_sub64_exact in * by assumption.
          repeat split; [lia|lia|assumption].
        * cbn [o_gasRemaining set_gasrem]. rewrite c06_sub64_exact by assumption. lia.
      + minv. match goal with H : multi_out_args _ _ _ _ _ = _ |- _ => apply IH in H; [destruct H as (H1 & H2 & H3)|assumption] end.
        repeat split; [lia|lia|assumption].
  Qed.

  (* the state in which the transfer loop starts: the destination account was loaded when it lives
     on this shard, three slices of n elements were allocated *)
  Definition multi_loop_state (s : mstate) (n : N) (same : bool) : mstate :=
    {| accts := accts s; calls := if same then S (calls s) else calls s; allocs := allocs s + n + n + n |}.
  (* the travelling entries, as the (gas-independent) transfer loop produces them from the pre-state *)
  Definition multi_payloads (i : input) (s : mstate) : option (list (bytes * token)) :=
    let A := i_args i in
    let dst := nth 0 A [] in
    let n := bigU64 (nth 1 A []) in
    let same := self_shard E =? shard_of E dst in
    let minArgs := u64 (u64 (n * apt) + 2) in
    match multi_sender_loop E (N.to_nat n) i same dst (must_verify_payable i minArgs) 0 [] [] (multi_loop_state s n same) with
    | (Ok (lst, _), _) => Some lst
    | _ => None
    end.
  Definition multi_count (i : input) : N := bigU64 (nth 1 (i_args i) []).
  Definition charge_multi_transfer (i : input) (s : mstate) : N :=
    if beqb (i_caller i) (i_rcpt i) then
      mul64 (multi_count i) (g_ESDTNFTMultiTransfer G)
      + match multi_payloads i s with Some lst => payload_gas lst | None => 0 end
    else 0.

  Lemma c06_alloc_ok n s u s' : alloc n s = (Ok u, s') ->
    s' = {| accts := accts s; calls := calls s; allocs := allocs s + n |}.
  Proof. unfold alloc. destruct (1099511627776 <? n); intros H; inversion H. reflexivity. Qed.

  Lemma gas_multi_transfer_sender i s o s' : f_multi_transfer_sender E i s = (Ok o, s') -> i_gas i < two64 ->
    multi_count i <= alen (i_args i) / apt /\
    exists lst, multi_payloads i s = Some lst
                /\ priced i o (mul64 (multi_count i) (g_ESDTNFTMultiTransfer G) + payload_gas lst).
  Proof.
    unfold f_multi_transfer_sender. cbv zeta. intros H Hg.
    do 17 ginv_step. minv. ainv. gas_arith. split; [assumption|].
    set (dst := nth 0 (i_args i) []) in *. set (n := bigU64 (nth 1 (i_args i) [])) in *.
    assert (Hst : x24 = multi_loop_state s n (self_shard E =? shard_of E dst)).
    { repeat match goal with H : alloc _ _ = _ |- _ => apply c06_alloc_ok in H end.
      destruct (self_shard E =? shard_of E dst).
      - match goal with H : load_account _ _ _ = _ |- _ => apply c06_dep_ok in H end. subst. reflexivity.
      - minv. subst. reflexivity. }
    subst x24. destruct x25 as [lst logs]. exists lst. split.
    { unfold multi_payloads. cbv zeta. fold dst n.
      match goal with H : multi_sender_loop _ _ _ _ _ _ _ _ _ _ = _ |- _ => rewrite H end. reflexivity. }
    clear H8 H9 H10 H11 H12.
    ginv; ainv;
      match goal with H : multi_out_args _ _ _ _ _ = _ |- _ => apply c06_multi_out_args_ok in H;
        [destruct H as (Hp1 & Hp2 & Hp3)|cbn [o_gasRemaining set_logs mk_out]; rewrite c06_sub64_exact by assumption; lia] end;
      cbn [o_gasRemaining o_accounts set_logs mk_out] in Hp1, Hp2, Hp3; rewrite c06_sub64_exact in Hp1, Hp2 by assumption;
      unfold multi_count; fold n;
      repeat match goal with |- context [if ?b then _ else _] => destruct b end;
      unfold gas_spec, priced, all_consumed, sum_gasLimit, add_output_transfer, add_nft_transfer, set_accounts, set_gasrem;
      cbn [o_gasRemaining o_accounts oc_transfers tr_gasLimit fold_right];
      rewrite ?Hp2, ?Hp3; cbn [fold_right]; lia.
  Qed.

  Lemma gas_multi_transfer i s o s' : f_multi_transfer E i s = (Ok o, s') -> i_gas i < two64 ->
    priced i o (charge_multi_transfer i s)
    /\ (beqb (i_caller i) (i_rcpt i) = true ->
        multi_count i <= alen (i_args i) / apt /\
        exists lst, multi_payloads i s = Some lst
                    /\ priced i o (mul64 (multi_count i) (g_ESDTNFTMultiTransfer G) + payload_gas lst)).
  Proof.
    unfold f_multi_transfer, charge_multi_transfer. cbv zeta. intros H Hg.
    do 3 ginv_step. apply c06_check_basic_ok in H. subst.
    destruct (beqb (i_caller i) (i_rcpt i)) eqn:Eq.
    - match goal with H : f_multi_transfer_sender _ _ _ = _ |- _ => apply gas_multi_transfer_sender in H; [|assumption]; destruct H as (Hn & l & Hl & Hp) end.
      split; [rewrite Hl; exact Hp|]. intros _. split; [exact Hn|]. exists l. split; [exact Hl|exact Hp].
    - split; [|discriminate]. clear Eq. ginv; gsimpl; lia.
  Qed.

  (* ================================================================ *)
  (* all 23 functions through the dispatch                              *)
  (* ================================================================ *)
  (* what a successful execution charges: a function of the environment, the input without its gas
     field, and the pre-state.  0 for the paths that do not price (system functions, destination-side
     executions): their behaviour is [all_consumed] or "everything returned/forwarded". *)
  Definition charge (f : bytes) (i : input) (s : mstate) : N :=
    if beqb f C.BuiltInFunctionClaimDeveloperRewards then (if i_snd i then g_ClaimDeveloperRewards G else 0)
    else if beqb f C.BuiltInFunctionChangeOwnerAddress then g_ChangeOwnerAddress G
    else if beqb f C.BuiltInFunctionSetUserName then (if i_dst i then g_SaveUserName G else 0)
    else if beqb f C.BuiltInFunctionSaveKeyValue then charge_save_key_value i s
    else if beqb f C.BuiltInFunctionESDTPause then 0
    else if beqb f C.BuiltInFunctionESDTUnPause then 0
    else if beqb f C.BuiltInFunctionESDTTransfer then charge_esdt_transfer i
    else if beqb f C.BuiltInFunctionESDTBurn then g_ESDTBurn G
    else if beqb f C.BuiltInFunctionESDTFreeze then 0
    else if beqb f C.BuiltInFunctionESDTUnFreeze then 0
    else if beqb f C.BuiltInFunctionESDTWipe then 0
    else if beqb f C.BuiltInFunctionUnSetESDTRole then 0
    else if beqb f C.BuiltInFunctionSetESDTRole then 0
    else if beqb f C.BuiltInFunctionESDTLocalBurn then g_ESDTLocalBurn G
    else if beqb f C.BuiltInFunctionESDTLocalMint then g_ESDTLocalMint G
    else if beqb f C.BuiltInFunctionESDTNFTAddQuantity then g_ESDTNFTAddQuantity G
    else if beqb f C.BuiltInFunctionESDTNFTBurn then g_ESDTNFTBurn G
    else if beqb f C.BuiltInFunctionESDTNFTCreate then charge_nft_create (i_args i)
    else if beqb f C.BuiltInFunctionESDTNFTTransfer then charge_nft_transfer i s
    else if beqb f C.BuiltInFunctionESDTNFTCreateRoleTransfer then 0
    else if beqb f C.BuiltInFunctionESDTNFTUpdateAttributes then charge_update_attributes (i_args i)
    else if beqb f C.BuiltInFunctionESDTNFTAddURI then charge_add_uri (i_args i)
    else if beqb f C.BuiltInFunctionMultiESDTNFTTransfer then charge_multi_transfer i s
    else 0.

  Theorem gas_spec_exec f i s o s' :
    exec E f i s = (Ok o, s') -> i_gas i < two64 -> gas_spec i o (charge f i s).
  Proof.
    unfold exec, charge. intros H Hg.
    repeat match goal with
           | H : (if beqb f ?c then _ else _) _ = _ |- _ => destruct (beqb f c)
           end.
    - apply gas_claim_rewards in H; [|assumption]. destruct (i_snd i); [apply H|right; exact H].
    - apply gas_change_owner in H; [|assumption]. destruct H as (_ & _ & H). destruct (i_snd i); [left|right]; exact H.
    - apply gas_set_user_name in H; [|assumption]. destruct H as (_ & H). destruct (i_dst i); left; [apply H|].
      unfold priced. lia.
    - apply gas_save_key_value in H; [|assumption]. left. apply H.
    - right. eapply gas_pause; eassumption.
    - right. eapply gas_pause; eassumption.
    - apply gas_esdt_transfer in H; [|assumption]. unfold charge_esdt_transfer.
      destruct (i_snd i); [left; exact H|]. destruct (i_dst i && sc_call_after i)%bool; [apply H|].
      destruct (i_dst i && (i_callType i =? C.AsynchronousCallBack))%bool; [left|right]; exact H.
    - left. eapply gas_esdt_burn; eassumption.
    - right. eapply gas_freeze_wipe; eassumption.
    - right. eapply gas_freeze_wipe; eassumption.
    - right. eapply gas_freeze_wipe; eassumption.
    - right. eapply gas_roles; eassumption.
    - right. eapply gas_roles; eassumption.
    - left. eapply gas_local_burn; eassumption.
    - left. eapply gas_local_mint; eassumption.
    - left. eapply gas_nft_add_quantity; eassumption.
    - left. eapply gas_nft_burn; eassumption.
    - left. eapply gas_nft_create; eassumption.
    - left. eapply gas_nft_transfer; eassumption.
    - right. eapply gas_create_role_transfer; eassumption.
    - left. eapply gas_nft_update_attributes; eassumption.
    - left. eapply gas_nft_add_uri; eassumption.
    - left. eapply gas_multi_transfer; eassumption.
    - unfold fail in H. discriminate.
  Qed.

  (* C06, first clause *)
  Theorem gas_not_created f i s o s' :
    exec E f i s = (Ok o, s') -> i_gas i < two64 -> o_gasRemaining o + sum_gasLimit o <= i_gas i.
  Proof. intros H Hg. eapply gas_spec_not_created. eapply gas_spec_exec; eassumption. Qed.

  (* C06, second clause: below the charge the call fails, or succeeds with nothing left and nothing forwarded *)
  Theorem underfunded_fails_or_consumes_all f i s :
    i_gas i < two64 -> i_gas i < charge f i s ->
    match exec E f i s with
    | (Ok o, _) => o_gasRemaining o = 0 /\ sum_gasLimit o = 0
    | _ => True
    end.
  Proof.
    intros Hg Hlt. destruct (exec E f i s) as [[o| |] s'] eqn:Hx; [|exact I|exact I].
    eapply gas_spec_underfunded; [eapply gas_spec_exec; eassumption|assumption].
  Qed.

  (* readable corollaries *)
  Theorem system_functions_return_nothing i s o s' :
    (forall fz wp, f_freeze_wipe E fz wp i s = (Ok o, s') -> all_consumed o)
    /\ (forall p, f_pause E p i s = (Ok o, s') -> all_consumed o)
    /\ (forall st, f_roles E st i s = (Ok o, s') -> all_consumed o)
    /\ (f_create_role_transfer E i s = (Ok o, s') -> all_consumed o).
  Proof.
    split; [|split; [|split]]; intros.
    - eapply gas_freeze_wipe; eassumption.
    - eapply gas_pause; eassumption.
    - eapply gas_roles; eassumption.
    - eapply gas_create_role_transfer; eassumption.
  Qed.
  Theorem nft_transfer_destination_side i s o s' :
    f_nft_transfer E i s = (Ok o, s') -> i_gas i < two64 -> beqb (i_caller i) (i_rcpt i) = false ->
    o_gasRemaining o + sum_gasLimit o = i_gas i.
  Proof.
    intros H Hg Hc. apply gas_nft_transfer in H; [|assumption]. destruct H as [[_ H] _].
    unfold charge_nft_transfer in H. rewrite Hc in H. lia.
  Qed.
  Theorem multi_transfer_destination_side i s o s' :
    f_multi_transfer E i s = (Ok o, s') -> i_gas i < two64 -> beqb (i_caller i) (i_rcpt i) = false ->
    o_gasRemaining o + sum_gasLimit o = i_gas i.
  Proof.
    intros H Hg Hc. apply gas_multi_transfer in H; [|assumption]. destruct H as [[_ H] _].
    unfold charge_multi_transfer in H. rewrite Hc in H. lia.
  Qed.
End GasSpec.
