(* C08, world level, part 5: the pause broadcast is an operation of the provenance histories.

   C08w_World.honest_op asks of a direct call  i_dst i = true -> shard_of (i_rcpt i) = sh.  The pause / unpause
   broadcast of the system contract is executed on EVERY shard with the recipient-presence flag set (the system account
   SYS has an account object on every shard, while its address maps to one shard), so on the other shards it is not an
   [honest_op].  f_pause does not read the flag and [collect] does not either: the step is the same step as the one with
   the flag cleared (Capstone_Step.wstep_pause_dst), which is honest.  This file carries the history variable
   ([step_evs]: a pause produces no event) and the invariant [MInv] across that rewriting.

     MInv_step_gen / MInv_step_gen_p   one step for an ARBITRARY value predicate V that contains what the step produces
                                       (C08w_World.provenance_step is the instance V = inV L; Capstone_Fresh.v uses
                                       the instance "the nonce was issued")
     pause_call fn i                   fn is ESDTPause / ESDTUnPause and argument 0 is a valid identifier -- ANY caller,
                                       ANY recipient, ANY presence flags (a call not made by the system contract fails)
     honest_op_p                       C08w's honest_op  \/  pause_call
     provenance_step_p, provenance_histories_p, copies_have_provenance_p, route_histories_p,
     route_histories_disciplined_p, transfer_chain_delivers_p
                                       the theorems of C08w_World.v for histories of honest_op_p
     honest_op_pb                      boolean decider, sound. *)
From Coq.Strings Require Import String.
From Coq Require Import Lia List.
From EV Require Import Base.Bytes Base.Store Base.Monad gen.Consts Codec.Types Helpers.Helpers
  Parsers.Tokenize Parsers.CallArgs
  Ledger.Types Ledger.Env Ledger.Funcs Ledger.Transfers Ledger.World
  LedgerProofs.Defs LedgerProofs.EnvSpec LedgerProofs.WorldDefs LedgerProofs.WorldSpec
  LedgerProofs.Spec_Transfers_Base LedgerProofs.Spec_Transfers_Multi LedgerProofs.Spec_Supply LedgerProofs.Spec_System
  LedgerProofs.NoPanicWorld LedgerProofs.C01_Consistent LedgerProofs.C02_Effects LedgerProofs.C05_Footprint
  LedgerProofs.C15_Inv LedgerProofs.C15_World
  LedgerProofs.ValidIds_Id LedgerProofs.ValidIds_Inv LedgerProofs.ValidIds_Exec LedgerProofs.ValidIds_World
  LedgerProofs.Capstone_Defs LedgerProofs.Capstone_Step
  LedgerProofs.C07_Exec LedgerProofs.C07_World LedgerProofs.C08_Base
  LedgerProofs.C08w_Inv LedgerProofs.C08w_Funcs LedgerProofs.C08w_Transfers LedgerProofs.C08w_World
  LedgerProofs.Capstone_Histories LedgerProofs.Capstone_Examples LedgerProofs.Capstone_Decide.
Import ListNotations.

Section Pause.
  Variable c : wcfg.
  Hypothesis Hc : codec_ok (wc_cdc c).
  Hypothesis Hf : flag_undec (wc_cdc c).
  Notation shof := (wc_shard_of c).
  Notation cd := (wc_cdc c).

  (* ================================================================ *)
  (* one step, for an arbitrary value predicate                         *)
  (* ================================================================ *)
  (* what the call executed by the step produces (if it succeeds) is in V *)
  Definition call_produced_ok (V : bytes -> N -> metadata -> Prop) (w : world) (op : wop) : Prop :=
    forall sh fn i o s', op_exec c w op = Some (sh, fn, i) ->
      exec (env_at c sh) fn i (wst w sh) = (Ok o, s') -> produced_ok V (env_at c sh) fn i (wst w sh).

  Theorem MInv_step_gen V w op : MInv c V w -> C08w_World.honest_op c op -> call_produced_ok V w op ->
    MInv c V (wstep c w op).
  Proof.
    intros HM Hop Hprod0. pose proof (C07_World.wstep_shape c w op) as Hsh.
    destruct (op_exec c w op) as [[[sh fn] i]|] eqn:Hex.
    2: { destruct Hsh as [H1 H2]. eapply MInv_same; eauto. }
    destruct Hsh as [Hlt Hsh].
    destruct (exec (env_at c sh) fn i (wst w sh)) as [[o|e|] s'] eqn:Hx.
    2, 3: (destruct Hsh as [H1 H2]; eapply MInv_same; eauto).
    destruct Hsh as [Hs Hi].
    destruct (op_exec_honest c V w op sh fn i HM Hop Hex) as (Hd & Hv & Hpay).
    pose proof (Hprod0 sh fn i o s' Hex Hx) as Hprod.
    destruct HM as [Hshards Hmsgs].
    destruct (PInv_exec V (env_at c sh) fn i (wst w sh) o s' Hc Hf (Hshards sh) Hv Hpay Hprod Hx) as [Hs' Hout].
    destruct (ids_valid_exec_out (env_at c sh) fn i (wst w sh) o s' Hc Hf (PInv_ids _ _ _ (Hshards sh)) Hv Hx) as [_ Houtv].
    split.
    - eapply shards_commit; eauto.
    - rewrite Hi. apply Forall_app. split; [apply kept_forall; exact Hmsgs|].
      apply Forall_forall. intros m Hm.
      assert (Hm' : In m (collect c sh fn i (next_id w) o)) by (destruct op; cbn [C07_World.emitted] in Hm; try exact Hm; destruct Hm).
      destruct (collect_prov c V sh fn i (next_id w) o Hd Hout m Hm') as [H1 H2].
      split; [exact (collect_ids c sh fn i (next_id w) o Hd Houtv Hv m Hm')|]. split; assumption.
  Qed.

  (* ================================================================ *)
  (* the pause broadcast                                                *)
  (* ================================================================ *)
  Definition pause_call (fn : bytes) (i : input) : Prop := is_pause_fn fn /\ call_ids fn i.

  Lemma pause_not_producer fn : is_pause_fn fn ->
    beqb fn F_CREATE = false /\ beqb fn F_ADDURI = false /\ beqb fn F_UPDATTR = false
    /\ fn <> W_NFTT /\ fn <> W_MULTIT.
  Proof. intros [-> | ->]; repeat split; try reflexivity; intros H; vm_compute in H; discriminate H. Qed.
  Lemma produced_pause E fn i s : is_pause_fn fn -> produced E fn i s = [].
  Proof. intros Hp. destruct (pause_not_producer fn Hp) as (H1 & H2 & H3 & _). unfold produced. rewrite H1, H2, H3. reflexivity. Qed.

  (* a pause produces no event, whatever the flag *)
  Lemma step_evs_pause w sh fn i : is_pause_fn fn -> step_evs c w (OCall sh fn i) = [].
  Proof.
    intros Hp. unfold step_evs. destruct (op_exec c w (OCall sh fn i)) as [[[sh0 fn0] i0]|] eqn:Hex; [|reflexivity].
    cbn [op_exec] in Hex. destruct (sh <? wc_nshards c)%N; [|discriminate Hex]. injection Hex as <- <- <-.
    destruct (exec (env_at c sh) fn i (wst w sh)) as [[o|e|] s']; try reflexivity.
    rewrite (produced_pause _ fn i _ Hp). reflexivity.
  Qed.
  (* the lemma announced in notes/C08w_API.md: [step_evs] across the rewriting of Capstone_Step.wstep_pause_dst *)
  Lemma step_evs_clear_dst w sh fn i : is_pause_fn fn ->
    step_evs c w (OCall sh fn (clear_dst i)) = step_evs c w (OCall sh fn i).
  Proof. intros Hp. rewrite !step_evs_pause by exact Hp. reflexivity. Qed.

  (* with the flag cleared the broadcast is an honest operation of C08w_World *)
  Lemma pause_clear_dst_honest sh fn i : pause_call fn i -> C08w_World.honest_op c (OCall sh fn (clear_dst i)).
  Proof.
    intros [Hp Hids]. destruct (pause_not_producer fn Hp) as (_ & _ & _ & H4 & H5).
    cbn [C08w_World.honest_op]. split; [|split].
    - cbn [clear_dst i_dst]. intros H. discriminate H.
    - unfold call_ids in *. rewrite (C08w_World.named_tokens_args fn i (clear_dst i) H5 eq_refl). exact Hids.
    - intros [H|H]; contradiction.
  Qed.

  Definition honest_op_p (op : wop) : Prop :=
    C08w_World.honest_op c op \/ match op with OCall _ fn i => pause_call fn i | _ => False end.
  Lemma honest_op_p_of op : C08w_World.honest_op c op -> honest_op_p op.
  Proof. intros H. left. exact H. Qed.

  Lemma call_produced_ok_pause V w sh fn i : is_pause_fn fn -> call_produced_ok V w (OCall sh fn i).
  Proof.
    intros Hp sh0 fn0 i0 o s' Hex _. cbn [op_exec] in Hex. destruct (sh <? wc_nshards c)%N; [|discriminate Hex].
    injection Hex as <- <- <-. intros tok n m Hin. rewrite (produced_pause _ fn i _ Hp) in Hin. destruct Hin.
  Qed.

  Theorem MInv_step_gen_p V w op : MInv c V w -> honest_op_p op -> call_produced_ok V w op -> MInv c V (wstep c w op).
  Proof.
    intros HM [Hop|Hop] Hprod; [apply MInv_step_gen; assumption|].
    destruct op as [sh fn i|? ?|? ?|? ?]; [|destruct Hop..]. pose proof Hop as [Hp _].
    rewrite (wstep_pause_dst c w sh fn i Hp).
    apply MInv_step_gen; [exact HM|apply pause_clear_dst_honest; exact Hop|apply call_produced_ok_pause; exact Hp].
  Qed.

  Theorem provenance_step_p L w op : MInv c (inV L) w -> honest_op_p op ->
    MInv c (inV (vals_of L (step_evs c w op))) (wstep c w op).
  Proof.
    intros HM [Hop|Hop]; [apply (provenance_step c Hc Hf); assumption|].
    destruct op as [sh fn i|? ?|? ?|? ?]; [|destruct Hop..]. pose proof Hop as [Hp _].
    rewrite (wstep_pause_dst c w sh fn i Hp), <- (step_evs_clear_dst w sh fn i Hp).
    apply (provenance_step c Hc Hf); [exact HM|apply pause_clear_dst_honest; exact Hop].
  Qed.

  (* ================================================================ *)
  (* histories                                                          *)
  (* ================================================================ *)
  Theorem provenance_histories_p : forall ops L w, MInv c (inV L) w -> Forall honest_op_p ops ->
    MInv c (inV (vals_of L (evs_of c w ops))) (wrun c w ops).
  Proof.
    induction ops as [|op r IH]; intros L w HM Hops.
    - unfold evs_of, vals_of. cbn. rewrite app_nil_r. exact HM.
    - inversion Hops as [|? ? Hop Hr]; subst. rewrite wrun_cons, evs_of_cons, vals_of_app.
      apply IH; [apply provenance_step_p; assumption|exact Hr].
  Qed.

  Theorem copies_have_provenance_p L w ops : MInv c (inV L) w -> Forall honest_op_p ops ->
    let w' := wrun c w ops in
    let Vals := vals_of L (evs_of c w ops) in
    (forall sh a x t m, tok_at (env_at c sh) (wst w' sh) a (P ++ x) = Some t -> t_meta t = Some m ->
       exists tok, valid_id tok /\ x = tok ++ u64_bytes (md_nonce m) /\ In (tok, md_nonce m, m) Vals)
    /\ (forall sh a tok n t m, valid_id tok ->
          tok_at (env_at c sh) (wst w' sh) a (nft_key (P ++ tok) n) = Some t -> t_meta t = Some m ->
          In (tok, n, m) Vals /\ md_nonce m = n)
    /\ (forall msg, In msg (inflight w') -> args_prov (inV Vals) cd (m_fn msg) (m_args msg)).
  Proof.
    intros HM Hops. cbv zeta. destruct (provenance_histories_p ops L w HM Hops) as [Hsh Hms]. split; [|split].
    - intros sh a x t m Ht Hm. destruct (PI_tok_at _ _ _ _ _ _ (Hsh sh) Ht) as (tok & Hv & Hx & Hmv).
      exists tok. unfold tok_nonce in Hx. rewrite Hm in Hx. split; [exact Hv|]. split; [exact Hx|]. apply Hmv. exact Hm.
    - intros sh a tok n t m Hv Ht Hm. destruct (PI_nft _ _ _ _ _ _ _ (Hsh sh) Hv Ht) as [Hmv Hn].
      unfold tok_nonce in Hn. rewrite Hm in Hn. subst n. split; [apply Hmv; exact Hm|reflexivity].
    - intros msg Hin. rewrite Forall_forall in Hms. destruct (Hms msg Hin) as (_ & H & _). exact H.
  Qed.

  Theorem route_histories_p L w ops tok n m0 : MInv c (inV L) w -> Forall honest_op_p ops -> valid_id tok ->
    fresh tok n L ->
    no_updates tok n (evs_of c w ops) -> created_once tok n (evs_of c w ops) -> In (F_CREATE, (tok, n, m0)) (evs_of c w ops) ->
    copies_equal c tok n m0 (wrun c w ops).
  Proof.
    intros HM Hops Hv Hfr Hnu Hco H0.
    destruct (copies_have_provenance_p L w ops HM Hops) as (_ & H2 & H3). cbv zeta in *.
    pose proof (vals_single tok n m0 L _ Hfr Hnu Hco H0) as Hs. split.
    - intros sh a t m Ht Hm. destruct (H2 sh a tok n t m Hv Ht Hm) as [Hin _]. exact (Hs m Hin).
    - intros msg Hin. eapply args_prov_mono; [|exact (H3 msg Hin)].
      intros tok' n' m Hi -> ->. exact (Hs m Hi).
  Qed.

  Corollary route_histories_disciplined_p L w ops tok n m0 : MInv c (inV L) w -> Forall honest_op_p ops -> valid_id tok ->
    fresh tok n L -> init_ok c tok w -> disciplined c tok false w ops -> nowrap c tok w ops ->
    no_updates tok n (evs_of c w ops) -> In (F_CREATE, (tok, n, m0)) (evs_of c w ops) ->
    copies_equal c tok n m0 (wrun c w ops).
  Proof.
    intros HM Hops Hv Hfr Hi Hd Hn Hnu H0. eapply route_histories_p; eauto. apply (created_once_disciplined c Hc); assumption.
  Qed.

  Theorem transfer_chain_delivers_p L w ops tok n shA A tA m shB B tB m' :
    MInv c (inV L) w -> single_valued tok n L -> Forall honest_op_p ops -> valid_id tok ->
    no_events tok n (evs_of c w ops) ->
    tok_at (env_at c shA) (wst w shA) A (nft_key (P ++ tok) n) = Some tA -> t_meta tA = Some m ->
    tok_at (env_at c shB) (wst (wrun c w ops) shB) B (nft_key (P ++ tok) n) = Some tB -> t_meta tB = Some m' ->
    m' = m.
  Proof.
    intros HM Hsv Hops Hv Hne HA HmA HB HmB.
    destruct (copies_have_provenance_p L w ops HM Hops) as (_ & H2 & _). cbv zeta in H2.
    destruct (H2 shB B tok n tB m' Hv HB HmB) as [Hin _].
    destruct (copies_have_provenance_p L w [] HM (Forall_nil _)) as (_ & H0 & _). cbv zeta in H0.
    destruct (H0 shA A tok n tA m Hv HA HmA) as [Hin0 _].
    unfold evs_of in Hin0. cbn in Hin0. unfold vals_of in Hin0. cbn in Hin0. rewrite app_nil_r in Hin0.
    unfold vals_of in Hin. apply in_app_or in Hin as [Hin|Hin]; [exact (Hsv m' m Hin Hin0)|].
    apply in_map_iff in Hin as ([fn v] & Hvv & Hin). cbn [snd] in Hvv. subst v. exfalso. exact (Hne fn m' Hin).
  Qed.

  (* ================================================================ *)
  (* decider                                                            *)
  (* ================================================================ *)
  Definition pause_call_b (fn : bytes) (i : input) : bool :=
    ((beqb fn C.BuiltInFunctionESDTPause || beqb fn C.BuiltInFunctionESDTUnPause)
     && forallb valid_id_b (named_tokens fn i))%bool.
  Lemma pause_call_b_ok fn i : pause_call_b fn i = true -> pause_call fn i.
  Proof.
    unfold pause_call_b, pause_call. intros H. apply andb_prop in H as [H1 H2]. split.
    - unfold is_pause_fn. apply Bool.orb_prop in H1 as [H1|H1]; apply beqb_true in H1; auto.
    - unfold call_ids. apply Forall_forall. intros x Hx. apply valid_id_b_sound.
      rewrite forallb_forall in H2. apply H2. exact Hx.
  Qed.
  Definition honest_op_pb (op : wop) : bool :=
    (honest_opb c op || match op with OCall _ fn i => pause_call_b fn i | _ => false end)%bool.
  Lemma honest_op_pb_ok op : honest_op_pb op = true -> honest_op_p op.
  Proof.
    unfold honest_op_pb. intros H. apply Bool.orb_prop in H as [H|H]; [left; apply honest_opb_ok; exact H|].
    right. destruct op as [sh fn i|? ?|? ?|? ?]; try discriminate H. apply pause_call_b_ok. exact H.
  Qed.
  Lemma honest_ops_pb_ok ops : forallb honest_op_pb ops = true -> Forall honest_op_p ops.
  Proof. intros H. apply Forall_forall. intros op Hop. apply honest_op_pb_ok. rewrite forallb_forall in H. apply H. exact Hop. Qed.
End Pause.

(* ================================================================ *)
(* non-vacuity: a history with the pause broadcast on both shards     *)
(* ================================================================ *)
(* Capstone_Decide.k_history2: 34 operations from the EMPTY two-shard world under ideal_codec.  Operations 12 / 13 are
   ESDTPause of TOK-a1b2c3 by the system contract addressed to the system account with the recipient-presence flag SET,
   executed on shard 0 (where the system account's address lives) and on shard 1 (where it does not); 16 / 17 the
   corresponding ESDTUnPause.  In between and around: two NFT creations (alice on shard 0, after the cross-shard
   hand-over bob on shard 1), same- and cross-shard ESDTNFTTransfer / MultiESDTNFTTransfer with deliveries, a rejected
   delivery and its refund, ESDTNFTAddURI and ESDTNFTUpdateAttributes on NFT#2. *)
Definition p_md1 : metadata :=
  {| md_nonce := 1; md_name := str "name"%string; md_creator := k_alice; md_royalties := 5; md_hash := str "hash"%string;
     md_uris := [str "uri"%string]; md_attributes := str "attr"%string |}.
Definition p_md2 : metadata :=
  {| md_nonce := 2; md_name := str "name"%string; md_creator := k_bob; md_royalties := 5; md_hash := str "hash"%string;
     md_uris := [str "uri"%string]; md_attributes := str "attr"%string |}.
Definition p_md2' : metadata := set_uris p_md2 [str "uri"%string; str "uri2"%string].
Definition p_md2'' : metadata := set_attributes p_md2' (str "attr2"%string).

Example pause_example_ops :
  nth 12 k_history2 (ODeliver 0 0) = OCall 0 C.BuiltInFunctionESDTPause (k_in SC SYS [k_tok] false true)
  /\ nth 13 k_history2 (ODeliver 0 0) = OCall 1 C.BuiltInFunctionESDTPause (k_in SC SYS [k_tok] false true)
  /\ nth 16 k_history2 (ODeliver 0 0) = OCall 0 C.BuiltInFunctionESDTUnPause (k_in SC SYS [k_tok] false true)
  /\ nth 17 k_history2 (ODeliver 0 0) = OCall 1 C.BuiltInFunctionESDTUnPause (k_in SC SYS [k_tok] false true)
  /\ wc_shard_of kc SYS = 0%N /\ length k_history2 = 34%nat.
Proof. repeat split. Qed.
(* the hypothesis, decided; C08w_World's own decider refuses exactly the two broadcast operations on shard 1 *)
Example pause_example_checked :
  forallb (honest_op_pb kc) k_history2 = true
  /\ map (fun n => honest_opb kc (nth n k_history2 (ODeliver 0 0))) [12; 13; 16; 17]%nat = [true; false; true; false]
  /\ forallb (honest_opb kc) k_history2 = false.
Proof. vm_compute. repeat split. Qed.
Example pause_example_honest : Forall (honest_op_p kc) k_history2.
Proof. apply honest_ops_pb_ok. apply pause_example_checked. Qed.
(* the broadcast took effect on BOTH shards (pause flag of TOK read on each shard after operation 13, after 17) *)
Example pause_example_flags :
  map (fun sh => paused_at (sstate (wrun kc kw0 (firstn 14 k_history2)) sh) (P ++ k_tok)) [0; 1]%N = [true; true]
  /\ map (fun sh => paused_at (sstate (wrun kc kw0 (firstn 12 k_history2)) sh) (P ++ k_tok)) [0; 1]%N = [false; false]
  /\ map (fun sh => paused_at (sstate (wrun kc kw0 (firstn 18 k_history2)) sh) (P ++ k_tok)) [0; 1]%N = [false; false]
  /\ map (fun n => nth n (statuses kc kw0 k_history2) None) [12; 13; 14; 15; 16; 17]%nat
     = [Some SOk; Some SOk; Some SErr; Some SErr; Some SOk; Some SOk].
Proof. vm_compute. repeat split. Qed.
Example pause_example_events :
  evs_of kc kw0 k_history2 =
  [ (C.BuiltInFunctionESDTNFTCreate, (k_nft, 1%N, p_md1));
    (C.BuiltInFunctionESDTNFTCreate, (k_nft, 2%N, p_md2));
    (C.BuiltInFunctionESDTNFTAddURI, (k_nft, 2%N, p_md2'));
    (C.BuiltInFunctionESDTNFTUpdateAttributes, (k_nft, 2%N, p_md2'')) ].
Proof. vm_compute. reflexivity. Qed.
Example pause_example_provenance :
  MInv kc (inV (vals_of [] (evs_of kc kw0 k_history2))) (wrun kc kw0 k_history2).
Proof.
  exact (provenance_histories_p kc kc_ok kc_flag k_history2 [] kw0 (MInv_empty kc (inV []) 2) pause_example_honest).
Qed.
Example pause_example_valid : valid_id k_nft /\ valid_id k_tok.
Proof. split; apply valid_id_b_sound; vm_compute; reflexivity. Qed.
Example pause_example_route_hypotheses :
  fresh k_nft 1 [] /\ no_updates k_nft 1 (evs_of kc kw0 k_history2)
  /\ created_once k_nft 1 (evs_of kc kw0 k_history2)
  /\ In (C.BuiltInFunctionESDTNFTCreate, (k_nft, 1%N, p_md1)) (evs_of kc kw0 k_history2).
Proof.
  split; [intros m []|]. split; [|split].
  - rewrite pause_example_events. intros fn m [H|[H|[H|[H|[]]]]]; inversion H; reflexivity.
  - destruct (capstone2_disciplined k_nft) as [Hd Hn].
    apply (created_once_disciplined kc kc_ok k_nft kw0 k_history2 (capstone2_init k_nft) Hd Hn).
  - rewrite pause_example_events. left. reflexivity.
Qed.
Example pause_example_route : copies_equal kc k_nft 1 p_md1 (wrun kc kw0 k_history2).
Proof.
  destruct pause_example_route_hypotheses as (H1 & H2 & H3 & H4).
  exact (route_histories_p kc kc_ok kc_flag [] kw0 k_history2 k_nft 1 p_md1 (MInv_empty kc (inV []) 2)
           pause_example_honest (proj1 pause_example_valid) H1 H2 H3 H4).
Qed.
(* ... evaluated: bob (shard 1) holds the 3 remaining units of NFT#1 with the creation metadata, and NFT#2 with the
   value of the last update event *)
Example pause_example_computed :
  let w' := wrun kc kw0 k_history2 in
  k_meta w' 1 k_bob 1 = Some p_md1 /\ k_bal w' 1 k_bob k_kN1 = 3%Z /\ k_meta w' 0 k_alice 1 = None
  /\ k_meta w' 1 k_bob 2 = Some p_md2'' /\ inflight w' = [].
Proof. vm_compute. repeat split. Qed.

Print Assumptions MInv_step_gen_p.
Print Assumptions step_evs_clear_dst.
Print Assumptions provenance_step_p.
Print Assumptions provenance_histories_p.
Print Assumptions copies_have_provenance_p.
Print Assumptions route_histories_p.
Print Assumptions route_histories_disciplined_p.
Print Assumptions transfer_chain_delivers_p.
Print Assumptions honest_op_pb_ok.
Print Assumptions pause_example_checked.
Print Assumptions pause_example_provenance.
Print Assumptions pause_example_route.
