(* Property C08, part 5: the hops of C08_Route.v are what the world model (Ledger/World.v) does.
   An origin call [OCall sh fn i] of ESDTNFTTransfer / MultiESDTNFTTransfer towards another shard that succeeds puts
   exactly one message in flight, whose function name and arguments are the ones the call-data parser reads from the
   emitted data; delivering that message ([ODeliver id gas], in any later world in which it is still in flight)
   executes the destination side with those arguments under the destination shard's environment (same codec): the
   pair is a [hop] of C08_Route.v. *)
From EV Require Import Base.Bytes Base.Store Base.Monad gen.Consts Codec.Types Helpers.Helpers
  Parsers.Tokenize Parsers.CallArgs
  Ledger.Types Ledger.Env Ledger.Funcs Ledger.Transfers Ledger.World
  LedgerProofs.Defs LedgerProofs.EnvSpec LedgerProofs.WorldDefs LedgerProofs.WorldSpec
  LedgerProofs.Spec_Transfers_Base LedgerProofs.Spec_Transfers_Esdt LedgerProofs.Spec_Transfers_Nft
  LedgerProofs.Spec_Transfers_Multi LedgerProofs.Spec_Transfers LedgerProofs.Spec_Supply
  LedgerProofs.C08_Base LedgerProofs.C08_Multi LedgerProofs.C08_Route.

Section C08World.
  Variable c : wcfg.
  Hypothesis Hc : codec_ok (wc_cdc c).
  Notation shof := (wc_shard_of c).

  (* a place of the world: account a on shard sh *)
  Definition wplace (w : world) (sh : N) (a : bytes) : place := pl (env_at c sh) (mk_state (shard_accts w sh)) a.

  (* one output transfer carrying a call of one of the two NFT transfer functions to another shard: one message *)
  Lemma c08_collect_one sh fn i id o dest t fn' args' :
    o_accounts o = [{| oc_addr := dest; oc_delta := 0; oc_transfers := [t] |}] ->
    parse_call_data (tr_data t) = Some (fn', args') -> tr_data t <> [] ->
    fn' = F_NFTT \/ fn' = F_MULTIT ->
    shof dest <> sh -> shof (tr_sender t) = sh ->
    collect c sh fn i id o =
      [{| m_id := id; m_fn := fn'; m_caller := tr_sender t; m_dest := dest; m_args := args';
          m_callType := tr_callType t; m_gasLimit := tr_gasLimit t; m_locked := tr_gasLocked t;
          m_origin := sh; m_sender := i_caller i |}].
  Proof.
    intros Ho Hp Hne Hfn Hdest Hsnd. unfold collect. rewrite Ho.
    cbn [collect_accounts collect_transfers oc_addr oc_transfers]. cbv zeta.
    unfold msg_of_transfer. destruct (tr_data t) as [|b r] eqn:Ed; [contradiction|]. rewrite Hp.
    assert (Hbi : is_builtin fn' = true /\ beqb fn' C.BuiltInFunctionESDTNFTCreateRoleTransfer = false).
    { destruct Hfn as [-> | ->]; split; vm_compute; reflexivity. }
    destruct Hbi as [Hbi Hcrt]. rewrite Hbi, Hcrt. cbn [negb andb].
    apply N.eqb_neq in Hdest. rewrite Hdest. cbn [andb]. rewrite Hsnd, N.eqb_refl. reflexivity.
  Qed.

  Lemma c08_run_on_ok w sh fn i o s' :
    exec (env_at c sh) fn i (mk_state (shard_accts w sh)) = (Ok o, s') -> run_on c w sh fn i = (Ok o, accts s').
  Proof. intros H. unfold run_on. unfold mk_state in H. rewrite H. reflexivity. Qed.

  (* a successful origin call: the world afterwards *)
  Lemma c08_wstep_call w sh fn i o s' : (sh <? wc_nshards c)%N = true ->
    exec (env_at c sh) fn i (mk_state (shard_accts w sh)) = (Ok o, s') ->
    wstep c w (OCall sh fn i) =
      with_msgs (set_shard w sh (accts s')) (inflight w ++ collect c sh fn i (next_id w) o) (failed w)
                (next_id w + length (collect c sh fn i (next_id w) o)).
  Proof. intros Hsh H. cbn [wstep]. rewrite Hsh. cbn [negb]. rewrite (c08_run_on_ok _ _ _ _ _ _ H). reflexivity. Qed.
  (* a successful delivery: the destination shard afterwards *)
  Lemma c08_wstep_deliver w id gas m o s' : find_msg (inflight w) id = Some m ->
    let sh := shof (m_dest m) in
    (sh <? wc_nshards c)%N = true -> (N.to_nat sh < nshards w)%nat ->
    exec (env_at c sh) (m_fn m) (deliver_input c m sh gas) (mk_state (shard_accts w sh)) = (Ok o, s') ->
    shard_accts (wstep c w (ODeliver id gas)) sh = accts s'.
  Proof.
    intros Hf sh Hsh Hin H. cbn [wstep]. rewrite Hf. fold sh. rewrite Hsh. cbn [negb].
    rewrite (c08_run_on_ok _ _ _ _ _ _ H). rewrite shard_accts_with_msgs. apply shard_accts_set_shard_eq. exact Hin.
  Qed.

  (* ---- ESDTNFTTransfer towards another shard ---- *)
  Theorem world_nft_cross_is_hop w sh i o s' : (sh <? wc_nshards c)%N = true ->
    exec (env_at c sh) F_NFTT i (mk_state (shard_accts w sh)) = (Ok o, s') ->
    i_caller i = i_rcpt i -> shof (i_caller i) = sh -> shof (nft_dst i) <> sh ->
    lookup_consistent (env_at c sh) (mk_state (shard_accts w sh)) (i_caller i) (nft_tkey i) (nft_nonce i) ->
    exists m,
      inflight (wstep c w (OCall sh F_NFTT i)) = inflight w ++ [m]
      /\ m_id m = next_id w /\ m_fn m = F_NFTT /\ m_dest m = nft_dst i /\ m_caller m = i_caller i
      /\ forall w2 gas oB sB',
           let shB := shof (m_dest m) in
           exec (env_at c shB) (m_fn m) (deliver_input c m shB gas) (mk_state (shard_accts w2 shB)) = (Ok oB, sB') ->
           tok_at (env_at c shB) sB' (nft_dst i) (nft_cell i) <> None ->
           hop (wc_cdc c) (nft_cell i) (wplace w sh (i_caller i)) (pl (env_at c shB) sB' (nft_dst i)).
  Proof.
    intros Hsh H Heq Hcaller Hdst Hlc.
    assert (Hsame : nft_same (env_at c sh) i = false).
    { unfold nft_same. cbn [self_shard shard_of env_at]. apply N.eqb_neq. intros Hx. apply Hdst. unfold nft_dst. symmetry. exact Hx. }
    destruct (hop_cross_single_sender (env_at c sh) Hc _ _ _ _ H Heq Hsame Hlc)
      as (t & m0 & tr & Ht & Hm0 & Hwf & Htn & Hacc & Hdata & _ & Hparse & Hsnd & Hct & _).
    assert (Hne : tr_data tr <> []).
    { rewrite Hdata. unfold msg_data. intros Hx. apply app_eq_nil in Hx as [Hx _]. discriminate Hx. }
    pose proof (c08_collect_one sh F_NFTT i (next_id w) o (nft_dst i) tr F_NFTT _ Hacc Hparse Hne (or_introl eq_refl) Hdst
                  ltac:(rewrite Hsnd; exact Hcaller)) as Hcol.
    eexists. split; [rewrite (c08_wstep_call _ _ _ _ _ _ Hsh H); cbn [inflight with_msgs]; rewrite Hcol; reflexivity|].
    cbn [m_id m_fn m_dest m_caller]. split; [reflexivity|]. split; [reflexivity|]. split; [reflexivity|]. split; [exact Hsnd|].
    intros w2 gas oB sB' HB Hex.
    assert (Hne2 : i_caller i <> nft_dst i).
    { intros Hx. apply Hdst. rewrite <- Hx. exact Hcaller. }
    set (shB := shof (nft_dst i)) in *.
    unfold wplace.
    match type of HB with exec _ _ ?iB0 _ = _ => set (iB := iB0) in * end.
    assert (Hr : i_rcpt iB = nft_dst i) by reflexivity. rewrite <- Hr. rewrite <- Hr in Hne2.
    eapply (hop_nft_cross (wc_cdc c) (nft_cell i) (env_at c sh) (env_at c shB) i _ o s' iB _ oB sB' tr F_NFTT);
      try reflexivity; try assumption.
    - exact HB.
    - change (i_caller iB) with (tr_sender tr). rewrite Hsnd. exact Hne2.
  Qed.

  (* ---- MultiESDTNFTTransfer towards another shard ---- *)
  Theorem world_multi_cross_is_hop w sh i o s' x : (sh <? wc_nshards c)%N = true ->
    exec (env_at c sh) F_MULTIT i (mk_state (shard_accts w sh)) = (Ok o, s') ->
    i_caller i = i_rcpt i -> shof (i_caller i) = sh -> shof (multi_dst i) <> sh ->
    triples_consistent (env_at c sh) (mk_state (shard_accts w sh)) (i_caller i) (multi_snd_triples i) ->
    In x (multi_snd_triples i) -> (0 < rt_nonce x)%N ->
    exists m,
      inflight (wstep c w (OCall sh F_MULTIT i)) = inflight w ++ [m]
      /\ m_id m = next_id w /\ m_fn m = F_MULTIT /\ m_dest m = multi_dst i /\ m_caller m = i_caller i
      /\ forall w2 gas oB sB',
           let shB := shof (m_dest m) in
           exec (env_at c shB) (m_fn m) (deliver_input c m shB gas) (mk_state (shard_accts w2 shB)) = (Ok oB, sB') ->
           tok_at (env_at c shB) sB' (multi_dst i) (rt_cell x) <> None ->
           hop (wc_cdc c) (rt_cell x) (wplace w sh (i_caller i)) (pl (env_at c shB) sB' (multi_dst i)).
  Proof.
    intros Hsh H Heq Hcaller Hdst Hcons Hx Hn.
    assert (Hsame : multi_same (env_at c sh) i = false).
    { unfold multi_same. cbn [self_shard shard_of env_at]. apply N.eqb_neq. intros Hx0. apply Hdst. unfold multi_dst. symmetry. exact Hx0. }
    destruct (hop_cross_multi_sender (env_at c sh) Hc _ _ _ _ H Heq Hsame Hcons)
      as (lst & tr & Hf & Hlen & Hacc & Hdata & _ & Hparse & Hsnd & Hct & _).
    assert (Hne : tr_data tr <> []).
    { rewrite Hdata. unfold msg_data. intros Hx0. apply app_eq_nil in Hx0 as [Hx0 _]. discriminate Hx0. }
    pose proof (c08_collect_one sh F_MULTIT i (next_id w) o (multi_dst i) tr F_MULTIT _ Hacc Hparse Hne (or_intror eq_refl) Hdst
                  ltac:(rewrite Hsnd; exact Hcaller)) as Hcol.
    eexists. split; [rewrite (c08_wstep_call _ _ _ _ _ _ Hsh H); cbn [inflight with_msgs]; rewrite Hcol; reflexivity|].
    cbn [m_id m_fn m_dest m_caller]. split; [reflexivity|]. split; [reflexivity|]. split; [reflexivity|]. split; [exact Hsnd|].
    intros w2 gas oB sB' HB Hex.
    assert (Hne2 : i_caller i <> multi_dst i).
    { intros Hx0. apply Hdst. rewrite <- Hx0. exact Hcaller. }
    set (shB := shof (multi_dst i)) in *.
    unfold wplace.
    match type of HB with exec _ _ ?iB0 _ = _ => set (iB := iB0) in * end.
    assert (Hr : i_rcpt iB = multi_dst i) by reflexivity. rewrite <- Hr. rewrite <- Hr in Hne2.
    eapply (hop_multi_cross (wc_cdc c) (rt_cell x) (env_at c sh) (env_at c shB) i _ o s' iB _ oB sB' tr F_MULTIT x);
      try reflexivity; try assumption.
    - exact HB.
    - change (i_caller iB) with (tr_sender tr). rewrite Hsnd. exact Hne2.
  Qed.

  (* ---- same shard: the origin call alone is the hop, and the world commits it ---- *)
  Theorem world_nft_same_is_hop w sh i o s' : (sh <? wc_nshards c)%N = true -> (N.to_nat sh < nshards w)%nat ->
    exec (env_at c sh) F_NFTT i (mk_state (shard_accts w sh)) = (Ok o, s') ->
    i_caller i = i_rcpt i -> shof (nft_dst i) = sh ->
    lookup_consistent (env_at c sh) (mk_state (shard_accts w sh)) (i_caller i) (nft_tkey i) (nft_nonce i) ->
    tok_at (env_at c sh) s' (nft_dst i) (nft_cell i) <> None ->
    shard_accts (wstep c w (OCall sh F_NFTT i)) sh = accts s'
    /\ hop (wc_cdc c) (nft_cell i) (wplace w sh (i_caller i)) (pl (env_at c sh) s' (nft_dst i)).
  Proof.
    intros Hsh Hin H Heq Hdst Hlc Hex. split.
    - rewrite (c08_wstep_call _ _ _ _ _ _ Hsh H). rewrite shard_accts_with_msgs. apply shard_accts_set_shard_eq. exact Hin.
    - unfold wplace. apply (hop_nft_same (wc_cdc c) (nft_cell i) (env_at c sh) i _ o s'); try reflexivity; try assumption.
      unfold nft_same. cbn [self_shard shard_of env_at]. apply N.eqb_eq. symmetry. exact Hdst.
  Qed.
End C08World.

Print Assumptions world_nft_cross_is_hop.
Print Assumptions world_multi_cross_is_hop.
Print Assumptions world_nft_same_is_hop.
