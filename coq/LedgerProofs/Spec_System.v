(* Function specifications ("characterising lemmas") of the system-contract and account-level
   built-ins of Ledger/Funcs.v:
     f_freeze_wipe (freeze / unfreeze / wipe), f_pause (pause / unpause), f_roles (set / unset),
     f_create_role_transfer (at the current owner, same-shard and cross-shard; delivered hand-over),
     f_change_owner, f_claim_rewards, f_set_user_name (origin / destination), f_save_key_value (+ skv_loop).
   Shape of every spec:   f E i s = (Ok o, s') -> guards /\ effects /\ frame /\ nofault
   where the frame is [unchanged_except F G s s'] with the exact footprint.
   Corollaries for the property files are at the end (system_balance_effect_*, system_requires_sc, owner_only,
   dns_only, savekv_*, footprints, and the lifting through [exec]). *)
From EV Require Import Base.Bytes Base.Store Base.Monad gen.Consts Codec.Types Helpers.Helpers
  Ledger.Types Ledger.Env Ledger.Funcs Ledger.Transfers LedgerProofs.Defs LedgerProofs.EnvSpec.

Arguments msg_data : simpl never.
Arguments log_esdt : simpl never.
Arguments compute_gas_remaining : simpl never.

(* ================================================================== *)
(* 0. Small tools                                                      *)
(* ================================================================== *)
Lemma alen_0 l : alen l = 0%N -> l = [].
Proof. destruct l; [reflexivity|]. unfold alen. simpl. lia. Qed.
Lemma alen_1 l : alen l = 1%N -> exists x, l = [x].
Proof. destruct l as [|x [|y r]]; unfold alen; simpl; try lia. eauto. Qed.
Lemma alen_2 l : alen l = 2%N -> exists x y, l = [x; y].
Proof. destruct l as [|x [|y [|z r]]]; unfold alen; simpl; try lia. eauto. Qed.
Lemma alen_cons x l : alen (x :: l) = (1 + alen l)%N.
Proof. unfold alen. simpl length. lia. Qed.
Lemma alen_pos l : (0 < alen l)%N -> exists x r, l = x :: r.
Proof. destruct l; unfold alen; simpl; [lia|eauto]. Qed.

Lemma paused_val_flag_bytes f : paused_val (flag_bytes f) = f.
Proof. destruct f; vm_compute; reflexivity. Qed.
Lemma MinLen_val : C.MinLenArgumentsESDTTransfer = 2%N. Proof. reflexivity. Qed.

Lemma key_allowed_not_protected k : key_allowed k = true -> prefix_of C.ElrondProtectedKeyPrefix k = false.
Proof.
  intros H. destruct (prefix_of C.ElrondProtectedKeyPrefix k) eqn:Ep; [|reflexivity].
  rewrite (key_allowed_prefix _ Ep) in H. discriminate.
Qed.

(* account field updates used in the account-level specs *)
Definition with_owner (x : account) (o : bytes) : account :=
  {| a_store := a_store x; a_balance := a_balance x; a_owner := o; a_username := a_username x; a_devreward := a_devreward x |}.
Definition with_username (x : account) (u : bytes) : account :=
  {| a_store := a_store x; a_balance := a_balance x; a_owner := a_owner x; a_username := u; a_devreward := a_devreward x |}.
Definition with_devreward (x : account) (r : Z) : account :=
  {| a_store := a_store x; a_balance := a_balance x; a_owner := a_owner x; a_username := a_username x; a_devreward := r |}.
Definition with_balance (x : account) (b : Z) : account :=
  {| a_store := a_store x; a_balance := b; a_owner := a_owner x; a_username := a_username x; a_devreward := a_devreward x |}.

Section Tools.
  Variable E : env.
  Lemma wr_ue (F : bytes -> bytes -> Prop) (G : bytes -> Prop) a k v s s' :
    wr E a k v s s' -> F a k -> unchanged_except F G s s'.
  Proof.
    intros H HF. eapply unchanged_except_weaken; [| |apply (wr_unchanged _ _ _ _ _ _ H)].
    - intros a' k' [-> ->]. exact HF.
    - intros a' [].
  Qed.
  Lemma rd_ue (F : bytes -> bytes -> Prop) (G : bytes -> Prop) s s' : rd E s s' -> unchanged_except F G s s'.
  Proof. apply rd_unchanged. Qed.
  Lemma upd_ue (F : bytes -> bytes -> Prop) (G : bytes -> Prop) a f s u s' :
    upd_acct a f s = (Ok u, s') -> (forall x, a_store (f x) = a_store x) -> G a -> unchanged_except F G s s'.
  Proof.
    intros H Hf HG. eapply unchanged_except_weaken; [| |apply (upd_acct_unchanged _ _ _ _ _ H Hf)].
    - intros a' k' [].
    - intros a' ->. exact HG.
  Qed.
End Tools.

(* chains of rd / wr steps: frame and nofault *)
Ltac ue_chain :=
  lazymatch goal with
  | |- unchanged_except _ _ ?s ?s => apply unchanged_except_refl
  | |- unchanged_except ?F ?G ?s ?s' =>
    match goal with
    | H : rd _ s s' |- _ => apply (rd_ue _ F G _ _ H)
    | H : wr _ _ _ _ s s' |- _ => apply (wr_ue _ F G _ _ _ _ _ H); cbv beta; auto
    | H : rd _ s ?s1 |- _ =>
        apply (unchanged_except_trans F G s s1 s'); [apply (rd_ue _ F G _ _ H)|clear H; ue_chain]
    | H : wr _ _ _ _ s ?s1 |- _ =>
        apply (unchanged_except_trans F G s s1 s');
        [apply (wr_ue _ F G _ _ _ _ _ H); cbv beta; auto|clear H; ue_chain]
    | H : unchanged_except _ _ s s' |- _ =>
        refine (unchanged_except_weaken _ F _ G s s' _ _ H); cbv beta; intros; intuition (subst; auto)
    | H : unchanged_except _ _ s ?s1 |- _ =>
        apply (unchanged_except_trans F G s s1 s');
        [refine (unchanged_except_weaken _ F _ G s s1 _ _ H); cbv beta; intros; intuition (subst; auto)
        |clear H; ue_chain]
    end
  end.
Ltac nf_chain :=
  lazymatch goal with
  | |- nofault _ ?s ?s => apply nofault_refl
  | |- nofault ?E ?s ?s' =>
    match goal with
    | H : nofault _ s s' |- _ => exact H
    | H : rd _ s s' |- _ => exact (rd_nofault _ _ _ H)
    | H : wr _ _ _ _ s s' |- _ => exact (wr_nofault _ _ _ _ _ _ H)
    | H : rd _ s ?s1 |- _ =>
        apply (nofault_trans E s s1 s'); [exact (rd_nofault _ _ _ H)|clear H; nf_chain]
    | H : wr _ _ _ _ s ?s1 |- _ =>
        apply (nofault_trans E s s1 s'); [exact (wr_nofault _ _ _ _ _ _ H)|clear H; nf_chain]
    | H : nofault _ s ?s1 |- _ =>
        apply (nofault_trans E s s1 s'); [exact H|clear H; nf_chain]
    end
  end.

Section Spec.
  Variable E : env.
  Hypothesis Hc : codec_ok (cdc E).
  Notation G := (gas E).

  (* ================================================================== *)
  (* 1. check_system_one_arg                                             *)
  (* ================================================================== *)
  Lemma check_system_one_arg_ok i s u s' : check_system_one_arg i s = (Ok u, s') ->
    i_value i = 0%Z /\ (exists tok, i_args i = [tok]) /\ i_caller i = SC /\ s' = s.
  Proof.
    unfold check_system_one_arg. intros H. minv.
    repeat match goal with
           | H : (_ =? _)%Z = true |- _ => apply Z.eqb_eq in H
           | H : (_ =? _)%N = true |- _ => apply N.eqb_eq in H
           | H : beqb _ _ = true |- _ => apply beqb_true in H
           end.
    repeat split; auto. apply alen_1. assumption.
  Qed.

  (* ================================================================== *)
  (* 2. ESDTPause / ESDTUnPause                                          *)
  (* ================================================================== *)
  (* F8: the flag is written under P ++ tok in the SYS account; if SYS itself held a balance entry
     there, it is overwritten: its balance becomes [bal_of_bytes E (flag_bytes p)] (whatever the codec
     makes of the two flag bytes). *)
  Lemma pause_spec p i s o s' :
    f_pause E p i s = (Ok o, s') ->
    (i_value i = 0%Z /\ i_caller i = SC /\ is_sys (i_rcpt i) = true)
    /\ exists tok, i_args i = [tok]
       /\ o = mk_out rcOk 0
       /\ cell s' SYS (P ++ tok) = flag_bytes p
       /\ paused_at s' (P ++ tok) = p
       /\ balance E s' SYS (P ++ tok) = bal_of_bytes E (flag_bytes p)
       /\ unchanged_except (fun a k => a = SYS /\ k = P ++ tok) (fun _ => False) s s'
       /\ nofault E s s'
       /\ calls s' = (calls s + 3)%nat.
  Proof.
    unfold f_pause. intros H.
    apply bind_ok in H as (u0 & s0 & H0 & H). apply check_system_one_arg_ok in H0 as (Hv & (tok & Ha) & Hcl & ->).
    apply bind_ok in H as (u1 & s1 & H1 & H). apply guard_ok in H1 as [Hsys ->].
    rewrite Ha in H. apply bind_ok in H as (tok' & s1 & H1 & H). apply arg_ok in H1 as (Hn & _ & ->).
    simpl in Hn. inversion Hn; subst tok'. clear Hn.
    apply bind_ok in H as (u2 & s2 & H2 & H). apply bind_ok in H as (u3 & s3 & H3 & H).
    apply bind_ok in H as (u4 & s4 & H4 & H). apply ret_ok in H as [-> <-].
    assert (Hcalls : calls s' = (calls s + 3)%nat).
    { apply dep_ok in H2 as (_ & _ & C2 & _). apply save_kv_calls in H3 as (_ & C3).
      apply dep_ok in H4 as (_ & _ & C4 & _). lia. }
    apply load_account_ok in H2. apply save_kv_ok in H3. apply save_account_ok in H4.
    assert (Hw : wr E SYS (P ++ tok) (flag_bytes p) s s') by (eapply wr_rd; [eapply rd_wr|]; eauto).
    split; [auto|]. exists tok. split; [exact Ha|]. split; [reflexivity|].
    split; [apply (wr_cell_eq _ _ _ _ _ _ Hw)|].
    split; [rewrite (wr_paused_at_eq _ _ _ _ _ Hw); apply paused_val_flag_bytes|].
    split; [apply (wr_balance_eq _ _ _ _ _ _ Hw)|].
    split; [apply (wr_unchanged _ _ _ _ _ _ Hw)|]. split; [apply (wr_nofault _ _ _ _ _ _ Hw)|exact Hcalls].
  Qed.

  (* ================================================================== *)
  (* 3. ESDTFreeze / ESDTUnFreeze / ESDTWipe                              *)
  (* ================================================================== *)
  (* freeze (f = true) and unfreeze (f = false).  [t] is the entry as read (absent = default_tok).
     The entry afterwards is the old one with props := flag_bytes f, except that an entry of value 0
     whose flag is cleared is deleted (save_esdt_data).  Freezing an absent entry creates a
     zero-value frozen entry. *)
  Lemma freeze_spec f i s o s' :
    f_freeze_wipe E f false i s = (Ok o, s') ->
    (i_value i = 0%Z /\ i_caller i = SC /\ i_dst i = true)
    /\ exists tok t, i_args i = [tok]
       /\ o = mk_out rcOk 0
       /\ tok_or_default E s (i_rcpt i) (P ++ tok) = Some t /\ wf_token t /\ t_value t <> None
       /\ tok_at E s' (i_rcpt i) (P ++ tok) =
          (if ((balance E s (i_rcpt i) (P ++ tok) =? 0)%Z && negb f)%bool then None
           else Some (set_props t (flag_bytes f)))
       /\ balance E s' (i_rcpt i) (P ++ tok) = balance E s (i_rcpt i) (P ++ tok)
       /\ frozen_at E s' (i_rcpt i) (P ++ tok) = f
       /\ unchanged_except (fun a k => a = i_rcpt i /\ k = P ++ tok) (fun _ => False) s s'
       /\ nofault E s s'.
  Proof.
    unfold f_freeze_wipe. intros H.
    apply bind_ok in H as (u0 & s0 & H0 & H). apply check_system_one_arg_ok in H0 as (Hv & (tok & Ha) & Hcl & ->).
    apply bind_ok in H as (u1 & s1 & H1 & H). apply guard_ok in H1 as [Hdst ->].
    rewrite Ha in H. apply bind_ok in H as (tok' & s1 & H1 & H). apply arg_ok in H1 as (Hn & _ & ->).
    simpl in Hn. inversion Hn; subst tok'. clear Hn. cbv zeta in H.
    apply bind_ok in H as (t & s1 & H1 & H). apply (get_esdt_data_ok E Hc) in H1 as (Hr & Ht & Hwf).
    apply bind_ok in H as (u2 & s2 & H2 & H). apply ret_ok in H as [-> <-].
    apply save_esdt_data_ok in H2 as (v & Hval & Hw). cbn [set_props t_value t_props] in Hval, Hw.
    rewrite all_zero_flag_bytes in Hw.
    assert (Hw' := rd_wr _ _ _ _ _ _ _ Hr Hw). clear Hw Hr. rename Hw' into Hw.
    assert (Hb : balance E s (i_rcpt i) (P ++ tok) = v)
      by (rewrite (balance_tod _ _ _ _ _ Ht); unfold val_or_0; rewrite Hval; reflexivity).
    assert (Hta : tok_at E s' (i_rcpt i) (P ++ tok) =
                  (if ((v =? 0)%Z && negb f)%bool then None else Some (set_props t (flag_bytes f)))).
    { destruct ((v =? 0)%Z && negb f)%bool.
      - eapply wr_tok_at_nil; eauto.
      - eapply wr_tok_at_enc; eauto. }
    split; [auto|]. exists tok, t. split; [exact Ha|]. split; [reflexivity|].
    split; [exact Ht|]. split; [exact Hwf|]. split; [congruence|].
    rewrite Hb. split; [exact Hta|]. split; [|split].
    - destruct ((v =? 0)%Z && negb f)%bool eqn:Ez.
      + rewrite (balance_tok_at_none _ _ _ _ Hta). apply andb_prop in Ez. lia.
      + rewrite (balance_tok_at _ _ _ _ _ Hta). unfold val_or_0. cbn [set_props t_value]. rewrite Hval. reflexivity.
    - unfold frozen_at. rewrite Hta. destruct ((v =? 0)%Z && negb f)%bool eqn:Ez.
      + apply andb_prop in Ez as [_ Ez]. destruct f; [discriminate|reflexivity].
      + cbn [set_props t_props]. apply frozen_props_flag_bytes.
    - split; [apply (wr_unchanged _ _ _ _ _ _ Hw)|apply (wr_nofault _ _ _ _ _ _ Hw)].
  Qed.

  (* wipe: the entry must exist and be frozen; the cell is cleared *)
  Lemma wipe_spec f i s o s' :
    f_freeze_wipe E f true i s = (Ok o, s') ->
    (i_value i = 0%Z /\ i_caller i = SC /\ i_dst i = true)
    /\ exists tok t, i_args i = [tok]
       /\ o = add_log (mk_out rcOk 0) (log_esdt C.BuiltInFunctionESDTWipe tok 0 (i_caller i) [i_rcpt i])
       /\ tok_at E s (i_rcpt i) (P ++ tok) = Some t /\ frozen_props (t_props t) = true
       /\ frozen_at E s (i_rcpt i) (P ++ tok) = true
       /\ cell s' (i_rcpt i) (P ++ tok) = []
       /\ tok_at E s' (i_rcpt i) (P ++ tok) = None
       /\ balance E s' (i_rcpt i) (P ++ tok) = 0%Z
       /\ frozen_at E s' (i_rcpt i) (P ++ tok) = false
       /\ unchanged_except (fun a k => a = i_rcpt i /\ k = P ++ tok) (fun _ => False) s s'
       /\ nofault E s s'.
  Proof.
    unfold f_freeze_wipe. intros H.
    apply bind_ok in H as (u0 & s0 & H0 & H). apply check_system_one_arg_ok in H0 as (Hv & (tok & Ha) & Hcl & ->).
    apply bind_ok in H as (u1 & s1 & H1 & H). apply guard_ok in H1 as [Hdst ->].
    rewrite Ha in H. apply bind_ok in H as (tok' & s1 & H1 & H). apply arg_ok in H1 as (Hn & _ & ->).
    simpl in Hn. inversion Hn; subst tok'. clear Hn. cbv zeta in H.
    apply bind_ok in H as (t & s1 & H1 & H). apply (get_esdt_data_ok E Hc) in H1 as (Hr & Ht & Hwf).
    apply bind_ok in H as (u2 & s2 & H2 & H). apply guard_ok in H2 as [Hfr ->].
    apply bind_ok in H as (u3 & s3 & H3 & H). apply ret_ok in H as [-> <-].
    apply save_kv_ok in H3. assert (Hw := rd_wr _ _ _ _ _ _ _ Hr H3). clear H3 Hr.
    assert (Hta : tok_at E s (i_rcpt i) (P ++ tok) = Some t).
    { destruct (tod_cases _ _ _ _ _ Ht) as [(_ & -> & _)|(_ & Hx)]; [discriminate Hfr|exact Hx]. }
    split; [auto|]. exists tok, t. split; [exact Ha|]. split; [reflexivity|].
    split; [exact Hta|]. split; [exact Hfr|].
    split; [unfold frozen_at; rewrite Hta; exact Hfr|].
    split; [apply (wr_cell_eq _ _ _ _ _ _ Hw)|].
    pose proof (wr_tok_at_nil _ _ _ _ _ Hw) as Hn.
    split; [exact Hn|]. split; [apply (wr_balance_nil _ _ _ _ _ Hw)|].
    split; [unfold frozen_at; rewrite Hn; reflexivity|].
    split; [apply (wr_unchanged _ _ _ _ _ _ Hw)|apply (wr_nofault _ _ _ _ _ _ Hw)].
  Qed.

  (* ================================================================== *)
  (* 4. ESDTSetRole / ESDTUnSetRole                                       *)
  (* ================================================================== *)
  Lemma roles_spec set i s o s' :
    f_roles E set i s = (Ok o, s') ->
    (i_value i = 0%Z /\ (2 <= alen (i_args i))%N /\ i_caller i = SC /\ i_dst i = true)
    /\ exists tok rs, i_args i = tok :: rs
       /\ o = mk_out rcOk 0
       /\ (cell s (i_rcpt i) (RP ++ tok) = [] \/ dec_rol (cdc E) (cell s (i_rcpt i) (RP ++ tok)) <> None)
       /\ roles_at E s' (i_rcpt i) tok =
          (if set then roles_at E s (i_rcpt i) tok ++ rs else delete_roles (roles_at E s (i_rcpt i) tok) rs)
       /\ unchanged_except (fun a k => a = i_rcpt i /\ k = RP ++ tok) (fun _ => False) s s'
       /\ nofault E s s'.
  Proof.
    unfold f_roles. intros H.
    apply bind_ok in H as (u0 & s0 & H0 & H). apply check_basic_ok in H0 as (Hv & Hlen & ->).
    apply bind_ok in H as (u1 & s1 & H1 & H). apply guard_ok in H1 as [Hcl ->]. apply beqb_true in Hcl.
    apply bind_ok in H as (u2 & s2 & H2 & H). apply guard_ok in H2 as [Hdst ->].
    rewrite MinLen_val in Hlen.
    destruct (i_args i) as [|tok rs] eqn:Ha; [unfold alen in Hlen; simpl in Hlen; lia|].
    apply bind_ok in H as (tok' & s1 & H1 & H). apply arg_ok in H1 as (Hn & _ & ->).
    simpl in Hn. inversion Hn; subst tok'. clear Hn. cbv zeta in H.
    apply bind_ok in H as ([r isNew] & s1 & H1 & H).
    pose proof (get_roles_ok _ _ _ _ _ _ _ H1) as [_ Hcase].
    apply get_roles_roles_at in H1 as [-> Hr].
    apply bind_ok in H as (rs' & s2 & H2 & H). apply args_from_ok in H2 as (_ & -> & ->).
    change (skipn (N.to_nat 1) (tok :: rs)) with rs in H.
    apply bind_ok in H as (u3 & s3 & H3 & H). apply ret_ok in H as [-> <-].
    apply save_roles_ok in H3. assert (Hw := rd_wr _ _ _ _ _ _ _ Hr H3). clear H3 Hr.
    split; [auto|]. exists tok, rs. split; [reflexivity|]. split; [reflexivity|]. split.
    { destruct isNew; [left; tauto|right]. destruct Hcase as [_ ->]. discriminate. }
    split; [apply (wr_roles_at_eq E Hc _ _ _ _ _ Hw)|].
    split; [apply (wr_unchanged _ _ _ _ _ _ Hw)|apply (wr_nofault _ _ _ _ _ _ Hw)].
  Qed.
  (* ================================================================== *)
  (* 5. ESDTNFTCreateRoleTransfer                                        *)
  (* ================================================================== *)
  Definition add_create (r : roles) : roles :=
    if bytes_in C.ESDTRoleNFTCreate r then r else r ++ [C.ESDTRoleNFTCreate].
  Definition del_create (r : roles) : roles := delete_roles r [C.ESDTRoleNFTCreate].
  (* the hand-over message emitted at the current owner *)
  Definition handover_msg (caller tok : bytes) (n : N) : transfer :=
    {| tr_value := 0; tr_gasLimit := 0; tr_gasLocked := 0;
       tr_data := msg_data C.BuiltInFunctionESDTNFTCreateRoleTransfer [tok; u64_bytes n];
       tr_callType := C.DirectCall; tr_sender := caller |}.

  Lemma In_add_create r : In C.ESDTRoleNFTCreate (add_create r).
  Proof.
    unfold add_create. destruct (bytes_in C.ESDTRoleNFTCreate r) eqn:Eb.
    - apply bytes_in_true. exact Eb.
    - apply in_or_app. right. left. reflexivity.
  Qed.
  Lemma add_create_keeps r x : In x r -> In x (add_create r).
  Proof. unfold add_create. destruct (bytes_in C.ESDTRoleNFTCreate r); [auto|]. intros H. apply in_or_app. auto. Qed.
  Lemma add_create_only r x : In x (add_create r) -> In x r \/ x = C.ESDTRoleNFTCreate.
  Proof.
    unfold add_create. destruct (bytes_in C.ESDTRoleNFTCreate r); [auto|]. intros H.
    apply in_app_or in H as [H|[H|[]]]; auto.
  Qed.
  Lemma del_create_In r x : In x (del_create r) -> In x r.
  Proof. apply delete_roles_In. Qed.
  Lemma del_create_keeps r x : x <> C.ESDTRoleNFTCreate -> In x r -> In x (del_create r).
  Proof. intros Hne. apply delete_roles_keep. intros [H|[]]. congruence. Qed.
  Lemma del_create_removed r : NoDup r -> ~ In C.ESDTRoleNFTCreate (del_create r).
  Proof. intros Hnd. apply delete_roles_removed; [exact Hnd|left; reflexivity]. Qed.

  Lemma delete_create_role_ok a tok s u s' :
    delete_create_role E a (RP ++ tok) s = (Ok u, s') ->
    wr E a (RP ++ tok) (enc_rol (cdc E) (del_create (roles_at E s a tok))) s s'
    /\ (cell s a (RP ++ tok) = [] \/ dec_rol (cdc E) (cell s a (RP ++ tok)) <> None).
  Proof.
    unfold delete_create_role. intros H.
    apply bind_ok in H as ([r isNew] & s1 & H1 & H).
    pose proof (get_roles_ok _ _ _ _ _ _ _ H1) as [_ Hcase].
    apply get_roles_roles_at in H1 as [-> Hr].
    apply save_roles_ok in H. split; [eapply rd_wr; eauto|].
    destruct isNew; [left; tauto|right]. destruct Hcase as [_ ->]. discriminate.
  Qed.

  Lemma add_create_role_ok a tok s u s' :
    add_create_role E a (RP ++ tok) s = (Ok u, s') ->
    roles_at E s' a tok = add_create (roles_at E s a tok)
    /\ (cell s a (RP ++ tok) = [] \/ dec_rol (cdc E) (cell s a (RP ++ tok)) <> None)
    /\ unchanged_except (fun a' k' => a' = a /\ k' = RP ++ tok) (fun _ => False) s s'
    /\ nofault E s s'
    /\ (has_role E s a tok C.ESDTRoleNFTCreate = true -> rd E s s').
  Proof.
    unfold add_create_role. intros H.
    apply bind_ok in H as ([r isNew] & s1 & H1 & H).
    pose proof (get_roles_ok _ _ _ _ _ _ _ H1) as [_ Hcase].
    apply get_roles_roles_at in H1 as [-> Hr].
    assert (Hdec : cell s a (RP ++ tok) = [] \/ dec_rol (cdc E) (cell s a (RP ++ tok)) <> None).
    { destruct isNew; [left; tauto|right]. destruct Hcase as [_ ->]. discriminate. }
    unfold add_create, has_role.
    destruct (bytes_in C.ESDTRoleNFTCreate (roles_at E s a tok)) eqn:Eb.
    - apply ret_ok in H as [_ <-]. split; [apply (rd_roles_at _ _ _ _ _ Hr)|]. split; [exact Hdec|].
      split; [apply rd_unchanged with (E := E); exact Hr|]. split; [apply (rd_nofault _ _ _ Hr)|auto].
    - apply save_roles_ok in H. assert (Hw := rd_wr _ _ _ _ _ _ _ Hr H).
      split; [apply (wr_roles_at_eq E Hc _ _ _ _ _ Hw)|]. split; [exact Hdec|].
      split; [apply (wr_unchanged _ _ _ _ _ _ Hw)|]. split; [apply (wr_nofault _ _ _ _ _ _ Hw)|discriminate].
  Qed.

  Lemma counter_at_u64 s a tok : u64 (counter_at s a tok) = counter_at s a tok.
  Proof. apply u64_small, counter_at_lt. Qed.

  (* common guards *)
  Lemma role_transfer_guards i s o s' :
    f_create_role_transfer E i s = (Ok o, s') ->
    i_value i = 0%Z /\ i_snd i = false /\ i_dst i = true /\ exists tok a1, i_args i = [tok; a1].
  Proof.
    unfold f_create_role_transfer. cbv zeta. intros H.
    apply bind_ok in H as (u0 & s0 & H0 & H). apply check_basic_ok in H0 as (Hv & Hlen & ->).
    apply bind_ok in H as (u1 & s1 & H1 & H). apply guard_ok in H1 as [Hsnd ->].
    apply bind_ok in H as (u2 & s2 & H2 & H). apply guard_ok in H2 as [Hdst ->].
    split; [exact Hv|]. split; [destruct (i_snd i); [discriminate|reflexivity]|]. split; [exact Hdst|].
    destruct (beqb (i_caller i) SC);
      apply bind_ok in H as (u3 & s3 & H3 & H); apply guard_ok in H3 as [Hl ->];
      apply N.eqb_eq in Hl; apply alen_2; exact Hl.
  Qed.

  (* (a) executed at the current owner (= recipient), called by the system contract *)
  Lemma role_transfer_owner_spec i s o s' :
    f_create_role_transfer E i s = (Ok o, s') -> i_caller i = SC ->
    (i_value i = 0%Z /\ i_snd i = false /\ i_dst i = true)
    /\ exists tok newOwner, i_args i = [tok; newOwner]
       /\ zlen newOwner = zlen (i_caller i)
       /\ o = set_accounts (mk_out rcOk 0)
                [{| oc_addr := newOwner; oc_delta := 0;
                    oc_transfers := [handover_msg (i_caller i) tok (counter_at s (i_rcpt i) tok)] |}]
       /\ (cell s (i_rcpt i) (RP ++ tok) = [] \/ dec_rol (cdc E) (cell s (i_rcpt i) (RP ++ tok)) <> None)
       /\ (if (shard_of E newOwner =? self_shard E)%N then
             (* same shard: the new owner's account is updated directly *)
             counter_at s' newOwner tok = counter_at s (i_rcpt i) tok
             /\ roles_at E s' newOwner tok =
                add_create (if beqb newOwner (i_rcpt i) then del_create (roles_at E s (i_rcpt i) tok)
                            else roles_at E s newOwner tok)
             /\ (newOwner <> i_rcpt i ->
                 counter_at s' (i_rcpt i) tok = 0%N
                 /\ roles_at E s' (i_rcpt i) tok = del_create (roles_at E s (i_rcpt i) tok))
             /\ unchanged_except (fun a k => (a = i_rcpt i \/ a = newOwner) /\ (k = NP ++ tok \/ k = RP ++ tok))
                                 (fun _ => False) s s'
           else
             (* cross shard: only the old owner changes here; the counter travels in the message *)
             counter_at s' (i_rcpt i) tok = 0%N
             /\ roles_at E s' (i_rcpt i) tok = del_create (roles_at E s (i_rcpt i) tok)
             /\ unchanged_except (fun a k => a = i_rcpt i /\ (k = NP ++ tok \/ k = RP ++ tok))
                                 (fun _ => False) s s')
       /\ nofault E s s'.
  Proof.
    intros H Hcl. pose proof (role_transfer_guards _ _ _ _ H) as (Hv & Hsnd & Hdst & tok & newOwner & Ha).
    split; [auto|]. exists tok, newOwner. split; [exact Ha|].
    unfold f_create_role_transfer in H. cbv zeta in H. rewrite Ha in H.
    apply bind_ok in H as (u0 & s0 & H0 & H). apply check_basic_ok in H0 as (_ & _ & ->).
    apply bind_ok in H as (u1 & s1 & H1 & H). apply guard_ok in H1 as [_ ->].
    apply bind_ok in H as (u2 & s2 & H2 & H). apply guard_ok in H2 as [_ ->].
    assert (Hb : beqb (i_caller i) SC = true) by (rewrite Hcl; apply beqb_refl). rewrite Hb in H. clear Hb.
    apply bind_ok in H as (u3 & s3 & H3 & H). apply guard_ok in H3 as [_ ->].
    apply bind_ok in H as (tok' & s1 & H1 & H). apply arg_ok in H1 as (Hn & _ & ->).
    simpl in Hn. inversion Hn; subst tok'. clear Hn.
    apply bind_ok in H as (no' & s1 & H1 & H). apply arg_ok in H1 as (Hn & _ & ->).
    simpl in Hn. inversion Hn; subst no'. clear Hn.
    apply bind_ok in H as (u4 & s4 & H4 & H). apply guard_ok in H4 as [Hlen ->]. apply N.eqb_eq in Hlen.
    apply bind_ok in H as (n & s1 & H1 & H). apply get_latest_nonce_ok in H1 as [-> ->].
    apply bind_ok in H as (u5 & s1 & H1 & H). apply save_latest_nonce_ok in H1 as [W1 C1].
    apply bind_ok in H as (u6 & s2 & H2 & H). apply delete_create_role_ok in H2 as [W2 Hdec].
    assert (NR : forall x y, NP ++ x <> RP ++ y) by (intros x y Hx; symmetry in Hx; revert Hx; apply RP_NP_disjoint).
    assert (RN : forall x y, RP ++ x <> NP ++ y) by apply RP_NP_disjoint.
    assert (R1 : roles_at E s1 (i_rcpt i) tok = roles_at E s (i_rcpt i) tok).
    { apply (wr_roles_at_other _ _ _ _ _ _ _ _ W1). right. apply RN. }
    rewrite R1 in W2.
    rewrite (wr_cell_other _ _ _ _ _ _ _ _ W1) in Hdec by (right; apply RN).
    assert (C2 : counter_at s2 (i_rcpt i) tok = 0%N).
    { rewrite (wr_counter_at_other _ _ _ _ _ _ _ _ W2) by (right; apply NR). exact C1. }
    assert (R2 : roles_at E s2 (i_rcpt i) tok = del_create (roles_at E s (i_rcpt i) tok))
      by apply (wr_roles_at_eq E Hc _ _ _ _ _ W2).
    split; [exact Hlen|].
    apply bind_ok in H as (u7 & s3 & H3 & H). apply ret_ok in H as [-> <-].
    split; [reflexivity|]. split; [exact Hdec|].
    destruct (shard_of E newOwner =? self_shard E)%N.
    - apply bind_ok in H3 as (u8 & s4 & H4 & H3). apply load_account_ok in H4.
      apply bind_ok in H3 as (u9 & s5 & H5 & H3). apply save_latest_nonce_ok in H5 as [W5 C5].
      apply bind_ok in H3 as (u10 & s6 & H6 & H3). apply add_create_role_ok in H6 as (R6 & _ & U6 & N6 & _).
      apply save_account_ok in H3. rewrite counter_at_u64 in C5.
      split; [split; [|split; [|split]]|].
      + rewrite (rd_counter_at _ _ _ _ _ H3). rewrite (ue_counter_at _ _ _ _ U6); [exact C5|].
        intros [_ Hx]. revert Hx. apply NR.
      + rewrite (rd_roles_at _ _ _ _ _ H3), R6. f_equal.
        rewrite (wr_roles_at_other _ _ _ _ _ _ _ _ W5) by (right; apply RN).
        rewrite (rd_roles_at _ _ _ _ _ H4).
        destruct (beqb_spec newOwner (i_rcpt i)) as [->|Hne]; [exact R2|].
        rewrite (wr_roles_at_other _ _ _ _ _ _ _ _ W2) by (left; exact Hne).
        apply (wr_roles_at_other _ _ _ _ _ _ _ _ W1). left; exact Hne.
      + intros Hne. assert (Hne' : i_rcpt i <> newOwner) by congruence. split.
        * rewrite (rd_counter_at _ _ _ _ _ H3). rewrite (ue_counter_at _ _ _ _ U6) by (intros [Hx _]; contradiction).
          rewrite (wr_counter_at_other _ _ _ _ _ _ _ _ W5) by (left; exact Hne').
          rewrite (rd_counter_at _ _ _ _ _ H4). exact C2.
        * rewrite (rd_roles_at _ _ _ _ _ H3). rewrite (ue_roles_at _ _ _ _ _ U6) by (intros [Hx _]; contradiction).
          rewrite (wr_roles_at_other _ _ _ _ _ _ _ _ W5) by (left; exact Hne').
          rewrite (rd_roles_at _ _ _ _ _ H4). exact R2.
      + ue_chain.
      + nf_chain.
    - apply ret_ok in H3 as [_ <-]. split; [|nf_chain].
      split; [exact C2|]. split; [exact R2|]. ue_chain.
  Qed.
  (* (b) the delivered hand-over, executed at the next owner (= recipient); the caller is NOT the
     system contract (the message carries the previous owner's context).  F9: nothing ties the message
     to an earlier hand-over: a re-delivered message resets the counter to the carried value again. *)
  Lemma role_transfer_delivered_spec i s o s' :
    f_create_role_transfer E i s = (Ok o, s') -> i_caller i <> SC ->
    (i_value i = 0%Z /\ i_snd i = false /\ i_dst i = true)
    /\ exists tok a1, i_args i = [tok; a1]
       /\ o = mk_out rcOk 0
       /\ (cell s (i_rcpt i) (RP ++ tok) = [] \/ dec_rol (cdc E) (cell s (i_rcpt i) (RP ++ tok)) <> None)
       /\ counter_at s' (i_rcpt i) tok = bigU64 a1
       /\ roles_at E s' (i_rcpt i) tok = add_create (roles_at E s (i_rcpt i) tok)
       /\ unchanged_except (fun a k => a = i_rcpt i /\ (k = NP ++ tok \/ k = RP ++ tok)) (fun _ => False) s s'
       /\ nofault E s s'.
  Proof.
    intros H Hcl. pose proof (role_transfer_guards _ _ _ _ H) as (Hv & Hsnd & Hdst & tok & a1 & Ha).
    split; [auto|]. exists tok, a1. split; [exact Ha|].
    unfold f_create_role_transfer in H. cbv zeta in H. rewrite Ha in H.
    apply bind_ok in H as (u0 & s0 & H0 & H). apply check_basic_ok in H0 as (_ & _ & ->).
    apply bind_ok in H as (u1 & s1 & H1 & H). apply guard_ok in H1 as [_ ->].
    apply bind_ok in H as (u2 & s2 & H2 & H). apply guard_ok in H2 as [_ ->].
    assert (Hb : beqb (i_caller i) SC = false) by (apply beqb_false; exact Hcl). rewrite Hb in H. clear Hb.
    apply bind_ok in H as (u3 & s3 & H3 & H). apply guard_ok in H3 as [_ ->].
    apply bind_ok in H as (tok' & s1 & H1 & H). apply arg_ok in H1 as (Hn & _ & ->).
    simpl in Hn. inversion Hn; subst tok'. clear Hn.
    apply bind_ok in H as (a1' & s1 & H1 & H). apply arg_ok in H1 as (Hn & _ & ->).
    simpl in Hn. inversion Hn; subst a1'. clear Hn.
    apply bind_ok in H as (u5 & s1 & H1 & H). apply save_latest_nonce_ok in H1 as [W1 C1].
    apply bind_ok in H as (u6 & s2 & H2 & H). apply ret_ok in H as [-> <-].
    apply add_create_role_ok in H2 as (R2 & Hdec & U2 & N2 & _).
    assert (NR : forall x y, NP ++ x <> RP ++ y) by (intros x y Hx; symmetry in Hx; revert Hx; apply RP_NP_disjoint).
    assert (RN : forall x y, RP ++ x <> NP ++ y) by apply RP_NP_disjoint.
    rewrite (wr_cell_other _ _ _ _ _ _ _ _ W1) in Hdec by (right; apply RN).
    rewrite (wr_roles_at_other _ _ _ _ _ _ _ _ W1) in R2 by (right; apply RN).
    split; [reflexivity|]. split; [exact Hdec|]. split.
    { rewrite (ue_counter_at _ _ _ _ U2) by (intros [_ Hx]; revert Hx; apply NR).
      rewrite C1. apply u64_small, bigU64_lt. }
    split; [exact R2|]. split; [ue_chain|nf_chain].
  Qed.

  (* ================================================================== *)
  (* 6. ChangeOwnerAddress                                               *)
  (* ================================================================== *)
  Lemma change_owner_spec i s o s' :
    f_change_owner E i s = (Ok o, s') ->
    i_value i = 0%Z
    /\ exists a0 rest, i_args i = a0 :: rest
       /\ zlen a0 = zlen (i_caller i)
       /\ (g_ChangeOwnerAddress G <= i_gas i)%N
       /\ o = mk_out rcOk (compute_gas_remaining (i_snd i) (i_gas i) (g_ChangeOwnerAddress G))
       /\ (i_dst i = false -> s' = s)
       /\ (i_dst i = true ->
           i_caller i = a_owner (acct s (i_rcpt i))
           /\ acct s' (i_rcpt i) = with_owner (acct s (i_rcpt i)) a0
           /\ (forall a, a <> i_rcpt i -> acct s' a = acct s a)
           /\ calls s' = S (calls s) /\ allocs s' = allocs s)
       /\ (forall a k, cell s' a k = cell s a k)
       /\ unchanged_except (fun _ _ => False) (fun a => a = i_rcpt i /\ i_dst i = true) s s'
       /\ nofault E s s'.
  Proof.
    unfold f_change_owner. cbv zeta. intros H.
    apply bind_ok in H as (u0 & s0 & H0 & H). apply guard_ok in H0 as [Hlen ->].
    apply bind_ok in H as (u1 & s1 & H1 & H). apply guard_ok in H1 as [Hv ->]. apply Z.eqb_eq in Hv.
    apply bind_ok in H as (a0 & s1 & H1 & H). apply arg_ok in H1 as (Hn & _ & ->).
    destruct (i_args i) as [|a0' rest] eqn:Ha; [discriminate Hn|]. simpl in Hn. inversion Hn; subst a0'. clear Hn.
    apply bind_ok in H as (u2 & s2 & H2 & H). apply guard_ok in H2 as [Hal ->]. apply N.eqb_eq in Hal.
    apply bind_ok in H as (u3 & s3 & H3 & H). apply guard_ok in H3 as [Hgas ->].
    assert (Hg : (g_ChangeOwnerAddress G <= i_gas i)%N)
      by (destruct (i_gas i <? g_ChangeOwnerAddress G)%N eqn:Eg; [discriminate|lia]).
    split; [exact Hv|]. exists a0, rest. split; [reflexivity|]. split; [exact Hal|]. split; [exact Hg|].
    destruct (i_dst i).
    - cbn [negb] in H.
      apply bind_ok in H as (d & s1 & H1 & H). apply get_acct_ok in H1 as [-> ->].
      apply bind_ok in H as (u4 & s4 & H4 & H). apply guard_ok in H4 as [Hown ->]. apply beqb_true in Hown.
      apply bind_ok in H as (u5 & s5 & H5 & H). pose proof (dep_ok _ _ _ _ H5) as (_ & A5 & C5 & L5). apply dep_rd in H5.
      apply bind_ok in H as (u6 & s6 & H6 & H). apply ret_ok in H as [-> <-].
      pose proof (upd_acct_ok _ _ _ _ _ H6) as (_ & C6 & L6).
      assert (Hacct : forall a, acct s' a = if beqb a (i_rcpt i) then with_owner (acct s (i_rcpt i)) a0 else acct s a).
      { intros a. rewrite (upd_acct_acct _ _ _ _ _ a H6). rewrite !(rd_acct _ _ _ _ H5). reflexivity. }
      split; [reflexivity|]. split; [discriminate|]. split.
      { intros _. split; [exact Hown|]. split; [rewrite Hacct, beqb_refl; reflexivity|].
        split; [intros a Hne; rewrite Hacct, (beqb_false _ _ Hne); reflexivity|]. split; [lia|congruence]. }
      split.
      { intros a k. unfold cell. rewrite Hacct. destruct (beqb a (i_rcpt i)) eqn:Eb; [|reflexivity].
        apply beqb_true in Eb. subst a. reflexivity. }
      split.
      { split.
        - intros a k _. unfold cell. rewrite Hacct. destruct (beqb a (i_rcpt i)) eqn:Eb; [|reflexivity].
          apply beqb_true in Eb. subst a. reflexivity.
        - intros a Hn. rewrite Hacct. destruct (beqb_spec a (i_rcpt i)) as [->|_]; [exfalso; apply Hn; auto|].
          apply acct_fields_eq_refl. }
      eapply nofault_trans; [apply (rd_nofault _ _ _ H5)|eapply upd_acct_nofault; eauto].
    - cbn [negb] in H. apply ret_ok in H as [-> <-].
      split; [reflexivity|]. split; [reflexivity|]. split; [discriminate|]. split; [reflexivity|].
      split; [apply unchanged_except_refl|apply nofault_refl].
  Qed.

  (* ================================================================== *)
  (* 7. ClaimDeveloperRewards                                            *)
  (* ================================================================== *)
  Definition claim_gasrem (i : input) : N :=
    compute_gas_remaining (i_snd i) (i_gas i) (g_ClaimDeveloperRewards G).
  (* the output before the "caller is a contract on this shard" adjustment *)
  Definition claim_out (i : input) (v : Z) : output :=
    let async := (i_callType i =? C.AsynchronousCall)%N in
    set_accounts (mk_out rcOk (if async then 0 else claim_gasrem i))
      [{| oc_addr := i_caller i; oc_delta := v;
          oc_transfers := [{| tr_value := v; tr_gasLimit := if async then claim_gasrem i else 0;
                              tr_gasLocked := if async then i_gasLocked i else 0; tr_data := [];
                              tr_callType := if async then C.AsynchronousCallBack else C.DirectCall;
                              tr_sender := i_caller i |}] |}].

  Lemma claim_rewards_spec i s o s' :
    f_claim_rewards E i s = (Ok o, s') ->
    i_value i = 0%Z
    /\ (i_dst i = false -> s' = s /\ o = mk_out rcOk (claim_gasrem i))
    /\ (i_dst i = true ->
        let v := a_devreward (acct s (i_rcpt i)) in
        i_caller i = a_owner (acct s (i_rcpt i))
        /\ (g_ClaimDeveloperRewards G <= i_gas i)%N
        /\ o = (if (i_snd i && is_sc (i_caller i))%bool then set_accounts (claim_out i v) [] else claim_out i v)
        /\ (forall a, acct s' a =
              (if (i_snd i && beqb a (i_caller i))%bool
               then fun x => with_balance x (a_balance x + v) else fun x => x)
              ((if beqb a (i_rcpt i) then fun x => with_devreward x 0 else fun x => x) (acct s a)))
        /\ a_devreward (acct s' (i_rcpt i)) = 0%Z
        /\ a_balance (acct s' (i_caller i)) =
           (a_balance (acct s (i_caller i)) + if i_snd i then v else 0)%Z
        /\ calls s' = (calls s + if i_snd i then 2 else 1)%nat /\ allocs s' = allocs s)
    /\ (forall a k, cell s' a k = cell s a k)
    /\ unchanged_except (fun _ _ => False)
         (fun a => i_dst i = true /\ (a = i_rcpt i \/ (a = i_caller i /\ i_snd i = true))) s s'
    /\ nofault E s s'.
  Proof.
    unfold f_claim_rewards. cbv zeta. intros H.
    apply bind_ok in H as (u1 & s1 & H1 & H). apply guard_ok in H1 as [Hv ->]. apply Z.eqb_eq in Hv.
    split; [exact Hv|].
    destruct (i_dst i).
    2:{ cbn [negb] in H. apply ret_ok in H as [-> <-]. split; [auto|]. split; [discriminate|].
        split; [reflexivity|]. split; [apply unchanged_except_refl|apply nofault_refl]. }
    cbn [negb] in H. split; [discriminate|].
    apply bind_ok in H as (d & s1 & H1 & H). apply get_acct_ok in H1 as [-> ->].
    apply bind_ok in H as (u4 & s4 & H4 & H). apply guard_ok in H4 as [Hown ->]. apply beqb_true in Hown.
    apply bind_ok in H as (u3 & s3 & H3 & H). apply guard_ok in H3 as [Hgas ->].
    assert (Hg : (g_ClaimDeveloperRewards G <= i_gas i)%N)
      by (destruct (i_gas i <? g_ClaimDeveloperRewards G)%N eqn:Eg; [discriminate|lia]).
    apply bind_ok in H as (u5 & s5 & H5 & H). pose proof (dep_ok _ _ _ _ H5) as (_ & A5 & C5 & L5). apply dep_rd in H5.
    apply bind_ok in H as (u6 & s6 & H6 & H).
    pose proof (upd_acct_ok _ _ _ _ _ H6) as (_ & C6 & L6).
    assert (Hacct6 : forall a, acct s6 a = (if beqb a (i_rcpt i) then fun x => with_devreward x 0 else fun x => x) (acct s a)).
    { intros a. rewrite (upd_acct_acct _ _ _ _ _ a H6). rewrite !(rd_acct _ _ _ _ H5).
      destruct (beqb_spec a (i_rcpt i)) as [->|_]; reflexivity. }
    assert (N6 : nofault E s s6) by (eapply nofault_trans; [apply (rd_nofault _ _ _ H5)|eapply upd_acct_nofault; eauto]).
    fold (claim_gasrem i) in H.
    set (v := a_devreward (acct s (i_rcpt i))) in *.
    assert (Main : (forall a, acct s' a =
              (if (i_snd i && beqb a (i_caller i))%bool
               then fun x => with_balance x (a_balance x + v) else fun x => x)
              ((if beqb a (i_rcpt i) then fun x => with_devreward x 0 else fun x => x) (acct s a)))
            /\ o = (if (i_snd i && is_sc (i_caller i))%bool then set_accounts (claim_out i v) [] else claim_out i v)
            /\ calls s' = (calls s + if i_snd i then 2 else 1)%nat /\ allocs s' = allocs s /\ nofault E s s').
    { destruct (i_snd i).
      - cbn [negb andb] in *.
        apply bind_ok in H as (u7 & s7 & H7 & H). pose proof (dep_ok _ _ _ _ H7) as (_ & A7 & C7 & L7). apply dep_rd in H7.
        apply bind_ok in H as (u8 & s8 & H8 & H). apply ret_ok in H as [-> <-].
        pose proof (upd_acct_ok _ _ _ _ _ H8) as (_ & C8 & L8).
        split.
        { intros a. rewrite (upd_acct_acct _ _ _ _ _ a H8). rewrite !(rd_acct _ _ _ _ H7). rewrite !Hacct6.
          destruct (beqb_spec a (i_caller i)) as [->|_]; reflexivity. }
        split; [reflexivity|]. split; [lia|]. split; [congruence|].
        eapply nofault_trans; [exact N6|]. eapply nofault_trans; [apply (rd_nofault _ _ _ H7)|eapply upd_acct_nofault; eauto].
      - cbn [negb andb] in *. apply ret_ok in H as [-> <-].
        split; [exact Hacct6|]. split; [reflexivity|]. split; [lia|]. split; [congruence|exact N6]. }
    destruct Main as (Hacct & Ho & Hcalls & Hallocs & Hnf).
    assert (Hstore : forall a, a_store (acct s' a) = a_store (acct s a)).
    { intros a. rewrite Hacct. destruct (i_snd i && beqb a (i_caller i))%bool; destruct (beqb a (i_rcpt i)); reflexivity. }
    split.
    { cbv zeta. split; [exact Hown|]. split; [exact Hg|]. split; [exact Ho|]. split; [exact Hacct|].
      split.
      { rewrite Hacct, beqb_refl. destruct (i_snd i && beqb (i_rcpt i) (i_caller i))%bool; reflexivity. }
      split.
      { rewrite Hacct, beqb_refl. destruct (i_snd i); cbn [andb]; destruct (beqb (i_caller i) (i_rcpt i)); cbn; lia. }
      split; [exact Hcalls|exact Hallocs]. }
    split; [intros a k; unfold cell; rewrite Hstore; reflexivity|].
    split; [|exact Hnf]. split.
    - intros a k _. unfold cell. rewrite Hstore. reflexivity.
    - intros a Hn. rewrite Hacct.
      destruct (beqb_spec a (i_rcpt i)) as [->|Hne1]; [exfalso; apply Hn; auto|].
      destruct (i_snd i) eqn:Es; cbn [andb]; [|apply acct_fields_eq_refl].
      destruct (beqb_spec a (i_caller i)) as [->|Hne2]; [exfalso; apply Hn; auto|]. apply acct_fields_eq_refl.
  Qed.

  (* ================================================================== *)
  (* 8. SetUserName                                                      *)
  (* ================================================================== *)
  Definition username_msg (i : input) (a0 : bytes) : transfer :=
    {| tr_value := 0; tr_gasLimit := i_gas i; tr_gasLocked := i_gasLocked i;
       tr_data := msg_data C.BuiltInFunctionSetUserName [a0];
       tr_callType := C.AsynchronousCall; tr_sender := i_caller i |}.

  Lemma set_user_name_spec i s o s' :
    f_set_user_name E i s = (Ok o, s') ->
    (i_value i = 0%Z /\ (g_SaveUserName G <= i_gas i)%N /\ In (i_caller i) (dns E))
    /\ exists a0, i_args i = [a0]
       (* origin side: the recipient lives on another shard; only a message is emitted *)
       /\ (i_dst i = false ->
           s' = s /\ o = set_accounts (mk_out rcOk 0)
                          [{| oc_addr := i_rcpt i; oc_delta := 0; oc_transfers := [username_msg i a0] |}])
       (* destination side *)
       /\ (i_dst i = true ->
           (enable_change E = true \/ a_username (acct s (i_rcpt i)) = [])
           /\ o = mk_out rcOk (sub64 (i_gas i) (g_SaveUserName G))
           /\ acct s' (i_rcpt i) = with_username (acct s (i_rcpt i)) a0
           /\ (forall a, a <> i_rcpt i -> acct s' a = acct s a)
           /\ calls s' = calls s /\ allocs s' = allocs s)
       /\ (forall a k, cell s' a k = cell s a k)
       /\ unchanged_except (fun _ _ => False) (fun a => a = i_rcpt i /\ i_dst i = true) s s'
       /\ nofault E s s'.
  Proof.
    unfold f_set_user_name. cbv zeta. intros H.
    apply bind_ok in H as (u1 & s1 & H1 & H). apply guard_ok in H1 as [Hv ->]. apply Z.eqb_eq in Hv.
    apply bind_ok in H as (u3 & s3 & H3 & H). apply guard_ok in H3 as [Hgas ->].
    assert (Hg : (g_SaveUserName G <= i_gas i)%N)
      by (destruct (i_gas i <? g_SaveUserName G)%N eqn:Eg; [discriminate|lia]).
    apply bind_ok in H as (u4 & s4 & H4 & H). apply guard_ok in H4 as [Hdns ->]. apply bytes_in_true in Hdns.
    apply bind_ok in H as (u5 & s5 & H5 & H). apply guard_ok in H5 as [Hlen ->]. apply N.eqb_eq in Hlen.
    apply alen_1 in Hlen as [a0 Ha]. rewrite Ha in H.
    apply bind_ok in H as (a0' & s1 & H1 & H). apply arg_ok in H1 as (Hn & _ & ->).
    simpl in Hn. inversion Hn; subst a0'. clear Hn.
    split; [auto|]. exists a0. split; [exact Ha|].
    destruct (i_dst i).
    - cbn [negb] in H. split; [discriminate|].
      apply bind_ok in H as (d & s1 & H1 & H). apply get_acct_ok in H1 as [-> ->].
      apply bind_ok in H as (u6 & s6 & H6 & H). apply guard_ok in H6 as [Hen ->].
      apply bind_ok in H as (u7 & s7 & H7 & H). apply ret_ok in H as [-> <-].
      pose proof (upd_acct_ok _ _ _ _ _ H7) as (_ & C7 & L7).
      assert (Hacct : forall a, acct s' a = if beqb a (i_rcpt i) then with_username (acct s (i_rcpt i)) a0 else acct s a).
      { intros a. apply (upd_acct_acct _ _ _ _ _ a H7). }
      split.
      { intros _. split.
        { destruct (enable_change E); [left; reflexivity|right]. cbn [orb] in Hen.
          destruct (a_username (acct s (i_rcpt i))); [reflexivity|discriminate]. }
        split; [reflexivity|]. split; [rewrite Hacct, beqb_refl; reflexivity|].
        split; [intros a Hne; rewrite Hacct, (beqb_false _ _ Hne); reflexivity|]. split; assumption. }
      split.
      { intros a k. unfold cell. rewrite Hacct. destruct (beqb a (i_rcpt i)) eqn:Eb; [|reflexivity].
        apply beqb_true in Eb. subst a. reflexivity. }
      split; [|eapply upd_acct_nofault; eauto]. split.
      + intros a k _. unfold cell. rewrite Hacct. destruct (beqb a (i_rcpt i)) eqn:Eb; [|reflexivity].
        apply beqb_true in Eb. subst a. reflexivity.
      + intros a Hn. rewrite Hacct. destruct (beqb_spec a (i_rcpt i)) as [->|_]; [exfalso; apply Hn; auto|].
        apply acct_fields_eq_refl.
    - cbn [negb] in H. apply ret_ok in H as [-> <-].
      split; [intros _; split; reflexivity|]. split; [discriminate|]. split; [reflexivity|].
      split; [apply unchanged_except_refl|apply nofault_refl].
  Qed.
  (* ================================================================== *)
  (* 9. SaveKeyValue                                                     *)
  (* ================================================================== *)
  (* the argument list read as (key, value) pairs *)
  Fixpoint pairs_of (l : list bytes) : list (bytes * bytes) :=
    match l with k :: v :: r => (k, v) :: pairs_of r | _ => [] end.
  Definition unpairs (ps : list (bytes * bytes)) : list bytes := flat_map (fun kv => [fst kv; snd kv]) ps.
  (* the value of the LAST pair with key k *)
  Fixpoint last_val (ps : list (bytes * bytes)) (k : bytes) : option bytes :=
    match ps with
    | [] => None
    | (k', v) :: r => match last_val r k with Some x => Some x | None => if beqb k k' then Some v else None end
    end.
  (* gas used by the loop, as a function of the caller's storage (uint64 wrap-around as in Go) *)
  Fixpoint skv_use (st : store) (pairs : list bytes) (use : N) : N :=
    match pairs with
    | k :: v :: rest =>
      let use1 := u64 (use + u64 (u64 (zlen v + zlen k) * g_PersistPerByte G)) in
      let old := sget st k in
      if beqb old v then skv_use st rest use1 else
      let change := if (zlen old <? zlen v)%N then (zlen v - zlen old)%N else 0%N in
      skv_use (sput st k v) rest (u64 (use1 + u64 (g_StorePerByte G * change)))
    | _ => use
    end.

  Lemma pair_ind (Pr : list bytes -> Prop) :
    Pr [] -> (forall x, Pr [x]) -> (forall k v r, Pr r -> Pr (k :: v :: r)) -> forall l, Pr l.
  Proof.
    intros H0 H1 H2. fix IH 1. intros [|k [|v r]]; [exact H0|exact (H1 k)|exact (H2 k v r (IH r))].
  Qed.

  Lemma last_val_In ps k v : last_val ps k = Some v -> In (k, v) ps.
  Proof.
    induction ps as [|[k' v'] r IH]; cbn [last_val]; [discriminate|].
    destruct (last_val r k) as [x|].
    - intros [= ->]. right. apply IH. reflexivity.
    - destruct (beqb_spec k k') as [->|_]; [|discriminate]. intros [= ->]. left. reflexivity.
  Qed.
  Lemma last_val_None ps k : last_val ps k = None -> forall v, ~ In (k, v) ps.
  Proof.
    induction ps as [|[k' v'] r IH]; cbn [last_val]; [intros _ v []|].
    destruct (last_val r k) as [x|]; [discriminate|].
    destruct (beqb_spec k k') as [->|Hne]; [discriminate|]. intros _ v [Hx|Hx].
    - inversion Hx. congruence.
    - revert Hx. apply IH. reflexivity.
  Qed.
  Lemma last_val_some_of_In ps k v : In (k, v) ps -> exists v', last_val ps k = Some v'.
  Proof.
    intros Hin. destruct (last_val ps k) as [x|] eqn:El; [eauto|].
    exfalso. eapply last_val_None; eauto.
  Qed.
  Lemma last_val_app ps k kv :
    last_val (ps ++ [kv]) k = if beqb k (fst kv) then Some (snd kv) else last_val ps k.
  Proof.
    induction ps as [|[k' v'] r IH]; cbn [last_val app].
    - destruct kv as [k1 v1]. cbn [last_val fst snd]. destruct (beqb k k1); reflexivity.
    - rewrite IH. destruct (beqb k (fst kv)); [reflexivity|]. reflexivity.
  Qed.

  Lemma skv_loop_nil a g use : skv_loop E a g [] use = ret use.
  Proof. reflexivity. Qed.
  Lemma skv_loop_one a g x use : skv_loop E a g [x] use = panic.
  Proof. reflexivity. Qed.
  Lemma skv_loop_cons a g k v rest use :
    skv_loop E a g (k :: v :: rest) use =
    (let use1 := u64 (use + u64 (u64 (zlen v + zlen k) * g_PersistPerByte G)) in
     guard (key_allowed k) EOperationNotPermitted ;;;
     old <- retrieve a k ;;
     if beqb old v then skv_loop E a g rest use1 else
     let change := if (zlen old <? zlen v)%N then (zlen v - zlen old)%N else 0%N in
     let use2 := u64 (use1 + u64 (g_StorePerByte G * change)) in
     guard (negb (g <? use2)%N) ENotEnoughGas ;;;
     save_kv E a k v ;;;
     skv_loop E a g rest use2).
  Proof. reflexivity. Qed.

  Lemma skv_loop_spec a g : forall pairs use s u s',
    skv_loop E a g pairs use s = (Ok u, s') ->
    pairs = unpairs (pairs_of pairs)
    /\ Forall (fun kv => key_allowed (fst kv) = true) (pairs_of pairs)
    /\ u = skv_use (a_store (acct s a)) pairs use
    /\ (forall k, cell s' a k = match last_val (pairs_of pairs) k with Some v => v | None => cell s a k end)
    /\ (forall a' k, a' <> a -> cell s' a' k = cell s a' k)
    /\ (forall a', acct_fields_eq (acct s' a') (acct s a'))
    /\ allocs s' = allocs s
    /\ nofault E s s'.
  Proof.
    intros pairs. induction pairs as [|x|k v rest IH] using pair_ind; intros use s u s' H.
    - rewrite skv_loop_nil in H. apply ret_ok in H as [-> ->].
      repeat split; try reflexivity; try constructor; try lia; intros; try lia; try apply acct_fields_eq_refl.
    - rewrite skv_loop_one in H. apply panic_ok in H. contradiction.
    - rewrite skv_loop_cons in H. cbv zeta in H.
      apply bind_ok in H as (u0 & s0 & H0 & H). apply guard_ok in H0 as [Hka ->].
      apply bind_ok in H as (old & s0 & H0 & H). apply retrieve_ok in H0 as [-> ->].
      cbn [pairs_of unpairs flat_map fst snd app skv_use]. cbv zeta. fold (cell s a k).
      fold (unpairs (pairs_of rest)).
      assert (Step : exists s1, skv_loop E a g rest
                 (if beqb (cell s a k) v then u64 (use + u64 (u64 (zlen v + zlen k) * g_PersistPerByte G))
                  else u64 (u64 (use + u64 (u64 (zlen v + zlen k) * g_PersistPerByte G)) +
                            u64 (g_StorePerByte G * (if (zlen (cell s a k) <? zlen v)%N then (zlen v - zlen (cell s a k))%N else 0%N))))
                 s1 = (Ok u, s')
               /\ (forall k', cell s1 a k' = if beqb k' k then v else cell s a k')
               /\ a_store (acct s1 a) = (if beqb (cell s a k) v then a_store (acct s a) else sput (a_store (acct s a)) k v)
               /\ (forall a' k', a' <> a -> cell s1 a' k' = cell s a' k')
               /\ (forall a', acct_fields_eq (acct s1 a') (acct s a'))
               /\ allocs s1 = allocs s /\ nofault E s s1).
      { destruct (beqb_spec (cell s a k) v) as [Hov|Hov].
        - exists s. split; [exact H|]. split.
          { intros k'. destruct (beqb_spec k' k) as [->|_]; [exact Hov|reflexivity]. }
          split; [reflexivity|]. split; [reflexivity|]. split; [intros; apply acct_fields_eq_refl|].
          split; [reflexivity|apply nofault_refl].
        - apply bind_ok in H as (u1 & s1 & H1 & H). apply guard_ok in H1 as [_ ->].
          apply bind_ok in H as (u2 & s2 & H2 & H). apply save_kv_ok in H2.
          exists s2. split; [exact H|]. split.
          { intros k'. rewrite (wr_cell _ _ _ _ _ _ a k' H2), beqb_refl. reflexivity. }
          split; [rewrite (wr_acct_eq _ _ _ _ _ _ H2); reflexivity|].
          split; [intros a' k' Hne; apply (wr_cell_other _ _ _ _ _ _ _ _ H2); left; exact Hne|].
          split; [intros a'; apply (wr_fields _ _ _ _ _ _ _ H2)|].
          split; [apply (wr_allocs _ _ _ _ _ _ H2)|apply (wr_nofault _ _ _ _ _ _ H2)]. }
      destruct Step as (s1 & Hloop & Hcell1 & Hst1 & Hoth1 & Hf1 & Hal1 & Hnf1).
      apply IH in Hloop as (Hun & Hall & Hu & Hcell & Hoth & Hf & Hal & Hnf).
      split; [f_equal; f_equal; exact Hun|].
      split; [constructor; [exact Hka|exact Hall]|].
      split.
      { rewrite Hu, Hst1. destruct (beqb (cell s a k) v); reflexivity. }
      split.
      { intros k'. rewrite Hcell, Hcell1. cbn [last_val].
        destruct (last_val (pairs_of rest) k'); [reflexivity|]. destruct (beqb k' k); reflexivity. }
      split; [intros a' k' Hne; rewrite Hoth, Hoth1 by exact Hne; reflexivity|].
      split; [intros a'; eapply acct_fields_eq_trans; [apply Hf|apply Hf1]|].
      split; [congruence|eapply nofault_trans; eauto].
  Qed.

  Lemma save_key_value_spec i s o s' :
    f_save_key_value E i s = (Ok o, s') ->
    let A := i_args i in
    let use := skv_use (a_store (acct s (i_caller i))) A (g_SaveKeyValue G) in
    ((2 <= alen A)%N /\ (alen A mod 2 = 0)%N /\ A = unpairs (pairs_of A)
     /\ i_value i = 0%Z /\ i_snd i = true /\ i_caller i = i_rcpt i /\ is_sc (i_caller i) = false
     /\ Forall (fun kv => key_allowed (fst kv) = true) (pairs_of A)
     /\ (use <= i_gas i)%N)
    /\ o = mk_out rcOk (sub64 (i_gas i) use)
    /\ (forall k, cell s' (i_caller i) k =
                  match last_val (pairs_of A) k with Some v => v | None => cell s (i_caller i) k end)
    /\ unchanged_except (fun a k => a = i_caller i /\ exists v, In (k, v) (pairs_of A)) (fun _ => False) s s'
    /\ allocs s' = allocs s
    /\ nofault E s s'.
  Proof.
    unfold f_save_key_value. cbv zeta. intros H.
    apply bind_ok in H as (u0 & s0 & H0 & H). apply guard_ok in H0 as [Hl2 ->].
    apply bind_ok in H as (u1 & s1 & H1 & H). apply guard_ok in H1 as [Hev ->]. apply N.eqb_eq in Hev.
    apply bind_ok in H as (u2 & s2 & H2 & H). apply guard_ok in H2 as [Hv ->]. apply Z.eqb_eq in Hv.
    apply bind_ok in H as (u3 & s3 & H3 & H). apply guard_ok in H3 as [Hsnd ->].
    apply bind_ok in H as (u4 & s4 & H4 & H). apply guard_ok in H4 as [Hcr ->]. apply beqb_true in Hcr.
    apply bind_ok in H as (u5 & s5 & H5 & H). apply guard_ok in H5 as [Hsc ->].
    apply bind_ok in H as (use & s1 & H1 & H).
    apply skv_loop_spec in H1 as (Hun & Hall & -> & Hcell & Hoth & Hf & Hal & Hnf).
    apply bind_ok in H as (u6 & s6 & H6 & H). apply guard_ok in H6 as [Hgas ->]. apply ret_ok in H as [-> <-].
    split.
    { split; [destruct (alen (i_args i) <? 2)%N eqn:El; [discriminate|lia]|]. split; [exact Hev|].
      split; [exact Hun|]. split; [exact Hv|]. split; [exact Hsnd|]. split; [exact Hcr|].
      split; [destruct (is_sc (i_caller i)); [discriminate|reflexivity]|]. split; [exact Hall|].
      match type of Hgas with negb (_ <? ?x)%N = true => destruct (i_gas i <? x)%N eqn:Eg; [discriminate|lia] end. }
    split; [reflexivity|]. split; [exact Hcell|]. split; [|split; [exact Hal|exact Hnf]].
    split.
    - intros a k Hn. destruct (beqb_spec a (i_caller i)) as [->|Hne]; [|apply Hoth; exact Hne].
      rewrite Hcell. destruct (last_val (pairs_of (i_args i)) k) as [v|] eqn:El; [|reflexivity].
      exfalso. apply Hn. split; [reflexivity|]. exists v. apply last_val_In. exact El.
    - intros a _. apply Hf.
  Qed.
  (* ================================================================== *)
  (* 10. The dispatch: [exec] at the names of these functions            *)
  (* ================================================================== *)
  Lemma exec_claim i : exec E C.BuiltInFunctionClaimDeveloperRewards i = f_claim_rewards E i.
  Proof. reflexivity. Qed.
  Lemma exec_change_owner i : exec E C.BuiltInFunctionChangeOwnerAddress i = f_change_owner E i.
  Proof. reflexivity. Qed.
  Lemma exec_set_user_name i : exec E C.BuiltInFunctionSetUserName i = f_set_user_name E i.
  Proof. reflexivity. Qed.
  Lemma exec_save_key_value i : exec E C.BuiltInFunctionSaveKeyValue i = f_save_key_value E i.
  Proof. reflexivity. Qed.
  Lemma exec_pause i : exec E C.BuiltInFunctionESDTPause i = f_pause E true i.
  Proof. reflexivity. Qed.
  Lemma exec_unpause i : exec E C.BuiltInFunctionESDTUnPause i = f_pause E false i.
  Proof. reflexivity. Qed.
  Lemma exec_freeze i : exec E C.BuiltInFunctionESDTFreeze i = f_freeze_wipe E true false i.
  Proof. reflexivity. Qed.
  Lemma exec_unfreeze i : exec E C.BuiltInFunctionESDTUnFreeze i = f_freeze_wipe E false false i.
  Proof. reflexivity. Qed.
  Lemma exec_wipe i : exec E C.BuiltInFunctionESDTWipe i = f_freeze_wipe E false true i.
  Proof. reflexivity. Qed.
  Lemma exec_unset_role i : exec E C.BuiltInFunctionUnSetESDTRole i = f_roles E false i.
  Proof. reflexivity. Qed.
  Lemma exec_set_role i : exec E C.BuiltInFunctionSetESDTRole i = f_roles E true i.
  Proof. reflexivity. Qed.
  Lemma exec_role_transfer i : exec E C.BuiltInFunctionESDTNFTCreateRoleTransfer i = f_create_role_transfer E i.
  Proof. reflexivity. Qed.
  (* ================================================================== *)
  (* 11. Corollaries                                                     *)
  (* ================================================================== *)
  (* combined role-transfer spec: which branch runs is decided by the caller alone *)
  Lemma role_transfer_requires i s o s' :
    f_create_role_transfer E i s = (Ok o, s') ->
    i_value i = 0%Z /\ i_snd i = false /\ i_dst i = true /\ exists tok a1, i_args i = [tok; a1].
  Proof. apply role_transfer_guards. Qed.

  Lemma role_transfer_frame i s o s' :
    f_create_role_transfer E i s = (Ok o, s') ->
    exists tok a1, i_args i = [tok; a1]
      /\ unchanged_except
           (fun a k => (a = i_rcpt i \/ (a = a1 /\ i_caller i = SC /\ shard_of E a1 = self_shard E))
                       /\ (k = NP ++ tok \/ k = RP ++ tok)) (fun _ => False) s s'
      /\ nofault E s s'.
  Proof.
    intros H. destruct (beqb_spec (i_caller i) SC) as [Hcl|Hcl].
    - apply role_transfer_owner_spec in H as (_ & tok & a1 & Ha & _ & _ & _ & Hsh & Hnf); [|exact Hcl].
      exists tok, a1. split; [exact Ha|]. split; [|exact Hnf].
      destruct (shard_of E a1 =? self_shard E)%N eqn:Es.
      + apply N.eqb_eq in Es. destruct Hsh as (_ & _ & _ & Hu).
        eapply unchanged_except_weaken; [| |exact Hu]; cbv beta; [|tauto].
        intros a k [[->| ->] Hk]; tauto.
      + destruct Hsh as (_ & _ & Hu). eapply unchanged_except_weaken; [| |exact Hu]; cbv beta; tauto.
    - apply role_transfer_delivered_spec in H as (_ & tok & a1 & Ha & _ & _ & _ & _ & Hu & Hnf); [|exact Hcl].
      exists tok, a1. split; [exact Ha|]. split; [|exact Hnf].
      eapply unchanged_except_weaken; [| |exact Hu]; cbv beta; tauto.
  Qed.

  (* ---------------- (i) effect on token balances ---------------- *)
  Lemma system_balance_effect_freeze f i s o s' :
    f_freeze_wipe E f false i s = (Ok o, s') -> forall a k, balance E s' a k = balance E s a k.
  Proof.
    intros H a k. apply freeze_spec in H as (_ & tok & t & _ & _ & _ & _ & _ & _ & Hb & _ & Hu & _).
    destruct (beqb_spec a (i_rcpt i)) as [->|Ha]; [destruct (beqb_spec k (P ++ tok)) as [->|Hk]|].
    - exact Hb.
    - apply (ue_balance E _ _ _ _ Hu). intros [_ Hx]. contradiction.
    - apply (ue_balance E _ _ _ _ Hu). intros [Hx _]. contradiction.
  Qed.
  Lemma system_balance_effect_wipe f i s o s' :
    f_freeze_wipe E f true i s = (Ok o, s') ->
    exists tok, i_args i = [tok]
      /\ frozen_at E s (i_rcpt i) (P ++ tok) = true
      /\ balance E s' (i_rcpt i) (P ++ tok) = 0%Z
      /\ forall a k, ~ (a = i_rcpt i /\ k = P ++ tok) -> balance E s' a k = balance E s a k.
  Proof.
    intros H. apply wipe_spec in H as (_ & tok & t & Ha & _ & _ & _ & Hfr & _ & _ & Hb & _ & Hu & _).
    exists tok. split; [exact Ha|]. split; [exact Hfr|]. split; [exact Hb|].
    intros a k Hn. apply (ue_balance E _ _ _ _ Hu). exact Hn.
  Qed.
  Lemma system_balance_effect_pause p i s o s' :
    f_pause E p i s = (Ok o, s') ->
    exists tok, i_args i = [tok]
      /\ balance E s' SYS (P ++ tok) = bal_of_bytes E (flag_bytes p)
      /\ forall a k, ~ (a = SYS /\ k = P ++ tok) -> balance E s' a k = balance E s a k.
  Proof.
    intros H. apply pause_spec in H as (_ & tok & Ha & _ & _ & _ & Hb & Hu & _).
    exists tok. split; [exact Ha|]. split; [exact Hb|].
    intros a k Hn. apply (ue_balance E _ _ _ _ Hu). exact Hn.
  Qed.
  Lemma system_balance_effect_roles set i s o s' :
    f_roles E set i s = (Ok o, s') -> forall a x, balance E s' a (P ++ x) = balance E s a (P ++ x).
  Proof.
    intros H a x. apply roles_spec in H as (_ & tok & rs & _ & _ & _ & _ & Hu & _).
    apply (ue_balance E _ _ _ _ Hu). intros [_ Hx]. revert Hx. apply P_RP_disjoint.
  Qed.
  Lemma system_balance_effect_role_transfer i s o s' :
    f_create_role_transfer E i s = (Ok o, s') -> forall a x, balance E s' a (P ++ x) = balance E s a (P ++ x).
  Proof.
    intros H a x. apply role_transfer_frame in H as (tok & a1 & _ & Hu & _).
    apply (ue_balance E _ _ _ _ Hu). intros [_ [Hx|Hx]]; revert Hx; [apply P_NP_disjoint|apply P_RP_disjoint].
  Qed.
  Lemma system_balance_effect_change_owner i s o s' :
    f_change_owner E i s = (Ok o, s') -> forall a k, balance E s' a k = balance E s a k.
  Proof.
    intros H a k. apply change_owner_spec in H as (_ & a0 & rest & _ & _ & _ & _ & _ & _ & Hcell & _).
    unfold balance. rewrite Hcell. reflexivity.
  Qed.
  Lemma system_balance_effect_claim i s o s' :
    f_claim_rewards E i s = (Ok o, s') -> forall a k, balance E s' a k = balance E s a k.
  Proof.
    intros H a k. apply claim_rewards_spec in H as (_ & _ & _ & Hcell & _).
    unfold balance. rewrite Hcell. reflexivity.
  Qed.
  Lemma system_balance_effect_set_user_name i s o s' :
    f_set_user_name E i s = (Ok o, s') -> forall a k, balance E s' a k = balance E s a k.
  Proof.
    intros H a k. apply set_user_name_spec in H as (_ & a0 & _ & _ & _ & Hcell & _).
    unfold balance. rewrite Hcell. reflexivity.
  Qed.

  (* SaveKeyValue never touches a cell whose key carries the protected prefix *)
  Theorem savekv_never_protected i s o s' :
    f_save_key_value E i s = (Ok o, s') ->
    forall a k, prefix_of C.ElrondProtectedKeyPrefix k = true -> cell s' a k = cell s a k.
  Proof.
    intros H a k Hp. apply save_key_value_spec in H as (Hg & _ & _ & Hu & _).
    destruct Hg as (_ & _ & _ & _ & _ & _ & _ & Hall & _).
    apply (ue_cell _ _ _ _ Hu). intros [_ [v Hin]].
    rewrite Forall_forall in Hall. specialize (Hall _ Hin). cbn [fst] in Hall.
    rewrite (key_allowed_prefix _ Hp) in Hall. discriminate.
  Qed.
  Lemma system_balance_effect_save_key_value i s o s' :
    f_save_key_value E i s = (Ok o, s') ->
    forall a k, prefix_of C.ElrondProtectedKeyPrefix k = true -> balance E s' a k = balance E s a k.
  Proof. intros H a k Hp. unfold balance. rewrite (savekv_never_protected _ _ _ _ H a k Hp). reflexivity. Qed.

  (* through the dispatch: the functions that never change a token balance (token keys are P ++ x;
     an NFT key nft_key (P ++ tok) n is of that form too) *)
  Definition balance_neutral_funs : list bytes :=
    [C.BuiltInFunctionESDTFreeze; C.BuiltInFunctionESDTUnFreeze; C.BuiltInFunctionSetESDTRole;
     C.BuiltInFunctionUnSetESDTRole; C.BuiltInFunctionESDTNFTCreateRoleTransfer;
     C.BuiltInFunctionChangeOwnerAddress; C.BuiltInFunctionClaimDeveloperRewards;
     C.BuiltInFunctionSetUserName; C.BuiltInFunctionSaveKeyValue].
  Theorem system_balance_effect f i s o s' :
    exec E f i s = (Ok o, s') -> In f balance_neutral_funs ->
    forall a x, balance E s' a (P ++ x) = balance E s a (P ++ x).
  Proof.
    intros H Hin a x. unfold balance_neutral_funs in Hin. cbn [In] in Hin.
    destruct Hin as [<-|[<-|[<-|[<-|[<-|[<-|[<-|[<-|[<-|[]]]]]]]]]].
    - rewrite exec_freeze in H. eapply system_balance_effect_freeze; eauto.
    - rewrite exec_unfreeze in H. eapply system_balance_effect_freeze; eauto.
    - rewrite exec_set_role in H. eapply system_balance_effect_roles; eauto.
    - rewrite exec_unset_role in H. eapply system_balance_effect_roles; eauto.
    - rewrite exec_role_transfer in H. eapply system_balance_effect_role_transfer; eauto.
    - rewrite exec_change_owner in H. eapply system_balance_effect_change_owner; eauto.
    - rewrite exec_claim in H. eapply system_balance_effect_claim; eauto.
    - rewrite exec_set_user_name in H. eapply system_balance_effect_set_user_name; eauto.
    - rewrite exec_save_key_value in H. eapply system_balance_effect_save_key_value; eauto using P_protected.
  Qed.
  Corollary system_balance_effect_nft f i s o s' :
    exec E f i s = (Ok o, s') -> In f balance_neutral_funs ->
    forall a tok n, balance E s' a (nft_key (P ++ tok) n) = balance E s a (nft_key (P ++ tok) n).
  Proof. intros H Hin a tok n. rewrite nft_key_app. eapply system_balance_effect; eauto. Qed.
  Theorem system_balance_effect_pause_exec f i s o s' :
    exec E f i s = (Ok o, s') -> f = C.BuiltInFunctionESDTPause \/ f = C.BuiltInFunctionESDTUnPause ->
    exists tok, i_args i = [tok]
      /\ forall a k, ~ (a = SYS /\ k = P ++ tok) -> balance E s' a k = balance E s a k.
  Proof.
    intros H [-> | ->]; [rewrite exec_pause in H|rewrite exec_unpause in H];
      apply system_balance_effect_pause in H as (tok & Ha & _ & Hb); eauto.
  Qed.
  Theorem system_balance_effect_wipe_exec i s o s' :
    exec E C.BuiltInFunctionESDTWipe i s = (Ok o, s') ->
    exists tok, i_args i = [tok]
      /\ frozen_at E s (i_rcpt i) (P ++ tok) = true
      /\ balance E s' (i_rcpt i) (P ++ tok) = 0%Z
      /\ forall a k, ~ (a = i_rcpt i /\ k = P ++ tok) -> balance E s' a k = balance E s a k.
  Proof. rewrite exec_wipe. apply system_balance_effect_wipe. Qed.

  (* ---------------- (ii) who may call ---------------- *)
  Lemma freeze_wipe_requires_sc f w i s o s' : f_freeze_wipe E f w i s = (Ok o, s') -> i_caller i = SC.
  Proof.
    destruct w; intros H; [apply wipe_spec in H|apply freeze_spec in H]; destruct H as ((_ & H & _) & _); exact H.
  Qed.
  Lemma pause_requires_sc p i s o s' : f_pause E p i s = (Ok o, s') -> i_caller i = SC.
  Proof. intros H. apply pause_spec in H as ((_ & H & _) & _). exact H. Qed.
  Lemma roles_requires_sc set i s o s' : f_roles E set i s = (Ok o, s') -> i_caller i = SC.
  Proof. intros H. apply roles_spec in H as ((_ & _ & H & _) & _). exact H. Qed.
  Definition system_funs : list bytes :=
    [C.BuiltInFunctionESDTFreeze; C.BuiltInFunctionESDTUnFreeze; C.BuiltInFunctionESDTWipe;
     C.BuiltInFunctionESDTPause; C.BuiltInFunctionESDTUnPause;
     C.BuiltInFunctionSetESDTRole; C.BuiltInFunctionUnSetESDTRole].
  Theorem system_requires_sc f i s o s' :
    exec E f i s = (Ok o, s') -> In f system_funs -> i_caller i = SC /\ i_value i = 0%Z.
  Proof.
    intros H Hin. unfold system_funs in Hin. cbn [In] in Hin.
    destruct Hin as [<-|[<-|[<-|[<-|[<-|[<-|[<-|[]]]]]]]].
    - rewrite exec_freeze in H. apply freeze_spec in H as ((? & ? & _) & _). auto.
    - rewrite exec_unfreeze in H. apply freeze_spec in H as ((? & ? & _) & _). auto.
    - rewrite exec_wipe in H. apply wipe_spec in H as ((? & ? & _) & _). auto.
    - rewrite exec_pause in H. apply pause_spec in H as ((? & ? & _) & _). auto.
    - rewrite exec_unpause in H. apply pause_spec in H as ((? & ? & _) & _). auto.
    - rewrite exec_set_role in H. apply roles_spec in H as ((? & _ & ? & _) & _). auto.
    - rewrite exec_unset_role in H. apply roles_spec in H as ((? & _ & ? & _) & _). auto.
  Qed.
  (* the recipient-side account must be present for freeze/unfreeze/wipe/roles; pause needs a system-account recipient *)
  Theorem system_requires_dst f i s o s' :
    exec E f i s = (Ok o, s') ->
    In f [C.BuiltInFunctionESDTFreeze; C.BuiltInFunctionESDTUnFreeze; C.BuiltInFunctionESDTWipe;
          C.BuiltInFunctionSetESDTRole; C.BuiltInFunctionUnSetESDTRole; C.BuiltInFunctionESDTNFTCreateRoleTransfer] ->
    i_dst i = true.
  Proof.
    intros H Hin. cbn [In] in Hin. destruct Hin as [<-|[<-|[<-|[<-|[<-|[<-|[]]]]]]].
    - rewrite exec_freeze in H. apply freeze_spec in H as ((_ & _ & ?) & _). auto.
    - rewrite exec_unfreeze in H. apply freeze_spec in H as ((_ & _ & ?) & _). auto.
    - rewrite exec_wipe in H. apply wipe_spec in H as ((_ & _ & ?) & _). auto.
    - rewrite exec_set_role in H. apply roles_spec in H as ((_ & _ & _ & ?) & _). auto.
    - rewrite exec_unset_role in H. apply roles_spec in H as ((_ & _ & _ & ?) & _). auto.
    - rewrite exec_role_transfer in H. apply role_transfer_guards in H as (_ & _ & ? & _). auto.
  Qed.
  Theorem pause_requires_sys f i s o s' :
    exec E f i s = (Ok o, s') -> f = C.BuiltInFunctionESDTPause \/ f = C.BuiltInFunctionESDTUnPause ->
    is_sys (i_rcpt i) = true.
  Proof.
    intros H [-> | ->]; [rewrite exec_pause in H|rewrite exec_unpause in H];
      apply pause_spec in H as ((_ & _ & ?) & _); assumption.
  Qed.
  (* role transfer: both branches refuse a call whose sender account is on this shard; the branch is
     selected by the caller (SC: at the current owner; anybody else: the delivered hand-over) *)
  Theorem role_transfer_requires_exec i s o s' :
    exec E C.BuiltInFunctionESDTNFTCreateRoleTransfer i s = (Ok o, s') ->
    i_value i = 0%Z /\ i_snd i = false /\ i_dst i = true.
  Proof. rewrite exec_role_transfer. intros H. apply role_transfer_guards in H as (? & ? & ? & _). auto. Qed.

  Theorem owner_only f i s o s' :
    exec E f i s = (Ok o, s') ->
    f = C.BuiltInFunctionChangeOwnerAddress \/ f = C.BuiltInFunctionClaimDeveloperRewards ->
    i_dst i = true -> i_caller i = a_owner (acct s (i_rcpt i)).
  Proof.
    intros H [-> | ->] Hd.
    - rewrite exec_change_owner in H. apply change_owner_spec in H as (_ & a0 & rest & _ & _ & _ & _ & _ & H & _).
      apply H. exact Hd.
    - rewrite exec_claim in H. apply claim_rewards_spec in H as (_ & _ & H & _). apply H. exact Hd.
  Qed.
  Theorem dns_only i s o s' :
    exec E C.BuiltInFunctionSetUserName i s = (Ok o, s') ->
    In (i_caller i) (dns E)
    /\ (i_dst i = true -> enable_change E = true \/ a_username (acct s (i_rcpt i)) = []).
  Proof.
    rewrite exec_set_user_name. intros H.
    apply set_user_name_spec in H as ((_ & _ & Hd) & a0 & _ & _ & Hdst & _). split; [exact Hd|].
    intros Hx. apply Hdst. exact Hx.
  Qed.

  (* ---------------- (iii) SaveKeyValue ---------------- *)
  Theorem savekv_accepted_only_if i s o s' :
    f_save_key_value E i s = (Ok o, s') ->
    (2 <= alen (i_args i))%N /\ (alen (i_args i) mod 2 = 0)%N
    /\ i_value i = 0%Z /\ i_snd i = true /\ i_caller i = i_rcpt i /\ is_sc (i_caller i) = false
    /\ (forall k v, In (k, v) (pairs_of (i_args i)) ->
          key_allowed k = true /\ prefix_of C.ElrondProtectedKeyPrefix k = false)
    /\ (skv_use (a_store (acct s (i_caller i))) (i_args i) (g_SaveKeyValue G) <= i_gas i)%N.
  Proof.
    intros H. apply save_key_value_spec in H as ((H1 & H2 & _ & H3 & H4 & H5 & H6 & Hall & Hg) & _).
    repeat (split; [assumption|]). split; [|exact Hg].
    intros k v Hin. rewrite Forall_forall in Hall. specialize (Hall _ Hin). cbn [fst] in Hall.
    split; [exact Hall|apply key_allowed_not_protected; exact Hall].
  Qed.
  Theorem savekv_writes_exactly i s o s' :
    f_save_key_value E i s = (Ok o, s') ->
    (forall k, cell s' (i_caller i) k =
               match last_val (pairs_of (i_args i)) k with Some v => v | None => cell s (i_caller i) k end)
    /\ (forall a k, a <> i_caller i -> cell s' a k = cell s a k)
    /\ (forall a, acct_fields_eq (acct s' a) (acct s a))
    /\ (forall k v, last_val (pairs_of (i_args i)) k = Some v -> In (k, v) (pairs_of (i_args i)) /\ key_allowed k = true).
  Proof.
    intros H. pose proof (savekv_accepted_only_if _ _ _ _ H) as (_ & _ & _ & _ & _ & _ & Hk & _).
    apply save_key_value_spec in H as (_ & _ & Hcell & Hu & _).
    split; [exact Hcell|]. split; [|split].
    - intros a k Hne. apply (ue_cell _ _ _ _ Hu). intros [Hx _]. contradiction.
    - intros a. apply (ue_fields _ _ _ _ Hu). tauto.
    - intros k v Hl. apply last_val_In in Hl. split; [exact Hl|]. apply (Hk _ _ Hl).
  Qed.

  (* ---------------- (iv) footprints ---------------- *)
  (* The five system functions write only cells with the protected prefix and no account field;
     the account-level functions write no storage cell at all; SaveKeyValue writes only unprotected
     cells of the caller and no account field. *)
  Lemma ue_protected_only (F : bytes -> bytes -> Prop) (Gf : bytes -> Prop) s s' :
    unchanged_except F Gf s s' ->
    (forall a k, F a k -> prefix_of C.ElrondProtectedKeyPrefix k = true) ->
    forall a k, prefix_of C.ElrondProtectedKeyPrefix k = false -> cell s' a k = cell s a k.
  Proof.
    intros Hu HF a k Hp. apply (ue_cell _ _ _ _ Hu). intros Hx. apply HF in Hx. congruence.
  Qed.
  Theorem system_footprint f i s o s' :
    exec E f i s = (Ok o, s') -> In f (C.BuiltInFunctionESDTNFTCreateRoleTransfer :: system_funs) ->
    (forall a k, prefix_of C.ElrondProtectedKeyPrefix k = false -> cell s' a k = cell s a k)
    /\ (forall a, acct_fields_eq (acct s' a) (acct s a))
    /\ nofault E s s'.
  Proof.
    intros H Hin.
    assert (Hex : exists F, unchanged_except F (fun _ => False) s s'
                            /\ (forall a k, F a k -> prefix_of C.ElrondProtectedKeyPrefix k = true) /\ nofault E s s').
    { unfold system_funs in Hin. cbn [In] in Hin.
      destruct Hin as [<-|[<-|[<-|[<-|[<-|[<-|[<-|[<-|[]]]]]]]]].
      - rewrite exec_role_transfer in H. apply role_transfer_frame in H as (tok & a1 & _ & Hu & Hnf).
        eexists. split; [exact Hu|]. split; [|exact Hnf]. cbv beta. intros a k [_ [-> | ->]]; [apply NP_protected|apply RP_protected].
      - rewrite exec_freeze in H. apply freeze_spec in H as (_ & tok & t & _ & _ & _ & _ & _ & _ & _ & _ & Hu & Hnf).
        eexists. split; [exact Hu|]. split; [|exact Hnf]. cbv beta. intros a k [_ ->]. apply P_protected.
      - rewrite exec_unfreeze in H. apply freeze_spec in H as (_ & tok & t & _ & _ & _ & _ & _ & _ & _ & _ & Hu & Hnf).
        eexists. split; [exact Hu|]. split; [|exact Hnf]. cbv beta. intros a k [_ ->]. apply P_protected.
      - rewrite exec_wipe in H. apply wipe_spec in H as (_ & tok & t & _ & _ & _ & _ & _ & _ & _ & _ & _ & Hu & Hnf).
        eexists. split; [exact Hu|]. split; [|exact Hnf]. cbv beta. intros a k [_ ->]. apply P_protected.
      - rewrite exec_pause in H. apply pause_spec in H as (_ & tok & _ & _ & _ & _ & _ & Hu & Hnf & _).
        eexists. split; [exact Hu|]. split; [|exact Hnf]. cbv beta. intros a k [_ ->]. apply P_protected.
      - rewrite exec_unpause in H. apply pause_spec in H as (_ & tok & _ & _ & _ & _ & _ & Hu & Hnf & _).
        eexists. split; [exact Hu|]. split; [|exact Hnf]. cbv beta. intros a k [_ ->]. apply P_protected.
      - rewrite exec_set_role in H. apply roles_spec in H as (_ & tok & rs & _ & _ & _ & _ & Hu & Hnf).
        eexists. split; [exact Hu|]. split; [|exact Hnf]. cbv beta. intros a k [_ ->]. apply RP_protected.
      - rewrite exec_unset_role in H. apply roles_spec in H as (_ & tok & rs & _ & _ & _ & _ & Hu & Hnf).
        eexists. split; [exact Hu|]. split; [|exact Hnf]. cbv beta. intros a k [_ ->]. apply RP_protected. }
    destruct Hex as (F & Hu & HF & Hnf).
    split; [eapply ue_protected_only; eauto|]. split; [|exact Hnf].
    intros a. apply (ue_fields _ _ _ _ Hu). tauto.
  Qed.
  Theorem account_footprint f i s o s' :
    exec E f i s = (Ok o, s') ->
    In f [C.BuiltInFunctionChangeOwnerAddress; C.BuiltInFunctionClaimDeveloperRewards; C.BuiltInFunctionSetUserName] ->
    (forall a k, cell s' a k = cell s a k)
    /\ (forall a, a <> i_rcpt i -> a <> i_caller i -> acct_fields_eq (acct s' a) (acct s a))
    /\ (i_dst i = false -> same_world s s')
    /\ nofault E s s'.
  Proof.
    intros H Hin. cbn [In] in Hin. destruct Hin as [<-|[<-|[<-|[]]]].
    - rewrite exec_change_owner in H.
      apply change_owner_spec in H as (_ & a0 & rest & _ & _ & _ & _ & Hnd & _ & Hcell & Hu & Hnf).
      split; [exact Hcell|]. split; [|split; [|exact Hnf]].
      + intros a Hn _. apply (ue_fields _ _ _ _ Hu). tauto.
      + intros Hd. rewrite (Hnd Hd). apply same_world_refl.
    - rewrite exec_claim in H. apply claim_rewards_spec in H as (_ & Hnd & _ & Hcell & Hu & Hnf).
      split; [exact Hcell|]. split; [|split; [|exact Hnf]].
      + intros a Hn1 Hn2. apply (ue_fields _ _ _ _ Hu). tauto.
      + intros Hd. destruct (Hnd Hd) as [-> _]. apply same_world_refl.
    - rewrite exec_set_user_name in H.
      apply set_user_name_spec in H as (_ & a0 & _ & Hnd & _ & Hcell & Hu & Hnf).
      split; [exact Hcell|]. split; [|split; [|exact Hnf]].
      + intros a Hn _. apply (ue_fields _ _ _ _ Hu). tauto.
      + intros Hd. destruct (Hnd Hd) as [-> _]. apply same_world_refl.
  Qed.
  Theorem savekv_footprint i s o s' :
    exec E C.BuiltInFunctionSaveKeyValue i s = (Ok o, s') ->
    (forall a k, a <> i_caller i \/ prefix_of C.ElrondProtectedKeyPrefix k = true -> cell s' a k = cell s a k)
    /\ (forall a, acct_fields_eq (acct s' a) (acct s a))
    /\ nofault E s s'.
  Proof.
    rewrite exec_save_key_value. intros H.
    pose proof (savekv_never_protected _ _ _ _ H) as Hp.
    pose proof (savekv_writes_exactly _ _ _ _ H) as (_ & Hoth & Hf & _).
    apply save_key_value_spec in H as (_ & _ & _ & _ & _ & Hnf).
    split; [|split; [exact Hf|exact Hnf]]. intros a k [Hne|Hk]; [apply Hoth; exact Hne|apply Hp; exact Hk].
  Qed.
  (* the only function among these that changes an [a_owner] is ChangeOwnerAddress; the only one that changes
     an [a_username] is SetUserName *)
  Theorem owner_username_stable f i s o s' :
    exec E f i s = (Ok o, s') ->
    In f (C.BuiltInFunctionSaveKeyValue :: C.BuiltInFunctionClaimDeveloperRewards ::
          C.BuiltInFunctionESDTNFTCreateRoleTransfer :: system_funs) ->
    forall a, a_owner (acct s' a) = a_owner (acct s a) /\ a_username (acct s' a) = a_username (acct s a).
  Proof.
    intros H Hin a. cbn [In] in Hin. destruct Hin as [<-|[<-|Hin]].
    - apply savekv_footprint in H as (_ & Hf & _). destruct (Hf a) as (_ & ? & ? & _). auto.
    - rewrite exec_claim in H. apply claim_rewards_spec in H as (_ & Hnd & Hd & _).
      destruct (i_dst i) eqn:Ed.
      + destruct (Hd eq_refl) as (_ & _ & _ & Hacct & _). rewrite Hacct.
        destruct (i_snd i && beqb a (i_caller i))%bool; destruct (beqb a (i_rcpt i)); split; reflexivity.
      + destruct (Hnd eq_refl) as [-> _]. auto.
    - apply system_footprint in H as (_ & Hf & _); [|exact Hin]. destruct (Hf a) as (_ & ? & ? & _). auto.
  Qed.
End Spec.

Print Assumptions pause_spec.
Print Assumptions freeze_spec.
Print Assumptions wipe_spec.
Print Assumptions roles_spec.
Print Assumptions role_transfer_owner_spec.
Print Assumptions role_transfer_delivered_spec.
Print Assumptions change_owner_spec.
Print Assumptions claim_rewards_spec.
Print Assumptions set_user_name_spec.
Print Assumptions skv_loop_spec.
Print Assumptions save_key_value_spec.
Print Assumptions system_balance_effect.
Print Assumptions system_balance_effect_pause_exec.
Print Assumptions system_balance_effect_wipe_exec.
Print Assumptions system_requires_sc.
Print Assumptions owner_only.
Print Assumptions dns_only.
Print Assumptions savekv_never_protected.
Print Assumptions savekv_accepted_only_if.
Print Assumptions savekv_writes_exactly.
Print Assumptions system_footprint.
Print Assumptions account_footprint.
Print Assumptions savekv_footprint.
Print Assumptions owner_username_stable.
