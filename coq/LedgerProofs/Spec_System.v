(* Function specifications ("characterising lemmas") of the system-contract and account-level
   built-ins of Ledger/Funcs.v:
     f_freeze_wipe (freeze / unfreeze / wipe), f_pause (pause / unpause), f_roles (set / unset),
     f_create_role_transfer (at the current owner, same-shard and cross-shard; delivered hand-over),
     f_change_owner, f_claim_rewards, f_set_user_name (origin / destination), f_save_key_value (+ skv_loop).
   Shape of every spec:   f E i s = (Ok o, s') -> guards /\ effects /\ frame /\ nofault
   where the frame is [unchanged_except F G s s'] with the exact footprint.
   Corollaries for the property files are at the end (system_balance_effect_*, system_requires_sc, owner_only,
   dns_only, savekv_*, footprints, and the lifting through [exec]). *)
From EV Require Import Base.Bytes Base.Store Base.Monad gen.Consts Codec.Types Helpers.Helpers
  Ledger.Types Ledger.Env Ledger.Funcs Ledger.Transfers LedgerProofs.Defs LedgerProofs.EnvSpec.

Arguments skv_loop : simpl never.
Arguments msg_data : simpl never.
Arguments log_esdt : simpl never.
Arguments compute_gas_remaining : simpl never.

(* ================================================================== *)
(* 0. Small tools                                                      *)
(* ================================================================== *)
Lemma alen_0 l : alen l = 0%N -> l = [].
Proof. destruct l; [reflexivity|]. unfold alen. simpl. lia. Qed.
Lemma alen_1 l : alen l = 1%N -> exists x, l = [x].
Proof. destruct l as [|x [|y r]]; unfold alen; simpl; try lia. eauto. Qed.
Lemma alen_2 l : alen l = 2%N -> exists x y, l = [x; y].
Proof. destruct l as [|x [|y [|z r]]]; unfold alen; simpl; try lia. eauto. Qed.
Lemma alen_cons x l : alen (x :: l) = (1 + alen l)%N.
Proof. unfold alen. simpl length. lia. Qed.
Lemma alen_pos l : (0 < alen l)%N -> exists x r, l = x :: r.
Proof. destruct l; unfold alen; simpl; [lia|eauto]. Qed.

Lemma paused_val_flag_bytes f : paused_val (flag_bytes f) = f.
Proof. destruct f; vm_compute; reflexivity. Qed.
Lemma MinLen_val : C.MinLenArgumentsESDTTransfer = 2%N. Proof. reflexivity. Qed.

Lemma key_allowed_not_protected k : key_allowed k = true -> prefix_of C.ElrondProtectedKeyPrefix k = false.
Proof.
  intros H. destruct (prefix_of C.ElrondProtectedKeyPrefix k) eqn:Ep; [|reflexivity].
  rewrite (key_allowed_prefix _ Ep) in H. discriminate.
Qed.

(* account field updates used in the account-level specs *)
Definition with_owner (x : account) (o : bytes) : account :=
  {| a_store := a_store x; a_balance := a_balance x; a_owner := o; a_username := a_username x; a_devreward := a_devreward x |}.
Definition with_username (x : account) (u : bytes) : account :=
  {| a_store := a_store x; a_balance := a_balance x; a_owner := a_owner x; a_username := u; a_devreward := a_devreward x |}.
Definition with_devreward (x : account) (r : Z) : account :=
  {| a_store := a_store x; a_balance := a_balance x; a_owner := a_owner x; a_username := a_username x; a_devreward := r |}.
Definition with_balance (x : account) (b : Z) : account :=
  {| a_store := a_store x; a_balance := b; a_owner := a_owner x; a_username := a_username x; a_devreward := a_devreward x |}.

Section Tools.
  Variable E : env.
  Lemma wr_ue (F : bytes -> bytes -> Prop) (G : bytes -> Prop) a k v s s' :
    wr E a k v s s' -> F a k -> unchanged_except F G s s'.
  Proof.
    intros H HF. eapply unchanged_except_weaken; [| |apply (wr_unchanged _ _ _ _ _ _ H)].
    - intros a' k' [-> ->]. exact HF.
    - intros a' [].
  Qed.
  Lemma rd_ue (F : bytes -> bytes -> Prop) (G : bytes -> Prop) s s' : rd E s s' -> unchanged_except F G s s'.
  Proof. apply rd_unchanged. Qed.
  Lemma upd_ue (F : bytes -> bytes -> Prop) (G : bytes -> Prop) a f s u s' :
    upd_acct a f s = (Ok u, s') -> (forall x, a_store (f x) = a_store x) -> G a -> unchanged_except F G s s'.
  Proof.
    intros H Hf HG. eapply unchanged_except_weaken; [| |apply (upd_acct_unchanged _ _ _ _ _ H Hf)].
    - intros a' k' [].
    - intros a' ->. exact HG.
  Qed.
End Tools.

(* chains of rd / wr steps: frame and nofault *)
Ltac ue_chain :=
  lazymatch goal with
  | |- unchanged_except _ _ ?s ?s => apply unchanged_except_refl
  | |- unchanged_except ?F ?G ?s ?s' =>
    match goal with
    | H : rd _ s s' |- _ => apply (rd_ue _ F G _ _ H)
    | H : wr _ _ _ _ s s' |- _ => apply (wr_ue _ F G _ _ _ _ _ H); cbv beta; auto
    | H : rd _ s ?s1 |- _ =>
        apply (unchanged_except_trans F G s s1 s'); [apply (rd_ue _ F G _ _ H)|clear H; ue_chain]
    | H : wr _ _ _ _ s ?s1 |- _ =>
        apply (unchanged_except_trans F G s s1 s');
        [apply (wr_ue _ F G _ _ _ _ _ H); cbv beta; auto|clear H; ue_chain]
    end
  end.
Ltac nf_chain :=
  lazymatch goal with
  | |- nofault _ ?s ?s => apply nofault_refl
  | |- nofault ?E ?s ?s' =>
    match goal with
    | H : nofault _ s s' |- _ => exact H
    | H : rd _ s s' |- _ => exact (rd_nofault _ _ _ H)
    | H : wr _ _ _ _ s s' |- _ => exact (wr_nofault _ _ _ _ _ _ H)
    | H : rd _ s ?s1 |- _ =>
        apply (nofault_trans E s s1 s'); [exact (rd_nofault _ _ _ H)|clear H; nf_chain]
    | H : wr _ _ _ _ s ?s1 |- _ =>
        apply (nofault_trans E s s1 s'); [exact (wr_nofault _ _ _ _ _ _ H)|clear H; nf_chain]
    | H : nofault _ s ?s1 |- _ =>
        apply (nofault_trans E s s1 s'); [exact H|clear H; nf_chain]
    end
  end.

Section Spec.
  Variable E : env.
  Hypothesis Hc : codec_ok (cdc E).
  Notation G := (gas E).

  (* ================================================================== *)
  (* 1. check_system_one_arg                                             *)
  (* ================================================================== *)
  Lemma check_system_one_arg_ok i s u s' : check_system_one_arg i s = (Ok u, s') ->
    i_value i = 0%Z /\ (exists tok, i_args i = [tok]) /\ i_caller i = SC /\ s' = s.
  Proof.
    unfold check_system_one_arg. intros H. minv.
    repeat match goal with
           | H : (_ =? _)%Z = true |- _ => apply Z.eqb_eq in H
           | H : (_ =? _)%N = true |- _ => apply N.eqb_eq in H
           | H : beqb _ _ = true |- _ => apply beqb_true in H
           end.
    repeat split; auto. apply alen_1. assumption.
  Qed.

  (* ================================================================== *)
  (* 2. ESDTPause / ESDTUnPause                                          *)
  (* ================================================================== *)
  (* F8: the flag is written under P ++ tok in the SYS account; if SYS itself held a balance entry
     there, it is overwritten: its balance becomes [bal_of_bytes E (flag_bytes p)] (whatever the codec
     makes of the two flag bytes). *)
  Lemma pause_spec p i s o s' :
    f_pause E p i s = (Ok o, s') ->
    (i_value i = 0%Z /\ i_caller i = SC /\ is_sys (i_rcpt i) = true)
    /\ exists tok, i_args i = [tok]
       /\ o = mk_out rcOk 0
       /\ cell s' SYS (P ++ tok) = flag_bytes p
       /\ paused_at s' (P ++ tok) = p
       /\ balance E s' SYS (P ++ tok) = bal_of_bytes E (flag_bytes p)
       /\ unchanged_except (fun a k => a = SYS /\ k = P ++ tok) (fun _ => False) s s'
       /\ nofault E s s'
       /\ calls s' = (calls s + 3)%nat.
  Proof.
    unfold f_pause. intros H.
    apply bind_ok in H as (u0 & s0 & H0 & H). apply check_system_one_arg_ok in H0 as (Hv & (tok & Ha) & Hcl & ->).
    apply bind_ok in H as (u1 & s1 & H1 & H). apply guard_ok in H1 as [Hsys ->].
    rewrite Ha in H. apply bind_ok in H as (tok' & s1 & H1 & H). apply arg_ok in H1 as (Hn & _ & ->).
    simpl in Hn. inversion Hn; subst tok'. clear Hn.
    apply bind_ok in H as (u2 & s2 & H2 & H). apply bind_ok in H as (u3 & s3 & H3 & H).
    apply bind_ok in H as (u4 & s4 & H4 & H). apply ret_ok in H as [-> ->].
    assert (Hcalls : calls s4 = (calls s + 3)%nat).
    { apply dep_ok in H2 as (_ & _ & C2 & _). apply save_kv_calls in H3 as (_ & C3).
      apply dep_ok in H4 as (_ & _ & C4 & _). lia. }
    apply load_account_ok in H2. apply save_kv_ok in H3. apply save_account_ok in H4.
    assert (Hw : wr E SYS (P ++ tok) (flag_bytes p) s s4) by (eapply wr_rd; [eapply rd_wr|]; eauto).
    split; [auto|]. exists tok. split; [exact Ha|]. split; [reflexivity|].
    split; [apply (wr_cell_eq _ _ _ _ _ _ Hw)|].
    split; [rewrite (wr_paused_at_eq _ _ _ _ _ Hw); apply paused_val_flag_bytes|].
    split; [apply (wr_balance_eq _ _ _ _ _ _ Hw)|].
    split; [apply (wr_unchanged _ _ _ _ _ _ Hw)|]. split; [apply (wr_nofault _ _ _ _ _ _ Hw)|exact Hcalls].
  Qed.

  (* ================================================================== *)
  (* 3. ESDTFreeze / ESDTUnFreeze / ESDTWipe                              *)
  (* ================================================================== *)
  (* freeze (f = true) and unfreeze (f = false).  [t] is the entry as read (absent = default_tok).
     The entry afterwards is the old one with props := flag_bytes f, except that an entry of value 0
     whose flag is cleared is deleted (save_esdt_data).  Freezing an absent entry creates a
     zero-value frozen entry. *)
  Lemma freeze_spec f i s o s' :
    f_freeze_wipe E f false i s = (Ok o, s') ->
    (i_value i = 0%Z /\ i_caller i = SC /\ i_dst i = true)
    /\ exists tok t, i_args i = [tok]
       /\ o = mk_out rcOk 0
       /\ tok_or_default E s (i_rcpt i) (P ++ tok) = Some t /\ wf_token t /\ t_value t <> None
       /\ tok_at E s' (i_rcpt i) (P ++ tok) =
          (if ((balance E s (i_rcpt i) (P ++ tok) =? 0)%Z && negb f)%bool then None
           else Some (set_props t (flag_bytes f)))
       /\ balance E s' (i_rcpt i) (P ++ tok) = balance E s (i_rcpt i) (P ++ tok)
       /\ frozen_at E s' (i_rcpt i) (P ++ tok) = f
       /\ unchanged_except (fun a k => a = i_rcpt i /\ k = P ++ tok) (fun _ => False) s s'
       /\ nofault E s s'.
  Proof.
    unfold f_freeze_wipe. intros H.
    apply bind_ok in H as (u0 & s0 & H0 & H). apply check_system_one_arg_ok in H0 as (Hv & (tok & Ha) & Hcl & ->).
    apply bind_ok in H as (u1 & s1 & H1 & H). apply guard_ok in H1 as [Hdst ->].
    rewrite Ha in H. apply bind_ok in H as (tok' & s1 & H1 & H). apply arg_ok in H1 as (Hn & _ & ->).
    simpl in Hn. inversion Hn; subst tok'. clear Hn. cbv zeta in H.
    apply bind_ok in H as (t & s1 & H1 & H). apply (get_esdt_data_ok E Hc) in H1 as (Hr & Ht & Hwf).
    apply bind_ok in H as (u2 & s2 & H2 & H). apply ret_ok in H as [-> ->].
    apply save_esdt_data_ok in H2 as (v & Hval & Hw). cbn [set_props t_value t_props] in Hval, Hw.
    rewrite all_zero_flag_bytes in Hw.
    assert (Hw' := rd_wr _ _ _ _ _ _ _ Hr Hw). clear Hw Hr. rename Hw' into Hw.
    assert (Hb : balance E s (i_rcpt i) (P ++ tok) = v)
      by (rewrite (balance_tod _ _ _ _ _ Ht); unfold val_or_0; rewrite Hval; reflexivity).
    assert (Hta : tok_at E s' (i_rcpt i) (P ++ tok) =
                  (if ((v =? 0)%Z && negb f)%bool then None else Some (set_props t (flag_bytes f)))).
    { destruct ((v =? 0)%Z && negb f)%bool.
      - eapply wr_tok_at_nil; eauto.
      - eapply wr_tok_at_enc; eauto. }
    split; [auto|]. exists tok, t. split; [exact Ha|]. split; [reflexivity|].
    split; [exact Ht|]. split; [exact Hwf|]. split; [congruence|].
    rewrite Hb. split; [exact Hta|]. split; [|split].
    - destruct ((v =? 0)%Z && negb f)%bool eqn:Ez.
      + rewrite (balance_tok_at_none _ _ _ _ Hta). apply andb_prop in Ez. lia.
      + rewrite (balance_tok_at _ _ _ _ _ Hta). unfold val_or_0. cbn [set_props t_value]. rewrite Hval. reflexivity.
    - unfold frozen_at. rewrite Hta. destruct ((v =? 0)%Z && negb f)%bool eqn:Ez.
      + apply andb_prop in Ez as [_ Ez]. destruct f; [discriminate|reflexivity].
      + cbn [set_props t_props]. apply frozen_props_flag_bytes.
    - split; [apply (wr_unchanged _ _ _ _ _ _ Hw)|apply (wr_nofault _ _ _ _ _ _ Hw)].
  Qed.

  (* wipe: the entry must exist and be frozen; the cell is cleared *)
  Lemma wipe_spec f i s o s' :
    f_freeze_wipe E f true i s = (Ok o, s') ->
    (i_value i = 0%Z /\ i_caller i = SC /\ i_dst i = true)
    /\ exists tok t, i_args i = [tok]
       /\ o = add_log (mk_out rcOk 0) (log_esdt C.BuiltInFunctionESDTWipe tok 0 (i_caller i) [i_rcpt i])
       /\ tok_at E s (i_rcpt i) (P ++ tok) = Some t /\ frozen_props (t_props t) = true
       /\ frozen_at E s (i_rcpt i) (P ++ tok) = true
       /\ cell s' (i_rcpt i) (P ++ tok) = []
       /\ tok_at E s' (i_rcpt i) (P ++ tok) = None
       /\ balance E s' (i_rcpt i) (P ++ tok) = 0%Z
       /\ frozen_at E s' (i_rcpt i) (P ++ tok) = false
       /\ unchanged_except (fun a k => a = i_rcpt i /\ k = P ++ tok) (fun _ => False) s s'
       /\ nofault E s s'.
  Proof.
    unfold f_freeze_wipe. intros H.
    apply bind_ok in H as (u0 & s0 & H0 & H). apply check_system_one_arg_ok in H0 as (Hv & (tok & Ha) & Hcl & ->).
    apply bind_ok in H as (u1 & s1 & H1 & H). apply guard_ok in H1 as [Hdst ->].
    rewrite Ha in H. apply bind_ok in H as (tok' & s1 & H1 & H). apply arg_ok in H1 as (Hn & _ & ->).
    simpl in Hn. inversion Hn; subst tok'. clear Hn. cbv zeta in H.
    apply bind_ok in H as (t & s1 & H1 & H). apply (get_esdt_data_ok E Hc) in H1 as (Hr & Ht & Hwf).
    apply bind_ok in H as (u2 & s2 & H2 & H). apply guard_ok in H2 as [Hfr ->].
    apply bind_ok in H as (u3 & s3 & H3 & H). apply ret_ok in H as [-> ->].
    apply save_kv_ok in H3. assert (Hw := rd_wr _ _ _ _ _ _ _ Hr H3). clear H3 Hr.
    assert (Hta : tok_at E s (i_rcpt i) (P ++ tok) = Some t).
    { destruct (tod_cases _ _ _ _ _ Ht) as [(_ & -> & _)|(_ & Hx)]; [discriminate Hfr|exact Hx]. }
    split; [auto|]. exists tok, t. split; [exact Ha|]. split; [reflexivity|].
    split; [exact Hta|]. split; [exact Hfr|].
    split; [unfold frozen_at; rewrite Hta; exact Hfr|].
    split; [apply (wr_cell_eq _ _ _ _ _ _ Hw)|].
    pose proof (wr_tok_at_nil _ _ _ _ _ Hw) as Hn.
    split; [exact Hn|]. split; [apply (wr_balance_nil _ _ _ _ _ Hw)|].
    split; [unfold frozen_at; rewrite Hn; reflexivity|].
    split; [apply (wr_unchanged _ _ _ _ _ _ Hw)|apply (wr_nofault _ _ _ _ _ _ Hw)].
  Qed.

  (* ================================================================== *)
  (* 4. ESDTSetRole / ESDTUnSetRole                                       *)
  (* ================================================================== *)
  Lemma roles_spec set i s o s' :
    f_roles E set i s = (Ok o, s') ->
    (i_value i = 0%Z /\ (2 <= alen (i_args i))%N /\ i_caller i = SC /\ i_dst i = true)
    /\ exists tok rs, i_args i = tok :: rs
       /\ o = mk_out rcOk 0
       /\ (cell s (i_rcpt i) (RP ++ tok) = [] \/ dec_rol (cdc E) (cell s (i_rcpt i) (RP ++ tok)) <> None)
       /\ roles_at E s' (i_rcpt i) tok =
          (if set then roles_at E s (i_rcpt i) tok ++ rs else delete_roles (roles_at E s (i_rcpt i) tok) rs)
       /\ unchanged_except (fun a k => a = i_rcpt i /\ k = RP ++ tok) (fun _ => False) s s'
       /\ nofault E s s'.
  Proof.
    unfold f_roles. intros H.
    apply bind_ok in H as (u0 & s0 & H0 & H). apply check_basic_ok in H0 as (Hv & Hlen & ->).
    apply bind_ok in H as (u1 & s1 & H1 & H). apply guard_ok in H1 as [Hcl ->]. apply beqb_true in Hcl.
    apply bind_ok in H as (u2 & s2 & H2 & H). apply guard_ok in H2 as [Hdst ->].
    rewrite MinLen_val in Hlen.
    destruct (i_args i) as [|tok rs] eqn:Ha; [unfold alen in Hlen; simpl in Hlen; lia|].
    apply bind_ok in H as (tok' & s1 & H1 & H). apply arg_ok in H1 as (Hn & _ & ->).
    simpl in Hn. inversion Hn; subst tok'. clear Hn. cbv zeta in H.
    apply bind_ok in H as ([r isNew] & s1 & H1 & H).
    pose proof (get_roles_ok _ _ _ _ _ _ _ H1) as [_ Hcase].
    apply get_roles_roles_at in H1 as [-> Hr].
    apply bind_ok in H as (rs' & s2 & H2 & H). apply args_from_ok in H2 as (_ & -> & ->).
    change (skipn (N.to_nat 1) (tok :: rs)) with rs in H.
    apply bind_ok in H as (u3 & s3 & H3 & H). apply ret_ok in H as [-> ->].
    apply save_roles_ok in H3. assert (Hw := rd_wr _ _ _ _ _ _ _ Hr H3). clear H3 Hr.
    split; [auto|]. exists tok, rs. split; [reflexivity|]. split; [reflexivity|]. split.
    { destruct isNew; [left; tauto|right]. destruct Hcase as [_ ->]. discriminate. }
    split; [apply (wr_roles_at_eq E Hc _ _ _ _ _ Hw)|].
    split; [apply (wr_unchanged _ _ _ _ _ _ Hw)|apply (wr_nofault _ _ _ _ _ _ Hw)].
  Qed.
End Spec.
