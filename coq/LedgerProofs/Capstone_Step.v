(* Capstone, part 2: one honest operation preserves the joint invariant, and the total of every protocol key moves by
   exactly the stated supply change -- [honest_step].  The work is to show that [honest_op] implies each development's
   own operation predicate at the current world, given the joint invariant:
     NoPanicWorld.tx_op         [honest_tx_op]        no invariant needed;
     C15_World.reachable_op     [c15_step]            (user ESDTSetRole: a SUCCESSFUL one has caller = SC);
     ValidIds  (call_ids, Hd)   [vinv_step]           new: deliveries / refunds of NON-transfer messages;
     Supply_Step.ok_op          [honest_ok_op]        F4b derived from VInv + valid identifiers, for a step that succeeds;
     C02_World                  unconditional.
   Where the predicates conflict -- the pause broadcast -- see [wstep_pause_dst]. *)
From Coq.Strings Require Import String.
From Coq Require Import Lia List.
From EV Require Import Base.Bytes Base.Store Base.Monad gen.Consts Codec.Types Helpers.Helpers
  Ledger.Types Ledger.Env Ledger.Funcs Ledger.Transfers Ledger.World
  LedgerProofs.Defs LedgerProofs.EnvSpec LedgerProofs.WorldDefs LedgerProofs.WorldSpec
  LedgerProofs.Spec_Transfers_Base LedgerProofs.Spec_Transfers_Esdt LedgerProofs.Spec_Transfers_Nft
  LedgerProofs.Spec_Transfers_Multi LedgerProofs.Spec_Transfers LedgerProofs.Spec_Supply LedgerProofs.Spec_System
  LedgerProofs.C01_World LedgerProofs.C01_Step LedgerProofs.C01_Consistent
  LedgerProofs.C02_Effects LedgerProofs.C02_NonNeg LedgerProofs.C02_World
  LedgerProofs.C05_Footprint LedgerProofs.C07_Exec LedgerProofs.C07_Emit
  LedgerProofs.C15_Inv LedgerProofs.C15_Transfers LedgerProofs.C15_World
  LedgerProofs.NoPanic LedgerProofs.NoPanicWorldEmit LedgerProofs.NoPanicWorld
  LedgerProofs.Supply_Base LedgerProofs.Supply_Calls LedgerProofs.Supply_Step
  LedgerProofs.ValidIds_Id LedgerProofs.ValidIds_Inv LedgerProofs.ValidIds_Exec LedgerProofs.ValidIds_World
  LedgerProofs.Capstone_Defs.
Import ListNotations.

(* ================================================================ *)
(* small facts about names                                            *)
(* ================================================================ *)
Lemma pause_dec fn : is_pause_fn fn \/ ~ is_pause_fn fn.
Proof.
  unfold is_pause_fn. destruct (beqb_spec fn FPause); [tauto|]. destruct (beqb_spec fn FUnPause); tauto.
Qed.
Lemma silent_dec fn : In fn silent_fns \/ ~ In fn silent_fns.
Proof.
  destruct (bytes_in fn silent_fns) eqn:E; [left; apply bytes_in_true; exact E|right].
  intros H. apply bytes_in_true in H. congruence.
Qed.
Lemma sys_fn_transfer fn : In fn sys_fns -> is_transfer_fn fn = true -> fn = FEsdt.
Proof.
  unfold sys_fns. cbn [In]. intros [<-|[<-|[<-|[<-|[<-|[<-|[<-|[<-|[<-|[]]]]]]]]]] H; try discriminate H. reflexivity.
Qed.
Lemma sys_fn_not_nft fn : In fn sys_fns -> fn <> FNft /\ fn <> FMulti /\ fn <> FCreate /\ ~ lookup_fn fn.
Proof.
  unfold sys_fns, lookup_fn. cbn [In].
  intros [<-|[<-|[<-|[<-|[<-|[<-|[<-|[<-|[<-|[]]]]]]]]]];
    (split; [discriminate|split; [discriminate|split; [discriminate|intros [H|[H|[H|H]]]; discriminate H]]]).
Qed.
Lemma pause_fn_facts fn : is_pause_fn fn ->
  is_transfer_fn fn = false /\ fn <> FSetRole /\ fn <> FNft /\ fn <> FMulti /\ In fn silent_fns.
Proof.
  intros [-> | ->]; (split; [reflexivity|split; [discriminate|split; [discriminate|split; [discriminate|]]]]);
    unfold silent_fns; cbn [In]; tauto.
Qed.
Lemma silent_not_transfer fn : In fn silent_fns -> is_transfer_fn fn = false /\ travels fn = false.
Proof.
  unfold silent_fns. cbn [In]. intros [<-|[<-|[<-|[<-|[<-|[<-|[<-|[<-|[]]]]]]]]]; split; reflexivity.
Qed.
Lemma msg_fn_ok_facts f : msg_fn_ok f -> ~ lookup_fn f /\ f <> FCreate /\ ~ is_pause_fn f /\ f <> FUnSetRole.
Proof.
  unfold msg_fn_ok, silent_fns, lookup_fn, is_pause_fn. cbn [In]. intros H.
  split; [intros [->|[->|[-> | ->]]]; apply H; tauto|].
  split; [intros ->; apply H; tauto|]. split; [intros [->| ->]; apply H; tauto|intros ->; apply H; tauto].
Qed.

(* the named identifiers of every function but the multi-transfer depend on the arguments only *)
Lemma named_tokens_args fn (i i' : input) : fn <> FMulti -> i_args i' = i_args i -> named_tokens fn i' = named_tokens fn i.
Proof.
  intros Hne Ha. unfold named_tokens. destruct (classify fn) as [b|] eqn:Ec; [|reflexivity].
  destruct b; cbn [named_tokens_b]; try reflexivity; try (unfold argn; rewrite Ha; reflexivity).
  exfalso. apply Hne. apply classify_some in Ec. exact Ec.
Qed.
Lemma call_ids_args fn (i i' : input) : fn <> FMulti -> i_args i' = i_args i -> call_ids fn i -> call_ids fn i'.
Proof. intros Hne Ha H. unfold call_ids. rewrite (named_tokens_args fn i i' Hne Ha). exact H. Qed.
Lemma call_ids_arg0' fn i b : call_ids fn i -> classify fn = Some b -> named_tokens_b b i = [argn i 0] -> valid_id (argn i 0).
Proof. intros H Hcl Hn. unfold call_ids, named_tokens in H. rewrite Hcl, Hn in H. inversion H; assumption. Qed.
Lemma lookup_fn_arg0 fn i : lookup_fn fn -> call_ids fn i -> valid_id (argn i 0).
Proof. intros [-> | [-> | [-> | ->]]] H; (eapply call_ids_arg0'; [exact H|reflexivity|reflexivity]). Qed.

(* an input with other parties: used to instantiate [args_ids] *)
Definition with_parties (i : input) (a b : bytes) : input :=
  {| i_caller := a; i_rcpt := b; i_args := i_args i; i_value := i_value i; i_gas := i_gas i;
     i_gasLocked := i_gasLocked i; i_callType := i_callType i; i_rae := i_rae i; i_snd := i_snd i; i_dst := i_dst i |}.
(* the identifiers of a message, read by the input that delivers it *)
Lemma msg_call_ids F A (i : input) : args_ids F A -> i_args i = A ->
  (F = FMulti -> i_caller i <> i_rcpt i) -> call_ids F i.
Proof.
  intros Hm Ha Hne. destruct (beqb_spec F FMulti) as [He|Hn].
  - apply Hm; [exact Ha|apply Hne; exact He].
  - apply (call_ids_args F (with_parties i [x00] []) i Hn); [reflexivity|].
    apply Hm; [exact Ha|]. cbn [with_parties i_caller i_rcpt]. discriminate.
Qed.

(* ================================================================ *)
(* the pause broadcast                                                *)
(* ================================================================ *)
(* ESDTPause / ESDTUnPause are addressed to the system account, whose account object is present on EVERY shard
   (harness/scen.go: Dst = true on every shard), while [wc_shard_of c SYS] is one shard.  NoPanicWorld.sys_call asks
   i_dst = true; C15_World.reachable_op and ValidIds_World.VInv_call_step ask  i_dst = true -> shard_of rcpt = sh
   (their proofs use it to see that transfers addressed to the present recipient stay local).  Both are right about
   what they need, and they conflict for the broadcast on the other shards.  Resolution: f_pause does not read the
   recipient-presence flag and collect does not either, so the step is THE SAME step as the one with the flag cleared,
   to which C15 and ValidIds apply. *)
Definition clear_dst (i : input) : input :=
  {| i_caller := i_caller i; i_rcpt := i_rcpt i; i_args := i_args i; i_value := i_value i; i_gas := i_gas i;
     i_gasLocked := i_gasLocked i; i_callType := i_callType i; i_rae := i_rae i; i_snd := i_snd i; i_dst := false |}.

Section Pause.
  Variable c : wcfg.
  Lemma collect_transfers_clear_dst sh i dest ts : forall id,
    collect_transfers c sh (clear_dst i) id dest ts = collect_transfers c sh i id dest ts.
  Proof.
    induction ts as [|t r IH]; intros id; [reflexivity|]. cbn [collect_transfers].
    change (msg_of_transfer c sh (clear_dst i) id dest t) with (msg_of_transfer c sh i id dest t).
    destruct (msg_of_transfer c sh i id dest t); rewrite IH; reflexivity.
  Qed.
  Lemma collect_accounts_clear_dst sh i oas : forall id,
    collect_accounts c sh (clear_dst i) id oas = collect_accounts c sh i id oas.
  Proof.
    induction oas as [|oa r IH]; intros id; [reflexivity|]. cbn [collect_accounts]. cbv zeta.
    rewrite collect_transfers_clear_dst, IH. reflexivity.
  Qed.
  Lemma collect_clear_dst sh fn i id o : collect c sh fn (clear_dst i) id o = collect c sh fn i id o.
  Proof. unfold collect. rewrite collect_accounts_clear_dst. reflexivity. Qed.

  Theorem wstep_pause_dst w sh fn i : is_pause_fn fn ->
    wstep c w (OCall sh fn i) = wstep c w (OCall sh fn (clear_dst i)).
  Proof.
    intros Hp. cbn [wstep]. destruct (negb (sh <? wc_nshards c)%N); [reflexivity|].
    assert (He : run_on c w sh fn (clear_dst i) = run_on c w sh fn i).
    { unfold run_on. destruct Hp as [->| ->]; rewrite ?exec_pause, ?exec_unpause; reflexivity. }
    rewrite He. destruct (run_on c w sh fn i) as [[o|e|] m']; try reflexivity.
    rewrite collect_clear_dst. reflexivity.
  Qed.
End Pause.

(* ================================================================ *)
(* silent functions emit nothing                                      *)
(* ================================================================ *)
Lemma silent_loc E fn i s o s' : In fn silent_fns -> exec E fn i s = (Ok o, s') -> forall n, loc E n o.
Proof.
  unfold silent_fns. cbn [In]. intros [<-|[<-|[<-|[<-|[<-|[<-|[<-|[<-|[]]]]]]]]] H n.
  - change (exec E FAddQuantity i) with (f_nft_add_quantity E i) in H. eapply c07_f_nft_add_quantity; exact H.
  - change (exec E FNftBurn i) with (f_nft_burn E i) in H. eapply c07_f_nft_burn; exact H.
  - change (exec E FAddURI i) with (f_nft_add_uri E i) in H. eapply c07_f_nft_add_uri; exact H.
  - change (exec E FUpdAttr i) with (f_nft_update_attributes E i) in H. eapply c07_f_nft_update_attributes; exact H.
  - change (exec E FCreate i) with (f_nft_create E i) in H. eapply c07_f_nft_create; exact H.
  - rewrite exec_pause in H. eapply c07_f_pause; exact H.
  - rewrite exec_unpause in H. eapply c07_f_pause; exact H.
  - rewrite exec_unset_role in H. eapply c07_f_roles; exact H.
Qed.

Section Step.
  Variable c : wcfg.
  Hypothesis Hc : codec_ok (wc_cdc c).
  Hypothesis Hf : flag_undec (wc_cdc c).
  Notation shof := (wc_shard_of c).

  Lemma collect_silent sh fn i id o : travels fn = false -> (forall n, loc (env_at c sh) n o) ->
    collect c sh fn i id o = [].
  Proof.
    intros Ht Hl. unfold collect. destruct (collect_accounts c sh i id (o_accounts o)) as [|m0 ms] eqn:Ec.
    - rewrite Ht, Bool.andb_false_r. reflexivity.
    - exfalso. assert (Hin : In m0 (collect_accounts c sh i id (o_accounts o))) by (rewrite Ec; left; reflexivity).
      pose proof (collect_accounts_fn c sh FPause i (o_accounts o) eq_refl (Hl FPause) id m0 Hin) as H1.
      pose proof (collect_accounts_fn c sh FCreate i (o_accounts o) eq_refl (Hl FCreate) id m0 Hin) as H2.
      rewrite H1 in H2. discriminate H2.
  Qed.

  (* the names of the messages one successful execution puts in flight *)
  Lemma collect_names sh fn i id s o s' :
    (is_transfer_fn fn = true -> i_dst i = (shof (i_rcpt i) =? sh)%N) ->
    exec (env_at c sh) fn i s = (Ok o, s') -> Forall (fun m => msg_fn_ok (m_fn m)) (collect c sh fn i id o).
  Proof.
    intros Hd Hx. destruct (silent_dec fn) as [Hs|Hs].
    - rewrite (collect_silent sh fn i id o); [constructor|apply silent_not_transfer; exact Hs|].
      apply (silent_loc (env_at c sh) fn i s o s' Hs Hx).
    - destruct (emit_local_or_cont (env_at c sh) fn i s o s' Hd Hx) as [Hl Hb].
      apply Forall_forall. intros m Hm. rewrite (collect_fn c sh fn i id o Hb Hl m Hm). exact Hs.
  Qed.

  (* ================================================================ *)
  (* honest_op implies NoPanicWorld.tx_op (no invariant needed)         *)
  (* ================================================================ *)
  Lemma honest_tx_op w op : honest_op c w op -> tx_op c op.
  Proof.
    destruct op as [sh fn i|id gas|id gas|id gas]; cbn [honest_op tx_op]; try (intros; exact I).
    intros [Hlen [Hu|Hs]]; (split; [|exact Hlen]).
    - left. apply Hu.
    - right. destruct Hs as (Hin & Hcal & Hsnd & Hdst & _ & Hp & Hnp & _).
      destruct (sys_fn_not_nft fn Hin) as (H1 & H2 & _).
      split; [exact Hcal|]. split; [exact Hsnd|]. split; [exact Hdst|].
      split; [|split; [exact H1|split; [exact H2|]]].
      + destruct (pause_dec fn) as [Hpf|Hnpf]; [rewrite (proj1 (Hp Hpf)); apply SYS_not_SC|apply (Hnp Hnpf)].
      + intros Ht. destruct (pause_dec fn) as [Hpf|Hnpf]; [|apply (Hnp Hnpf)].
        destruct (pause_fn_facts fn Hpf) as (Hx & _). congruence.
  Qed.
  Lemma honest_ops_tx_ops ops : forall w, honest_ops c w ops -> Forall (tx_op c) ops.
  Proof.
    induction ops as [|op r IH]; intros w H; [constructor|]. destruct H as [H1 H2].
    constructor; [apply (honest_tx_op w); exact H1|apply (IH _ H2)].
  Qed.

  (* ================================================================ *)
  (* the recipient-presence flag                                        *)
  (* ================================================================ *)
  Lemma origin_dst sh i : origin_call c sh i -> i_dst i = true -> shof (i_rcpt i) = sh.
  Proof. intros (_ & _ & Hd) H. rewrite H in Hd. symmetry in Hd. apply N.eqb_eq in Hd. exact Hd. Qed.
  Lemma honest_dst_truthful w sh fn i : (user_call c w sh fn i \/ system_call c w sh fn i) ->
    is_transfer_fn fn = true -> i_dst i = (shof (i_rcpt i) =? sh)%N.
  Proof.
    intros [Hu|Hs] Ht.
    - apply Hu.
    - destruct Hs as (Hin & _ & _ & Hdst & _ & _ & Hnp & _).
      assert (Hnpf : ~ is_pause_fn fn) by (intros Hp; destruct (pause_fn_facts fn Hp) as (Hx & _); congruence).
      rewrite Hdst, (proj1 (Hnp Hnpf)), N.eqb_refl. reflexivity.
  Qed.

  (* ================================================================ *)
  (* C15                                                                *)
  (* ================================================================ *)
  Lemma c15_same w w' : shards w' = shards w -> inflight w' = inflight w -> C15_World.WInv c w -> C15_World.WInv c w'.
  Proof.
    intros Hs Hi [Ha Hb]. split.
    - intros sh. rewrite (shard_accts_same w w' sh Hs). apply Ha.
    - intros m Hm. rewrite Hi in Hm. apply Hb. exact Hm.
  Qed.
  Lemma payload_disciplined_plain E fn i : fn <> FNft -> fn <> FMulti -> payload_disciplined E fn i.
  Proof. intros H1 H2 _. split; intros; contradiction. Qed.

  Lemma c15_step w op : C15_World.WInv c w -> honest_op c w op -> C15_World.WInv c (wstep c w op).
  Proof.
    intros HW Hop. destruct op as [sh fn i|id gas|id gas|id gas]; [|apply (Inv_step c Hc Hf); [exact HW|exact I]|destruct Hop
                                                                  |apply (Inv_step c Hc Hf); [exact HW|exact I]].
    destruct Hop as [_ [Hu|Hs]].
    - (* a user transaction: the role discipline is needed for a SUCCESSFUL ESDTSetRole only, whose caller is SC *)
      destruct Hu as (Hor & Hnsc & _ & _).
      pose proof (Supply_Step.wstep_shape c w (OCall sh fn i)) as Hshape. cbn [step_call] in Hshape.
      destruct (sh <? wc_nshards c)%N; [|destruct Hshape as [H1 H2]; apply (c15_same w _ H1 H2 HW)].
      destruct Hshape as [_ Hshape].
      destruct (exec (env_at c sh) fn i (mk_state (shard_accts w sh))) as [[o|e|] s'] eqn:Hx;
        try (destruct Hshape as [H1 H2]; apply (c15_same w _ H1 H2 HW)).
      apply (Inv_step c Hc Hf); [exact HW|]. cbn [reachable_op]. apply C15_World.origin_call_ok; [exact Hor|].
      intros ->. exfalso. apply Hnsc. rewrite exec_set_role in Hx.
      apply (roles_requires_sc (env_at c sh) Hc _ _ _ _ _ Hx).
    - destruct Hs as (Hin & Hcal & Hsnd & Hdst & _ & Hp & Hnp & Hroles).
      destruct (sys_fn_not_nft fn Hin) as (H1 & H2 & _).
      destruct (pause_dec fn) as [Hpf|Hnpf].
      + rewrite (wstep_pause_dst c w sh fn i Hpf). apply (Inv_step c Hc Hf); [exact HW|]. cbn [reachable_op].
        split; [intros H; discriminate H|]. split; [|apply payload_disciplined_plain; assumption].
        intros ->. destruct (pause_fn_facts _ Hpf) as (_ & Hx & _). congruence.
      + apply (Inv_step c Hc Hf); [exact HW|]. cbn [reachable_op].
        split; [intros _; apply (Hnp Hnpf)|]. split; [exact Hroles|apply payload_disciplined_plain; assumption].
  Qed.

  (* ================================================================ *)
  (* ValidIds                                                           *)
  (* ================================================================ *)
  Lemma transfer_msg_parties w m : WInv' c w -> In m (inflight w) -> is_transfer_fn (m_fn m) = true ->
    m_caller m <> m_dest m /\ m_dest m <> m_sender m.
  Proof.
    intros HW Hin Ht. pose proof (wi'_msgs c w HW) as Hall. rewrite Forall_forall in Hall.
    pose proof (Hall m Hin Ht) as Hm. split.
    - intros He. apply (mo_caller c m Hm). rewrite He. reflexivity.
    - intros He. apply (mo_sender c m Hm). rewrite He. reflexivity.
  Qed.

  Lemma vinv_step w op : WInv' c w -> VInv c w -> honest_op c w op -> VInv c (wstep c w op).
  Proof.
    intros HW HV Hop. pose proof HV as [Hsh Hms]. rewrite Forall_forall in Hms.
    destruct op as [sh fn i|id gas|id gas|id gas]; [| |destruct Hop|].
    - (* a direct call *)
      destruct Hop as [_ [Hu|Hs]].
      + destruct Hu as (Hor & _ & (Hids & _) & _).
        apply (VInv_call_step c Hc Hf); [exact HV|apply origin_dst; exact Hor|exact Hids].
      + destruct Hs as (Hin & _ & _ & _ & Hids & _ & Hnp & _). destruct (pause_dec fn) as [Hpf|Hnpf].
        * rewrite (wstep_pause_dst c w sh fn i Hpf).
          apply (VInv_call_step c Hc Hf); [exact HV|intros H; discriminate H|].
          destruct (pause_fn_facts _ Hpf) as (_ & _ & _ & Hx & _).
          apply (call_ids_args fn i (clear_dst i) Hx); [reflexivity|exact Hids].
        * apply (VInv_call_step c Hc Hf); [exact HV|intros _; apply (Hnp Hnpf)|exact Hids].
    - (* delivery *)
      destruct (wstep_cases c w (ODeliver id gas)) as [->|id0 gas0 m Hk Hfind ->|sh fn i o s' Hk Hlt Hx ->
                                       |id0 gas0 m o s' consume Hk Hfind sh Hlt Hx ->|id0 gas0 m o s' Hk Hfind Hfl sh Hlt Hx ->];
        try exact HV; try discriminate Hk.
      destruct consume; [|discriminate Hk]. injection Hk as <- <-.
      destruct (find_msg_In _ _ _ Hfind) as [Hin _].
      assert (Hv : call_ids (m_fn m) (deliver_input c m sh gas)).
      { apply (msg_call_ids (m_fn m) (m_args m)); [apply (Hms m Hin)|reflexivity|].
        intros He. cbn [deliver_input i_caller i_rcpt].
        apply (transfer_msg_parties w m HW Hin). rewrite He. reflexivity. }
      destruct (exec_commit_ids c Hc Hf w sh (m_fn m) (deliver_input c m sh gas) o s' HV (fun _ => eq_refl) Hv Hx) as [H1 H2].
      split; [exact H1|]. cbn [inflight with_msgs]. apply Forall_forall. intros m' Hm'.
      apply in_app_or in Hm' as [Hm'|Hm']; [|eapply H2; exact Hm']. apply Hms. eapply in_drop_msg; exact Hm'.
    - (* refund *)
      destruct (wstep_cases c w (ORefund id gas)) as [->|id0 gas0 m Hk Hfind ->|sh fn i o s' Hk Hlt Hx ->
                                       |id0 gas0 m o s' consume Hk Hfind sh Hlt Hx ->|id0 gas0 m o s' Hk Hfind Hfl sh Hlt Hx ->];
        try exact HV; try discriminate Hk; try (destruct Hk as [Hk|Hk]; discriminate Hk);
        try (destruct consume; discriminate Hk).
      injection Hk as <- <-.
      destruct (find_msg_In _ _ _ Hfind) as [Hin _].
      assert (Hv : call_ids (m_fn m) (refund_input c m sh gas)).
      { apply (msg_call_ids (m_fn m) (m_args m)); [apply (Hms m Hin)|reflexivity|].
        intros He. cbn [refund_input i_caller i_rcpt].
        apply (transfer_msg_parties w m HW Hin). rewrite He. reflexivity. }
      destruct (exec_commit_ids c Hc Hf w sh (m_fn m) (refund_input c m sh gas) o s' HV (fun _ => eq_refl) Hv Hx) as [H1 _].
      split; [exact H1|]. cbn [inflight with_msgs]. apply Forall_forall. intros m' Hm'. apply Hms. eapply in_drop_msg; exact Hm'.
  Qed.

  (* ================================================================ *)
  (* names of in-flight messages                                        *)
  (* ================================================================ *)
  Lemma names_step w op : names_ok w -> honest_op c w op -> names_ok (wstep c w op).
  Proof.
    unfold names_ok. intros HN Hop.
    destruct (wstep_cases c w op) as [->|id0 gas0 m Hk Hfind ->|sh fn i o s' Hk Hlt Hx ->
                                     |id0 gas0 m o s' consume Hk Hfind sh Hlt Hx ->|id0 gas0 m o s' Hk Hfind Hfl sh Hlt Hx ->].
    - exact HN.
    - exact HN.
    - subst op. destruct Hop as [_ Hop]. cbn [inflight with_msgs]. apply Forall_app. split; [exact HN|].
      eapply (collect_names sh fn i (next_id w)); [|exact Hx]. apply (honest_dst_truthful w sh fn i Hop).
    - cbn [inflight with_msgs]. apply Forall_app. split.
      + destruct consume; [apply forall_drop_msg|]; exact HN.
      + eapply (collect_names sh (m_fn m) _ (next_id w)); [|exact Hx].
        intros _. cbn [deliver_input i_dst i_rcpt]. symmetry. apply N.eqb_refl.
    - cbn [inflight with_msgs]. apply forall_drop_msg. exact HN.
  Qed.

  (* ================================================================ *)
  (* Supply: honest_op implies ok_op for a step that succeeds           *)
  (* ================================================================ *)
  Lemma honest_ok_op w op sh fn i o s' : JInv c w -> honest_op c w op ->
    step_call c w op = Some (sh, fn, i) -> exec (env_at c sh) fn i (mk_state (shard_accts w sh)) = (Ok o, s') ->
    ok_op c w op.
  Proof.
    intros HJ Hop Hcall Hx. unfold ok_op. rewrite Hcall.
    pose proof (step_call_msg c w op sh fn i Hcall) as Hm.
    pose proof (proj1 (j_ids c w HJ) sh) as Hids_sh.
    destruct (is_transfer_fn fn) eqn:Htf.
    - (* a transfer function *)
      destruct op as [sh0 fn0 i0|id gas|id gas|id gas]; [|exact I|destruct Hop|exact I].
      destruct Hm as (-> & -> & ->). destruct Hop as [_ [Hu|Hs]].
      + left. destruct Hu as (Hor & _ & (Hids & Hmulti) & _). split; [exact Hor|]. split.
        * intros ->. apply ids_valid_lookup_consistent; [exact Hids_sh|].
          eapply call_ids_arg0'; [exact Hids|reflexivity|reflexivity].
        * intros ->. apply ids_valid_triples_consistent; [exact Hids_sh|apply Hmulti; reflexivity].
      + right. destruct Hs as (Hin & Hcal & Hsnd & Hdst & _ & _ & Hnp & _).
        pose proof (sys_fn_transfer fn Hin Htf) as ->.
        split; [reflexivity|]. split; [exact Hcal|]. split; [exact Hsnd|]. split; [exact Hdst|].
        apply Hnp. intros [H|H]; discriminate H.
    - (* one of the other functions: F4b, freshness, F8 *)
      unfold Supply_Calls.call_ok. cbv zeta.
      destruct op as [sh0 fn0 i0|id gas|id gas|id gas]; [| |destruct Hop|].
      + destruct Hm as (-> & -> & ->). destruct Hop as [_ [Hu|Hs]].
        * destruct Hu as (Hor & Hnsc & (Hids & _) & Hfresh). split; [|split].
          -- intros Hl. apply ids_valid_lookup_consistent; [exact Hids_sh|apply (lookup_fn_arg0 fn i Hl Hids)].
          -- exact Hfresh.
          -- intros Hp. exfalso. apply Hnsc.
             destruct Hp as [-> | ->]; [rewrite exec_pause in Hx|rewrite exec_unpause in Hx];
               apply (pause_requires_sc _ _ _ _ _ _ Hx).
        * destruct Hs as (Hin & _ & _ & _ & _ & Hp & _ & _).
          destruct (sys_fn_not_nft fn Hin) as (_ & _ & H3 & H4). split; [|split].
          -- intros Hl. contradiction.
          -- intros He. contradiction.
          -- intros Hpf. apply (Hp Hpf).
      + destruct Hm as (m & Hfind & _ & -> & _). destruct (find_msg_In _ _ _ Hfind) as [Hin _].
        pose proof (j_names c w HJ) as HN. unfold names_ok in HN. rewrite Forall_forall in HN.
        destruct (msg_fn_ok_facts _ (HN m Hin)) as (H1 & H2 & H3 & _).
        split; [|split]; intros; contradiction.
      + destruct Hm as (m & Hfind & _ & -> & _). destruct (find_msg_In _ _ _ Hfind) as [Hin _].
        pose proof (j_names c w HJ) as HN. unfold names_ok in HN. rewrite Forall_forall in HN.
        destruct (msg_fn_ok_facts _ (HN m Hin)) as (H1 & H2 & H3 & _).
        split; [|split]; intros; contradiction.
  Qed.

  (* Supply_Step.supply_step asks ok_op of every operation, also of one that fails; a failing step changes neither
     the shards nor the in-flight messages, and its stated supply change is 0 *)
  Lemma supply_step_succ w op : WInv' c w ->
    (forall sh fn i o s', step_call c w op = Some (sh, fn, i) ->
       exec (env_at c sh) fn i (mk_state (shard_accts w sh)) = (Ok o, s') -> ok_op c w op) ->
    WInv' c (wstep c w op)
    /\ forall k, pkey k -> total c k (wstep c w op) = (total c k w + supply_delta c w op k)%Z.
  Proof.
    intros HW Hok. pose proof (Supply_Step.wstep_shape c w op) as Hshape.
    destruct (step_call c w op) as [[[sh fn] i]|] eqn:Hcall.
    2:{ destruct Hshape as [H1 H2]. split; [apply (WInv'_same c w _ H1 H2 HW)|].
        intros k _. unfold supply_delta. rewrite Hcall, (total_same c w _ k H1 H2). lia. }
    destruct Hshape as [_ Hshape].
    destruct (exec (env_at c sh) fn i (mk_state (shard_accts w sh))) as [[o|e|] s'] eqn:Hx.
    - apply (supply_step c Hc (flag_undec_neutral _ Hf) w op HW). apply (Hok sh fn i o s' eq_refl Hx).
    - destruct Hshape as [H1 H2]. split; [apply (WInv'_same c w _ H1 H2 HW)|].
      intros k _. unfold supply_delta. rewrite Hcall, Hx, (total_same c w _ k H1 H2). lia.
    - destruct Hshape as [H1 H2]. split; [apply (WInv'_same c w _ H1 H2 HW)|].
      intros k _. unfold supply_delta. rewrite Hcall, Hx, (total_same c w _ k H1 H2). lia.
  Qed.

  (* ================================================================ *)
  (* THE STEP                                                           *)
  (* ================================================================ *)
  Theorem honest_step w op : JInv c w -> honest_op c w op ->
    JInv c (wstep c w op)
    /\ forall k, pkey k -> total c k (wstep c w op) = (total c k w + supply_delta c w op k)%Z.
  Proof.
    intros HJ Hop.
    destruct (supply_step_succ w op (j_supply c w HJ)) as [HS Htot].
    { intros sh fn i o s' Hcall Hx. apply (honest_ok_op w op sh fn i o s' HJ Hop Hcall Hx). }
    split; [|exact Htot]. constructor.
    - exact HS.
    - apply c15_step; [apply (j_c15 c w HJ)|exact Hop].
    - apply (PInv_step c Hc (flag_undec_ok _ Hf)); [apply (j_nopanic c w HJ)|apply (honest_tx_op w); exact Hop].
    - apply vinv_step; [apply (j_supply c w HJ)|apply (j_ids c w HJ)|exact Hop].
    - apply (balances_nonneg_wstep c w op Hc (flag_undec_nonneg _ Hf)). apply (j_nonneg c w HJ).
    - apply names_step; [apply (j_names c w HJ)|exact Hop].
  Qed.
End Step.

Print Assumptions wstep_pause_dst.
Print Assumptions honest_step.
