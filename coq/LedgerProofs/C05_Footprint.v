(* C05, part 2: the footprint of every built-in function and THE frame theorem through [exec].

     bfn / classify / run_bfn / exec_classify   the dispatch of [exec] as a 23-constructor enumeration
     footprint E f i s = (cells, accounts)      which storage cells and which accounts' fields a call may change
                                                (a predicate built from the call's own arguments; for ESDTNFTCreate
                                                also the caller's counter in the pre-state)
     exec_frame            exec = Ok  ->  unchanged_except (fp_cells ..) (fp_accts ..) s s'      (NO state hypothesis:
                           for the functions that look an NFT entry up, "any nonce of the named token")
     fp_fields / exec_frame_fields   field-level refinement for the three account-level functions
     footprint_shape       every cell of a footprint: account in {caller, recipient, SYS, address argument},
                           key = ELRONDesdt+tok+nonce | ELRONDroleesdt+tok | ELRONDnonce+tok for a token named
                           in the input, or an unprotected listed key of the caller for SaveKeyValue
     exec_named_tokens_in_args   on Ok the named tokens ARE arguments of the call
     fp_exact / exec_frame_exact     the sharp footprint (a computable LIST of cells, exact nonce) under
                           [fp_consistent] = [lookup_consistent] of the looked-up entries (F4b)
     fp_exact_sub          the sharp footprint is contained in the general one
   The F4b witness (the sharp frame is FALSE without the hypothesis) is in C05_Examples.v. *)
From Coq.Strings Require Import String.
From EV Require Import Base.Bytes Base.Store Base.Monad gen.Consts Codec.Types Helpers.Helpers
  Ledger.Types Ledger.Env Ledger.Funcs Ledger.Transfers LedgerProofs.Defs LedgerProofs.EnvSpec
  LedgerProofs.Spec_Transfers_Base LedgerProofs.Spec_Transfers_Esdt LedgerProofs.Spec_Transfers_Nft
  LedgerProofs.Spec_Transfers_Multi LedgerProofs.Spec_Transfers LedgerProofs.Spec_Supply
  LedgerProofs.Spec_System LedgerProofs.C05_SaveKV.

(* ================================================================== *)
(* 1. the dispatch as an enumeration                                    *)
(* ================================================================== *)
Inductive bfn :=
| BClaim | BChangeOwner | BSetUserName | BSaveKV | BPause | BUnPause | BEsdtTransfer | BEsdtBurn
| BFreeze | BUnFreeze | BWipe | BUnSetRole | BSetRole | BLocalBurn | BLocalMint | BAddQuantity | BNftBurn
| BNftCreate | BNftTransfer | BRoleTransfer | BUpdateAttributes | BAddUri | BMulti.

Definition bfn_name (b : bfn) : bytes :=
  match b with
  | BClaim => C.BuiltInFunctionClaimDeveloperRewards | BChangeOwner => C.BuiltInFunctionChangeOwnerAddress
  | BSetUserName => C.BuiltInFunctionSetUserName | BSaveKV => C.BuiltInFunctionSaveKeyValue
  | BPause => C.BuiltInFunctionESDTPause | BUnPause => C.BuiltInFunctionESDTUnPause
  | BEsdtTransfer => C.BuiltInFunctionESDTTransfer | BEsdtBurn => C.BuiltInFunctionESDTBurn
  | BFreeze => C.BuiltInFunctionESDTFreeze | BUnFreeze => C.BuiltInFunctionESDTUnFreeze
  | BWipe => C.BuiltInFunctionESDTWipe | BUnSetRole => C.BuiltInFunctionUnSetESDTRole
  | BSetRole => C.BuiltInFunctionSetESDTRole | BLocalBurn => C.BuiltInFunctionESDTLocalBurn
  | BLocalMint => C.BuiltInFunctionESDTLocalMint | BAddQuantity => C.BuiltInFunctionESDTNFTAddQuantity
  | BNftBurn => C.BuiltInFunctionESDTNFTBurn | BNftCreate => C.BuiltInFunctionESDTNFTCreate
  | BNftTransfer => C.BuiltInFunctionESDTNFTTransfer | BRoleTransfer => C.BuiltInFunctionESDTNFTCreateRoleTransfer
  | BUpdateAttributes => C.BuiltInFunctionESDTNFTUpdateAttributes | BAddUri => C.BuiltInFunctionESDTNFTAddURI
  | BMulti => C.BuiltInFunctionMultiESDTNFTTransfer
  end.
Definition all_bfn : list bfn :=
  [BClaim; BChangeOwner; BSetUserName; BSaveKV; BPause; BUnPause; BEsdtTransfer; BEsdtBurn; BFreeze; BUnFreeze;
   BWipe; BUnSetRole; BSetRole; BLocalBurn; BLocalMint; BAddQuantity; BNftBurn; BNftCreate; BNftTransfer;
   BRoleTransfer; BUpdateAttributes; BAddUri; BMulti].

(* same chain of tests, in the same order, as [exec] *)
Definition classify (f : bytes) : option bfn :=
  if beqb f C.BuiltInFunctionClaimDeveloperRewards then Some BClaim
  else if beqb f C.BuiltInFunctionChangeOwnerAddress then Some BChangeOwner
  else if beqb f C.BuiltInFunctionSetUserName then Some BSetUserName
  else if beqb f C.BuiltInFunctionSaveKeyValue then Some BSaveKV
  else if beqb f C.BuiltInFunctionESDTPause then Some BPause
  else if beqb f C.BuiltInFunctionESDTUnPause then Some BUnPause
  else if beqb f C.BuiltInFunctionESDTTransfer then Some BEsdtTransfer
  else if beqb f C.BuiltInFunctionESDTBurn then Some BEsdtBurn
  else if beqb f C.BuiltInFunctionESDTFreeze then Some BFreeze
  else if beqb f C.BuiltInFunctionESDTUnFreeze then Some BUnFreeze
  else if beqb f C.BuiltInFunctionESDTWipe then Some BWipe
  else if beqb f C.BuiltInFunctionUnSetESDTRole then Some BUnSetRole
  else if beqb f C.BuiltInFunctionSetESDTRole then Some BSetRole
  else if beqb f C.BuiltInFunctionESDTLocalBurn then Some BLocalBurn
  else if beqb f C.BuiltInFunctionESDTLocalMint then Some BLocalMint
  else if beqb f C.BuiltInFunctionESDTNFTAddQuantity then Some BAddQuantity
  else if beqb f C.BuiltInFunctionESDTNFTBurn then Some BNftBurn
  else if beqb f C.BuiltInFunctionESDTNFTCreate then Some BNftCreate
  else if beqb f C.BuiltInFunctionESDTNFTTransfer then Some BNftTransfer
  else if beqb f C.BuiltInFunctionESDTNFTCreateRoleTransfer then Some BRoleTransfer
  else if beqb f C.BuiltInFunctionESDTNFTUpdateAttributes then Some BUpdateAttributes
  else if beqb f C.BuiltInFunctionESDTNFTAddURI then Some BAddUri
  else if beqb f C.BuiltInFunctionMultiESDTNFTTransfer then Some BMulti
  else None.

Definition run_bfn (E : env) (b : bfn) : input -> MT output :=
  match b with
  | BClaim => f_claim_rewards E | BChangeOwner => f_change_owner E | BSetUserName => f_set_user_name E
  | BSaveKV => f_save_key_value E | BPause => f_pause E true | BUnPause => f_pause E false
  | BEsdtTransfer => f_esdt_transfer E | BEsdtBurn => f_esdt_burn E
  | BFreeze => f_freeze_wipe E true false | BUnFreeze => f_freeze_wipe E false false | BWipe => f_freeze_wipe E false true
  | BUnSetRole => f_roles E false | BSetRole => f_roles E true
  | BLocalBurn => f_local_burn E | BLocalMint => f_local_mint E
  | BAddQuantity => f_nft_add_quantity E | BNftBurn => f_nft_burn E | BNftCreate => f_nft_create E
  | BNftTransfer => f_nft_transfer E | BRoleTransfer => f_create_role_transfer E
  | BUpdateAttributes => f_nft_update_attributes E | BAddUri => f_nft_add_uri E | BMulti => f_multi_transfer E
  end.

Lemma exec_classify E f i :
  exec E f i = match classify f with Some b => run_bfn E b i | None => fail EUnknownFunction end.
Proof.
  unfold exec, classify.
  repeat match goal with |- context [if beqb f ?c then _ else _] => destruct (beqb f c) end; reflexivity.
Qed.
Lemma classify_name b : classify (bfn_name b) = Some b.
Proof. destruct b; vm_compute; reflexivity. Qed.
Lemma classify_some f b : classify f = Some b -> f = bfn_name b.
Proof.
  unfold classify.
  repeat match goal with |- context [if beqb f ?c then _ else _] => destruct (beqb_spec f c) as [->|?] end;
    intros H; inversion H; reflexivity.
Qed.
Lemma classify_none f : classify f = None <-> ~ In f (map bfn_name all_bfn).
Proof.
  split.
  - intros H Hin. apply in_map_iff in Hin as (b & <- & _). rewrite classify_name in H. discriminate.
  - intros H. destruct (classify f) as [b|] eqn:Ec; [|reflexivity]. exfalso. apply H.
    apply classify_some in Ec as ->. apply in_map. destruct b; cbn; tauto.
Qed.
Lemma exec_name E b i : exec E (bfn_name b) i = run_bfn E b i.
Proof. rewrite exec_classify, classify_name. reflexivity. Qed.
(* an unknown name is an error: nothing executes *)
Lemma exec_unknown E f i s r s' : classify f = None -> exec E f i s = (r, s') -> r = Err EUnknownFunction /\ s' = s.
Proof. intros Hc. rewrite exec_classify, Hc. unfold fail. intros H. inversion H. auto. Qed.

(* ================================================================== *)
(* 2. the footprint                                                     *)
(* ================================================================== *)
(* the argument triples a MultiESDTNFTTransfer call names: origin side (caller = recipient) from argument 2,
   destination side from argument 1; the count is argument 1 resp. 0 *)
Definition multi_named (i : input) : list rawtriple :=
  if beqb (i_caller i) (i_rcpt i) then multi_snd_triples i else multi_dst_triples i.

Section Footprint.
  Variable E : env.

  (* the storage cells (account, key) a call may change *)
  Definition fp_cells_b (b : bfn) (i : input) (s : mstate) : bytes -> bytes -> Prop :=
    let tok := argn i 0 in
    match b with
    | BClaim | BChangeOwner | BSetUserName => fun _ _ => False
    | BSaveKV => fun a k => a = i_caller i /\ key_allowed k = true /\ exists v, In (k, v) (pairs_of (i_args i))
    | BPause | BUnPause => fun a k => a = SYS /\ k = P ++ tok
    | BEsdtTransfer => fun a k => k = P ++ tok /\ ((i_snd i = true /\ a = i_caller i) \/ (i_dst i = true /\ a = i_rcpt i))
    | BEsdtBurn | BLocalBurn | BLocalMint => fun a k => a = i_caller i /\ k = P ++ tok
    | BFreeze | BUnFreeze | BWipe => fun a k => a = i_rcpt i /\ k = P ++ tok
    | BUnSetRole | BSetRole => fun a k => a = i_rcpt i /\ k = RP ++ tok
    | BAddQuantity | BNftBurn | BUpdateAttributes | BAddUri =>
        fun a k => a = i_caller i /\ exists n, k = nft_key (P ++ tok) n
    | BNftCreate => fun a k => a = i_caller i /\ (k = nft_key (P ++ tok) (create_nonce i s) \/ k = NP ++ tok)
    | BNftTransfer =>
        fun a k => (if beqb (i_caller i) (i_rcpt i)
                    then a = i_caller i \/ (shard_of E (argn i 3) = self_shard E /\ a = argn i 3)
                    else a = i_rcpt i)
                   /\ exists n, k = nft_key (P ++ tok) n
    | BRoleTransfer =>
        fun a k => (a = i_rcpt i \/ (a = argn i 1 /\ i_caller i = SC /\ shard_of E (argn i 1) = self_shard E))
                   /\ (k = NP ++ tok \/ k = RP ++ tok)
    | BMulti =>
        fun a k => (if beqb (i_caller i) (i_rcpt i)
                    then a = i_caller i \/ (shard_of E (argn i 0) = self_shard E /\ a = argn i 0)
                    else a = i_rcpt i)
                   /\ exists x n, In x (multi_named i) /\ k = nft_key (P ++ rt_tok x) n
    end.
  (* the accounts whose fields (balance, owner, user name, developer reward) a call may change *)
  Definition fp_accts_b (b : bfn) (i : input) : bytes -> Prop :=
    match b with
    | BClaim => fun a => i_dst i = true /\ (a = i_rcpt i \/ (a = i_caller i /\ i_snd i = true))
    | BChangeOwner | BSetUserName => fun a => a = i_rcpt i /\ i_dst i = true
    | _ => fun _ => False
    end.

  Definition footprint (f : bytes) (i : input) (s : mstate) : (bytes -> bytes -> Prop) * (bytes -> Prop) :=
    match classify f with
    | Some b => (fp_cells_b b i s, fp_accts_b b i)
    | None => (fun _ _ => False, fun _ => False)
    end.
  Definition fp_cells (fp : (bytes -> bytes -> Prop) * (bytes -> Prop)) := fst fp.
  Definition fp_accts (fp : (bytes -> bytes -> Prop) * (bytes -> Prop)) := snd fp.

  Lemma footprint_name b i s : footprint (bfn_name b) i s = (fp_cells_b b i s, fp_accts_b b i).
  Proof. unfold footprint. rewrite classify_name. reflexivity. Qed.

  (* ================================================================== *)
  (* 3. the frame theorem                                                 *)
  (* ================================================================== *)
  Hypothesis Hc : codec_ok (cdc E).

  Lemma self_eqb_shard (x y : N) : (x =? y)%N = true <-> y = x.
  Proof. rewrite N.eqb_eq. split; congruence. Qed.

  Lemma supply_frame_exact f i s o s' :
    run_supply E f i s = (Ok o, s') -> supply_consistent E f i s ->
    unchanged_except (fun a k => a = i_caller i /\ In k (supply_cells f i s)) (fun _ => False) s s'.
  Proof. intros H Hl. apply (supply_footprint E Hc _ _ _ _ _ H Hl). Qed.

  Lemma supply_frame_general f i s o s' :
    run_supply E f i s = (Ok o, s') -> f <> SNftCreate ->
    unchanged_except (fun a k => a = i_caller i /\ exists n, k = nft_key (P ++ argn i 0) n) (fun _ => False) s s'.
  Proof.
    intros H Hf. destruct (supply_footprint_general E Hc _ _ _ _ _ H) as (n & Hu).
    eapply unchanged_except_weaken; [| |exact Hu]; [|auto].
    intros a k [-> [->|[Hx _]]]; [split; [reflexivity|eauto]|contradiction].
  Qed.

  Theorem frame_b b i s o s' : run_bfn E b i s = (Ok o, s') ->
    unchanged_except (fp_cells_b b i s) (fp_accts_b b i) s s'.
  Proof.
    destruct b; cbn [run_bfn fp_cells_b fp_accts_b]; cbv zeta; intros H.
    - (* claim *) apply claim_rewards_spec in H as (_ & _ & _ & _ & Hu & _). exact Hu.
    - (* change owner *) apply change_owner_spec in H as (_ & a0 & rest & _ & _ & _ & _ & _ & _ & _ & Hu & _). exact Hu.
    - (* user name *) apply set_user_name_spec in H as (_ & a0 & _ & _ & _ & _ & Hu & _). exact Hu.
    - (* SaveKeyValue *) rewrite <- exec_save_key_value in H. apply savekv_frame_exec in H. exact H.
    - (* pause *) apply pause_spec in H as (_ & tok & Ha & _ & _ & _ & _ & Hu & _). unfold argn. rewrite Ha. exact Hu.
    - apply pause_spec in H as (_ & tok & Ha & _ & _ & _ & _ & Hu & _). unfold argn. rewrite Ha. exact Hu.
    - (* ESDTTransfer *) apply (transfer_footprint_esdt E Hc) in H. exact H.
    - (* ESDTBurn *) change (run_supply E SEsdtBurn i s = (Ok o, s')) in H.
      apply supply_frame_exact in H; [|exact I]. eapply unchanged_except_weaken; [| |exact H]; [|auto].
      cbn [supply_cells supply_key]. intros a k [-> [<-|[]]]. auto.
    - (* freeze *) apply (freeze_spec E Hc) in H as (_ & tok & t & Ha & _ & _ & _ & _ & _ & _ & _ & Hu & _).
      unfold argn. rewrite Ha. exact Hu.
    - apply (freeze_spec E Hc) in H as (_ & tok & t & Ha & _ & _ & _ & _ & _ & _ & _ & Hu & _).
      unfold argn. rewrite Ha. exact Hu.
    - (* wipe *) apply (wipe_spec E Hc) in H as (_ & tok & t & Ha & _ & _ & _ & _ & _ & _ & _ & _ & Hu & _).
      unfold argn. rewrite Ha. exact Hu.
    - (* roles *) apply (roles_spec E Hc) in H as (_ & tok & rs & Ha & _ & _ & _ & Hu & _). unfold argn. rewrite Ha. exact Hu.
    - apply (roles_spec E Hc) in H as (_ & tok & rs & Ha & _ & _ & _ & Hu & _). unfold argn. rewrite Ha. exact Hu.
    - (* local burn *) change (run_supply E SLocalBurn i s = (Ok o, s')) in H.
      apply supply_frame_exact in H; [|exact I]. eapply unchanged_except_weaken; [| |exact H]; [|auto].
      cbn [supply_cells supply_key]. intros a k [-> [<-|[]]]. auto.
    - (* local mint *) change (run_supply E SLocalMint i s = (Ok o, s')) in H.
      apply supply_frame_exact in H; [|exact I]. eapply unchanged_except_weaken; [| |exact H]; [|auto].
      cbn [supply_cells supply_key]. intros a k [-> [<-|[]]]. auto.
    - (* add quantity *) change (run_supply E SNftAddQuantity i s = (Ok o, s')) in H.
      apply supply_frame_general in H; [exact H|discriminate].
    - (* NFT burn *) change (run_supply E SNftBurn i s = (Ok o, s')) in H.
      apply supply_frame_general in H; [exact H|discriminate].
    - (* create *) change (run_supply E SNftCreate i s = (Ok o, s')) in H.
      apply supply_frame_exact in H; [|exact I]. eapply unchanged_except_weaken; [| |exact H]; [|auto].
      cbn [supply_cells supply_key]. intros a k [-> [<-|[<-|[]]]]; auto.
    - (* NFT transfer *)
      destruct (beqb_spec (i_caller i) (i_rcpt i)) as [Heq|Hne].
      + destruct (nft_sender_post E Hc _ _ _ _ H Heq) as (t & Hp). destruct Hp.
        eapply unchanged_except_weaken; [| |exact ns_frame]; [|auto].
        intros a k [-> Ha]. split; [|exists (tok_nonce t); reflexivity].
        destruct Ha as [->|[Hs ->]]; [left; reflexivity|right]. split; [|reflexivity].
        unfold nft_same in Hs. apply self_eqb_shard in Hs. exact Hs.
      + destruct (nft_dest_post E Hc _ _ _ _ H Hne) as (t & Hp). destruct Hp.
        eapply unchanged_except_weaken; [| |exact nd_frame]; [|auto].
        intros a k [-> ->]. split; [reflexivity|exists (tok_nonce t); reflexivity].
    - (* create-role transfer *)
      apply (role_transfer_frame E Hc) in H as (tok & a1 & Ha & Hu & _). unfold argn. rewrite Ha. exact Hu.
    - (* update attributes *) change (run_supply E SNftUpdateAttributes i s = (Ok o, s')) in H.
      apply supply_frame_general in H; [exact H|discriminate].
    - (* add URI *) change (run_supply E SNftAddUri i s = (Ok o, s')) in H.
      apply supply_frame_general in H; [exact H|discriminate].
    - (* multi transfer *)
      unfold multi_named. destruct (beqb_spec (i_caller i) (i_rcpt i)) as [Heq|Hne].
      + destruct (multi_sender_post E Hc _ _ _ _ H Heq) as (lst & Hp). destruct Hp.
        destruct mp_steps as (s0 & s1 & Q0 & Hs & Q1).
        destruct (snd_steps_frame E _ _ _ _ _ _ _ _ _ Hs) as (Hue & _).
        eapply unchanged_except_trans; [apply (silent_unchanged E _ _ _ _ Q0)|].
        eapply unchanged_except_trans; [|apply (silent_unchanged E _ _ _ _ Q1)].
        eapply unchanged_except_weaken; [| |exact Hue]; [|auto]. intros a k [Ha Hk]. split; [|exact Hk].
        destruct Ha as [->|[Hsm ->]]; [left; reflexivity|right]. split; [|reflexivity].
        unfold multi_same in Hsm. apply self_eqb_shard in Hsm. exact Hsm.
      + destruct (multi_dest_post E Hc _ _ _ _ H Hne). destruct mq_steps as (s0 & Q0 & Hs).
        destruct (dst_steps_frame E _ _ _ _ _ _ Hs) as (Hue & _).
        eapply unchanged_except_trans; [apply (silent_unchanged E _ _ _ _ Q0)|]. exact Hue.
  Qed.

  (* THE frame theorem: a successful call of ANY function name changes no storage cell and no account field
     outside its footprint *)
  Theorem exec_frame f i s o s' : exec E f i s = (Ok o, s') ->
    unchanged_except (fp_cells (footprint f i s)) (fp_accts (footprint f i s)) s s'.
  Proof.
    rewrite exec_classify. unfold footprint, fp_cells, fp_accts. destruct (classify f) as [b|].
    - cbn [fst snd]. apply frame_b.
    - intros H. apply fail_ok in H. contradiction.
  Qed.
  (* spelled out *)
  Corollary exec_frame_cell f i s o s' : exec E f i s = (Ok o, s') ->
    forall a k, ~ fp_cells (footprint f i s) a k -> cell s' a k = cell s a k.
  Proof. intros H. apply (ue_cell _ _ _ _ (exec_frame _ _ _ _ _ H)). Qed.
  Corollary exec_frame_acct f i s o s' : exec E f i s = (Ok o, s') ->
    forall a, ~ fp_accts (footprint f i s) a -> acct_fields_eq (acct s' a) (acct s a).
  Proof. intros H. apply (ue_fields _ _ _ _ (exec_frame _ _ _ _ _ H)). Qed.

  (* ================================================================== *)
  (* 4. field-level refinement for the account-level functions           *)
  (* ================================================================== *)
  Inductive afield := FBalance | FOwner | FUserName | FDevReward.
  Definition field_eq (fld : afield) (x y : account) : Prop :=
    match fld with
    | FBalance => a_balance x = a_balance y | FOwner => a_owner x = a_owner y
    | FUserName => a_username x = a_username y | FDevReward => a_devreward x = a_devreward y
    end.
  (* which field of which account: ChangeOwnerAddress the recipient's owner; ClaimDeveloperRewards the recipient's
     developer reward and the caller's balance (when its account is local); SetUserName the recipient's user name *)
  Definition fp_fields_b (b : bfn) (i : input) : bytes -> afield -> Prop :=
    match b with
    | BChangeOwner => fun a fld => i_dst i = true /\ a = i_rcpt i /\ fld = FOwner
    | BSetUserName => fun a fld => i_dst i = true /\ a = i_rcpt i /\ fld = FUserName
    | BClaim => fun a fld => i_dst i = true /\ ((a = i_rcpt i /\ fld = FDevReward) \/ (a = i_caller i /\ i_snd i = true /\ fld = FBalance))
    | _ => fun _ _ => False
    end.
  Definition fp_fields (f : bytes) (i : input) : bytes -> afield -> Prop :=
    match classify f with Some b => fp_fields_b b i | None => fun _ _ => False end.

  Lemma fields_eq_all x y : acct_fields_eq x y -> forall fld, field_eq fld x y.
  Proof. intros (?&?&?&?) []; assumption. Qed.

  Theorem frame_fields_b b i s o s' : run_bfn E b i s = (Ok o, s') ->
    forall a fld, ~ fp_fields_b b i a fld -> field_eq fld (acct s' a) (acct s a).
  Proof.
    intros H a fld Hn.
    assert (Hgen : (forall a fld, ~ fp_fields_b b i a fld) -> field_eq fld (acct s' a) (acct s a)).
    { intros Hall. apply fields_eq_all. apply (ue_fields _ _ _ _ (frame_b _ _ _ _ _ H)).
      destruct b; cbn [fp_accts_b]; try tauto.
      - intros [Hd [->|[-> Hs]]].
        + apply (Hall (i_rcpt i) FDevReward). cbn. tauto.
        + apply (Hall (i_caller i) FBalance). cbn. tauto.
      - intros [-> Hd]. apply (Hall (i_rcpt i) FOwner). cbn. tauto.
      - intros [-> Hd]. apply (Hall (i_rcpt i) FUserName). cbn. tauto. }
    destruct b; try (apply Hgen; intros ? ? Hx; exact Hx); clear Hgen; cbn [run_bfn fp_fields_b] in *.
    - (* claim *)
      apply claim_rewards_spec in H as (_ & Hnd & Hd & _).
      destruct (i_dst i) eqn:Ed.
      + destruct (Hd eq_refl) as (_ & _ & _ & Hacct & _). rewrite Hacct.
        destruct (beqb_spec a (i_rcpt i)) as [->|Hr]; destruct (i_snd i) eqn:Es; cbn [andb];
          try destruct (beqb_spec (i_rcpt i) (i_caller i)) as [Hrc|Hrc];
          try destruct (beqb_spec a (i_caller i)) as [->|Hcl]; destruct fld; cbn; try reflexivity;
          exfalso; apply Hn; try rewrite Hrc; tauto.
      + destruct (Hnd eq_refl) as [-> _]. destruct fld; reflexivity.
    - (* change owner *)
      apply change_owner_spec in H as (_ & a0 & rest & _ & _ & _ & _ & Hnd & Hd & _).
      destruct (i_dst i) eqn:Ed.
      + destruct (Hd eq_refl) as (_ & Hr & Ho & _). destruct (beqb_spec a (i_rcpt i)) as [->|Hne].
        * rewrite Hr. destruct fld; cbn; try reflexivity. exfalso. apply Hn. tauto.
        * rewrite (Ho _ Hne). destruct fld; reflexivity.
      + rewrite (Hnd eq_refl). destruct fld; reflexivity.
    - (* user name *)
      apply set_user_name_spec in H as (_ & a0 & _ & Hnd & Hd & _).
      destruct (i_dst i) eqn:Ed.
      + destruct (Hd eq_refl) as (_ & _ & Hr & Ho & _). destruct (beqb_spec a (i_rcpt i)) as [->|Hne].
        * rewrite Hr. destruct fld; cbn; try reflexivity. exfalso. apply Hn. tauto.
        * rewrite (Ho _ Hne). destruct fld; reflexivity.
      + destruct (Hnd eq_refl) as [-> _]. destruct fld; reflexivity.
  Qed.
  Theorem exec_frame_fields f i s o s' : exec E f i s = (Ok o, s') ->
    forall a fld, ~ fp_fields f i a fld -> field_eq fld (acct s' a) (acct s a).
  Proof.
    rewrite exec_classify. unfold fp_fields. destruct (classify f) as [b|].
    - apply frame_fields_b.
    - intros H. apply fail_ok in H. contradiction.
  Qed.
  (* the account-level functions touch no storage at all *)
  Theorem account_level_no_storage f i s o s' : exec E f i s = (Ok o, s') ->
    In f [C.BuiltInFunctionChangeOwnerAddress; C.BuiltInFunctionClaimDeveloperRewards; C.BuiltInFunctionSetUserName] ->
    forall a k, cell s' a k = cell s a k.
  Proof. intros H Hin. apply (account_footprint E f _ _ _ _ H Hin). Qed.
End Footprint.

(* ================================================================== *)
(* 5. the shape of a footprint                                          *)
(* ================================================================== *)
(* the token identifiers a call names: argument 0, or the first component of every triple of a multi-transfer;
   none for the account-level functions and SaveKeyValue *)
Definition named_tokens_b (b : bfn) (i : input) : list bytes :=
  match b with
  | BClaim | BChangeOwner | BSetUserName | BSaveKV => []
  | BMulti => map rt_tok (multi_named i)
  | _ => [argn i 0]
  end.
Definition named_tokens (f : bytes) (i : input) : list bytes :=
  match classify f with Some b => named_tokens_b b i | None => [] end.
(* the address ARGUMENT of the three functions that carry one *)
Definition addr_args_b (b : bfn) (i : input) : list bytes :=
  match b with
  | BNftTransfer => [argn i 3]          (* destination of the NFT (origin side) *)
  | BMulti => [argn i 0]                (* destination of the multi-transfer (origin side) *)
  | BRoleTransfer => [argn i 1]         (* new owner of the create role *)
  | _ => []
  end.
Definition addr_args (f : bytes) (i : input) : list bytes :=
  match classify f with Some b => addr_args_b b i | None => [] end.

Theorem footprint_shape_b E b i s a k : fp_cells_b E b i s a k ->
  (a = i_caller i \/ a = i_rcpt i \/ a = SYS \/ In a (addr_args_b b i))
  /\ ((exists tok n, In tok (named_tokens_b b i) /\ k = nft_key (P ++ tok) n)
      \/ (exists tok, In tok (named_tokens_b b i) /\ k = RP ++ tok)
      \/ (exists tok, In tok (named_tokens_b b i) /\ k = NP ++ tok)
      \/ (b = BSaveKV /\ a = i_caller i /\ prefix_of C.ElrondProtectedKeyPrefix k = false
          /\ exists v, In (k, v) (pairs_of (i_args i)))).
Proof.
  assert (Hk0 : forall tok, exists tok' n, In tok' [tok] /\ P ++ tok = nft_key (P ++ tok') n).
  { intros tok. exists tok, 0%N. split; [left; reflexivity|]. symmetry. apply nft_key_0. }
  destruct b; cbn [fp_cells_b named_tokens_b addr_args_b]; cbv zeta; intros H; try contradiction.
  - destruct H as (-> & Hka & v & Hin). split; [auto|]. right; right; right.
    split; [reflexivity|]. split; [reflexivity|]. split; [apply key_allowed_not_protected; exact Hka|eauto].
  - destruct H as [-> ->]. split; [auto|left; apply Hk0].
  - destruct H as [-> ->]. split; [auto|left; apply Hk0].
  - destruct H as [-> [[_ ->]|[_ ->]]]; (split; [auto|left; apply Hk0]).
  - destruct H as [-> ->]. split; [auto|left; apply Hk0].
  - destruct H as [-> ->]. split; [auto|left; apply Hk0].
  - destruct H as [-> ->]. split; [auto|left; apply Hk0].
  - destruct H as [-> ->]. split; [auto|left; apply Hk0].
  - destruct H as [-> ->]. split; [auto|]. right; left. exists (argn i 0). split; [left|]; reflexivity.
  - destruct H as [-> ->]. split; [auto|]. right; left. exists (argn i 0). split; [left|]; reflexivity.
  - destruct H as [-> ->]. split; [auto|left; apply Hk0].
  - destruct H as [-> ->]. split; [auto|left; apply Hk0].
  - destruct H as [-> [n ->]]. split; [auto|]. left. exists (argn i 0), n. split; [left|]; reflexivity.
  - destruct H as [-> [n ->]]. split; [auto|]. left. exists (argn i 0), n. split; [left|]; reflexivity.
  - destruct H as [-> [->| ->]]; (split; [auto|]).
    + left. exists (argn i 0), (create_nonce i s). split; [left|]; reflexivity.
    + right; right; left. exists (argn i 0). split; [left|]; reflexivity.
  - destruct H as [Ha [n ->]]. split.
    + destruct (beqb (i_caller i) (i_rcpt i)); [destruct Ha as [->|[_ ->]]|subst a]; cbn [In]; auto.
    + left. exists (argn i 0), n. split; [left|]; reflexivity.
  - destruct H as [Ha Hk]. split.
    + destruct Ha as [->|[-> _]]; cbn [In]; auto.
    + destruct Hk as [->| ->]; [right; right; left|right; left]; exists (argn i 0); (split; [left|]; reflexivity).
  - destruct H as [-> [n ->]]. split; [auto|]. left. exists (argn i 0), n. split; [left|]; reflexivity.
  - destruct H as [-> [n ->]]. split; [auto|]. left. exists (argn i 0), n. split; [left|]; reflexivity.
  - destruct H as [Ha (x & n & Hx & ->)]. split.
    + destruct (beqb (i_caller i) (i_rcpt i)); [destruct Ha as [->|[_ ->]]|subst a]; cbn [In]; auto.
    + left. exists (rt_tok x), n. split; [apply in_map; exact Hx|reflexivity].
Qed.

Theorem footprint_shape E f i s a k : fp_cells (footprint E f i s) a k ->
  (a = i_caller i \/ a = i_rcpt i \/ a = SYS \/ In a (addr_args f i))
  /\ ((exists tok n, In tok (named_tokens f i) /\ k = nft_key (P ++ tok) n)
      \/ (exists tok, In tok (named_tokens f i) /\ k = RP ++ tok)
      \/ (exists tok, In tok (named_tokens f i) /\ k = NP ++ tok)
      \/ (f = C.BuiltInFunctionSaveKeyValue /\ a = i_caller i /\ prefix_of C.ElrondProtectedKeyPrefix k = false
          /\ exists v, In (k, v) (pairs_of (i_args i)))).
Proof.
  unfold footprint, fp_cells, named_tokens, addr_args. destruct (classify f) as [b|] eqn:Ec; cbn [fst]; [|contradiction].
  intros H. apply footprint_shape_b in H as [Ha Hk]. split; [exact Ha|].
  destruct Hk as [Hk|[Hk|[Hk|(-> & Hk)]]]; auto. right; right; right. split; [|exact Hk].
  apply classify_some in Ec. exact Ec.
Qed.
(* every key of a footprint except SaveKeyValue's lies in the protected namespace; SaveKeyValue's lie outside it *)
Corollary footprint_keys_protected E f i s a k : fp_cells (footprint E f i s) a k ->
  prefix_of C.ElrondProtectedKeyPrefix k = negb (beqb f C.BuiltInFunctionSaveKeyValue).
Proof.
  intros H. pose proof H as H0. apply footprint_shape in H as [_ Hk].
  assert (Hns : named_tokens f i <> [] -> beqb f C.BuiltInFunctionSaveKeyValue = false).
  { unfold named_tokens. destruct (classify f) as [b|] eqn:Ec; [|congruence]. apply classify_some in Ec. subst f.
    destruct b; cbn [named_tokens_b]; try congruence; intros _; vm_compute; reflexivity. }
  destruct Hk as [(tok & n & Hin & ->)|[(tok & Hin & ->)|[(tok & Hin & ->)|(-> & _ & Hp & _)]]].
  - rewrite Hns by (intros Hx; rewrite Hx in Hin; contradiction). apply nft_key_protected.
  - rewrite Hns by (intros Hx; rewrite Hx in Hin; contradiction). apply RP_protected.
  - rewrite Hns by (intros Hx; rewrite Hx in Hin; contradiction). apply NP_protected.
  - rewrite beqb_refl. exact Hp.
Qed.
(* the account-level functions have no storage footprint; the others have no account-field footprint *)
Lemma footprint_account_level E f i s :
  In f [C.BuiltInFunctionChangeOwnerAddress; C.BuiltInFunctionClaimDeveloperRewards; C.BuiltInFunctionSetUserName] ->
  forall a k, ~ fp_cells (footprint E f i s) a k.
Proof. cbn [In]. intros [<-|[<-|[<-|[]]]] a k H; exact H. Qed.
Lemma footprint_fields_only_account_level E f i s a : fp_accts (footprint E f i s) a ->
  In f [C.BuiltInFunctionChangeOwnerAddress; C.BuiltInFunctionClaimDeveloperRewards; C.BuiltInFunctionSetUserName]
  /\ (a = i_rcpt i \/ a = i_caller i).
Proof.
  unfold footprint, fp_accts. destruct (classify f) as [b|] eqn:Ec; cbn [snd]; [|contradiction].
  apply classify_some in Ec. subst f. destruct b; cbn [fp_accts_b bfn_name In]; try contradiction; intros H; split; tauto.
Qed.

(* ---- on Ok, the named tokens really are arguments of the call ---- *)
Lemma argn_In i n : (N.of_nat n < alen (i_args i))%N -> In (argn i n) (i_args i).
Proof. intros H. apply argn_nth_error in H. eapply nth_error_In; eauto. Qed.
Lemma multi_triples_tok_In fuel i off : forall idx x,
  (off + (idx + N.of_nat fuel) * 3 <= alen (i_args i))%N ->
  In x (multi_triples fuel i off idx) -> In (rt_tok x) (i_args i).
Proof.
  induction fuel as [|f IH]; intros idx x Hlen Hin; [destruct Hin|].
  cbn [multi_triples] in Hin. destruct Hin as [<-|Hin].
  - unfold rt_tok. cbn [fst]. apply argn_In. lia.
  - eapply (IH (idx + 1)%N); [lia|exact Hin].
Qed.

Theorem named_tokens_in_args_b E (Hc : codec_ok (cdc E)) b i s o s' :
  run_bfn E b i s = (Ok o, s') -> forall tok, In tok (named_tokens_b b i) -> In tok (i_args i).
Proof.
  assert (H0 : (1 <= alen (i_args i))%N -> forall tok, In tok [argn i 0] -> In tok (i_args i)).
  { intros Hl tok [<-|[]]. apply argn_In. lia. }
  assert (Hsup : forall sf, run_supply E sf i s = (Ok o, s') -> forall tok, In tok [argn i 0] -> In tok (i_args i)).
  { intros sf H. apply H0. apply (supply_common_guards E Hc) in H as (_ & _ & Hl & _). lia. }
  assert (Hargs : forall tok rest, i_args i = tok :: rest -> forall tok', In tok' [argn i 0] -> In tok' (i_args i)).
  { intros tok rest Ha. apply H0. rewrite Ha. unfold alen. cbn [length]. lia. }
  destruct b; cbn [run_bfn named_tokens_b]; intros H; try (intros ? Hx; solve [destruct Hx]).
  - apply pause_spec in H as (_ & tok & Ha & _). eapply Hargs; eauto.
  - apply pause_spec in H as (_ & tok & Ha & _). eapply Hargs; eauto.
  - apply (esdt_transfer_spec E Hc) in H. apply H0. pose proof (ep_nargs E _ _ _ _ H). lia.
  - apply (Hsup SEsdtBurn H).
  - apply (freeze_spec E Hc) in H as (_ & tok & t & Ha & _). eapply Hargs; eauto.
  - apply (freeze_spec E Hc) in H as (_ & tok & t & Ha & _). eapply Hargs; eauto.
  - apply (wipe_spec E Hc) in H as (_ & tok & t & Ha & _). eapply Hargs; eauto.
  - apply (roles_spec E Hc) in H as (_ & tok & rs & Ha & _). eapply Hargs; eauto.
  - apply (roles_spec E Hc) in H as (_ & tok & rs & Ha & _). eapply Hargs; eauto.
  - apply (Hsup SLocalBurn H).
  - apply (Hsup SLocalMint H).
  - apply (Hsup SNftAddQuantity H).
  - apply (Hsup SNftBurn H).
  - apply (Hsup SNftCreate H).
  - apply (nft_transfer_spec E Hc) in H as (_ & Hl & _). apply H0. lia.
  - apply (role_transfer_frame E Hc) in H as (tok & a1 & Ha & _). eapply Hargs; eauto.
  - apply (Hsup SNftUpdateAttributes H).
  - apply (Hsup SNftAddUri H).
  - intros tok Hin. apply in_map_iff in Hin as (x & <- & Hx). unfold multi_named in Hx.
    destruct (beqb_spec (i_caller i) (i_rcpt i)) as [Heq|Hne].
    + destruct (multi_sender_post E Hc _ _ _ _ H Heq) as (lst & Hp). destruct Hp.
      unfold multi_snd_triples in Hx. eapply multi_triples_tok_In; [|exact Hx]. rewrite N2Nat.id. lia.
    + destruct (multi_dest_post E Hc _ _ _ _ H Hne).
      unfold multi_dst_triples in Hx. eapply multi_triples_tok_In; [|exact Hx]. rewrite N2Nat.id. lia.
Qed.
Theorem exec_named_tokens_in_args E (Hc : codec_ok (cdc E)) f i s o s' :
  exec E f i s = (Ok o, s') -> forall tok, In tok (named_tokens f i) -> In tok (i_args i).
Proof.
  rewrite exec_classify. unfold named_tokens. destruct (classify f) as [b|].
  - apply named_tokens_in_args_b. exact Hc.
  - intros _ ? [].
Qed.

(* ================================================================== *)
(* 6. the sharp footprint: exact nonce, under consistent lookups (F4b)  *)
(* ================================================================== *)
Section Exact.
  Variable E : env.
  Hypothesis Hc : codec_ok (cdc E).

  (* a computable LIST of cells *)
  Definition fp_exact_b (b : bfn) (i : input) (s : mstate) : list (bytes * bytes) :=
    let tok := argn i 0 in
    let caller := i_caller i in
    let rcpt := i_rcpt i in
    match b with
    | BClaim | BChangeOwner | BSetUserName => []
    | BSaveKV => map (fun kv => (caller, fst kv)) (filter (fun kv => key_allowed (fst kv)) (pairs_of (i_args i)))
    | BPause | BUnPause => [(SYS, P ++ tok)]
    | BEsdtTransfer => (if i_snd i then [(caller, P ++ tok)] else []) ++ (if i_dst i then [(rcpt, P ++ tok)] else [])
    | BEsdtBurn | BLocalBurn | BLocalMint => [(caller, P ++ tok)]
    | BFreeze | BUnFreeze | BWipe => [(rcpt, P ++ tok)]
    | BUnSetRole | BSetRole => [(rcpt, RP ++ tok)]
    | BAddQuantity | BNftBurn | BUpdateAttributes | BAddUri => [(caller, nft_key (P ++ tok) (bigU64 (argn i 1)))]
    | BNftCreate => [(caller, nft_key (P ++ tok) (create_nonce i s)); (caller, NP ++ tok)]
    | BNftTransfer =>
        if beqb caller rcpt then
          (caller, nft_key (P ++ tok) (bigU64 (argn i 1)))
          :: (if nft_same E i then [(argn i 3, nft_key (P ++ tok) (bigU64 (argn i 1)))] else [])
        else match dec_tok (cdc E) (argn i 3) with
             | Some t => [(rcpt, nft_key (P ++ tok) (tok_nonce t))]       (* the nonce the delivered payload carries *)
             | None => []
             end
    | BRoleTransfer =>
        [(rcpt, NP ++ tok); (rcpt, RP ++ tok)]
        ++ (if (beqb caller SC && (shard_of E (argn i 1) =? self_shard E)%N)%bool
            then [(argn i 1, NP ++ tok); (argn i 1, RP ++ tok)] else [])
    | BMulti =>
        if beqb caller rcpt then
          flat_map (fun x => (caller, rt_cell x) :: (if multi_same E i then [(argn i 0, rt_cell x)] else []))
                   (multi_snd_triples i)
        else flat_map (fun x => map (fun kv => (rcpt, fst kv)) (rt_credit E x)) (multi_dst_triples i)
    end.
  Definition fp_exact (f : bytes) (i : input) (s : mstate) : list (bytes * bytes) :=
    match classify f with Some b => fp_exact_b b i s | None => [] end.

  (* F4b hypothesis: every entry the ORIGIN side looks up under (token id, nonce) carries that nonce in its metadata *)
  Definition fp_consistent_b (b : bfn) (i : input) (s : mstate) : Prop :=
    match b with
    | BAddQuantity | BNftBurn | BUpdateAttributes | BAddUri =>
        lookup_consistent E s (i_caller i) (P ++ argn i 0) (bigU64 (argn i 1))
    | BNftTransfer => i_caller i = i_rcpt i -> lookup_consistent E s (i_caller i) (P ++ argn i 0) (bigU64 (argn i 1))
    | BMulti => i_caller i = i_rcpt i -> triples_consistent E s (i_caller i) (multi_snd_triples i)
    | _ => True
    end.
  Definition fp_consistent (f : bytes) (i : input) (s : mstate) : Prop :=
    match classify f with Some b => fp_consistent_b b i s | None => True end.

  (* the chain of sender-side steps under consistent lookups: exactly the addressed cells *)
  Lemma snd_steps_frame_exact caller dst dstLocal verify rae trs s s' lst :
    dst <> caller ->
    snd_steps E caller dst dstLocal verify rae trs s s' lst ->
    triples_consistent E s caller trs ->
    unchanged_except (fun a k => (a = caller \/ (dstLocal = true /\ a = dst)) /\ exists x, In x trs /\ k = rt_cell x)
                     (fun _ => False) s s'.
  Proof.
    intros Hne Hs. induction Hs as [s|x rest s s1 s' t t2 l Hp Hs IH]; intros Hcons.
    - apply unchanged_except_refl.
    - inversion Hcons as [|x0 r0 Hx Hrest]; subst.
      assert (Hpp := Hp). destruct Hpp. destruct os_debit as (s0 & D & _).
      assert (Htn : tok_nonce t = rt_nonce x) by (apply Hx; apply (db_entry E _ _ _ _ _ _ _ _ D)).
      assert (Hcons1 : triples_consistent E s1 caller rest).
      { unfold triples_consistent in *. rewrite Forall_forall in *. intros y Hy.
        eapply one_snd_post_consistent; eauto. }
      eapply unchanged_except_trans.
      + eapply unchanged_except_weaken; [| |exact os_frame]; [|auto]. intros a k [-> Ha]. split; [exact Ha|].
        exists x. split; [left; reflexivity|]. unfold rt_cell. rewrite Htn. reflexivity.
      + eapply unchanged_except_weaken; [| |exact (IH Hcons1)]; [|auto]. intros a k [Ha (y & Hy & ->)]. split; [exact Ha|].
        exists y. split; [right; exact Hy|reflexivity].
  Qed.
  (* destination side: the cells the delivered triples credit *)
  Lemma dst_steps_frame_exact rcpt verify rae trs s s' :
    dst_steps E rcpt verify rae trs s s' ->
    unchanged_except (fun a k => a = rcpt /\ exists x, In x trs /\ In k (map fst (rt_credit E x))) (fun _ => False) s s'.
  Proof.
    intros Hs. induction Hs as [s|x rest s s1 s' Hp Hs IH]; [apply unchanged_except_refl|].
    destruct Hp. eapply unchanged_except_trans.
    - destruct (0 <? rt_nonce x)%N eqn:En.
      + destruct od_nft as (t & Hd & _ & Hv & _ & _ & _ & _ & _ & Hue); [apply N.ltb_lt; exact En|].
        eapply unchanged_except_weaken; [| |exact Hue]; [|auto]. intros a k [-> ->]. split; [reflexivity|].
        exists x. split; [left; reflexivity|]. unfold rt_credit. rewrite En, Hd, Hv. left. reflexivity.
      + destruct od_fungible as (_ & _ & _ & Hue); [apply N.ltb_ge in En; lia|].
        eapply unchanged_except_weaken; [| |exact Hue]; [|auto]. intros a k [-> ->]. split; [reflexivity|].
        exists x. split; [left; reflexivity|]. unfold rt_credit. rewrite En. left. reflexivity.
    - eapply unchanged_except_weaken; [| |exact IH]; [|auto]. intros a k [Ha (y & Hy & Hk)]. split; [exact Ha|].
      exists y. split; [right; exact Hy|exact Hk].
  Qed.

  Theorem frame_exact_b b i s o s' : run_bfn E b i s = (Ok o, s') -> fp_consistent_b b i s ->
    unchanged_except (fun a k => In (a, k) (fp_exact_b b i s)) (fp_accts_b b i) s s'.
  Proof.
    intros H Hl.
    (* the functions whose general footprint is already exact *)
    assert (Hgen : (forall a k, fp_cells_b E b i s a k -> In (a, k) (fp_exact_b b i s)) ->
                   unchanged_except (fun a k => In (a, k) (fp_exact_b b i s)) (fp_accts_b b i) s s').
    { intros Hsub. eapply unchanged_except_weaken; [exact Hsub| |apply (frame_b E Hc _ _ _ _ _ H)]. auto. }
    assert (Hsup : forall sf, run_supply E sf i s = (Ok o, s') -> supply_consistent E sf i s ->
                   (forall k, In k (supply_cells sf i s) -> In (i_caller i, k) (fp_exact_b b i s)) -> fp_accts_b b i = (fun _ => False) ->
                   unchanged_except (fun a k => In (a, k) (fp_exact_b b i s)) (fp_accts_b b i) s s').
    { intros sf Hr Hcs Hsub ->. eapply unchanged_except_weaken; [| |apply (supply_frame_exact E Hc _ _ _ _ _ Hr Hcs)]; [|auto].
      intros a k [-> Hin]. apply Hsub. exact Hin. }
    destruct b; cbn [run_bfn fp_consistent_b] in H, Hl.
    - apply Hgen. cbn [fp_cells_b]. contradiction.
    - apply Hgen. cbn [fp_cells_b]. contradiction.
    - apply Hgen. cbn [fp_cells_b]. contradiction.
    - apply Hgen. cbn [fp_cells_b fp_exact_b]. cbv zeta. intros a k (-> & Hk & v & Hin).
      apply in_map_iff. exists (k, v). split; [reflexivity|]. apply filter_In. split; [exact Hin|exact Hk].
    - apply Hgen. cbn [fp_cells_b fp_exact_b]. cbv zeta. intros a k [-> ->]. left. reflexivity.
    - apply Hgen. cbn [fp_cells_b fp_exact_b]. cbv zeta. intros a k [-> ->]. left. reflexivity.
    - apply Hgen. cbn [fp_cells_b fp_exact_b]. cbv zeta. intros a k [-> [[-> ->]|[-> ->]]]; apply in_or_app; [left|right]; left; reflexivity.
    - apply Hgen. cbn [fp_cells_b fp_exact_b]. cbv zeta. intros a k [-> ->]. left. reflexivity.
    - apply Hgen. cbn [fp_cells_b fp_exact_b]. cbv zeta. intros a k [-> ->]. left. reflexivity.
    - apply Hgen. cbn [fp_cells_b fp_exact_b]. cbv zeta. intros a k [-> ->]. left. reflexivity.
    - apply Hgen. cbn [fp_cells_b fp_exact_b]. cbv zeta. intros a k [-> ->]. left. reflexivity.
    - apply Hgen. cbn [fp_cells_b fp_exact_b]. cbv zeta. intros a k [-> ->]. left. reflexivity.
    - apply Hgen. cbn [fp_cells_b fp_exact_b]. cbv zeta. intros a k [-> ->]. left. reflexivity.
    - apply Hgen. cbn [fp_cells_b fp_exact_b]. cbv zeta. intros a k [-> ->]. left. reflexivity.
    - apply Hgen. cbn [fp_cells_b fp_exact_b]. cbv zeta. intros a k [-> ->]. left. reflexivity.
    - apply (Hsup SNftAddQuantity H Hl); [|reflexivity]. cbn. intros k [<-|[]]. left. reflexivity.
    - apply (Hsup SNftBurn H Hl); [|reflexivity]. cbn. intros k [<-|[]]. left. reflexivity.
    - apply Hgen. cbn [fp_cells_b fp_exact_b]. cbv zeta. intros a k [-> [->| ->]]; [left|right; left]; reflexivity.
    - (* NFT transfer *)
      cbn [fp_exact_b fp_accts_b]. cbv zeta. destruct (beqb_spec (i_caller i) (i_rcpt i)) as [Heq|Hne].
      + destruct (nft_sender_post E Hc _ _ _ _ H Heq) as (t & Hp). destruct Hp.
        destruct ns_debit as (s1 & D & _).
        assert (Htn : tok_nonce t = bigU64 (argn i 1)) by (apply (Hl Heq); apply (db_entry E _ _ _ _ _ _ _ _ D)).
        eapply unchanged_except_weaken; [| |exact ns_frame]; [|auto].
        intros a k [-> Ha]. unfold nft_full, nft_tkey. rewrite Htn.
        destruct Ha as [->|[Hs ->]]; [left; reflexivity|right]. rewrite Hs. left. reflexivity.
      + destruct (nft_dest_post E Hc _ _ _ _ H Hne) as (t & Hp). destruct Hp.
        rewrite nd_dec. eapply unchanged_except_weaken; [| |exact nd_frame]; [|auto].
        intros a k [-> ->]. left. reflexivity.
    - (* create-role transfer *)
      apply Hgen. cbn [fp_cells_b fp_exact_b]. cbv zeta. intros a k [Ha Hk]. apply in_or_app.
      destruct Ha as [->|(-> & Hsc & Hsh)].
      + left. destruct Hk as [->| ->]; [left|right; left]; reflexivity.
      + right. rewrite Hsc, beqb_refl, Hsh, N.eqb_refl. cbn [andb].
        destruct Hk as [->| ->]; [left|right; left]; reflexivity.
    - apply (Hsup SNftUpdateAttributes H Hl); [|reflexivity]. cbn. intros k [<-|[]]. left. reflexivity.
    - apply (Hsup SNftAddUri H Hl); [|reflexivity]. cbn. intros k [<-|[]]. left. reflexivity.
    - (* multi transfer *)
      cbn [fp_exact_b fp_accts_b]. cbv zeta. destruct (beqb_spec (i_caller i) (i_rcpt i)) as [Heq|Hne].
      + destruct (multi_sender_post E Hc _ _ _ _ H Heq) as (lst & Hp). destruct Hp.
        destruct mp_steps as (s0 & s1 & Q0 & Hs & Q1).
        assert (Hcons0 : triples_consistent E s0 (i_caller i) (multi_snd_triples i)).
        { specialize (Hl Heq). unfold triples_consistent in *. rewrite Forall_forall in *. intros x Hx t Ht.
          apply (Hl x Hx). rewrite <- Ht. symmetry. apply (silent_tok_at E _ _ _ _ Q0). }
        pose proof (snd_steps_frame_exact _ _ _ _ _ _ _ _ _ mp_dst_ne Hs Hcons0) as Hue.
        eapply unchanged_except_trans; [apply (silent_unchanged E _ _ _ _ Q0)|].
        eapply unchanged_except_trans; [|apply (silent_unchanged E _ _ _ _ Q1)].
        eapply unchanged_except_weaken; [| |exact Hue]; [|auto]. intros a k [Ha (x & Hx & ->)].
        apply in_flat_map. exists x. split; [exact Hx|].
        destruct Ha as [->|[Hsm ->]]; [left; reflexivity|right]. rewrite Hsm. left. reflexivity.
      + destruct (multi_dest_post E Hc _ _ _ _ H Hne). destruct mq_steps as (s0 & Q0 & Hs).
        pose proof (dst_steps_frame_exact _ _ _ _ _ _ Hs) as Hue.
        eapply unchanged_except_trans; [apply (silent_unchanged E _ _ _ _ Q0)|].
        eapply unchanged_except_weaken; [| |exact Hue]; [|auto]. intros a k [-> (x & Hx & Hk)].
        apply in_flat_map. exists x. split; [exact Hx|]. apply in_map_iff in Hk as (kv & <- & Hkv).
        apply in_map_iff. exists kv. split; [reflexivity|exact Hkv].
  Qed.

  (* the sharp frame theorem *)
  Theorem exec_frame_exact f i s o s' : exec E f i s = (Ok o, s') -> fp_consistent f i s ->
    unchanged_except (fun a k => In (a, k) (fp_exact f i s)) (fp_accts (footprint E f i s)) s s'.
  Proof.
    rewrite exec_classify. unfold fp_consistent, fp_exact, footprint, fp_accts. destruct (classify f) as [b|].
    - cbn [snd]. apply frame_exact_b.
    - intros H. apply fail_ok in H. contradiction.
  Qed.

  (* the sharp footprint lies inside the general one *)
  Theorem fp_exact_sub_b b i s a k : In (a, k) (fp_exact_b b i s) -> fp_cells_b E b i s a k.
  Proof.
    destruct b; cbn [fp_exact_b fp_cells_b]; cbv zeta; try (intros Hx; solve [destruct Hx]).
    - intros H. apply in_map_iff in H as ([k' v] & Heq & Hf). cbn [fst] in Heq. inversion Heq; subst.
      apply filter_In in Hf as [Hin Hk]. cbn [fst] in Hk. split; [reflexivity|]. split; [exact Hk|eauto].
    - intros [[= <- <-]|[]]. auto.
    - intros [[= <- <-]|[]]. auto.
    - intros H. apply in_app_or in H as [H|H].
      + destruct (i_snd i) eqn:Es; [|destruct H]. destruct H as [[= <- <-]|[]]. auto.
      + destruct (i_dst i) eqn:Ed; [|destruct H]. destruct H as [[= <- <-]|[]]. auto.
    - intros [[= <- <-]|[]]. auto.
    - intros [[= <- <-]|[]]. auto.
    - intros [[= <- <-]|[]]. auto.
    - intros [[= <- <-]|[]]. auto.
    - intros [[= <- <-]|[]]. auto.
    - intros [[= <- <-]|[]]. auto.
    - intros [[= <- <-]|[]]. auto.
    - intros [[= <- <-]|[]]. auto.
    - intros [[= <- <-]|[]]. eauto.
    - intros [[= <- <-]|[]]. eauto.
    - intros [[= <- <-]|[[= <- <-]|[]]]; auto.
    - destruct (beqb (i_caller i) (i_rcpt i)).
      + intros [[= <- <-]|H]; [split; [left; reflexivity|eauto]|].
        destruct (nft_same E i) eqn:Es; [|destruct H]. destruct H as [[= <- <-]|[]].
        split; [right|eauto]. split; [|reflexivity]. unfold nft_same in Es. apply self_eqb_shard in Es. exact Es.
      + destruct (dec_tok (cdc E) (argn i 3)) as [t|]; [|intros []]. intros [[= <- <-]|[]]. split; [reflexivity|eauto].
    - intros H. apply in_app_or in H as [H|H].
      + destruct H as [[= <- <-]|[[= <- <-]|[]]]; auto.
      + destruct (beqb_spec (i_caller i) SC) as [Hsc|_]; cbn [andb] in H; [|destruct H].
        destruct (shard_of E (argn i 1) =? self_shard E)%N eqn:Es; [|destruct H]. apply N.eqb_eq in Es.
        destruct H as [[= <- <-]|[[= <- <-]|[]]]; (split; [right; auto|auto]).
    - intros [[= <- <-]|[]]. eauto.
    - intros [[= <- <-]|[]]. eauto.
    - unfold multi_named. destruct (beqb (i_caller i) (i_rcpt i)).
      + intros H. apply in_flat_map in H as (x & Hx & H).
        destruct H as [[= <- <-]|H]; [split; [left; reflexivity|exists x, (rt_nonce x); auto]|].
        destruct (multi_same E i) eqn:Es; [|destruct H]. destruct H as [[= <- <-]|[]].
        split; [right|exists x, (rt_nonce x); auto]. split; [|reflexivity].
        unfold multi_same in Es. apply self_eqb_shard in Es. exact Es.
      + intros H. apply in_flat_map in H as (x & Hx & H). apply in_map_iff in H as (kv & Heq & Hkv).
        inversion Heq; subst. split; [reflexivity|]. exists x. unfold rt_credit in Hkv.
        destruct (0 <? rt_nonce x)%N.
        * destruct (dec_tok (cdc E) (rt_third x)) as [t|]; [|destruct Hkv].
          destruct (t_value t); [|destruct Hkv]. destruct Hkv as [<-|[]]. exists (tok_nonce t). auto.
        * destruct Hkv as [<-|[]]. exists 0%N. split; [exact Hx|]. symmetry. apply nft_key_0.
  Qed.
  Theorem fp_exact_sub f i s a k : In (a, k) (fp_exact f i s) -> fp_cells (footprint E f i s) a k.
  Proof.
    unfold fp_exact, footprint, fp_cells. destruct (classify f) as [b|]; cbn [fst]; [apply fp_exact_sub_b|intros []].
  Qed.
End Exact.

Print Assumptions exec_classify.
Print Assumptions exec_frame.
Print Assumptions exec_frame_fields.
Print Assumptions footprint_shape.
Print Assumptions footprint_keys_protected.
Print Assumptions exec_named_tokens_in_args.
Print Assumptions exec_frame_exact.
Print Assumptions fp_exact_sub.
