(* C04 — non-vacuity and counter-examples, evaluated by vm_compute on a concrete environment whose codec is
   [ideal_codec] (which satisfies [codec_ok]: Codec/CodecOk.v).
     ex_*          the gates are real (a frozen sender cannot transfer, a paused token blocks mint, ...), the
                   exceptions are real (return-after-error refund, the system contract's own account), and the
                   hypotheses of the theorems are jointly satisfiable
     *_refuted     each exclusion in the statement of frozen_no_balance_change is necessary: a concrete call that
                   satisfies every other hypothesis and changes the balance of a frozen entry
                   (F8: ESDTPause over a holding of the system account; the NFT-create slot; F4b) *)
From Coq.Strings Require Import String.
From EV Require Import Base.Bytes Base.Store Base.Monad gen.Consts Codec.Types Codec.Proto Codec.Ideal Codec.CodecOk
  Helpers.Helpers Ledger.Types Ledger.Env Ledger.Funcs Ledger.Transfers Corr.Exec
  LedgerProofs.Defs LedgerProofs.EnvSpec LedgerProofs.Spec_Transfers_Base LedgerProofs.Spec_Transfers_Multi
  LedgerProofs.Spec_Supply LedgerProofs.C04_Core LedgerProofs.C04_Toggle LedgerProofs.C04_Sim.

Definition alice : bytes := repeat x01 32.
Definition carol : bytes := repeat x03 32.
Definition tokA : bytes := str "TOK-a1b2c3"%string.
(* an identifier that extends tokA by the byte 0x0a = the nonce bytes of 10: P ++ tokA10 = nft_key (P ++ tokA) 10 *)
Definition tokA10 : bytes := tokA ++ u64_bytes 10.

Definition cfg0 : xcfg :=
  {| xc_shards := []; xc_shard_default := 0%N; xc_pay := []; xc_pay_default := 0%N;
     xc_dns := []; xc_enable := false; xc_gas := repeat 10%N 22 |}.
Definition EI : env :=
  let E0 := env_of cfg0 0%N None in
  {| plan := plan E0; cdc := ideal_codec; shard_of := shard_of E0; self_shard := self_shard E0;
     payable := payable E0; dns := dns E0; enable_change := enable_change E0; gas := gas E0 |}.
Lemma EI_ok : codec_ok (cdc EI). Proof. exact ideal_codec_ok. Qed.

Definition tk (v : Z) (props : bytes) : token :=
  {| t_type := C.Fungible; t_value := Some v; t_props := props; t_meta := None; t_reserved := [] |}.
Definition nft (v : Z) (props : bytes) (nonce : N) : token :=
  {| t_type := C.NonFungible; t_value := Some v; t_props := props;
     t_meta := Some {| md_nonce := nonce; md_name := []; md_creator := alice; md_royalties := 0; md_hash := [];
                       md_uris := []; md_attributes := [] |};
     t_reserved := [] |}.
Definition mkacct (st : list (bytes * bytes)) : acctl :=
  {| al_store := st; al_balance := 0; al_owner := []; al_username := []; al_reward := 0 |}.
Definition mkin (caller rcpt : bytes) (args : list bytes) (snd dst rae : bool) : input :=
  {| i_caller := caller; i_rcpt := rcpt; i_args := args; i_value := 0; i_gas := 100000; i_gasLocked := 0;
     i_callType := C.DirectCall; i_rae := rae; i_snd := snd; i_dst := dst |}.
Definition roles_all : bytes :=
  enc_roles [C.ESDTRoleLocalMint; C.ESDTRoleLocalBurn; C.ESDTRoleNFTCreate; C.ESDTRoleNFTAddQuantity; C.ESDTRoleNFTBurn].

Definition is_ok {A} (r : res err A * mstate) : bool := match r with (Ok _, _) => true | _ => false end.
Definition post {A} (r : res err A * mstate) : mstate := snd r.
Definition err_is {A} (r : res err A * mstate) (e : err) : Prop := fst r = Err e.

(* ---- states ---- *)
(* alice holds 5 tokA, FROZEN; carol holds 5 tokA, not frozen; nobody paused *)
Definition s_frozen : mstate :=
  state_of [(alice, mkacct [(P ++ tokA, enc_token (tk 5 (flag_bytes true))); (RP ++ tokA, roles_all)]);
            (carol, mkacct [(P ++ tokA, enc_token (tk 5 []))])].
(* nobody frozen; tokA PAUSED on this shard *)
Definition s_paused : mstate :=
  state_of [(alice, mkacct [(P ++ tokA, enc_token (tk 5 [])); (RP ++ tokA, roles_all)]);
            (carol, mkacct [(P ++ tokA, enc_token (tk 5 []))]);
            (SYS, mkacct [(P ++ tokA, flag_bytes true)])].
(* the same without the flag *)
Definition s_plain : mstate :=
  state_of [(alice, mkacct [(P ++ tokA, enc_token (tk 5 [])); (RP ++ tokA, roles_all)]);
            (carol, mkacct [(P ++ tokA, enc_token (tk 5 []))])].

Example ex_states :
  frozen_at EI s_frozen alice (P ++ tokA) = true /\ frozen_at EI s_frozen carol (P ++ tokA) = false
  /\ paused_at s_paused (P ++ tokA) = true /\ paused_at s_plain (P ++ tokA) = false
  /\ balance EI s_frozen alice (P ++ tokA) = 5%Z.
Proof. vm_compute. repeat split. Qed.

Definition TR := C.BuiltInFunctionESDTTransfer.
Definition one : bytes := [x01].

(* ---- 1. a frozen sender cannot transfer; a frozen receiver cannot receive; the same calls pass unfrozen ---- *)
Example ex_frozen_sender_cannot_transfer :
  err_is (exec EI TR (mkin alice carol [tokA; one] true true false) s_frozen) EFrozenForAccount.
Proof. vm_compute. reflexivity. Qed.
Example ex_frozen_receiver_cannot_receive :
  err_is (exec EI TR (mkin carol alice [tokA; one] true true false) s_frozen) EFrozenForAccount.
Proof. vm_compute. reflexivity. Qed.
Example ex_frozen_cannot_mint_or_burn :
  err_is (exec EI C.BuiltInFunctionESDTLocalMint (mkin alice alice [tokA; one] true true false) s_frozen) EFrozenForAccount
  /\ err_is (exec EI C.BuiltInFunctionESDTLocalBurn (mkin alice alice [tokA; one] true true false) s_frozen) EFrozenForAccount.
Proof. vm_compute. split; reflexivity. Qed.
Example ex_unfrozen_transfer_ok :
  let r := exec EI TR (mkin alice carol [tokA; one] true true false) s_plain in
  is_ok r = true /\ balance EI (post r) alice (P ++ tokA) = 4%Z /\ balance EI (post r) carol (P ++ tokA) = 6%Z.
Proof. vm_compute. repeat split. Qed.

(* ---- 2. a paused token blocks mint, burn and transfers; the same calls pass unpaused ---- *)
Example ex_paused_blocks_mint :
  err_is (exec EI C.BuiltInFunctionESDTLocalMint (mkin alice alice [tokA; one] true true false) s_paused) ETokenIsPaused.
Proof. vm_compute. reflexivity. Qed.
Example ex_paused_blocks_transfer :
  err_is (exec EI TR (mkin alice carol [tokA; one] true true false) s_paused) ETokenIsPaused.
Proof. vm_compute. reflexivity. Qed.
Example ex_paused_blocks_create :
  err_is (exec EI C.BuiltInFunctionESDTNFTCreate (mkin alice alice [tokA; one; []; []; []; []; []] true true false) s_paused)
         ETokenIsPaused.
Proof. vm_compute. reflexivity. Qed.
Example ex_unpaused_mint_ok :
  let r := exec EI C.BuiltInFunctionESDTLocalMint (mkin alice alice [tokA; one] true true false) s_plain in
  is_ok r = true /\ balance EI (post r) alice (P ++ tokA) = 6%Z.
Proof. vm_compute. repeat split. Qed.

(* ---- 3. the exceptions are real ---- *)
(* a refund flagged return-after-error is credited although the token is paused (destination side of a
   cross-shard ESDTTransfer, i_rae = true) — and although the receiving entry is frozen *)
Example ex_rae_refund_succeeds_while_paused :
  let r := exec EI TR (mkin carol alice [tokA; one] false true true) s_paused in
  is_ok r = true /\ balance EI (post r) alice (P ++ tokA) = 6%Z.
Proof. vm_compute. repeat split. Qed.
Example ex_rae_refund_succeeds_while_frozen :
  let r := exec EI TR (mkin carol alice [tokA; one] false true true) s_frozen in
  is_ok r = true /\ balance EI (post r) alice (P ++ tokA) = 6%Z.
Proof. vm_compute. repeat split. Qed.
(* without the flag the same delivery is refused *)
Example ex_delivery_refused_while_paused :
  err_is (exec EI TR (mkin carol alice [tokA; one] false true false) s_paused) ETokenIsPaused.
Proof. vm_compute. reflexivity. Qed.
(* the system contract's own account is exempt: a delivery to SC is credited while the token is paused *)
Example ex_sc_account_exempt :
  let r := exec EI TR (mkin carol SC [tokA; one] false true false) s_paused in
  is_ok r = true /\ balance EI (post r) SC (P ++ tokA) = 1%Z.
Proof. vm_compute. repeat split. Qed.
(* wipe by the system contract empties a frozen entry (also while the token is paused) *)
Definition s_frozen_paused : mstate :=
  state_of [(alice, mkacct [(P ++ tokA, enc_token (tk 5 (flag_bytes true)))]); (SYS, mkacct [(P ++ tokA, flag_bytes true)])].
Example ex_wipe_changes_frozen_paused_balance :
  let r := exec EI C.BuiltInFunctionESDTWipe (mkin SC alice [tokA] false true false) s_frozen_paused in
  is_ok r = true /\ balance EI s_frozen_paused alice (P ++ tokA) = 5%Z /\ balance EI (post r) alice (P ++ tokA) = 0%Z.
Proof. vm_compute. repeat split. Qed.

(* ---- 4. the hypotheses of the two theorems are jointly satisfiable, and the conclusion is instantiated ---- *)
Definition dave : bytes := repeat x04 32.
Definition in_cd := mkin carol dave [tokA; one] true true false.
Example ex_other_transfer_ok : is_ok (exec EI TR in_cd s_frozen) = true.
Proof. vm_compute. reflexivity. Qed.
Example inst_frozen_no_balance_change :
  exists o s', exec EI TR in_cd s_frozen = (Ok o, s')
    /\ frozen_at EI s_frozen alice (P ++ tokA) = true
    /\ balance EI s' alice (P ++ tokA) = balance EI s_frozen alice (P ++ tokA)
    /\ balance EI s' carol (P ++ tokA) = 4%Z.
Proof.
  destruct (exec EI TR in_cd s_frozen) as [[o| |] s'] eqn:Hx;
    try (exfalso; pose proof ex_other_transfer_ok as Hk; rewrite Hx in Hk; discriminate).
  exists o, s'. split; [reflexivity|]. split; [vm_compute; reflexivity|]. split.
  - eapply (frozen_no_balance_change EI EI_ok); [exact Hx| | | | | | | ].
    + vm_compute. reflexivity.
    + reflexivity.
    + intros H. vm_compute in H. discriminate.
    + constructor.
    + intros (H & _). vm_compute in H. discriminate.
    + intros ([H|H] & _); vm_compute in H; discriminate.
    + intros (H & _). vm_compute in H. discriminate.
  - assert (Hs : s' = post (exec EI TR in_cd s_frozen)) by (rewrite Hx; reflexivity). rewrite Hs. vm_compute. reflexivity.
Qed.
(* a paused token: a transfer of ANOTHER token goes through and leaves every balance of the paused token alone *)
Definition tokB : bytes := str "OTH-010203"%string.
Definition s_paused2 : mstate :=
  state_of [(alice, mkacct [(P ++ tokA, enc_token (tk 5 [])); (P ++ tokB, enc_token (tk 9 []))]);
            (SYS, mkacct [(P ++ tokA, flag_bytes true)])].
Definition in_b := mkin alice carol [tokB; one] true true false.
Example ex_other_token_ok : is_ok (exec EI TR in_b s_paused2) = true.
Proof. vm_compute. reflexivity. Qed.
Example inst_paused_no_balance_change :
  exists o s', exec EI TR in_b s_paused2 = (Ok o, s')
    /\ paused_at s_paused2 (P ++ tokA) = true
    /\ (forall a n, a <> SC -> balance EI s' a (nft_key (P ++ tokA) n) = balance EI s_paused2 a (nft_key (P ++ tokA) n))
    /\ balance EI s' carol (P ++ tokB) = 1%Z.
Proof.
  destruct (exec EI TR in_b s_paused2) as [[o| |] s'] eqn:Hx;
    try (exfalso; pose proof ex_other_token_ok as Hk; rewrite Hx in Hk; discriminate).
  exists o, s'. split; [reflexivity|]. split; [vm_compute; reflexivity|]. split.
  - intros a n Ha. eapply (paused_token_no_balance_change EI EI_ok); [exact Hx|reflexivity|vm_compute; reflexivity| |exact Ha| | ].
    + intros tok2 r Hin Hx2. change (named_tokens TR in_b) with [tokB] in Hin. destruct Hin as [<-|[]].
      exfalso. assert (Hh : hd x00 (tokA ++ u64_bytes n) = hd x00 (tokB ++ r)) by (rewrite Hx2; reflexivity).
      vm_compute in Hh. discriminate.
    + intros (H & _). vm_compute in H. discriminate.
    + intros ([H|H] & _); vm_compute in H; discriminate.
  - assert (Hs : s' = post (exec EI TR in_b s_paused2)) by (rewrite Hx; reflexivity). rewrite Hs. vm_compute. reflexivity.
Qed.

(* ---- 5. each exclusion of frozen_no_balance_change is necessary ---- *)
(* the statement "all hypotheses but exclusion X hold, and the balance of the frozen entry changed" *)
Definition frozen_violation (E : env) f i s a x : Prop :=
  exists o s', exec E f i s = (Ok o, s')
    /\ frozen_at E s a (P ++ x) = true /\ i_rae i = false /\ a <> SC
    /\ balance E s' a (P ++ x) <> balance E s a (P ++ x).

(* F8: the system account holds 100 tokA, frozen; ESDTPause(tokA) by the system contract overwrites the entry *)
Definition s_sys_holding : mstate := state_of [(SYS, mkacct [(P ++ tokA, enc_token (tk 100 (flag_bytes true)))])].
Definition in_pause := mkin SC SYS [tokA] false false false.
Example frozen_no_balance_change_refuted :
  frozen_violation EI C.BuiltInFunctionESDTPause in_pause s_sys_holding SYS tokA
  /\ lookups_consistent EI C.BuiltInFunctionESDTPause in_pause s_sys_holding
  /\ balance EI s_sys_holding SYS (P ++ tokA) = 100%Z.
Proof.
  split; [|split; [constructor|vm_compute; reflexivity]].
  destruct (exec EI C.BuiltInFunctionESDTPause in_pause s_sys_holding) as [[o| |] s'] eqn:Hx;
    try (exfalso; assert (Hk : is_ok (exec EI C.BuiltInFunctionESDTPause in_pause s_sys_holding) = true)
           by (vm_compute; reflexivity); rewrite Hx in Hk; discriminate).
  exists o, s'. split; [exact Hx|]. split; [vm_compute; reflexivity|]. split; [reflexivity|].
  split; [intros H; vm_compute in H; discriminate|].
  assert (Hs : s' = post (exec EI C.BuiltInFunctionESDTPause in_pause s_sys_holding)) by (rewrite Hx; reflexivity).
  rewrite Hs. vm_compute. discriminate.
Qed.

(* the create slot: alice is frozen for the fungible token tokA10 = tokA ‖ 0x0a (5 units) and holds the create role
   of tokA with counter 9: ESDTNFTCreate(tokA) writes its new entry (nonce 10) over the frozen holding *)
Definition s_slot : mstate :=
  state_of [(alice, mkacct [(P ++ tokA10, enc_token (tk 5 (flag_bytes true))); (RP ++ tokA, roles_all);
                            (NP ++ tokA, u64_bytes 9)])].
Definition in_create := mkin alice alice [tokA; [x02]; []; []; []; []; []] true true false.
Example frozen_no_balance_change_create_refuted :
  frozen_violation EI C.BuiltInFunctionESDTNFTCreate in_create s_slot alice tokA10
  /\ lookups_consistent EI C.BuiltInFunctionESDTNFTCreate in_create s_slot
  /\ tokA10 = argn in_create 0 ++ u64_bytes (create_nonce in_create s_slot).
Proof.
  split; [|split; [constructor|vm_compute; reflexivity]].
  destruct (exec EI C.BuiltInFunctionESDTNFTCreate in_create s_slot) as [[o| |] s'] eqn:Hx;
    try (exfalso; assert (Hk : is_ok (exec EI C.BuiltInFunctionESDTNFTCreate in_create s_slot) = true)
           by (vm_compute; reflexivity); rewrite Hx in Hk; discriminate).
  exists o, s'. split; [exact Hx|]. split; [vm_compute; reflexivity|]. split; [reflexivity|].
  split; [intros H; vm_compute in H; discriminate|].
  assert (Hs : s' = post (exec EI C.BuiltInFunctionESDTNFTCreate in_create s_slot)) by (rewrite Hx; reflexivity).
  rewrite Hs. vm_compute. discriminate.
Qed.

(* F4b: under nonce 5 alice holds a misfiled entry whose metadata says nonce 7 (3 units, not frozen); her entry
   under nonce 7 (2 units) is frozen: ESDTNFTAddQuantity(tokA, 5, 1) saves the entry read under nonce 5 back
   under nonce 7, over the frozen one *)
Definition s_f4b : mstate :=
  state_of [(alice, mkacct [(nft_key (P ++ tokA) 5, enc_token (nft 3 [] 7));
                            (nft_key (P ++ tokA) 7, enc_token (nft 2 (flag_bytes true) 7));
                            (RP ++ tokA, roles_all)])].
Definition in_addq := mkin alice alice [tokA; [x05]; one] true true false.
Example frozen_no_balance_change_f4b_refuted :
  frozen_violation EI C.BuiltInFunctionESDTNFTAddQuantity in_addq s_f4b alice (tokA ++ u64_bytes 7)
  /\ ~ lookups_consistent EI C.BuiltInFunctionESDTNFTAddQuantity in_addq s_f4b.
Proof.
  split.
  - destruct (exec EI C.BuiltInFunctionESDTNFTAddQuantity in_addq s_f4b) as [[o| |] s'] eqn:Hx;
      try (exfalso; assert (Hk : is_ok (exec EI C.BuiltInFunctionESDTNFTAddQuantity in_addq s_f4b) = true)
             by (vm_compute; reflexivity); rewrite Hx in Hk; discriminate).
    exists o, s'. split; [exact Hx|]. split; [vm_compute; reflexivity|]. split; [reflexivity|].
    split; [intros H; vm_compute in H; discriminate|].
    assert (Hs : s' = post (exec EI C.BuiltInFunctionESDTNFTAddQuantity in_addq s_f4b)) by (rewrite Hx; reflexivity).
    rewrite Hs. vm_compute. discriminate.
  - intros H. apply Forall_inv in H. cbn [fst snd] in H.
    specialize (H (nft 3 [] 7)). assert (Ht : tok_at EI s_f4b alice (nft_key (P ++ tokA) 5) = Some (nft 3 [] 7))
      by (vm_compute; reflexivity).
    specialize (H Ht). vm_compute in H. discriminate.
Qed.

(* ---- 6. what the frozen flag does NOT cover: it lives in ONE entry.  Freezing alice's fungible entry P ++ tokA
   does not gate her NFT entries nft_key (P ++ tokA) n: create under the same identifier goes through ---- *)
Definition s_frozen_creator : mstate :=
  state_of [(alice, mkacct [(P ++ tokA, enc_token (tk 5 (flag_bytes true))); (RP ++ tokA, roles_all)])].
Example ex_entry_level_flag_does_not_gate_other_nonces :
  let r := exec EI C.BuiltInFunctionESDTNFTCreate in_create s_frozen_creator in
  frozen_at EI s_frozen_creator alice (P ++ tokA) = true
  /\ is_ok r = true /\ balance EI (post r) alice (nft_key (P ++ tokA) 1) = 2%Z
  /\ balance EI (post r) alice (P ++ tokA) = 5%Z.
Proof. vm_compute. repeat split. Qed.

(* ---- 7. toggling: freeze ; unfreeze leaves a DIFFERENT state (Properties [] -> [0;0]) that behaves the same ---- *)
Lemma EI_nf : no_faults EI. Proof. intros n. reflexivity. Qed.
Definition in_fr := mkin SC alice [tokA] false true false.
Definition s_fr1 : mstate := post (exec EI C.BuiltInFunctionESDTFreeze in_fr s_plain).
Definition s_fr2 : mstate := post (exec EI C.BuiltInFunctionESDTUnFreeze in_fr s_fr1).
Example ex_toggle_runs :
  is_ok (exec EI C.BuiltInFunctionESDTFreeze in_fr s_plain) = true
  /\ is_ok (exec EI C.BuiltInFunctionESDTUnFreeze in_fr s_fr1) = true
  /\ frozen_at EI s_fr1 alice (P ++ tokA) = true /\ frozen_at EI s_fr2 alice (P ++ tokA) = false
  /\ cell s_fr2 alice (P ++ tokA) <> cell s_plain alice (P ++ tokA)
  /\ tok_at EI s_plain alice (P ++ tokA) = Some (tk 5 []) /\ tok_at EI s_fr2 alice (P ++ tokA) = Some (tk 5 [x00; x00]).
Proof. vm_compute. repeat split. discriminate. Qed.
Lemma ok_eq {A} (r : res err A * mstate) : is_ok r = true -> exists o, r = (Ok o, post r).
Proof. destruct r as [[o| |] s]; try discriminate. exists o. reflexivity. Qed.
Example inst_freeze_unfreeze_SR : SR EI true s_plain s_fr2.
Proof.
  destruct ex_toggle_runs as (H1 & H2 & _).
  apply ok_eq in H1 as (o1 & H1). apply ok_eq in H2 as (o2 & H2).
  eapply (freeze_unfreeze_SR EI EI_ok true in_fr in_fr); [exact H1|exact H2|reflexivity|reflexivity| |].
  - intros H. vm_compute in H. discriminate.
  - intros t Ht. assert (Hk : tok_at EI s_plain alice (P ++ tokA) = Some (tk 5 [])) by (vm_compute; reflexivity).
    change (tok_at EI s_plain alice (P ++ tokA) = Some t) in Ht. rewrite Hk in Ht. inversion Ht; subst t. vm_compute. repeat split. discriminate.
Qed.
(* ... so a later transfer by alice gives the same output and balances from both states *)
Definition in_ac := mkin alice carol [tokA; one] true true false.
Example inst_props_irrelevance :
  exists o s' u', exec EI C.BuiltInFunctionESDTTransfer in_ac s_plain = (Ok o, s')
    /\ exec EI C.BuiltInFunctionESDTTransfer in_ac s_fr2 = (Ok o, u')
    /\ SR EI true s' u'
    /\ balance EI s' carol (P ++ tokA) = 6%Z /\ balance EI u' carol (P ++ tokA) = 6%Z.
Proof.
  pose proof (props_irrelevance EI EI_ok EI_nf true C.BuiltInFunctionESDTTransfer in_ac s_plain s_fr2 eq_refl
                inst_freeze_unfreeze_SR) as H.
  assert (Hp : sys_not_party C.BuiltInFunctionESDTTransfer in_ac).
  { right. right. split; intros Hx; vm_compute in Hx; discriminate. }
  assert (Hd : nft_sender_side C.BuiltInFunctionESDTTransfer in_ac -> dst_arg C.BuiltInFunctionESDTTransfer in_ac <> SYS).
  { intros [[Hx|Hx] _]; vm_compute in Hx; discriminate. }
  specialize (H Hp Hd).
  assert (K1 : is_ok (exec EI C.BuiltInFunctionESDTTransfer in_ac s_plain) = true) by (vm_compute; reflexivity).
  apply ok_eq in K1 as (o & K1). rewrite K1 in H.
  destruct (exec EI C.BuiltInFunctionESDTTransfer in_ac s_fr2) as [[o'| |] u'] eqn:K2; try contradiction.
  destruct H as [<- Hs]. exists o, (post (exec EI C.BuiltInFunctionESDTTransfer in_ac s_plain)), u'.
  split; [exact K1|]. split; [reflexivity|]. split; [exact Hs|]. split; [vm_compute; reflexivity|].
  assert (Hu : u' = post (exec EI C.BuiltInFunctionESDTTransfer in_ac s_fr2)) by (rewrite K2; reflexivity).
  rewrite Hu. vm_compute. reflexivity.
Qed.
(* the exclusion of props_irrelevance_partial is necessary: an NFT entry whose Properties were toggled (freeze and
   unfreeze addressed to "tokA ‖ nonce 7", the key of alice's NFT entry) is forwarded with its Properties bytes:
   the sender side of ESDTNFTTransfer returns a different output from the two states *)
Definition tokA7 : bytes := tokA ++ u64_bytes 7.
Definition s_nft : mstate := state_of [(alice, mkacct [(nft_key (P ++ tokA) 7, enc_token (nft 3 [] 7))])].
Definition in_fr7 := mkin SC alice [tokA7] false true false.
Definition s_nft2 : mstate :=
  post (exec EI C.BuiltInFunctionESDTUnFreeze in_fr7 (post (exec EI C.BuiltInFunctionESDTFreeze in_fr7 s_nft))).
Definition in_nft := mkin alice alice [tokA; [x07]; one; carol] true true false.
Example props_irrelevance_nft_sender_refuted :
  SR EI false s_nft s_nft2
  /\ is_ok (exec EI C.BuiltInFunctionESDTNFTTransfer in_nft s_nft) = true
  /\ is_ok (exec EI C.BuiltInFunctionESDTNFTTransfer in_nft s_nft2) = true
  /\ fst (exec EI C.BuiltInFunctionESDTNFTTransfer in_nft s_nft) <> fst (exec EI C.BuiltInFunctionESDTNFTTransfer in_nft s_nft2).
Proof.
  split.
  - assert (H1 : is_ok (exec EI C.BuiltInFunctionESDTFreeze in_fr7 s_nft) = true) by (vm_compute; reflexivity).
    assert (H2 : is_ok (exec EI C.BuiltInFunctionESDTUnFreeze in_fr7 (post (exec EI C.BuiltInFunctionESDTFreeze in_fr7 s_nft))) = true)
      by (vm_compute; reflexivity).
    apply ok_eq in H1 as (o1 & H1). apply ok_eq in H2 as (o2 & H2).
    eapply (freeze_unfreeze_SR EI EI_ok false in_fr7 in_fr7); [exact H1|exact H2|reflexivity|reflexivity| |].
    + intros H. vm_compute in H. discriminate.
    + intros t Ht. assert (Hk : tok_at EI s_nft alice (P ++ tokA7) = Some (nft 3 [] 7)) by (vm_compute; reflexivity).
      change (tok_at EI s_nft alice (P ++ tokA7) = Some t) in Ht. rewrite Hk in Ht. inversion Ht; subst t. vm_compute. repeat split; discriminate.
  - split; [vm_compute; reflexivity|]. split; [vm_compute; reflexivity|]. vm_compute. discriminate.
Qed.

Print Assumptions inst_frozen_no_balance_change.
Print Assumptions inst_paused_no_balance_change.
Print Assumptions frozen_no_balance_change_refuted.
Print Assumptions frozen_no_balance_change_create_refuted.
Print Assumptions frozen_no_balance_change_f4b_refuted.
Print Assumptions inst_freeze_unfreeze_SR.
Print Assumptions inst_props_irrelevance.
Print Assumptions props_irrelevance_nft_sender_refuted.
