(* C07, part 3 (histories): the single-creator discipline as a predicate on operation lists, the instrumented
   run [wrun_log] with the history variable [issued], the invariant [CInv] and its preservation by every disciplined
   step of the world model (Ledger/World.v) — whatever else the step does. *)
From Coq Require Import Lia List Sorted.
From EV Require Import Base.Bytes Base.Store Base.Monad gen.Consts Codec.Types Helpers.Helpers
  Ledger.Types Ledger.Env Ledger.Funcs Ledger.Transfers Ledger.World
  LedgerProofs.Defs LedgerProofs.EnvSpec LedgerProofs.WorldDefs LedgerProofs.WorldSpec
  LedgerProofs.Spec_Transfers_Base LedgerProofs.Spec_System LedgerProofs.C07_Exec LedgerProofs.C07_Emit.
Import ListNotations.

(* ------------------------------------------------------------------ *)
(* small list facts                                                     *)
(* ------------------------------------------------------------------ *)
Lemma sorted_snoc (L : list N) n : StronglySorted N.lt L -> Forall (fun k => (k < n)%N) L -> StronglySorted N.lt (L ++ [n]).
Proof.
  induction L as [|x r IH]; intros Hs Hf; cbn [app].
  - constructor; constructor.
  - inversion Hs; subst. inversion Hf; subst. constructor; [apply IH; assumption|].
    apply Forall_app. split; [assumption|constructor; [assumption|constructor]].
Qed.
Lemma sorted_lt_NoDup (L : list N) : StronglySorted N.lt L -> NoDup L.
Proof.
  induction 1 as [|x r Hs IH Hf]; constructor; [|exact IH].
  intros Hin. rewrite Forall_forall in Hf. specialize (Hf _ Hin). lia.
Qed.

Definition opt_list {A} (o : option A) : list A := match o with Some x => [x] | None => [] end.

Section World.
  Variable c : wcfg.
  Hypothesis Hc : codec_ok (wc_cdc c).
  Notation shof := (wc_shard_of c).

  (* ================================================================ *)
  (* world observables                                                  *)
  (* ================================================================ *)
  Definition wst (w : world) (sh : N) : mstate := mk_state (shard_accts w sh).
  (* role list / counter of account a for token t in the account map of shard sh *)
  Definition wroles (w : world) (t : bytes) (sh : N) (a : bytes) : roles := roles_at (env_at c sh) (wst w sh) a t.
  Definition wcounter (w : world) (t : bytes) (sh : N) (a : bytes) : N := counter_at (wst w sh) a t.
  (* number of times a holds the create role for t on sh; a HOLDER has it at least once *)
  Definition ncreate (w : world) (t : bytes) (sh : N) (a : bytes) : nat := cnt CR (wroles w t sh a).
  Definition holder (w : world) (t : bytes) (sh : N) (a : bytes) : Prop := (0 < ncreate w t sh a)%nat.
  Lemma holder_has_role w t sh a : holder w t sh a <-> has_role (env_at c sh) (wst w sh) a t CR = true.
  Proof. unfold holder, ncreate, wroles, has_role. symmetry. apply cnt_pos_in. Qed.

  Definition wf_world (w : world) : Prop := (N.to_nat (wc_nshards c) <= length (shards w))%nat.

  (* ================================================================ *)
  (* what a step executes                                               *)
  (* ================================================================ *)
  (* the call (shard, function, input) an operation attempts; None when the model skips the operation *)
  Definition op_exec (w : world) (op : wop) : option (N * bytes * input) :=
    match op with
    | OCall sh fn i => if (sh <? wc_nshards c)%N then Some (sh, fn, i) else None
    | ODeliver id gas | ORedeliver id gas =>
      match find_msg (inflight w) id with
      | None => None
      | Some m => let sh := shof (m_dest m) in
                  if (sh <? wc_nshards c)%N then Some (sh, m_fn m, deliver_input c m sh gas) else None
      end
    | ORefund id gas =>
      match find_msg (inflight w) id with
      | None => None
      | Some m => let sh := shof (m_sender m) in
                  if (nat_in id (failed w) && (sh <? wc_nshards c)%N)%bool
                  then Some (sh, m_fn m, refund_input c m sh gas) else None
      end
    end.
  (* the in-flight messages a successful step keeps, and those it adds *)
  Definition kept (w : world) (op : wop) : list msg :=
    match op with
    | ODeliver id _ | ORefund id _ => drop_msg (inflight w) id
    | _ => inflight w
    end.
  Definition emitted (op : wop) (sh : N) (fn : bytes) (i : input) (id : nat) (o : output) : list msg :=
    match op with ORefund _ _ => [] | _ => collect c sh fn i id o end.

  Lemma wstep_shape w op :
    match op_exec w op with
    | None => shards (wstep c w op) = shards w /\ inflight (wstep c w op) = inflight w
    | Some (sh, fn, i) =>
      (sh <? wc_nshards c)%N = true /\
      match exec (env_at c sh) fn i (wst w sh) with
      | (Ok o, s') => shards (wstep c w op) = set_nth (N.to_nat sh) (accts s') (shards w)
                      /\ inflight (wstep c w op) = kept w op ++ emitted op sh fn i (next_id w) o
      | _ => shards (wstep c w op) = shards w /\ inflight (wstep c w op) = inflight w
      end
    end.
  Proof.
    destruct op as [sh fn i|id gas|id gas|id gas]; cbn [wstep op_exec kept emitted].
    - destruct (sh <? wc_nshards c)%N eqn:Hsh; cbn [negb]; [|auto]. split; [exact Hsh|].
      unfold run_on, wst, mk_state. destruct (exec _ fn i _) as [[o|e|] s']; auto.
    - destruct (find_msg (inflight w) id) as [m|]; [|auto]. cbv zeta.
      destruct (shof (m_dest m) <? wc_nshards c)%N eqn:Hsh; cbn [negb]; [|auto]. split; [exact Hsh|].
      unfold run_on, wst, mk_state. destruct (exec _ (m_fn m) _ _) as [[o|e|] s']; auto.
    - destruct (find_msg (inflight w) id) as [m|]; [|auto]. cbv zeta.
      destruct (shof (m_dest m) <? wc_nshards c)%N eqn:Hsh; cbn [negb]; [|auto]. split; [exact Hsh|].
      unfold run_on, wst, mk_state. destruct (exec _ (m_fn m) _ _) as [[o|e|] s']; auto.
    - destruct (find_msg (inflight w) id) as [m|]; [|auto]. cbv zeta.
      destruct (nat_in id (failed w)); cbn [negb andb]; [|auto].
      destruct (shof (m_sender m) <? wc_nshards c)%N eqn:Hsh; cbn [negb]; [|auto]. split; [exact Hsh|].
      unfold run_on, wst, mk_state. destruct (exec _ (m_fn m) _ _) as [[o|e|] s']; auto.
      split; [reflexivity|]. cbn. rewrite app_nil_r. reflexivity.
  Qed.

  (* the recipient-presence flag of delivered and refunded inputs is truthful by construction *)
  Definition dst_ok (op : wop) : Prop :=
    match op with
    | OCall sh fn i => is_transfer_fn fn = true -> i_dst i = (shof (i_rcpt i) =? sh)%N
    | _ => True
    end.
  Lemma op_exec_dst_truthful w op sh fn i : op_exec w op = Some (sh, fn, i) -> dst_ok op ->
    is_transfer_fn fn = true -> i_dst i = (shof (i_rcpt i) =? sh)%N.
  Proof.
    destruct op as [sh0 fn0 i0|id gas|id gas|id gas]; cbn [op_exec dst_ok].
    - destruct (sh0 <? wc_nshards c)%N; [|discriminate]. intros [= -> -> ->] H. exact H.
    - destruct (find_msg (inflight w) id) as [m|]; [|discriminate]. cbv zeta.
      destruct (shof (m_dest m) <? wc_nshards c)%N; [|discriminate]. intros [= <- <- <-] _ _.
      cbn [deliver_input i_dst i_rcpt]. symmetry. apply N.eqb_refl.
    - destruct (find_msg (inflight w) id) as [m|]; [|discriminate]. cbv zeta.
      destruct (shof (m_dest m) <? wc_nshards c)%N; [|discriminate]. intros [= <- <- <-] _ _.
      cbn [deliver_input i_dst i_rcpt]. symmetry. apply N.eqb_refl.
    - destruct (find_msg (inflight w) id) as [m|]; [|discriminate]. cbv zeta.
      destruct (nat_in id (failed w) && (shof (m_sender m) <? wc_nshards c)%N)%bool; [|discriminate]. intros [= <- <- <-] _ _.
      cbn [refund_input i_dst i_rcpt]. symmetry. apply N.eqb_refl.
  Qed.

  (* ================================================================ *)
  (* instrumented run: the log of successful executions                 *)
  (* ================================================================ *)
  Record xrec := { x_sh : N; x_fn : bytes; x_in : input; x_out : output }.
  Definition step_log (w : world) (op : wop) : option xrec :=
    match op_exec w op with
    | None => None
    | Some (sh, fn, i) =>
      match exec (env_at c sh) fn i (wst w sh) with
      | (Ok o, _) => Some {| x_sh := sh; x_fn := fn; x_in := i; x_out := o |}
      | _ => None
      end
    end.
  Fixpoint wrun_log (w : world) (ops : list wop) : world * list xrec :=
    match ops with
    | [] => (w, [])
    | op :: r => let res := wrun_log (wstep c w op) r in (fst res, opt_list (step_log w op) ++ snd res)
    end.
  Theorem wrun_log_world w ops : fst (wrun_log w ops) = wrun c w ops.
  Proof. revert w. induction ops as [|op r IH]; intros w; [reflexivity|]. cbn [wrun_log fst]. rewrite IH. reflexivity. Qed.

  (* ================================================================ *)
  (* everything below is relative to one token                          *)
  (* ================================================================ *)
  Variable tok : bytes.

  (* the nonces returned by the successful ESDTNFTCreate executions for tok, in issue order *)
  Definition issued_of (x : xrec) : list N :=
    if (beqb (x_fn x) FCreate && beqb (argn (x_in x) 0) tok)%bool
    then [bigU64 (hd [] (o_returnData (x_out x)))] else [].
  Definition issued (l : list xrec) : list N := flat_map issued_of l.
  Lemma issued_app l l' : issued (l ++ l') = issued l ++ issued l'.
  Proof. unfold issued. apply flat_map_app. Qed.

  (* hand-over messages for tok *)
  Definition is_hmsg (m : msg) : bool := (beqb (m_fn m) CRT && beqb (nth 0 (m_args m) []) tok)%bool.
  Definition hmsgs (l : list msg) : list msg := filter is_hmsg l.

  (* ---------------- the discipline ---------------- *)
  (* Calls that cannot succeed are not constrained: ESDTSetRole / ESDTUnSetRole are refused unless the caller is the
     system contract, ESDTNFTCreateRoleTransfer is refused when the caller's account is on the executing shard
     (i_snd = true: every ordinary transaction naming the function). *)
  Definition grants (fn : bytes) (i : input) : Prop :=
    fn = FSetRole /\ i_caller i = SC /\ argn i 0 = tok /\ In CR (tl (i_args i)).
  Definition revokes (fn : bytes) (i : input) : Prop :=
    fn = FUnSetRole /\ i_caller i = SC /\ argn i 0 = tok /\ In CR (tl (i_args i)).
  Definition hands0 (fn : bytes) (i : input) : Prop := fn = CRT /\ argn i 0 = tok.
  Definition hands (fn : bytes) (i : input) : Prop := hands0 fn i /\ i_snd i = false.
  Definition grant_attempt (w : world) (op : wop) : bool :=
    match op_exec w op with
    | Some (_, fn, i) =>
      (beqb fn FSetRole && beqb (i_caller i) SC && beqb (argn i 0) tok && bytes_in CR (tl (i_args i)))%bool
    | None => false
    end.

  (* one step; g = "the create role for tok has already been granted (or a grant was attempted)" *)
  Definition step_ok (g : bool) (w : world) (op : wop) : Prop :=
    dst_ok op /\
    match op_exec w op with
    | None => True
    | Some (sh, fn, i) =>
      (* set at most once, on one account, one occurrence *)
      (grants fn i -> g = false /\ cnt CR (tl (i_args i)) = 1%nat)
      (* never unset *)
      /\ ~ revokes fn i
      (* moved only by the system contract's hand-over addressed to the current holder, or by the consuming
         delivery (or return) of a hand-over message; never re-delivered, never called by anybody else *)
      /\ (hands fn i -> match op with
                        | OCall _ _ _ => i_caller i = SC /\ holder w tok sh (i_rcpt i)
                        | ODeliver _ _ | ORefund _ _ => True
                        | ORedeliver _ _ => False
                        end)
    end.
  Fixpoint disciplined (g : bool) (w : world) (ops : list wop) : Prop :=
    match ops with
    | [] => True
    | op :: r => step_ok g w op /\ disciplined (g || grant_attempt w op) (wstep c w op) r
    end.
  (* the counter never wraps: explicit *)
  Definition step_nowrap (w : world) (op : wop) : Prop :=
    match op_exec w op with
    | Some (sh, fn, i) => fn = FCreate -> argn i 0 = tok -> (wcounter w tok sh (i_caller i) + 1 < two64)%N
    | None => True
    end.
  Fixpoint nowrap (w : world) (ops : list wop) : Prop :=
    match ops with
    | [] => True
    | op :: r => step_nowrap w op /\ nowrap (wstep c w op) r
    end.

  (* ---------------- the invariant ---------------- *)
  Record CInv (g : bool) (w : world) (L : list N) : Prop := {
    ci_wf : wf_world w;
    ci_cnt : forall sh a, (ncreate w tok sh a <= 1)%nat;
    ci_one : forall sh a sh' a', holder w tok sh a -> holder w tok sh' a' -> sh = sh' /\ a = a';
    ci_bound : forall sh a, holder w tok sh a -> Forall (fun n => (n <= wcounter w tok sh a)%N) L;
    ci_msgs : match hmsgs (inflight w) with
              | [] => True
              | [m] => (forall sh a, ~ holder w tok sh a)
                       /\ exists n, m_args m = [tok; u64_bytes n] /\ (n < two64)%N /\ Forall (fun k => (k <= n)%N) L
              | _ => False
              end;
    ci_fresh : g = false -> L = [] /\ hmsgs (inflight w) = [] /\ forall sh a, ~ holder w tok sh a;
    ci_sorted : StronglySorted N.lt L }.

  Definition init_ok (w : world) : Prop :=
    wf_world w /\ hmsgs (inflight w) = [] /\ forall sh a, ~ holder w tok sh a.
  Lemma CInv_init w : init_ok w -> CInv false w [].
  Proof.
    intros (Hwf & Hm & Hh). constructor; auto.
    - intros sh a. specialize (Hh sh a). unfold holder in Hh. lia.
    - intros sh a sh' a' H. exfalso. eapply Hh. exact H.
    - rewrite Hm. exact I.
    - constructor.
  Qed.

  (* ================================================================ *)
  (* frame lemmas for the invariant                                     *)
  (* ================================================================ *)
  Lemma CInv_g g g' w L : (g' = false -> g = false) -> CInv g w L -> CInv g' w L.
  Proof. intros Hg H. destruct H. constructor; auto. Qed.

  Lemma CInv_same g w w' L :
    length (shards w') = length (shards w) ->
    (forall sh a, ncreate w' tok sh a = ncreate w tok sh a) ->
    (forall sh a, wcounter w' tok sh a = wcounter w tok sh a) ->
    hmsgs (inflight w') = hmsgs (inflight w) ->
    CInv g w L -> CInv g w' L.
  Proof.
    intros Hlen Hn Hcn Hm H. destruct H.
    assert (Hh : forall sh a, holder w' tok sh a <-> holder w tok sh a) by (intros; unfold holder; rewrite Hn; tauto).
    constructor.
    - unfold wf_world in *. rewrite Hlen. assumption.
    - intros. rewrite Hn. auto.
    - intros sh a sh' a' H1 H2. apply Hh in H1. apply Hh in H2. auto.
    - intros sh a H1. apply Hh in H1. rewrite Hcn. auto.
    - rewrite Hm. destruct (hmsgs (inflight w)) as [|m [|m2 r]]; auto.
      destruct ci_msgs0 as (Hno & Hn'). split; [|exact Hn']. intros sh a H1. apply Hh in H1. eapply Hno; eauto.
    - intros Hg. destruct (ci_fresh0 Hg) as (H1 & H2 & H3). split; [exact H1|]. split; [rewrite Hm; exact H2|].
      intros sh a H4. apply Hh in H4. eapply H3; eauto.
    - assumption.
  Qed.

  Lemma filter_none {A} (f : A -> bool) l : (forall x, In x l -> f x = false) -> filter f l = [].
  Proof.
    induction l as [|a r IH]; intros H; [reflexivity|]. cbn [filter]. rewrite (H a) by (left; reflexivity).
    apply IH. intros x Hx. apply H. right. exact Hx.
  Qed.
  Lemma hmsgs_app l l' : hmsgs (l ++ l') = hmsgs l ++ hmsgs l'.
  Proof. apply filter_app. Qed.
  Lemma hmsgs_cons a l : hmsgs (a :: l) = if is_hmsg a then a :: hmsgs l else hmsgs l.
  Proof. reflexivity. Qed.
  Lemma hmsgs_drop_other l id m : find_msg l id = Some m -> is_hmsg m = false -> hmsgs (drop_msg l id) = hmsgs l.
  Proof.
    induction l as [|a l IH]; cbn [find_msg drop_msg]; [discriminate|]. destruct (Nat.eqb (m_id a) id).
    - intros [= ->] Hm. rewrite hmsgs_cons, Hm. reflexivity.
    - intros Hf Hm. rewrite !hmsgs_cons, (IH Hf Hm). reflexivity.
  Qed.
  Lemma hmsgs_drop_the l id m : find_msg l id = Some m -> is_hmsg m = true ->
    forall m', hmsgs l = [m'] -> m' = m /\ hmsgs (drop_msg l id) = [].
  Proof.
    induction l as [|a l IH]; cbn [find_msg drop_msg]; [discriminate|]. destruct (Nat.eqb (m_id a) id).
    - intros [= ->] Hm m' Hh. rewrite hmsgs_cons, Hm in Hh. inversion Hh. auto.
    - intros Hf Hm m' Hh. rewrite hmsgs_cons in Hh. rewrite hmsgs_cons. destruct (is_hmsg a) eqn:Ea.
      + inversion Hh as [[H1 H2]]. exfalso. apply find_msg_In in Hf as (Hin & _).
        assert (Hx : In m (hmsgs l)) by (apply filter_In; auto). rewrite H2 in Hx. destruct Hx.
      + apply IH; assumption.
  Qed.
  Lemma hmsgs_in l m : In m l -> is_hmsg m = true -> In m (hmsgs l).
  Proof. intros. apply filter_In. auto. Qed.

  (* the message behind a delivery / refund *)
  Lemma op_exec_msg w op sh fn i : op_exec w op = Some (sh, fn, i) ->
    match op with
    | OCall _ _ _ => True
    | ODeliver id _ | ORedeliver id _ | ORefund id _ =>
      exists m, find_msg (inflight w) id = Some m /\ fn = m_fn m /\ i_args i = m_args m
    end.
  Proof.
    destruct op as [sh0 fn0 i0|id gas|id gas|id gas]; cbn [op_exec]; [auto| | |];
      (destruct (find_msg (inflight w) id) as [m|]; [|discriminate]); cbv zeta.
    - destruct (shof (m_dest m) <? wc_nshards c)%N; [|discriminate]. intros [= <- <- <-]. eauto.
    - destruct (shof (m_dest m) <? wc_nshards c)%N; [|discriminate]. intros [= <- <- <-]. eauto.
    - destruct (nat_in id (failed w) && (shof (m_sender m) <? wc_nshards c)%N)%bool; [|discriminate]. intros [= <- <- <-]. eauto.
  Qed.
  Lemma is_hmsg_hands m fn i : fn = m_fn m -> i_args i = m_args m -> (is_hmsg m = true <-> hands0 fn i).
  Proof.
    intros -> Ha. unfold is_hmsg, hands0, argn. rewrite Ha. rewrite Bool.andb_true_iff. split.
    - intros [H1 H2]. split; apply beqb_true; assumption.
    - intros [H1 H2]. rewrite H1, H2, !beqb_refl. auto.
  Qed.

  (* shard maps after a committed execution *)
  Lemma shard_accts_after w w' sh m : shards w' = set_nth (N.to_nat sh) m (shards w) ->
    (N.to_nat sh < length (shards w))%nat ->
    forall sh1, shard_accts w' sh1 = if (sh1 =? sh)%N then m else shard_accts w sh1.
  Proof.
    intros Hs Hlt sh1. unfold shard_accts. rewrite Hs. destruct (sh1 =? sh)%N eqn:E0.
    - apply N.eqb_eq in E0. subst. apply nth_set_nth_eq. exact Hlt.
    - apply N.eqb_neq in E0. apply nth_set_nth_ne. intros H. apply E0. apply N2Nat.inj. symmetry. exact H.
  Qed.

  (* ================================================================ *)
  (* one committed execution                                            *)
  (* ================================================================ *)
  Section Step.
    Variables (g : bool) (w : world) (op : wop) (L : list N) (sh : N) (fn : bytes) (i : input) (o : output) (s' : mstate).
    Hypothesis Hwf : wf_world w.
    Hypothesis Hdst : dst_ok op.
    Hypothesis Hop : op_exec w op = Some (sh, fn, i).
    Hypothesis Hex : exec (env_at c sh) fn i (wst w sh) = (Ok o, s').
    Let w' := wstep c w op.
    Notation E := (env_at c sh).
    Notation s := (wst w sh).

    Lemma step_facts : (sh <? wc_nshards c)%N = true
      /\ shards w' = set_nth (N.to_nat sh) (accts s') (shards w)
      /\ inflight w' = kept w op ++ emitted op sh fn i (next_id w) o.
    Proof. pose proof (wstep_shape w op) as H. rewrite Hop in H. destruct H as (H1 & H). rewrite Hex in H. tauto. Qed.

    Lemma step_len : length (shards w') = length (shards w).
    Proof. destruct step_facts as (_ & H & _). rewrite H. apply set_nth_length. Qed.
    Lemma step_inrange : (N.to_nat sh < length (shards w))%nat.
    Proof. destruct step_facts as (H & _). apply N.ltb_lt in H. unfold wf_world in Hwf. lia. Qed.

    Lemma step_wroles t sh1 a : wroles w' t sh1 a = if (sh1 =? sh)%N then roles_at E s' a t else wroles w t sh1 a.
    Proof.
      destruct step_facts as (_ & H & _). unfold wroles, wst.
      rewrite (shard_accts_after _ _ _ _ H step_inrange sh1). destruct (sh1 =? sh)%N eqn:E0; [|reflexivity].
      apply N.eqb_eq in E0. subst sh1. apply roles_at_accts. reflexivity.
    Qed.
    Lemma step_wcounter t sh1 a : wcounter w' t sh1 a = if (sh1 =? sh)%N then counter_at s' a t else wcounter w t sh1 a.
    Proof.
      destruct step_facts as (_ & H & _). unfold wcounter, wst.
      rewrite (shard_accts_after _ _ _ _ H step_inrange sh1). destruct (sh1 =? sh)%N eqn:E0; [|reflexivity].
      apply counter_at_accts. reflexivity.
    Qed.
    (* outside the writers nothing moves *)
    Lemma step_ncreate_frame sh1 a : (sh1 = sh -> ~ role_writer E fn i a tok) -> ncreate w' tok sh1 a = ncreate w tok sh1 a.
    Proof.
      intros Hn. unfold ncreate. rewrite step_wroles. destruct (sh1 =? sh)%N eqn:E0; [|reflexivity].
      apply N.eqb_eq in E0. subst sh1. rewrite (exec_roles_frame E Hc _ _ _ _ _ Hex a tok (Hn eq_refl)). reflexivity.
    Qed.
    Lemma step_wcounter_frame sh1 a : (sh1 = sh -> ~ counter_writer E fn i a tok) -> wcounter w' tok sh1 a = wcounter w tok sh1 a.
    Proof.
      intros Hn. rewrite step_wcounter. destruct (sh1 =? sh)%N eqn:E0; [|reflexivity].
      apply N.eqb_eq in E0. subst sh1. rewrite (exec_counter_frame E Hc _ _ _ _ _ Hex a tok (Hn eq_refl)). reflexivity.
    Qed.

    Lemma step_dst : is_transfer_fn fn = true -> i_dst i = (shof (i_rcpt i) =? sh)%N.
    Proof. eapply op_exec_dst_truthful; eauto. Qed.

    (* messages: a step that is not a hand-over for tok neither adds nor removes a hand-over message for tok *)
    Lemma step_emitted_other : ~ hands0 fn i -> hmsgs (emitted op sh fn i (next_id w) o) = [].
    Proof.
      intros Hnh. apply filter_none. intros m Hin.
      assert (Hin' : In m (collect c sh fn i (next_id w) o)) by (destruct op; cbn [emitted] in Hin; try exact Hin; destruct Hin).
      clear Hin. unfold is_hmsg. destruct (beqb_spec fn CRT) as [Hf|Hf].
      - (* a hand-over for another token *)
        subst fn. destruct (beqb_spec (i_caller i) SC) as [Hsc|Hsc].
        + destruct (shof (argn i 1) =? sh)%N eqn:Es.
          * pose proof Hex as Hex2.
            change (exec E CRT i) with (f_create_role_transfer E i) in Hex2.
            apply (role_transfer_owner_spec E Hc) in Hex2 as (_ & tk & nw & Ha2 & _ & Ho & _); [|exact Hsc].
            assert (Enw : nw = argn i 1) by (unfold argn; rewrite Ha2; reflexivity).
            rewrite (collect_handover c sh i (next_id w) o nw tk (counter_at s (i_rcpt i) tk)) in Hin'
              by (subst o; rewrite Hsc; reflexivity).
            rewrite Enw, Es in Hin'. destruct Hin'.
          * pose proof Hex as Hex2.
            change (exec E CRT i) with (f_create_role_transfer E i) in Hex2.
            apply (role_transfer_owner_spec E Hc) in Hex2 as (_ & tk & nw & Ha2 & _ & Ho & _); [|exact Hsc].
            assert (Enw : nw = argn i 1) by (unfold argn; rewrite Ha2; reflexivity).
            assert (Etk : tk = argn i 0) by (unfold argn; rewrite Ha2; reflexivity).
            rewrite (collect_handover c sh i (next_id w) o nw tk (counter_at s (i_rcpt i) tk)) in Hin'
              by (subst o; rewrite Hsc; reflexivity).
            rewrite Enw, Es in Hin'. destruct Hin' as [<-|[]]. cbn [handover_message m_fn m_args nth].
            rewrite beqb_refl. cbn [andb]. apply beqb_false. intros Ht. apply Hnh. split; [reflexivity|congruence].
        + pose proof Hex as Hex2. apply (handover_delivered E Hc) in Hex2 as (_ & Ho & _); [|exact Hsc]. subst o.
          rewrite collect_no_accounts in Hin' by reflexivity. destruct Hin'.
      - rewrite (beqb_false _ _ (collect_not_handover c sh fn i (next_id w) o _ _ Hex step_dst Hf m Hin')). reflexivity.
    Qed.
    Lemma step_kept_other : ~ hands0 fn i -> hmsgs (kept w op) = hmsgs (inflight w).
    Proof.
      intros Hnh. pose proof (op_exec_msg _ _ _ _ _ Hop) as Hm. destruct op as [sh0 fn0 i0|id gas|id gas|id gas]; cbn [kept]; try reflexivity.
      - destruct Hm as (m & Hf & Hfn & Ha). apply (hmsgs_drop_other _ _ _ Hf).
        destruct (is_hmsg m) eqn:Eh; [|reflexivity]. exfalso. apply Hnh. apply (is_hmsg_hands m fn i Hfn Ha). exact Eh.
      - destruct Hm as (m & Hf & Hfn & Ha). apply (hmsgs_drop_other _ _ _ Hf).
        destruct (is_hmsg m) eqn:Eh; [|reflexivity]. exfalso. apply Hnh. apply (is_hmsg_hands m fn i Hfn Ha). exact Eh.
    Qed.
    Lemma step_hmsgs_other : ~ hands0 fn i -> hmsgs (inflight w') = hmsgs (inflight w).
    Proof.
      intros Hnh. destruct step_facts as (_ & _ & H). rewrite H, hmsgs_app, step_emitted_other, step_kept_other by assumption.
      apply app_nil_r.
    Qed.

    Ltac cne := apply beqb_false_iff; reflexivity.

    (* from here on: the invariant and the discipline *)
    Hypothesis HI : CInv g w L.
    Hypothesis Hok : step_ok g w op.

    (* ---------- (e) the call writes no role / counter cell of tok ---------- *)
    Definition touches_tok : Prop :=
      argn i 0 = tok /\ (fn = FCreate \/ fn = FSetRole \/ fn = FUnSetRole \/ fn = CRT).
    Lemma step_other : ~ touches_tok -> CInv g w' L.
    Proof.
      intros Hn. apply (CInv_same g w w' L); [apply step_len| | | |exact HI].
      - intros sh1 a. apply step_ncreate_frame. intros _ (Ht & [[[Hx|Hx] _]|[Hx _]]); apply Hn; split; auto.
      - intros sh1 a. apply step_wcounter_frame. intros _ (Ht & [[Hx _]|[Hx _]]); apply Hn; split; auto.
      - apply step_hmsgs_other. intros [Hx Ht]. apply Hn. split; auto.
    Qed.

    (* ---------- (a) ESDTNFTCreate for tok ---------- *)
    Lemma step_create : fn = FCreate -> argn i 0 = tok -> step_nowrap w op ->
      bigU64 (hd [] (o_returnData o)) = (wcounter w tok sh (i_caller i) + 1)%N
      /\ holder w tok sh (i_caller i)
      /\ CInv g w' (L ++ [(wcounter w tok sh (i_caller i) + 1)%N]).
    Proof.
      intros Hf Ht Hnw.
      assert (Hex' : exec E FCreate i s = (Ok o, s')) by (rewrite <- Hf; exact Hex).
      pose proof (create_returns_counter_succ E Hc _ _ _ _ Hex') as H. cbv zeta in H. rewrite Ht in H.
      destruct H as (Hrole & _ & Hret & _ & Hcnt & Hn).
      unfold step_nowrap in Hnw. rewrite Hop in Hnw. specialize (Hnw Hf Ht).
      change (counter_at s (i_caller i) tok) with (wcounter w tok sh (i_caller i)) in *.
      specialize (Hn Hnw). rewrite Hn in *.
      assert (Hhold : holder w tok sh (i_caller i)) by (apply holder_has_role; exact Hrole).
      assert (Hnc : forall sh1 a, ncreate w' tok sh1 a = ncreate w tok sh1 a).
      { intros. apply step_ncreate_frame. intros _ (_ & [[[Hx|Hx] _]|[Hx _]]); rewrite Hf in Hx; revert Hx; cne. }
      assert (Hh : forall sh1 a, holder w' tok sh1 a <-> holder w tok sh1 a) by (intros; unfold holder; rewrite Hnc; tauto).
      assert (Hcn1 : wcounter w' tok sh (i_caller i) = (wcounter w tok sh (i_caller i) + 1)%N).
      { rewrite step_wcounter, N.eqb_refl. exact Hcnt. }
      assert (Hm : hmsgs (inflight w') = hmsgs (inflight w)).
      { apply step_hmsgs_other. intros [Hx _]. rewrite Hf in Hx. revert Hx. cne. }
      assert (Hbound : Forall (fun k => (k <= wcounter w tok sh (i_caller i))%N) L) by (apply (ci_bound _ _ _ HI); exact Hhold).
      split; [exact Hret|]. split; [exact Hhold|]. destruct HI. constructor.
      - unfold wf_world. rewrite step_len. exact ci_wf0.
      - intros. rewrite Hnc. auto.
      - intros sh1 a sh2 a2 H1 H2. apply Hh in H1. apply Hh in H2. auto.
      - intros sh1 a H1. apply Hh in H1. destruct (ci_one0 _ _ _ _ H1 Hhold) as [-> ->]. rewrite Hcn1.
        apply Forall_app. split; [|constructor; [lia|constructor]].
        eapply Forall_impl; [|exact Hbound]. cbv beta. intros; lia.
      - rewrite Hm. destruct (hmsgs (inflight w)) as [|m [|m2 r]]; auto.
        destruct ci_msgs0 as (Hno & _). exfalso. eapply Hno. exact Hhold.
      - intros Hg. destruct (ci_fresh0 Hg) as (_ & _ & Hno). exfalso. eapply Hno. exact Hhold.
      - apply sorted_snoc; [exact ci_sorted0|]. eapply Forall_impl; [|exact Hbound]. cbv beta. intros; lia.
    Qed.

    (* ---------- (b), (c) SetESDTRole / UnSetESDTRole for tok ---------- *)
    Lemma step_roles (set : bool) : fn = (if set then FSetRole else FUnSetRole) -> argn i 0 = tok ->
      CInv (g || (if set then beqb (i_caller i) SC && bytes_in CR (tl (i_args i)) else false)) w' L.
    Proof.
      intros Hf Ht.
      assert (Hex' : exec E (if set then FSetRole else FUnSetRole) i s = (Ok o, s')) by (rewrite <- Hf; exact Hex).
      destruct (set_role_effect E Hc set _ _ _ _ Hex') as (Hsc & _ & _ & Hr). rewrite Ht in Hr.
      assert (Hfn : fn <> FCreate /\ fn <> CRT).
      { rewrite Hf. destruct set; split; cne. }
      destruct Hfn as (Hf1 & Hf2).
      assert (Hcn : forall sh1 a, wcounter w' tok sh1 a = wcounter w tok sh1 a).
      { intros. apply step_wcounter_frame. intros _ (_ & [[Hx _]|[Hx _]]); congruence. }
      assert (Hm : hmsgs (inflight w') = hmsgs (inflight w)).
      { apply step_hmsgs_other. intros [Hx _]. congruence. }
      assert (Hnc_other : forall sh1 a, ~ (sh1 = sh /\ a = i_rcpt i) -> ncreate w' tok sh1 a = ncreate w tok sh1 a).
      { intros sh1 a Hne. apply step_ncreate_frame. intros -> (_ & [[_ Hx]|[Hx _]]); [apply Hne; auto|congruence]. }
      assert (Hnc_rcpt : ncreate w' tok sh (i_rcpt i) =
                         cnt CR (if set then wroles w tok sh (i_rcpt i) ++ tl (i_args i)
                                 else delete_roles (wroles w tok sh (i_rcpt i)) (tl (i_args i)))).
      { unfold ncreate. rewrite step_wroles, N.eqb_refl, Hr. reflexivity. }
      rewrite Hsc, beqb_refl. cbn [andb].
      destruct (bytes_in CR (tl (i_args i))) eqn:Ein.
      - (* the role list argument carries the create role *)
        apply bytes_in_true in Ein. destruct Hok as (_ & Hs). rewrite Hop in Hs. destruct Hs as (Hgr & Hrv & _).
        destruct set; [|exfalso; apply Hrv; split; [exact Hf|auto]].
        destruct (Hgr (conj Hf (conj Hsc (conj Ht Ein)))) as (Hg & Hone). rewrite Hg. cbn [orb].
        destruct HI. destruct (ci_fresh0 Hg) as (HL & Hnom & Hnoh).
        assert (H0 : forall sh1 a, ncreate w tok sh1 a = 0%nat).
        { intros sh1 a. specialize (Hnoh sh1 a). unfold holder in Hnoh. lia. }
        assert (H1 : ncreate w' tok sh (i_rcpt i) = 1%nat).
        { rewrite Hnc_rcpt, cnt_app. fold (ncreate w tok sh (i_rcpt i)). rewrite H0, Hone. reflexivity. }
        assert (Hh : forall sh1 a, holder w' tok sh1 a -> sh1 = sh /\ a = i_rcpt i).
        { intros sh1 a Hh. destruct (N.eq_dec sh1 sh) as [->|Hs1]; [destruct (beqb_spec a (i_rcpt i)) as [->|Ha]|]; auto;
            exfalso; unfold holder in Hh; rewrite Hnc_other, H0 in Hh by (intros [? ?]; congruence); lia. }
        constructor.
        + unfold wf_world. rewrite step_len. exact ci_wf0.
        + intros sh1 a. destruct (N.eq_dec sh1 sh) as [->|Hs1]; [destruct (beqb_spec a (i_rcpt i)) as [->|Ha]|];
            [rewrite H1; lia| |]; rewrite Hnc_other, H0 by (intros [? ?]; congruence); lia.
        + intros sh1 a sh2 a2 Ha Hb. apply Hh in Ha. apply Hh in Hb. destruct Ha, Hb. subst. auto.
        + intros. subst L. constructor.
        + rewrite Hm, Hnom. exact I.
        + discriminate.
        + exact ci_sorted0.
      - (* other roles only: the create role is where it was *)
        replace (g || (if set then false else false))%bool with g by (destruct g, set; reflexivity).
        apply (CInv_same g w w' L); [apply step_len| |exact Hcn|exact Hm|exact HI].
        intros sh1 a. destruct (N.eq_dec sh1 sh) as [->|Hs1]; [destruct (beqb_spec a (i_rcpt i)) as [->|Ha]|];
          try (apply Hnc_other; intros [? ?]; congruence).
        rewrite Hnc_rcpt. unfold ncreate. apply cnt_zero_notin in Ein. destruct set.
        + rewrite cnt_app, Ein. lia.
        + apply cnt_delete_roles_other. intros Hx. apply bytes_in_true in Hx. apply cnt_pos_in in Hx. lia.
    Qed.

    (* ---------- (d1) the system contract's hand-over at the current holder ---------- *)
    Lemma step_hand_sc : fn = CRT -> argn i 0 = tok -> i_caller i = SC -> holder w tok sh (i_rcpt i) ->
      kept w op = inflight w -> emitted op sh fn i (next_id w) o = collect c sh fn i (next_id w) o ->
      CInv g w' L.
    Proof.
      intros Hf Ht Hsc Hhold Hkept Hemit.
      assert (Hex' : exec E CRT i s = (Ok o, s')) by (rewrite <- Hf; exact Hex).
      pose proof HI as HI'. destruct HI'.
      assert (Hold1 : ncreate w tok sh (i_rcpt i) = 1%nat).
      { specialize (ci_cnt0 sh (i_rcpt i)). unfold holder in Hhold. lia. }
      assert (Hnom : hmsgs (inflight w) = []).
      { destruct (hmsgs (inflight w)) as [|m [|m2 r]]; [reflexivity| |contradiction].
        destruct ci_msgs0 as (Hno & _). exfalso. eapply Hno. exact Hhold. }
      assert (Hbound : Forall (fun k => (k <= wcounter w tok sh (i_rcpt i))%N) L) by (apply ci_bound0; exact Hhold).
      assert (Hg : g = true).
      { destruct g; [reflexivity|]. destruct (ci_fresh0 eq_refl) as (_ & _ & Hno). exfalso. eapply Hno. exact Hhold. }
      assert (Honly : forall sh1 a, holder w tok sh1 a -> sh1 = sh /\ a = i_rcpt i) by (intros; eapply ci_one0; eauto).
      destruct step_facts as (_ & _ & Hinfl). rewrite Hkept, Hemit, Hf in Hinfl.
      pose proof Hex' as Hex2. change (exec E CRT i) with (f_create_role_transfer E i) in Hex2.
      apply (role_transfer_owner_spec E Hc) in Hex2 as (_ & tk & nw & Ha2 & _ & Ho & _); [|exact Hsc].
      assert (Enw : nw = argn i 1) by (unfold argn; rewrite Ha2; reflexivity).
      assert (Etk : tk = tok) by (rewrite <- Ht; unfold argn; rewrite Ha2; reflexivity).
      rewrite (collect_handover c sh i (next_id w) o nw tk (counter_at s (i_rcpt i) tk)) in Hinfl
        by (subst o; rewrite Hsc; reflexivity).
      rewrite Enw, Etk in Hinfl. change (counter_at s (i_rcpt i) tok) with (wcounter w tok sh (i_rcpt i)) in Hinfl.
      (* frame: accounts other than the old and the new owner *)
      assert (Hfr_n : forall sh1 a, ~ (sh1 = sh /\ (a = i_rcpt i \/ (a = argn i 1 /\ shof (argn i 1) = sh))) ->
                                    ncreate w' tok sh1 a = ncreate w tok sh1 a).
      { intros sh1 a Hne. apply step_ncreate_frame. intros -> (_ & [[[Hx|Hx] _]|[_ Hx]]).
        - rewrite Hf in Hx. revert Hx. cne.
        - rewrite Hf in Hx. revert Hx. cne.
        - apply Hne. split; [reflexivity|]. destruct Hx as [Hx|(Hx & _ & Hy)]; [left; exact Hx|right; split; [exact Hx|exact Hy]]. }
      assert (Hfr_c : forall sh1 a, ~ (sh1 = sh /\ (a = i_rcpt i \/ (a = argn i 1 /\ shof (argn i 1) = sh))) ->
                                    wcounter w' tok sh1 a = wcounter w tok sh1 a).
      { intros sh1 a Hne. apply step_wcounter_frame. intros -> (_ & [[Hx _]|[_ Hx]]).
        - rewrite Hf in Hx. revert Hx. cne.
        - apply Hne. split; [reflexivity|]. destruct Hx as [Hx|(Hx & _ & Hy)]; [left; exact Hx|right; split; [exact Hx|exact Hy]]. }
      destruct (shof (argn i 1) =? sh)%N eqn:Es.
      - (* same shard *)
        pose proof (handover_moves_counter_same_shard E Hc _ _ _ _ Hex' Hsc Es) as H. cbv zeta in H. rewrite Ht in H.
        destruct H as (_ & Hcn & _ & Hold & Hrn & _).
        assert (Hnew1 : ncreate w' tok sh (argn i 1) = 1%nat).
        { unfold ncreate. rewrite step_wroles, N.eqb_refl, Hrn. apply cnt_add_create_le1.
          destruct (beqb (argn i 1) (i_rcpt i)).
          - rewrite cnt_del_create. fold (wroles w tok sh (i_rcpt i)). fold (ncreate w tok sh (i_rcpt i)). lia.
          - apply (ci_cnt0 sh (argn i 1)). }
        assert (Hcnew : wcounter w' tok sh (argn i 1) = wcounter w tok sh (i_rcpt i)).
        { rewrite step_wcounter, N.eqb_refl. exact Hcn. }
        assert (Hold0 : argn i 1 <> i_rcpt i -> ncreate w' tok sh (i_rcpt i) = 0%nat).
        { intros Hne. destruct (Hold Hne) as (_ & Hr & _). unfold ncreate. rewrite step_wroles, N.eqb_refl, Hr, cnt_del_create.
          fold (wroles w tok sh (i_rcpt i)). fold (ncreate w tok sh (i_rcpt i)). lia. }
        assert (Hh : forall sh1 a, holder w' tok sh1 a -> sh1 = sh /\ a = argn i 1).
        { intros sh1 a Hh. destruct (N.eq_dec sh1 sh) as [->|Hs1].
          - destruct (beqb_spec a (argn i 1)) as [->|Ha]; [auto|]. exfalso.
            destruct (beqb_spec a (i_rcpt i)) as [->|Ha2'].
            + unfold holder in Hh. rewrite Hold0 in Hh by congruence. lia.
            + unfold holder in Hh. rewrite Hfr_n in Hh by (intros (_ & [?|(? & _)]); congruence).
              apply Honly in Hh. destruct Hh. congruence.
          - exfalso. unfold holder in Hh. rewrite Hfr_n in Hh by (intros (? & _); congruence).
            apply Honly in Hh. destruct Hh. congruence. }
        constructor.
        + unfold wf_world. rewrite step_len. exact ci_wf0.
        + intros sh1 a. destruct (N.eq_dec sh1 sh) as [->|Hs1].
          * destruct (beqb_spec a (argn i 1)) as [->|Ha]; [rewrite Hnew1; lia|].
            destruct (beqb_spec a (i_rcpt i)) as [->|Ha2']; [rewrite Hold0 by congruence; lia|].
            rewrite Hfr_n by (intros (_ & [?|(? & _)]); congruence). apply ci_cnt0.
          * rewrite Hfr_n by (intros (? & _); congruence). apply ci_cnt0.
        + intros sh1 a sh2 a2 H1 H2. apply Hh in H1. apply Hh in H2. destruct H1, H2. subst. auto.
        + intros sh1 a H1. apply Hh in H1. destruct H1 as [-> ->]. rewrite Hcnew. exact Hbound.
        + rewrite Hinfl, app_nil_r, Hnom. exact I.
        + intros Hg'. congruence.
        + exact ci_sorted0.
      - (* cross shard *)
        pose proof (handover_moves_counter_cross_shard E Hc _ _ _ _ Hex' Hsc Es) as H. cbv zeta in H. rewrite Ht in H.
        destruct H as (_ & _ & _ & Hr & _).
        assert (Hold0 : ncreate w' tok sh (i_rcpt i) = 0%nat).
        { unfold ncreate. rewrite step_wroles, N.eqb_refl, Hr, cnt_del_create.
          fold (wroles w tok sh (i_rcpt i)). fold (ncreate w tok sh (i_rcpt i)). lia. }
        assert (Hnew : shof (argn i 1) <> sh) by (apply N.eqb_neq; exact Es).
        assert (Hh : forall sh1 a, ~ holder w' tok sh1 a).
        { intros sh1 a Hh. destruct (N.eq_dec sh1 sh) as [->|Hs1].
          - destruct (beqb_spec a (i_rcpt i)) as [->|Ha2']; [unfold holder in Hh; rewrite Hold0 in Hh; lia|].
            unfold holder in Hh. rewrite Hfr_n in Hh by (intros (_ & [?|(_ & ?)]); congruence).
            apply Honly in Hh. destruct Hh. congruence.
          - unfold holder in Hh. rewrite Hfr_n in Hh by (intros (? & _); congruence).
            apply Honly in Hh. destruct Hh. congruence. }
        constructor.
        + unfold wf_world. rewrite step_len. exact ci_wf0.
        + intros sh1 a. specialize (Hh sh1 a). unfold holder in Hh. lia.
        + intros sh1 a sh2 a2 H1. exfalso. eapply Hh. exact H1.
        + intros sh1 a H1. exfalso. eapply Hh. exact H1.
        + rewrite Hinfl, hmsgs_app, Hnom. cbn [app hmsgs filter].
          assert (Eh : is_hmsg (handover_message c sh i (next_id w) (argn i 1) tok (wcounter w tok sh (i_rcpt i))) = true).
          { unfold is_hmsg. cbn [handover_message m_fn m_args nth]. rewrite !beqb_refl. reflexivity. }
          rewrite Eh. split; [exact Hh|]. exists (wcounter w tok sh (i_rcpt i)). split; [reflexivity|].
          split; [apply counter_at_lt|exact Hbound].
        + intros Hg'. congruence.
        + exact ci_sorted0.
    Qed.

    (* ---------- (d2) a hand-over message for tok is delivered (or returned) and consumed ---------- *)
    Lemma step_hand_msg id m : fn = CRT -> argn i 0 = tok ->
      find_msg (inflight w) id = Some m -> fn = m_fn m -> i_args i = m_args m ->
      kept w op = drop_msg (inflight w) id ->
      (emitted op sh fn i (next_id w) o = collect c sh fn i (next_id w) o \/ emitted op sh fn i (next_id w) o = []) ->
      CInv g w' L.
    Proof.
      intros Hf Ht Hfind Hfn Hargs Hkept Hemit.
      assert (Hex' : exec E CRT i s = (Ok o, s')) by (rewrite <- Hf; exact Hex).
      assert (Hm : is_hmsg m = true) by (apply (is_hmsg_hands m fn i Hfn Hargs); split; assumption).
      pose proof HI as HI'. destruct HI'.
      pose proof (find_msg_In _ _ _ Hfind) as (Hin & _).
      pose proof (hmsgs_in _ _ Hin Hm) as Hin'.
      destruct (hmsgs (inflight w)) as [|m0 [|m2 r]] eqn:Ehm; [destruct Hin'| |contradiction].
      destruct (hmsgs_drop_the _ _ _ Hfind Hm _ Ehm) as (-> & Hdrop).
      destruct ci_msgs0 as (Hnoh & n & Hma & Hn & HLn).
      assert (Hg : g = true).
      { destruct g; [reflexivity|]. destruct (ci_fresh0 eq_refl) as (_ & Hx & _). discriminate Hx. }
      assert (Ha1 : argn i 1 = u64_bytes n) by (unfold argn; rewrite Hargs, Hma; reflexivity).
      destruct (beqb_spec (i_caller i) SC) as [Hsc|Hsc].
      { (* the system-contract branch rejects the 8-byte counter as an address *)
        exfalso. pose proof Hex' as Hex2. change (exec E CRT i) with (f_create_role_transfer E i) in Hex2.
        apply (role_transfer_owner_spec E Hc) in Hex2 as (_ & tk & nw & Ha2 & Hz & _); [|exact Hsc].
        assert (Enw : nw = u64_bytes n) by (rewrite <- Ha1; unfold argn; rewrite Ha2; reflexivity).
        rewrite Enw, Hsc, zlen_SC in Hz. pose proof (u64_bytes_len n Hn). lia. }
      pose proof (handover_delivered E Hc _ _ _ _ Hex' Hsc) as H. cbv zeta in H. rewrite Ht, Ha1 in H.
      destruct H as (_ & Ho & Hcn & Hr & _ & _).
      rewrite bigU64_u64_bytes, (u64_small n Hn) in Hcn.
      assert (H0 : forall sh1 a, ncreate w tok sh1 a = 0%nat).
      { intros sh1 a. specialize (Hnoh sh1 a). unfold holder in Hnoh. lia. }
      assert (Hfr_n : forall sh1 a, ~ (sh1 = sh /\ a = i_rcpt i) -> ncreate w' tok sh1 a = 0%nat).
      { intros sh1 a Hne. rewrite step_ncreate_frame; [apply H0|]. intros -> (_ & [[[Hx|Hx] _]|[_ Hx]]).
        - rewrite Hf in Hx. revert Hx. cne.
        - rewrite Hf in Hx. revert Hx. cne.
        - destruct Hx as [Hx|(_ & Hx & _)]; [apply Hne; auto|contradiction]. }
      assert (H1 : ncreate w' tok sh (i_rcpt i) = 1%nat).
      { unfold ncreate. rewrite step_wroles, N.eqb_refl, Hr. apply cnt_add_create_le1. apply (ci_cnt0 sh (i_rcpt i)). }
      assert (Hc1 : wcounter w' tok sh (i_rcpt i) = n) by (rewrite step_wcounter, N.eqb_refl; exact Hcn).
      assert (Hh : forall sh1 a, holder w' tok sh1 a -> sh1 = sh /\ a = i_rcpt i).
      { intros sh1 a Hh. destruct (N.eq_dec sh1 sh) as [->|Hs1]; [destruct (beqb_spec a (i_rcpt i)) as [->|Ha]|]; auto;
          exfalso; unfold holder in Hh; rewrite Hfr_n in Hh by (intros [? ?]; congruence); lia. }
      assert (Hem : emitted op sh fn i (next_id w) o = []).
      { destruct Hemit as [He|He]; [|exact He]. rewrite He, Hf. apply collect_no_accounts; [subst o; reflexivity|reflexivity]. }
      destruct step_facts as (_ & _ & Hinfl). rewrite Hkept, Hem, app_nil_r in Hinfl.
      constructor.
      - unfold wf_world. rewrite step_len. exact ci_wf0.
      - intros sh1 a. destruct (N.eq_dec sh1 sh) as [->|Hs1]; [destruct (beqb_spec a (i_rcpt i)) as [->|Ha]|];
          [rewrite H1; lia| |]; rewrite Hfr_n by (intros [? ?]; congruence); lia.
      - intros sh1 a sh2 a2 Hx Hy. apply Hh in Hx. apply Hh in Hy. destruct Hx, Hy. subst. auto.
      - intros sh1 a Hx. apply Hh in Hx. destruct Hx as [-> ->]. rewrite Hc1. exact HLn.
      - rewrite Hinfl, Hdrop. exact I.
      - intros Hg'. congruence.
      - exact ci_sorted0.
    Qed.
  End Step.

  (* ================================================================ *)
  (* one disciplined step preserves the invariant                       *)
  (* ================================================================ *)
  Lemma CInv_ext g w w' L : shards w' = shards w -> inflight w' = inflight w -> CInv g w L -> CInv g w' L.
  Proof.
    intros Hs Hi. apply CInv_same; unfold ncreate, wcounter, wroles, wst, shard_accts; rewrite ?Hs, ?Hi; reflexivity.
  Qed.

  Theorem CInv_step g w op L : CInv g w L -> step_ok g w op -> step_nowrap w op ->
    CInv (g || grant_attempt w op) (wstep c w op) (L ++ issued (opt_list (step_log w op))).
  Proof.
    intros HI Hok Hnw. pose proof (wstep_shape w op) as Hsh. unfold step_log, grant_attempt.
    destruct (op_exec w op) as [[[sh fn] i]|] eqn:Hop.
    2:{ destruct Hsh as (H1 & H2). cbn [opt_list issued flat_map]. rewrite app_nil_r, Bool.orb_false_r.
        apply (CInv_ext g w); assumption. }
    destruct Hsh as (Hlt & Hsh).
    destruct (exec (env_at c sh) fn i (wst w sh)) as [[o|e|] s'] eqn:Hex.
    2:{ destruct Hsh as (H1 & H2). cbn [opt_list issued flat_map]. rewrite app_nil_r.
        eapply CInv_g; [|apply (CInv_ext g w); eassumption]. intros Hg. apply Bool.orb_false_iff in Hg. tauto. }
    2:{ destruct Hsh as (H1 & H2). cbn [opt_list issued flat_map]. rewrite app_nil_r.
        eapply CInv_g; [|apply (CInv_ext g w); eassumption]. intros Hg. apply Bool.orb_false_iff in Hg. tauto. }
    clear Hsh. cbn [opt_list issued flat_map]. rewrite app_nil_r. unfold issued_of. cbn [x_fn x_in x_out].
    assert (Hmono : forall b, (g || b)%bool = false -> g = false) by (intros b Hg; apply Bool.orb_false_iff in Hg; tauto).
    destruct (beqb_spec (argn i 0) tok) as [Ht|Ht].
    - destruct (beqb_spec fn FCreate) as [Hf|Hf1].
      { cbn [andb]. destruct (step_create g w op L sh fn i o s' (ci_wf _ _ _ HI) (proj1 Hok) Hop Hex HI Hf Ht Hnw) as (Hret & _ & H).
        rewrite Hret. eapply CInv_g; [apply Hmono|exact H]. }
      cbn [andb]. rewrite app_nil_r.
      destruct (beqb_spec fn FSetRole) as [Hf|Hf2].
      { cbn [andb]. rewrite Bool.andb_true_r.
        exact (step_roles g w op L sh fn i o s' (ci_wf _ _ _ HI) (proj1 Hok) Hop Hex HI Hok true Hf Ht). }
      cbn [andb].
      destruct (beqb_spec fn FUnSetRole) as [Hf|Hf3].
      { eapply CInv_g; [apply Hmono|]. pose proof (step_roles g w op L sh fn i o s' (ci_wf _ _ _ HI) (proj1 Hok) Hop Hex HI Hok false Hf Ht) as H.
        rewrite Bool.orb_false_r in H. exact H. }
      destruct (beqb_spec fn CRT) as [Hf|Hf4].
      { eapply CInv_g; [apply Hmono|]. pose proof Hok as (_ & Hs). rewrite Hop in Hs. destruct Hs as (_ & _ & Hh).
        assert (Hsnd : i_snd i = false).
        { pose proof Hex as Hex2. rewrite Hf in Hex2. apply role_transfer_requires_exec in Hex2. tauto. }
        specialize (Hh (conj (conj Hf Ht) Hsnd)). pose proof (op_exec_msg _ _ _ _ _ Hop) as Hm.
        destruct op as [sh0 fn0 i0|id gas|id gas|id gas].
        - destruct Hh as (Hsc & Hhold).
          apply (step_hand_sc g w _ L sh fn i o s' (ci_wf _ _ _ HI) Hop Hex HI Hok Hf Ht Hsc Hhold); reflexivity.
        - destruct Hm as (m & Hfind & Hfn & Ha).
          apply (step_hand_msg g w _ L sh fn i o s' (ci_wf _ _ _ HI) Hop Hex HI Hok id m Hf Ht Hfind Hfn Ha); [reflexivity|left; reflexivity].
        - destruct Hh.
        - destruct Hm as (m & Hfind & Hfn & Ha).
          apply (step_hand_msg g w _ L sh fn i o s' (ci_wf _ _ _ HI) Hop Hex HI Hok id m Hf Ht Hfind Hfn Ha); [reflexivity|right; reflexivity]. }
      eapply CInv_g; [apply Hmono|]. apply (step_other g w op L sh fn i o s' (ci_wf _ _ _ HI) (proj1 Hok) Hop Hex HI).
      intros (_ & [?|[?|[?|?]]]); contradiction.
    - rewrite !Bool.andb_false_r. cbn [andb]. rewrite app_nil_r. eapply CInv_g; [apply Hmono|].
      apply (step_other g w op L sh fn i o s' (ci_wf _ _ _ HI) (proj1 Hok) Hop Hex HI). intros (? & _). contradiction.
  Qed.

  (* ================================================================ *)
  (* histories                                                          *)
  (* ================================================================ *)
  Theorem CInv_run : forall ops g w L, CInv g w L -> disciplined g w ops -> nowrap w ops ->
    exists g', CInv g' (wrun c w ops) (L ++ issued (snd (wrun_log w ops))).
  Proof.
    induction ops as [|op r IH]; intros g w L HI Hd Hn.
    - exists g. cbn. rewrite app_nil_r. exact HI.
    - destruct Hd as (Hok & Hd). destruct Hn as (Hnw & Hn). rewrite wrun_cons. cbn [wrun_log snd].
      rewrite issued_app, app_assoc. eapply IH; [|exact Hd|exact Hn]. apply CInv_step; assumption.
  Qed.

  (* the history variable never exceeds the counter of whoever holds the create role / of the message in flight *)
  Theorem counter_ge_issued w0 ops : init_ok w0 -> disciplined false w0 ops -> nowrap w0 ops ->
    let w := wrun c w0 ops in let L := issued (snd (wrun_log w0 ops)) in
    (forall sh a, holder w tok sh a -> Forall (fun n => (n <= wcounter w tok sh a)%N) L)
    /\ (forall sh a sh' a', holder w tok sh a -> holder w tok sh' a' -> sh = sh' /\ a = a')
    /\ (forall m, In m (inflight w) -> is_hmsg m = true ->
          (forall sh a, ~ holder w tok sh a)
          /\ exists n, m_args m = [tok; u64_bytes n] /\ Forall (fun k => (k <= n)%N) L).
  Proof.
    intros Hi Hd Hn. cbv zeta. destruct (CInv_run ops false w0 [] (CInv_init _ Hi) Hd Hn) as (g' & H). cbn [app] in H.
    destruct H. split; [exact ci_bound0|]. split; [exact ci_one0|].
    intros m Hin Hm. pose proof (hmsgs_in _ _ Hin Hm) as Hin'.
    destruct (hmsgs (inflight (wrun c w0 ops))) as [|m0 [|m2 r]]; [destruct Hin'| |contradiction].
    destruct Hin' as [->|[]]. destruct ci_msgs0 as (H1 & n & H2 & _ & H3). split; [exact H1|]. exists n. auto.
  Qed.

  (* THE history theorem *)
  Theorem nonces_unique_histories w0 ops : init_ok w0 -> disciplined false w0 ops -> nowrap w0 ops ->
    let L := issued (snd (wrun_log w0 ops)) in NoDup L /\ StronglySorted N.lt L.
  Proof.
    intros Hi Hd Hn. cbv zeta. destruct (CInv_run ops false w0 [] (CInv_init _ Hi) Hd Hn) as (g' & H). cbn [app] in H.
    destruct H. split; [apply sorted_lt_NoDup|]; assumption.
  Qed.
End World.

Print Assumptions CInv_step.
Print Assumptions counter_ge_issued.
Print Assumptions nonces_unique_histories.
