(* C15 (well-formed token state), part 5: the boolean checker [inv_check] (sound for [Inv]: [inv_check_sound]),
   non-vacuity of the invariant (a state with every kind of entry satisfies it; a zero-balance unfrozen entry
   does not), and experiments evaluated with vm_compute on the ideal codec: hostile call sequences (aliasing
   token id + nonce (F4a/F4b shapes), pause over a holding of the system account (F8), zero-quantity NFT transfer,
   freeze of an NFT key, counter wrap) keep the checker true after every step; the two disciplines are necessary
   ([crafted_payload_refuted], [duplicate_role_refuted]); metadata nonce 0 is reachable only through a counter
   of 2^64 - 1 ([counter_wrap_issues_nonce_zero]). *)
From Coq.Strings Require Import String.
From Coq Require Import Lia.
From EV Require Import Base.Bytes Base.Store Base.Monad gen.Consts Codec.Types Codec.Proto Codec.Ideal Codec.CodecOk
  Helpers.Helpers Ledger.Types Ledger.Env Ledger.Funcs Ledger.Transfers Ledger.World Corr.Exec
  LedgerProofs.Defs LedgerProofs.EnvSpec LedgerProofs.WorldDefs LedgerProofs.WorldSpec
  LedgerProofs.C15_Inv LedgerProofs.C15_Funcs LedgerProofs.C15_Transfers LedgerProofs.C15_World.

(* ---------------- the flag fact for the two concrete codecs ---------------- *)
Lemma flag_undec_ideal : flag_undec ideal_codec.
Proof. intros f. destruct f; vm_compute; reflexivity. Qed.
Lemma flag_undec_proto : flag_undec the_codec.
Proof. intros f. destruct f; vm_compute; reflexivity. Qed.

(* ---------------- the checker ---------------- *)
Definition props_ok_b (p : bytes) : bool := beqb p [] || beqb p (flag_bytes false) || beqb p (flag_bytes true).
Definition nometa (t : token) : bool := match t_meta t with None => true | Some _ => false end.
Definition shape_ok_b (t : token) : bool := Bool.eqb (t_type t =? C.Fungible)%N (nometa t) && props_ok_b (t_props t).
Definition value_ok_b (t : token) : bool :=
  match t_value t with
  | Some v => (0 <? v)%Z || ((v =? 0)%Z && (t_type t =? C.Fungible)%N && nometa t && frozen_props (t_props t))
  | None => false
  end.
(* k = P ++ tok ++ nonce bytes for some tok *)
Definition keyed_b (k : bytes) (t : token) : bool :=
  match t_meta t with
  | None => true
  | Some m =>
    let nb := u64_bytes (md_nonce m) in
    prefix_of P k && (length P + length nb <=? length k)%nat && beqb (skipn (length k - length nb) k) nb
  end.
Definition entry_ok_b (k : bytes) (t : token) : bool := value_ok_b t && shape_ok_b t && keyed_b k t.
Fixpoint nodup_b (l : list bytes) : bool :=
  match l with [] => true | x :: r => negb (bytes_in x r) && nodup_b r end.
Definition cell_check (E : env) (a k v : bytes) : bool :=
  if prefix_of P k then
    (beqb a SYS && (beqb v (flag_bytes true) || beqb v (flag_bytes false)))
    || match dec_tok (cdc E) v with Some t => entry_ok_b k t | None => false end
  else if prefix_of RP k then
    match dec_rol (cdc E) v with Some r => negb (beqb (concat r) [] && Nat.eqb (length r) 0) && nodup_b r | None => false end
  else if prefix_of NP k then beqb v (u64_bytes (be_to_N v)) && (be_to_N v <? two64)%N
  else negb (prefix_of C.ElrondProtectedKeyPrefix k).
Definition acct_check (E : env) (a : bytes) (ac : account) : bool :=
  forallb (fun k => let v := sget (a_store ac) k in beqb v [] || cell_check E a k v) (skeys (a_store ac)).
Definition inv_check (E : env) (s : mstate) : bool :=
  forallb (fun p => acct_check E (fst p) (snd p)) (accts s).

(* ---------------- soundness ---------------- *)
Lemma props_ok_b_true p : props_ok_b p = true -> props_ok p.
Proof.
  unfold props_ok_b. intros H. apply orb_prop in H as [H|H]; [apply orb_prop in H as [H|H]|]; apply beqb_true in H.
  - left. exact H.
  - right. left. exact H.
  - right. right. exact H.
Qed.
Lemma nometa_true t : nometa t = true <-> t_meta t = None.
Proof. unfold nometa. destruct (t_meta t); split; intros; congruence. Qed.
Lemma shape_ok_b_true t : shape_ok_b t = true -> shape_ok t.
Proof.
  unfold shape_ok_b. intros H. apply andb_prop in H as [H1 H2]. split; [|apply props_ok_b_true; exact H2].
  apply Bool.eqb_prop in H1. rewrite <- nometa_true, <- H1. symmetry. apply N.eqb_eq.
Qed.
Lemma value_ok_b_true t : value_ok_b t = true -> value_ok t.
Proof.
  unfold value_ok_b, value_ok. destruct (t_value t) as [v|]; [|discriminate]. intros H. exists v. split; [reflexivity|].
  apply orb_prop in H as [H|H]; [left; lia|right].
  apply andb_prop in H as [H H4]. apply andb_prop in H as [H H3]. apply andb_prop in H as [H1 H2].
  split; [lia|]. split; [apply N.eqb_eq; exact H2|]. split; [apply nometa_true; exact H3|exact H4].
Qed.
Lemma keyed_b_true k t : keyed_b k t = true -> keyed k t.
Proof.
  unfold keyed_b. intros H m Hm. rewrite Hm in H.
  apply andb_prop in H as [H H3]. apply andb_prop in H as [H1 H2].
  apply prefix_of_true in H1 as [x ->]. apply Nat.leb_le in H2. apply beqb_true in H3.
  set (nb := u64_bytes (md_nonce m)) in *. rewrite app_length in *.
  exists (firstn (length x - length nb) x). unfold nft_key. fold nb. rewrite <- app_assoc. f_equal.
  rewrite skipn_app in H3. replace (length P + length x - length nb - length P)%nat with (length x - length nb)%nat in H3 by lia.
  rewrite (skipn_all2 P) in H3 by lia. cbn [app] in H3. rewrite <- H3 at 2. symmetry. apply firstn_skipn.
Qed.
Lemma entry_ok_b_true k t : entry_ok_b k t = true -> entry_ok k t.
Proof.
  unfold entry_ok_b. intros H. apply andb_prop in H as [H H3]. apply andb_prop in H as [H1 H2].
  split; [apply value_ok_b_true; exact H1|]. split; [apply shape_ok_b_true; exact H2|apply keyed_b_true; exact H3].
Qed.
Lemma nodup_b_true l : nodup_b l = true -> NoDup l.
Proof.
  induction l as [|x r IH]; intros H; [constructor|]. cbn [nodup_b] in H. apply andb_prop in H as [H1 H2].
  constructor; [|apply IH; exact H2]. intros Hin. apply bytes_in_true in Hin. rewrite Hin in H1. discriminate.
Qed.

Lemma nodup_b_complete l : NoDup l -> nodup_b l = true.
Proof.
  induction 1 as [|x r Hx Hr IH]; [reflexivity|]. cbn [nodup_b]. rewrite IH, andb_true_r.
  destruct (bytes_in x r) eqn:Eb; [|reflexivity]. apply bytes_in_true in Eb. contradiction.
Qed.

Lemma cell_check_sound E a k v : cell_check E a k v = true -> cell_ok E a k v.
Proof.
  unfold cell_check. intros H.
  destruct (prefix_of P k) eqn:EP.
  { apply prefix_of_true in EP as [x ->]. split; [intros _; left; eauto|]. split; [|split].
    - intros x' _. apply orb_prop in H as [H|H].
      + left. apply andb_prop in H as [H1 H2]. apply beqb_true in H1. split; [exact H1|].
        apply orb_prop in H2 as [H2|H2]; apply beqb_true in H2; eauto.
      + right. destruct (dec_tok (cdc E) v) as [t|]; [|discriminate]. exists t. split; [reflexivity|apply entry_ok_b_true; exact H].
    - intros x' Hx. exfalso. exact (P_RP_disjoint _ _ Hx).
    - intros x' Hx. exfalso. exact (P_NP_disjoint _ _ Hx). }
  destruct (prefix_of RP k) eqn:ER.
  { apply prefix_of_true in ER as [x ->]. split; [intros _; right; left; eauto|]. split; [|split].
    - intros x' Hx. exfalso. symmetry in Hx. exact (P_RP_disjoint _ _ Hx).
    - intros x' _. destruct (dec_rol (cdc E) v) as [r|]; [|discriminate]. exists r. split; [reflexivity|].
      apply andb_prop in H as [H1 H2]. split; [|apply nodup_b_true; exact H2].
      intros ->. cbn in H1. discriminate.
    - intros x' Hx. exfalso. exact (RP_NP_disjoint _ _ Hx). }
  destruct (prefix_of NP k) eqn:EN.
  { apply prefix_of_true in EN as [x ->]. split; [intros _; right; right; eauto|]. split; [|split].
    - intros x' Hx. exfalso. symmetry in Hx. exact (P_NP_disjoint _ _ Hx).
    - intros x' Hx. exfalso. symmetry in Hx. exact (RP_NP_disjoint _ _ Hx).
    - intros x' _. apply andb_prop in H as [H1 H2]. apply beqb_true in H1. exists (be_to_N v). split; [exact H1|lia]. }
  split; [intros Hp; rewrite Hp in H; discriminate|]. split; [|split]; intros x ->.
  - rewrite prefix_of_app in EP. discriminate.
  - rewrite prefix_of_app in ER. discriminate.
  - rewrite prefix_of_app in EN. discriminate.
Qed.

Lemma aget_in (l : amap account) a : aget empty_account l a = empty_account \/ In (a, aget empty_account l a) l.
Proof.
  induction l as [|[a' x] r IH]; [left; reflexivity|]. cbn [aget]. destruct (beqb_spec a a') as [->|Hne].
  - right. left. reflexivity.
  - destruct IH as [IH|IH]; [left; exact IH|right; right; exact IH].
Qed.

Theorem inv_check_sound E s : inv_check E s = true -> Inv E s.
Proof.
  intros H a k Hne. unfold inv_check in H. rewrite forallb_forall in H.
  unfold cell, acct in *. destruct (aget_in (accts s) a) as [He|Hin].
  - rewrite He in Hne. cbn [empty_account a_store] in Hne. rewrite sget_nil in Hne. congruence.
  - specialize (H _ Hin). cbn [fst snd] in H. unfold acct_check in H. rewrite forallb_forall in H.
    set (ac := aget empty_account (accts s) a) in *.
    assert (Hk : In k (skeys (a_store ac))).
    { destruct (in_dec (list_eq_dec Byte.byte_eq_dec) k (skeys (a_store ac))) as [Hi|Hn]; [exact Hi|].
      apply sget_notin in Hn. congruence. }
    specialize (H _ Hk). cbv zeta in H. apply orb_prop in H as [H|H].
    + apply beqb_true in H. congruence.
    + apply cell_check_sound. exact H.
Qed.

(* ---------------- a concrete environment (ideal codec: [codec_ok]) ---------------- *)
Definition alice : bytes := repeat x01 32.
Definition bob : bytes := repeat x02 32.      (* lives on shard 1 *)
Definition carol : bytes := repeat x03 32.
Definition EI : env :=
  {| plan := fun _ => false; cdc := ideal_codec; shard_of := fun a => if beqb a bob then 1%N else 0%N; self_shard := 0%N;
     payable := fun _ => PayYes; dns := []; enable_change := false; gas := gas_of (repeat 1%N 22) |}.
Lemma EI_ok : codec_ok (cdc EI). Proof. exact ideal_codec_ok. Qed.
Lemma EI_flag : flag_undec (cdc EI). Proof. exact flag_undec_ideal. Qed.

Definition tokA : bytes := str "TOK-a1b2c3"%string.
Definition tokB : bytes := str "FRZ-000001"%string.
Definition tokN : bytes := str "NFT-123456"%string.
Definition tokAl : bytes := str "NFT-12345"%string.      (* tokAl ++ "6" ++ [0x44] = tokN ++ [0x44]: the aliasing id of F4b *)
Definition fung (v : Z) (props : bytes) : token :=
  {| t_type := C.Fungible; t_value := Some v; t_props := props; t_meta := None; t_reserved := [] |}.
Definition nft (v : Z) (nonce : N) : token :=
  {| t_type := C.NonFungible; t_value := Some v; t_props := [];
     t_meta := Some {| md_nonce := nonce; md_name := str "n"%string; md_creator := alice; md_royalties := 100;
                       md_hash := str "h"%string; md_uris := [str "u"%string]; md_attributes := [] |};
     t_reserved := [] |}.
Definition enc := enc_tok ideal_codec.
Definition all_roles : list bytes :=
  [C.ESDTRoleLocalMint; C.ESDTRoleLocalBurn; C.ESDTRoleNFTCreate; C.ESDTRoleNFTAddQuantity; C.ESDTRoleNFTBurn;
   C.ESDTRoleNFTAddURI; C.ESDTRoleNFTUpdateAttributes].
Definition mkacct (st : list (bytes * bytes)) : account :=
  {| a_store := st; a_balance := 100; a_owner := carol; a_username := []; a_devreward := 7 |}.

(* a fungible entry, a frozen zero entry, an NFT entry (nonce 0x44 under its key), a role list, a counter, and
   a pause flag in the system account *)
Definition sGood : mstate :=
  mk_state [(alice, mkacct [(P ++ tokA, enc (fung 5 [])); (P ++ tokB, enc (fung 0 (flag_bytes true)));
                            (nft_key (P ++ tokN) 68, enc (nft 7 68));
                            (RP ++ tokN, enc_rol ideal_codec all_roles); (RP ++ tokA, enc_rol ideal_codec all_roles);
                            (NP ++ tokN, u64_bytes 68)]);
            (SYS, mkacct [(P ++ tokA, flag_bytes true)]);
            (carol, mkacct [])].
Example sGood_inv : Inv EI sGood.
Proof. apply inv_check_sound. vm_compute. reflexivity. Qed.

(* a zero-balance entry that is not frozen violates the invariant *)
Definition sZero : mstate := mk_state [(alice, mkacct [(P ++ tokA, enc (fung 0 []))])].
Example sZero_not_inv : ~ Inv EI sZero.
Proof.
  intros H. assert (Hne : cell sZero alice (P ++ tokA) <> []) by (vm_compute; discriminate).
  destruct (H _ _ Hne) as (_ & Hp & _). destruct (Hp tokA eq_refl) as [(Hs & _)|(t & Hd & ((v & Hv & Hcase) & _))].
  - vm_compute in Hs. discriminate.
  - vm_compute in Hd. injection Hd as <-. cbn in Hv. injection Hv as <-. destruct Hcase as [Hc|(_ & _ & _ & Hc)].
    + lia.
    + vm_compute in Hc. discriminate.
Qed.
Example sZero_check : inv_check EI sZero = false. Proof. vm_compute. reflexivity. Qed.

(* ---------------- experiments: sequences of calls with rollback, checker after every step ---------------- *)
Definition mkin (caller rcpt : bytes) (args : list bytes) (snd dst rae : bool) : input :=
  {| i_caller := caller; i_rcpt := rcpt; i_args := args; i_value := 0; i_gas := 100000; i_gasLocked := 0;
     i_callType := C.DirectCall; i_rae := rae; i_snd := snd; i_dst := dst |}.
Definition step (E : env) (s : mstate) (op : bytes * input) : mstate * bool :=
  match exec E (fst op) (snd op) s with
  | (Ok _, s') => (s', true)
  | _ => (s, false)
  end.
(* (number of successful steps, checker true after every step) *)
Fixpoint run_seq (E : env) (s : mstate) (ops : list (bytes * input)) : nat * bool :=
  match ops with
  | [] => (0%nat, true)
  | op :: r => let '(s', ok) := step E s op in
               let '(n, b) := run_seq E s' r in
               ((if ok then S n else n), inv_check E s' && b)
  end.
Definition final (E : env) (s : mstate) (ops : list (bytes * input)) : mstate :=
  fold_left (fun s op => fst (step E s op)) ops s.

Definition be (n : N) : bytes := N_to_be n.
(* hostile but disciplined calls on sGood; every one of them succeeds *)
Definition hostile_ops : list (bytes * input) :=
  [ (* NFT create twice, add quantity, burn to zero *)
    (C.BuiltInFunctionESDTNFTCreate, mkin alice alice [tokN; be 3; str "nm"%string; be 50; str "hh"%string; []; str "uri"%string] true true false);
    (C.BuiltInFunctionESDTNFTAddQuantity, mkin alice alice [tokN; be 69; be 5] true true false);
    (C.BuiltInFunctionESDTNFTBurn, mkin alice alice [tokN; be 69; be 8] true true false);
    (* F4b: token id + nonce aliasing the key of NFT-123456 # 0x44: ESDTNFTTransfer("NFT-12345", 0x3644, 3, carol) *)
    (C.BuiltInFunctionESDTNFTTransfer, mkin alice alice [tokAl; [x36; x44]; be 3; carol] true true false);
    (* zero-quantity NFT transfer (accepted by the code) to an absent destination cell *)
    (C.BuiltInFunctionESDTNFTTransfer, mkin alice alice [tokN; be 68; []; carol] true true false);
    (* cross-shard NFT transfer *)
    (C.BuiltInFunctionESDTNFTTransfer, mkin alice alice [tokN; be 68; be 1; bob] true true false);
    (* multi transfer: a fungible and an NFT, same shard (tokA is paused in sGood: unpause first) *)
    (C.BuiltInFunctionESDTUnPause, mkin SC SYS [tokA] false true false);
    (C.BuiltInFunctionMultiESDTNFTTransfer, mkin alice alice [carol; be 2; tokA; []; be 2; tokN; be 68; be 1] true true false);
    (* freeze / unfreeze an NFT key and an absent fungible key *)
    (C.BuiltInFunctionESDTFreeze, mkin SC carol [tokN ++ be 68] false true false);
    (C.BuiltInFunctionESDTFreeze, mkin SC carol [tokB] false true false);
    (C.BuiltInFunctionESDTUnFreeze, mkin SC carol [tokB] false true false);
    (* spend a frozen entry to zero with return-after-error set (a refund), then wipe *)
    (C.BuiltInFunctionESDTFreeze, mkin SC alice [tokA] false true false);
    (C.BuiltInFunctionESDTTransfer, mkin alice carol [tokA; be 3] true true true);
    (C.BuiltInFunctionESDTWipe, mkin SC alice [tokA] false true false);
    (* F8: the system account receives a holding, then the pause flag overwrites it *)
    (C.BuiltInFunctionESDTTransfer, mkin carol SYS [tokB; be 4] false true false);
    (C.BuiltInFunctionESDTTransfer, mkin carol SYS [tokN; be 9] false true false);
    (C.BuiltInFunctionESDTPause, mkin SC SYS [tokN] false true false);
    (C.BuiltInFunctionESDTUnPause, mkin SC SYS [tokN] false true false);
    (* roles: unset, hand-over of the create role to carol (same shard), local mint / burn *)
    (C.BuiltInFunctionUnSetESDTRole, mkin SC alice [tokN; C.ESDTRoleNFTBurn; C.ESDTRoleNFTBurn] false true false);
    (C.BuiltInFunctionESDTNFTCreateRoleTransfer, mkin SC alice [tokN; carol] false true false);
    (C.BuiltInFunctionESDTLocalMint, mkin alice alice [tokA; be 10] true true false);
    (C.BuiltInFunctionESDTLocalBurn, mkin alice alice [tokA; be 10] true true false);
    (* SaveKeyValue cannot touch protected keys; an unprotected key is fine *)
    (C.BuiltInFunctionSaveKeyValue, mkin alice alice [str "mykey"%string; str "v"%string] true true false) ].
Example hostile_sequence_keeps_checker : run_seq EI sGood hostile_ops = (length hostile_ops, true).
Proof. vm_compute. reflexivity. Qed.
Example save_key_value_protected_rejected :
  fst (exec EI C.BuiltInFunctionSaveKeyValue (mkin alice alice [P ++ tokA; []] true true false) sGood) = Err EOperationNotPermitted.
Proof. vm_compute. reflexivity. Qed.

(* counter 2^64 - 1: ESDTNFTCreate issues nonce 0 (the counter wraps) and stores the entry under P ++ tok, where
   [nft_key (P ++ tok) 0 = P ++ tok]: the invariant (which does not claim nonce > 0) still holds; this is the only
   way to metadata nonce 0 and needs 2^64 - 1 successful creates or a forged hand-over message *)
Definition sWrap : mstate :=
  mk_state [(alice, mkacct [(RP ++ tokN, enc_rol ideal_codec all_roles); (NP ++ tokN, u64_bytes 18446744073709551615)])].
Definition create_in := mkin alice alice [tokN; be 1; str "nm"%string; be 50; str "hh"%string; []; str "uri"%string] true true false.
Example counter_wrap_issues_nonce_zero :
  Inv EI sWrap /\
  match exec EI C.BuiltInFunctionESDTNFTCreate create_in sWrap with
  | (Ok o, s') => o_returnData o = [[]] /\ inv_check EI s' = true
                  /\ (match tok_at EI s' alice (P ++ tokN) with Some t => tok_nonce t = 0%N | None => False end)
                  /\ cell s' alice (NP ++ tokN) = []
  | _ => False
  end.
Proof. split; [apply inv_check_sound; vm_compute; reflexivity|]. vm_compute. auto. Qed.

(* ---------------- the two disciplines are necessary ---------------- *)
(* a forged destination-side ESDTNFTTransfer whose payload has type Fungible AND metadata is stored as it is *)
Definition bad_payload : token :=
  {| t_type := C.Fungible; t_value := Some 1%Z; t_props := [x07];
     t_meta := Some {| md_nonce := 5; md_name := []; md_creator := []; md_royalties := 0;
                       md_hash := []; md_uris := []; md_attributes := [] |};
     t_reserved := [] |}.
Definition forged_in := mkin bob carol [tokN; be 5; be 1; enc bad_payload] false true false.
Example crafted_payload_refuted :
  Inv EI sGood /\ roles_disciplined EI sGood C.BuiltInFunctionESDTNFTTransfer forged_in
  /\ ~ payload_disciplined EI C.BuiltInFunctionESDTNFTTransfer forged_in
  /\ match exec EI C.BuiltInFunctionESDTNFTTransfer forged_in sGood with
     | (Ok _, s') => ~ Inv EI s'
     | _ => False
     end.
Proof.
  split; [exact sGood_inv|]. split; [intros H; vm_compute in H; discriminate|]. split.
  - intros H. assert (Hd : dest_side forged_in) by (split; [reflexivity|intros He; vm_compute in He; discriminate]).
    destruct (H Hd) as [H1 _]. specialize (H1 eq_refl (enc bad_payload) eq_refl bad_payload).
    assert (Hdec : dec_tok (cdc EI) (enc bad_payload) = Some bad_payload) by (vm_compute; reflexivity).
    destruct (H1 Hdec) as [[H2 _] _]. specialize (H2 eq_refl). discriminate.
  - destruct (exec EI C.BuiltInFunctionESDTNFTTransfer forged_in sGood) as [[o|e|] s'] eqn:Ex;
      [|vm_compute in Ex; discriminate..].
    intros Hinv. assert (Hs' : s' = snd (exec EI C.BuiltInFunctionESDTNFTTransfer forged_in sGood)) by (rewrite Ex; reflexivity).
    assert (Hne : cell s' carol (nft_key (P ++ tokN) 5) <> []) by (rewrite Hs'; vm_compute; discriminate).
    destruct (Hinv _ _ Hne) as (_ & Hp & _).
    destruct (Hp (tokN ++ u64_bytes 5) (nft_key_app _ _ _)) as [(Hsys & _)|(t & Hd & (_ & ((H2 & _) & _) & _))].
    + vm_compute in Hsys. discriminate.
    + rewrite Hs' in Hd. vm_compute in Hd. injection Hd as <-. specialize (H2 eq_refl). discriminate.
Qed.

(* ESDTSetRole with a role the account already holds stores a list with a duplicate *)
Definition dup_in := mkin SC alice [tokN; C.ESDTRoleNFTBurn] false true false.
Example duplicate_role_refuted :
  Inv EI sGood /\ payload_disciplined EI C.BuiltInFunctionSetESDTRole dup_in
  /\ ~ roles_disciplined EI sGood C.BuiltInFunctionSetESDTRole dup_in
  /\ match exec EI C.BuiltInFunctionSetESDTRole dup_in sGood with
     | (Ok _, s') => ~ Inv EI s'
     | _ => False
     end.
Proof.
  split; [exact sGood_inv|]. split; [intros _; split; intros H; vm_compute in H; discriminate|]. split.
  - intros H. specialize (H eq_refl tokN eq_refl).
    assert (Hr : roles_at EI sGood (i_rcpt dup_in) tokN ++ skipn 1 (i_args dup_in) = all_roles ++ [C.ESDTRoleNFTBurn]) by (vm_compute; reflexivity).
    rewrite Hr in H. apply nodup_b_complete in H. vm_compute in H. discriminate.
  - destruct (exec EI C.BuiltInFunctionSetESDTRole dup_in sGood) as [[o|e|] s'] eqn:Ex; [|vm_compute in Ex; discriminate..].
    intros Hinv. assert (Hs' : s' = snd (exec EI C.BuiltInFunctionSetESDTRole dup_in sGood)) by (rewrite Ex; reflexivity).
    assert (Hne : cell s' alice (RP ++ tokN) <> []) by (rewrite Hs'; vm_compute; discriminate).
    destruct (Hinv _ _ Hne) as (_ & _ & Hrp & _). destruct (Hrp tokN eq_refl) as (r & Hd & _ & Hnd).
    rewrite Hs' in Hd. vm_compute in Hd. injection Hd as <-.
    apply nodup_b_complete in Hnd. vm_compute in Hnd. discriminate.
Qed.

(* ---------------- non-vacuity of the theorems ---------------- *)
(* Inv_exec instantiated: a disciplined ESDTSetRole on sGood *)
Definition set_in := mkin SC carol [tokN; C.ESDTRoleNFTBurn; C.ESDTRoleLocalMint] false true false.
Example inst_Inv_exec :
  exists o s', exec EI C.BuiltInFunctionSetESDTRole set_in sGood = (Ok o, s') /\ Inv EI s'
               /\ roles_at EI s' carol tokN = [C.ESDTRoleNFTBurn; C.ESDTRoleLocalMint].
Proof.
  destruct (exec EI C.BuiltInFunctionSetESDTRole set_in sGood) as [[o|e|] s'] eqn:Ex; [|vm_compute in Ex; discriminate..].
  exists o, s'. split; [reflexivity|]. split.
  - eapply (Inv_exec EI); [exact EI_ok|exact EI_flag|exact sGood_inv| |exact Ex]. split.
    + intros _ tok Ht. injection Ht as <-.
      assert (Hr : roles_at EI sGood (i_rcpt set_in) tokN ++ skipn 1 (i_args set_in) = [C.ESDTRoleNFTBurn; C.ESDTRoleLocalMint])
        by (vm_compute; reflexivity).
      rewrite Hr. apply nodup_b_true. vm_compute. reflexivity.
    + intros _. split; intros H; vm_compute in H; discriminate.
  - assert (Hs' : s' = snd (exec EI C.BuiltInFunctionSetESDTRole set_in sGood)) by (rewrite Ex; reflexivity).
    rewrite Hs'. vm_compute. reflexivity.
Qed.

(* a two-shard world: alice (shard 0) sends an NFT to bob (shard 1); the message is delivered; WInv throughout *)
Definition cfgW : wcfg :=
  {| wc_cdc := ideal_codec; wc_shard_of := fun a => if beqb a bob then 1%N else 0%N; wc_payable := fun _ => PayYes;
     wc_dns := []; wc_enable := false; wc_gas := gas_of (repeat 1%N 22); wc_nshards := 2 |}.
Definition w0 : world := {| shards := [accts sGood; []]; inflight := []; failed := []; next_id := 0 |}.
Definition ops0 : list wop :=
  [OCall 0 C.BuiltInFunctionESDTNFTTransfer (mkin alice alice [tokN; be 68; be 2; bob] true true false);
   ODeliver 0 1000;
   OCall 0 C.BuiltInFunctionESDTPause (mkin SC SYS [tokN] true true false)].
Lemma w0_inv : WInv cfgW w0.
Proof.
  split; [|intros m []]. intros sh. unfold shard_accts, w0. cbn [shards].
  destruct (N.to_nat sh) as [|[|n]]; cbn [nth].
  - apply inv_check_sound. vm_compute. reflexivity.
  - apply Inv_empty.
  - destruct n; apply Inv_empty.
Qed.
Example inst_Inv_histories :
  WInv cfgW (wrun cfgW w0 ops0)
  /\ balance (env_at cfgW 1) (mk_state (shard_accts (wrun cfgW w0 ops0) 1)) bob (nft_key (P ++ tokN) 68) = 2%Z
  /\ balance (env_at cfgW 0) (mk_state (shard_accts (wrun cfgW w0 ops0) 0)) alice (nft_key (P ++ tokN) 68) = 5%Z
  /\ inflight (wrun cfgW w0 ops0) = [].
Proof.
  split; [|vm_compute; repeat split; reflexivity].
  apply Inv_histories; [exact ideal_codec_ok|exact flag_undec_ideal|exact w0_inv|].
  cbn [reachable_ops ops0]. split; [|split; [exact I|split; [|exact I]]].
  - apply origin_call_ok; [vm_compute; auto|intros H; vm_compute in H; discriminate].
  - apply plain_call_ok; [vm_compute; auto|intros H; vm_compute in H; discriminate..].
Qed.

Print Assumptions inv_check_sound.
Print Assumptions crafted_payload_refuted.
Print Assumptions inst_Inv_histories.
