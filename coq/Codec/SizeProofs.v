(* Size() = len(Marshal()) for the three message types of data/esdt/esdt.pb.go (model: size_* / enc_* of
   Codec/Proto.v), for every value (no well-formedness or size hypothesis: both sides are computed over N). *)
From EV Require Import Base.Bytes Base.Monad Codec.Types Codec.Varint Codec.BigIntCaster Codec.Proto
  Codec.VarintProofs Codec.CasterProofs Codec.LoopProofs.
Local Open Scope N_scope.

Local Arguments N.add : simpl never.
Local Arguments N.div : simpl never.
Local Arguments enc_varint : simpl never.
Local Arguments sov : simpl never.
Local Arguments caster_marshal : simpl never.
Local Arguments caster_size : simpl never.

Lemma clen_enc_occs_nil : clen (enc_occs []) = 0.
Proof. reflexivity. Qed.
Lemma clen_enc_occs_app a b : clen (enc_occs (a ++ b)) = clen (enc_occs a) + clen (enc_occs b).
Proof. rewrite enc_occs_app, clen_app. reflexivity. Qed.
Lemma clen_enc_occs_one o : clen (enc_occs [o]) = clen (enc_occ o).
Proof. unfold enc_occs. cbn [map concat]. rewrite app_nil_r. reflexivity. Qed.

Lemma clen_enc_occ_varint num v : clen (enc_occ (num, FVarint v)) = 1 + sov v.
Proof. unfold enc_occ. cbn [fst snd]. rewrite clen_cons, sov_eq_length. reflexivity. Qed.
Lemma clen_enc_occ_bytes_eq num b : clen (enc_occ (num, FBytes b)) = size_len_field (clen b).
Proof.
  unfold enc_occ, size_len_field. cbn [fst snd]. rewrite clen_cons, clen_app, <- sov_eq_length. lia.
Qed.

Lemma size_piece_varint num v : clen (enc_occs (occ_varint num v)) = size_varint_field v.
Proof.
  unfold occ_varint, size_varint_field. destruct (v =? 0); [reflexivity|].
  rewrite clen_enc_occs_one. apply clen_enc_occ_varint.
Qed.
Lemma size_piece_bytes num b : clen (enc_occs (occ_bytes num b)) = size_bytes_field b.
Proof.
  unfold occ_bytes, size_bytes_field. destruct b as [|x b'].
  - reflexivity.
  - cbv zeta. rewrite clen_cons. replace (0 <? 1 + clen b') with true by lia.
    rewrite clen_enc_occs_one, clen_enc_occ_bytes_eq, clen_cons. reflexivity.
Qed.
Lemma size_rep_acc : forall l acc,
  fold_left (fun n b => n + size_len_field (clen b)) l acc
  = acc + fold_left (fun n b => n + size_len_field (clen b)) l 0.
Proof.
  induction l as [|b l IH]; intros acc; cbn [fold_left]; [lia|].
  rewrite (IH (acc + size_len_field (clen b))), (IH (0 + size_len_field (clen b))). lia.
Qed.
Lemma size_piece_rep num l : clen (enc_occs (occ_rep num l)) = size_rep_field l.
Proof.
  unfold size_rep_field, occ_rep. induction l as [|b l IH]; [reflexivity|].
  cbn [map fold_left]. rewrite enc_occs_cons, clen_app, IH, clen_enc_occ_bytes_eq.
  rewrite (size_rep_acc l (0 + size_len_field (clen b))). lia.
Qed.

Theorem size_metadata_eq : forall m, size_metadata m = clen (enc_metadata m).
Proof.
  intros m. unfold size_metadata, enc_metadata, metadata_occs.
  rewrite !clen_enc_occs_app, !size_piece_varint, !size_piece_bytes, size_piece_rep. lia.
Qed.

Theorem size_roles_eq : forall r, size_roles r = clen (enc_roles r).
Proof. intros r. unfold size_roles, enc_roles, roles_occs. rewrite size_piece_rep. reflexivity. Qed.

Theorem size_token_eq : forall t, size_token t = clen (enc_token t).
Proof.
  intros t. unfold size_token, enc_token, token_occs.
  rewrite !clen_enc_occs_app, size_piece_varint, !size_piece_bytes.
  rewrite clen_enc_occs_one, clen_enc_occ_bytes_eq, <- caster_size_eq.
  destruct (t_meta t) as [m|].
  - rewrite clen_enc_occs_one, clen_enc_occ_bytes_eq, <- size_metadata_eq. lia.
  - change (clen (enc_occs [])) with 0. lia.
Qed.
