(* An "ideal" codec: the exact Go decoder model on every byte string that can exist in a Go program
   (length < 2^63), extended beyond that size by a plain protobuf parser with unbounded varints.
   It satisfies the abstract [codec_ok] of Ledger/Types.v for ALL well-formed values (CodecOk.v), which the
   exact decoder cannot (its `int` overflow checks reject lengths >= 2^63: CanonProofs.roles_roundtrip_needs_fits).
   The encoder is the same. *)
From EV Require Import Base.Bytes Base.Monad Codec.Types Codec.Varint Codec.BigIntCaster Codec.Proto
  Codec.LoopProofs.
Local Open Scope N_scope.

(* unbounded base-128 varint, consuming a list *)
Fixpoint rdv (fuel : nat) (l : bytes) (shift acc : N) : option (N * bytes) :=
  match fuel with
  | O => None
  | S f =>
    match l with
    | [] => None
    | b :: r =>
      let acc' := acc + (b2n b mod 128) * 2 ^ shift in
      if b2n b <? 128 then Some (acc', r) else rdv f r (shift + 7) acc'
    end
  end.
Definition rd_uvarint (l : bytes) : option (N * bytes) := rdv (length l) l 0 0.

(* a byte string as a list of field occurrences (one-byte tags, wire types 0 and 2 only, scalars < 2^64) *)
Fixpoint parse_occs (fuel : nat) (l : bytes) : option (list occ) :=
  match l with
  | [] => Some []
  | tg :: r =>
    match fuel with
    | O => None
    | S f =>
      let tv := b2n tg in
      if 128 <=? tv then None else
      let num := tv / 8 in
      let wt := tv mod 8 in
      match rd_uvarint r with
      | None => None
      | Some (v, r2) =>
        if wt =? 0 then
          if two64 <=? v then None else
          match parse_occs f r2 with Some os => Some ((num, FVarint v) :: os) | None => None end
        else if wt =? 2 then
          if clen r2 <? v then None else
          match parse_occs f (skipn (N.to_nat v) r2) with
          | Some os => Some ((num, FBytes (firstn (N.to_nat v) r2)) :: os)
          | None => None
          end
        else None
      end
    end
  end.
Definition parse (l : bytes) : option (list occ) := parse_occs (length l) l.

Definition dec_metadata_u (b : bytes) : option metadata :=
  match parse b with
  | Some occs =>
    match apply_occs metadata_kind empty_metadata occs with
    | Ok m => if wf_metadata_b m then Some m else None
    | _ => None
    end
  | None => None
  end.

Definition token_kind_u (n : N) : option (fkind token) :=
  if n =? 4 then
    Some (KBytes (fun m s => match dec_metadata_u s with
                             | Some md => Ok (set_meta m (Some md))
                             | None => Err EBadValue
                             end))
  else token_kind n.

Definition dec_token_u (b : bytes) : option token :=
  match parse b with
  | Some occs =>
    match apply_occs token_kind_u empty_token occs with
    | Ok t => if wf_token_b t then Some t else None
    | _ => None
    end
  | None => None
  end.

Definition dec_roles_u (b : bytes) : option roles :=
  match parse b with
  | Some occs => res_to_option (apply_occs roles_kind [] occs)
  | None => None
  end.

Definition fits_b (b : bytes) : bool := clen b <? two63.

Definition dec_token_ideal (b : bytes) : option token := if fits_b b then dec_token b else dec_token_u b.
Definition dec_metadata_ideal (b : bytes) : option metadata := if fits_b b then dec_metadata b else dec_metadata_u b.
Definition dec_roles_ideal (b : bytes) : option roles := if fits_b b then dec_roles b else dec_roles_u b.
