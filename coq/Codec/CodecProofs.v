(* Theorems about the codec model (Codec/Proto.v): round trips, non-empty encodings, well-formed decoded
   values.  Companion files: SizeProofs.v (Size = encoded length), NoPanicProofs.v (no panic on any input),
   FormatProofs.v (field order and tags against the generated ProtoTags table), CanonProofs.v (injectivity,
   necessity of [fits]), CodecOk.v (the abstract codec_ok of the ledger proofs, ideal decoder).

   IMPORTANT (statement shape).  The decoder model is exact, including Go's 64-bit `int`: a length
   varint >= 2^63 is ErrInvalidLength and varints have at most 10 bytes.  A Coq [list byte] can be longer
   than any Go slice, so the round-trip statements WITHOUT a size hypothesis are false for the exact
   decoder (take a role of 2^63 zero bytes: its length prefix decodes to a negative int).  The
   round-trip theorems therefore carry the hypothesis [fits (enc_* x)]: the encoding is a byte string that
   can exist in a Go program (length < 2^63).  They are named `..._partial`; the unconditional statements
   are kept as comments next to them.  CanonProofs.roles_roundtrip_needs_fits proves that the hypothesis is
   necessary; CodecOk.ideal_codec_ok gives the unconditional statements for a decoder that equals the exact
   one on every byte string that fits. *)
From EV Require Import Base.Bytes Base.Monad Codec.Types Codec.Varint Codec.BigIntCaster Codec.Proto
  Codec.VarintProofs Codec.CasterProofs Codec.LoopProofs.
Local Open Scope N_scope.

Local Arguments N.pow : simpl never.
Local Arguments N.div : simpl never.
Local Arguments N.modulo : simpl never.
Local Arguments N.mul : simpl never.
Local Arguments N.add : simpl never.
Local Arguments N.sub : simpl never.
Local Arguments N.leb : simpl never.
Local Arguments N.ltb : simpl never.
Local Arguments rd_varint : simpl never.
Local Arguments msg_loop : simpl never.
Local Arguments enc_varint : simpl never.
Local Arguments caster_marshal : simpl never.
Local Arguments caster_unmarshal : simpl never.

(* ---- the field tables, entry by entry ---- *)
Lemma roles_kind_1 : roles_kind 1 = Some (KBytes (fun m s => Ok (m ++ [s]))). Proof. reflexivity. Qed.

Lemma metadata_kind_1 : metadata_kind 1 = Some (KVarint (fun m v => md_set_nonce m v)). Proof. reflexivity. Qed.
Lemma metadata_kind_2 : metadata_kind 2 = Some (KBytes (fun m s => Ok (md_set_name m s))). Proof. reflexivity. Qed.
Lemma metadata_kind_3 : metadata_kind 3 = Some (KBytes (fun m s => Ok (md_set_creator m s))). Proof. reflexivity. Qed.
Lemma metadata_kind_4 : metadata_kind 4 = Some (KVarint (fun m v => md_set_royalties m (v mod two32))). Proof. reflexivity. Qed.
Lemma metadata_kind_5 : metadata_kind 5 = Some (KBytes (fun m s => Ok (md_set_hash m s))). Proof. reflexivity. Qed.
Lemma metadata_kind_6 : metadata_kind 6 = Some (KBytes (fun m s => Ok (set_uris m (md_uris m ++ [s])))). Proof. reflexivity. Qed.
Lemma metadata_kind_7 : metadata_kind 7 = Some (KBytes (fun m s => Ok (set_attributes m s))). Proof. reflexivity. Qed.

Definition token_set_value (m : token) (s : bytes) : R token :=
  match caster_unmarshal s with Some v => Ok (set_value m v) | None => Err EBadValue end.
Definition token_set_meta (m : token) (s : bytes) : R token :=
  let md0 := match t_meta m with Some x => x | None => empty_metadata end in
  match unmarshal_metadata md0 s with
  | Ok md => Ok (set_meta m (Some md))
  | Err e => Err e
  | Panic => Panic
  end.
Lemma token_kind_1 : token_kind 1 = Some (KVarint (fun m v => tk_set_type m (v mod two32))). Proof. reflexivity. Qed.
Lemma token_kind_2 : token_kind 2 = Some (KBytes token_set_value). Proof. reflexivity. Qed.
Lemma token_kind_3 : token_kind 3 = Some (KBytes (fun m s => Ok (set_props m s))). Proof. reflexivity. Qed.
Lemma token_kind_4 : token_kind 4 = Some (KBytes token_set_meta). Proof. reflexivity. Qed.
Lemma token_kind_5 : token_kind 5 = Some (KBytes (fun m s => Ok (tk_set_reserved m s))). Proof. reflexivity. Qed.

(* ---- pieces of an occurrence list ---- *)
Section Pieces.
  Context {St : Type}.
  Variable kind_of : N -> option (fkind St).

  Lemma apply_piece_varint num v set m rest :
    kind_of num = Some (KVarint set) -> (v = 0 -> set m v = m) ->
    apply_occs kind_of m (occ_varint num v ++ rest) = apply_occs kind_of (set m v) rest.
  Proof.
    intros Hk H0. unfold occ_varint. destruct (v =? 0) eqn:E.
    - apply N.eqb_eq in E. rewrite (H0 E). reflexivity.
    - cbn [app apply_occs]. unfold apply_occ. cbn [fst snd]. rewrite Hk. reflexivity.
  Qed.
  Lemma apply_piece_bytes num b set m rest :
    kind_of num = Some (KBytes (fun m s => Ok (set m s))) -> (b = [] -> set m b = m) ->
    apply_occs kind_of m (occ_bytes num b ++ rest) = apply_occs kind_of (set m b) rest.
  Proof.
    intros Hk H0. unfold occ_bytes. destruct b.
    - rewrite (H0 eq_refl). reflexivity.
    - cbn [app apply_occs]. unfold apply_occ. cbn [fst snd]. rewrite Hk. reflexivity.
  Qed.
  Lemma apply_piece_one num b set m rest :
    kind_of num = Some (KBytes set) ->
    apply_occs kind_of m ((num, FBytes b) :: rest)
    = match set m b with Ok m' => apply_occs kind_of m' rest | Err e => Err e | Panic => Panic end.
  Proof. intros Hk. cbn [apply_occs]. unfold apply_occ. cbn [fst snd]. rewrite Hk. reflexivity. Qed.

  Lemma occ_ok_varint num v : 0 < num -> num < 16 -> v < 2 ^ 64 -> Forall occ_ok (occ_varint num v).
  Proof.
    intros. unfold occ_varint. destruct (v =? 0); constructor; [|constructor].
    unfold occ_ok. cbn [fst snd]. auto.
  Qed.
  Lemma occ_ok_bytes num b : 0 < num -> num < 16 -> Forall occ_ok (occ_bytes num b).
  Proof.
    intros. unfold occ_bytes. destruct b; constructor; [|constructor]. unfold occ_ok. cbn [fst snd]. auto.
  Qed.
  Lemma occ_ok_rep num l : 0 < num -> num < 16 -> Forall occ_ok (occ_rep num l).
  Proof.
    intros. unfold occ_rep. induction l; constructor; [|assumption]. unfold occ_ok. cbn [fst snd]. auto.
  Qed.
End Pieces.

Lemma fits_le (a b : bytes) : clen a <= clen b -> fits b -> fits a.
Proof. unfold fits. lia. Qed.

(* ================= ESDTRoles ================= *)
Lemma apply_roles : forall r acc, apply_occs roles_kind acc (roles_occs r) = Ok (acc ++ r).
Proof.
  induction r as [|a r IH]; intros acc.
  - cbn. rewrite app_nil_r. reflexivity.
  - unfold roles_occs, occ_rep. cbn [map]. rewrite (apply_piece_one roles_kind 1 a _ acc _ roles_kind_1).
    fold (occ_rep 1 r). fold (roles_occs r). rewrite IH. rewrite <- app_assoc. reflexivity.
Qed.

(* Full statement (false for the exact decoder when an element is longer than a Go slice can be):
     forall r, dec_roles (enc_roles r) = Some r *)
Theorem dec_enc_roles_partial : forall r, fits (enc_roles r) -> dec_roles (enc_roles r) = Some r.
Proof.
  intros r Hfit. unfold dec_roles, dec_roles_res, unmarshal_roles, enc_roles.
  rewrite (unmarshal_occs roles_kind (roles_occs r) [] r).
  - reflexivity.
  - apply occ_ok_rep; lia.
  - apply apply_roles.
  - exact Hfit.
Qed.

Theorem enc_roles_nil : enc_roles [] = [].
Proof. reflexivity. Qed.
Theorem enc_roles_nonempty : forall r, r <> [] -> enc_roles r <> [].
Proof. intros [|a r] H; [congruence|]. unfold enc_roles, roles_occs, occ_rep. cbn [map]. discriminate. Qed.

(* ================= MetaData ================= *)
Lemma apply_uris : forall us m,
  apply_occs metadata_kind m (occ_rep 6 us) = Ok (set_uris m (md_uris m ++ us)).
Proof.
  induction us as [|u us IH]; intros m.
  - cbn. rewrite app_nil_r. destruct m; reflexivity.
  - unfold occ_rep. cbn [map]. rewrite (apply_piece_one metadata_kind 6 u _ m _ metadata_kind_6).
    fold (occ_rep 6 us). rewrite IH. unfold set_uris. cbn. rewrite <- app_assoc. reflexivity.
Qed.
Lemma apply_piece_uris us m rest :
  apply_occs metadata_kind m (occ_rep 6 us ++ rest)
  = apply_occs metadata_kind (set_uris m (md_uris m ++ us)) rest.
Proof. rewrite apply_occs_app, apply_uris. reflexivity. Qed.

Lemma apply_metadata m : wf_metadata m -> apply_occs metadata_kind empty_metadata (metadata_occs m) = Ok m.
Proof.
  destruct m as [nonce name creator roy hash uris attrs]. unfold wf_metadata, two32, two64. cbn. intros [Hn Hr].
  unfold metadata_occs, empty_metadata. cbn [md_nonce md_name md_creator md_royalties md_hash md_uris md_attributes].
  rewrite (apply_piece_varint metadata_kind 1 nonce _ _ _ metadata_kind_1) by (intros ->; reflexivity).
  rewrite (apply_piece_bytes metadata_kind 2 name _ _ _ metadata_kind_2) by (intros ->; reflexivity).
  rewrite (apply_piece_bytes metadata_kind 3 creator _ _ _ metadata_kind_3) by (intros ->; reflexivity).
  rewrite (apply_piece_varint metadata_kind 4 roy _ _ _ metadata_kind_4) by (intros ->; reflexivity).
  rewrite (apply_piece_bytes metadata_kind 5 hash _ _ _ metadata_kind_5) by (intros ->; reflexivity).
  rewrite apply_piece_uris.
  rewrite <- (app_nil_r (occ_bytes 7 attrs)).
  rewrite (apply_piece_bytes metadata_kind 7 attrs _ _ _ metadata_kind_7) by (intros ->; reflexivity).
  cbn. unfold set_attributes, set_uris, md_set_hash, md_set_royalties, md_set_creator, md_set_name, md_set_nonce.
  cbn. rewrite (N.mod_small roy) by (unfold two32; lia). reflexivity.
Qed.

Lemma Forall_app_intro {A} (P : A -> Prop) l1 l2 : Forall P l1 -> Forall P l2 -> Forall P (l1 ++ l2).
Proof. intros H1 H2. apply Forall_app. split; assumption. Qed.

Lemma metadata_occs_ok m : wf_metadata m -> Forall occ_ok (metadata_occs m).
Proof.
  intros [Hn Hr]. unfold metadata_occs, two64, two32 in *.
  apply Forall_app_intro; [apply occ_ok_varint; try lia; rewrite pow64; lia|].
  apply Forall_app_intro; [apply occ_ok_bytes; lia|].
  apply Forall_app_intro; [apply occ_ok_bytes; lia|].
  apply Forall_app_intro; [apply occ_ok_varint; try lia; rewrite pow64; lia|].
  apply Forall_app_intro; [apply occ_ok_bytes; lia|].
  apply Forall_app_intro; [apply occ_ok_rep; lia|].
  apply occ_ok_bytes; lia.
Qed.

(* Full statement (false for values larger than a Go slice): forall m, wf_metadata m -> dec_metadata (enc_metadata m) = Some m *)
Theorem dec_enc_metadata_res m :
  wf_metadata m -> fits (enc_metadata m) -> unmarshal_metadata empty_metadata (enc_metadata m) = Ok m.
Proof.
  intros Hwf Hfit. unfold unmarshal_metadata, enc_metadata.
  apply unmarshal_occs; [apply metadata_occs_ok; exact Hwf|apply apply_metadata; exact Hwf|exact Hfit].
Qed.
Theorem dec_enc_metadata_partial : forall m,
  wf_metadata m -> fits (enc_metadata m) -> dec_metadata (enc_metadata m) = Some m.
Proof. intros m Hwf Hfit. unfold dec_metadata, dec_metadata_res. rewrite dec_enc_metadata_res; auto. Qed.

(* ================= ESDigitalToken ================= *)
Lemma clen_enc_occ_bytes num b : clen b <= clen (enc_occ (num, FBytes b)).
Proof. unfold enc_occ. cbn [fst snd]. rewrite clen_cons, clen_app. lia. Qed.

Lemma token_meta_fits t m : t_meta t = Some m -> fits (enc_token t) -> fits (enc_metadata m).
Proof.
  intros Hm. apply fits_le. unfold enc_token, token_occs. rewrite Hm.
  rewrite !enc_occs_app, !clen_app. unfold enc_occs at 4. cbn [map concat]. rewrite app_nil_r.
  pose proof (clen_enc_occ_bytes 4 (enc_metadata m)). lia.
Qed.

Lemma apply_token t : wf_token t -> fits (enc_token t) -> apply_occs token_kind empty_token (token_occs t) = Ok t.
Proof.
  intros Hwf Hfit.
  assert (Hmeta : forall m, t_meta t = Some m -> unmarshal_metadata empty_metadata (enc_metadata m) = Ok m).
  { intros m Hm. apply dec_enc_metadata_res.
    - destruct Hwf as [_ Hw]. rewrite Hm in Hw. exact Hw.
    - exact (token_meta_fits t m Hm Hfit). }
  clear Hfit. destruct t as [ty val props meta res]. destruct Hwf as [Hty _]. cbn in Hty, Hmeta.
  unfold two32 in Hty. unfold token_occs, empty_token. cbn [t_type t_value t_props t_meta t_reserved].
  rewrite (apply_piece_varint token_kind 1 ty _ _ _ token_kind_1) by (intros ->; reflexivity).
  cbn [app]. rewrite (apply_piece_one token_kind 2 _ _ _ _ token_kind_2).
  unfold token_set_value at 1. rewrite caster_roundtrip.
  rewrite (apply_piece_bytes token_kind 3 props _ _ _ token_kind_3) by (intros ->; reflexivity).
  destruct meta as [m|].
  - cbn [app]. rewrite (apply_piece_one token_kind 4 _ _ _ _ token_kind_4).
    unfold token_set_meta at 1. cbn [t_meta set_props set_value tk_set_type]. cbv zeta.
    rewrite (Hmeta m eq_refl).
    rewrite <- (app_nil_r (occ_bytes 5 res)).
    rewrite (apply_piece_bytes token_kind 5 res _ _ _ token_kind_5) by (intros ->; reflexivity).
    cbn. unfold tk_set_reserved, set_meta. cbn. rewrite (N.mod_small ty) by (unfold two32; lia). reflexivity.
  - cbn [app]. rewrite <- (app_nil_r (occ_bytes 5 res)).
    rewrite (apply_piece_bytes token_kind 5 res _ _ _ token_kind_5) by (intros ->; reflexivity).
    cbn. unfold tk_set_reserved. cbn. rewrite (N.mod_small ty) by (unfold two32; lia). reflexivity.
Qed.

Lemma token_occs_ok t : wf_token t -> Forall occ_ok (token_occs t).
Proof.
  intros [Hty _]. unfold token_occs, two32 in *.
  apply Forall_app_intro; [apply occ_ok_varint; try lia; rewrite pow64; lia|].
  apply Forall_app_intro.
  { constructor; [|constructor]. unfold occ_ok. cbn [fst snd]. repeat split; lia. }
  apply Forall_app_intro; [apply occ_ok_bytes; lia|].
  apply Forall_app_intro; [|apply occ_ok_bytes; lia].
  destruct (t_meta t); constructor; [|constructor]. unfold occ_ok. cbn [fst snd]. repeat split; lia.
Qed.

(* Full statement (false for values larger than a Go slice, see the header):
     forall t, wf_token t -> dec_token (enc_token t) = Some t *)
Theorem dec_enc_token_partial : forall t,
  wf_token t -> fits (enc_token t) -> dec_token (enc_token t) = Some t.
Proof.
  intros t Hwf Hfit. unfold dec_token, dec_token_res, unmarshal_token, enc_token.
  rewrite (unmarshal_occs token_kind (token_occs t) empty_token t).
  - reflexivity.
  - apply token_occs_ok. exact Hwf.
  - apply apply_token; assumption.
  - exact Hfit.
Qed.

Theorem enc_token_nonempty : forall t, enc_token t <> [].
Proof.
  intros t. unfold enc_token, token_occs. rewrite enc_occs_app.
  intros H. apply app_eq_nil in H. destruct H as [_ H]. cbn [app] in H. discriminate H.
Qed.

(* ---- decoded values are well formed (on every input) ---- *)
Lemma unmarshal_metadata_wf m0 b m : wf_metadata m0 -> unmarshal_metadata m0 b = Ok m -> wf_metadata m.
Proof.
  unfold unmarshal_metadata. apply (unmarshal_inv metadata_kind wf_metadata).
  - intros num set m1 v Hk Hv Hwf. unfold metadata_kind in Hk.
    repeat match type of Hk with (if ?c then _ else _) = _ => destruct c end; inversion Hk; subst;
      destruct Hwf as [H1 H2]; split; cbn; auto. apply N.mod_upper_bound. discriminate.
  - intros num set m1 s m' Hk Hwf Hs. unfold metadata_kind in Hk.
    repeat match type of Hk with (if ?c then _ else _) = _ => destruct c end; inversion Hk; subst;
      inversion Hs; subst; destruct Hwf as [H1 H2]; split; cbn; auto.
Qed.

Lemma empty_metadata_wf : wf_metadata empty_metadata.
Proof. split; reflexivity. Qed.
Lemma empty_token_wf : wf_token empty_token.
Proof. split; [reflexivity|exact I]. Qed.

Lemma unmarshal_token_wf t0 b t : wf_token t0 -> unmarshal_token t0 b = Ok t -> wf_token t.
Proof.
  unfold unmarshal_token. apply (unmarshal_inv token_kind wf_token).
  - intros num set m1 v Hk Hv Hwf. unfold token_kind in Hk.
    repeat match type of Hk with (if ?c then _ else _) = _ => destruct c end; inversion Hk; subst.
    destruct Hwf as [H1 H2]; split; cbn; auto. apply N.mod_upper_bound. discriminate.
  - intros num set m1 s m' Hk Hwf Hs. unfold token_kind in Hk.
    repeat match type of Hk with (if ?c then _ else _) = _ => destruct c end; inversion Hk; subst; clear Hk.
    + destruct (caster_unmarshal s); inversion Hs; subst. exact Hwf.
    + inversion Hs; subst. exact Hwf.
    + cbv zeta in Hs. destruct Hwf as [H1 H2].
      assert (Hwf0 : wf_metadata (match t_meta m1 with Some x => x | None => empty_metadata end)).
      { destruct (t_meta m1); [exact H2|exact empty_metadata_wf]. }
      destruct (unmarshal_metadata (match t_meta m1 with Some x => x | None => empty_metadata end) s) as [md|e|] eqn:E;
        inversion Hs; subst.
      split; [exact H1|]. cbn. exact (unmarshal_metadata_wf _ _ _ Hwf0 E).
    + inversion Hs; subst. exact Hwf.
Qed.

Theorem dec_token_wf : forall b t, dec_token b = Some t -> wf_token t.
Proof.
  intros b t H. unfold dec_token, dec_token_res in H.
  destruct (unmarshal_token empty_token b) as [t'|e|] eqn:E; inversion H; subst.
  exact (unmarshal_token_wf _ _ _ empty_token_wf E).
Qed.
Theorem dec_metadata_wf : forall b m, dec_metadata b = Some m -> wf_metadata m.
Proof.
  intros b m H. unfold dec_metadata, dec_metadata_res in H.
  destruct (unmarshal_metadata empty_metadata b) as [m'|e|] eqn:E; inversion H; subst.
  exact (unmarshal_metadata_wf _ _ _ empty_metadata_wf E).
Qed.
