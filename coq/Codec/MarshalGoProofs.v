(* The index-level marshaller of Codec/MarshalGo.v (backward buffer filling, as the generated Go code does it)
   computes the forward model of Codec/Proto.v.

   Invariant ("suffix invariant").  d0 is the buffer MarshalToSizedBuffer received.  After the fields
   k..last have been written the buffer is
        d = d0[:i] ++ suf        with  suf = enc of the fields k..last   and   i = len(d0) - len(suf)
   ([st d0 d i suf]).  A block that emits the bytes F ("[writes] d0 block F") needs len(F) <= i, never indexes
   out of range, moves i down by len(F) and re-establishes the invariant for F ++ suf.  Since Size() is the
   length of the whole encoding (SizeProofs.v), on a buffer of at least Size() bytes every block finds its room,
   i ends at len(d0) - Size() (0 for Marshal) and n = Size(). *)
From Coq.Strings Require Import String.
From EV Require Import Base.Bytes Base.Monad Codec.Types Codec.Varint Codec.BigIntCaster Codec.Proto gen.ProtoTags
  Codec.Format Codec.CasterGo Codec.MarshalGo
  Codec.VarintProofs Codec.CasterProofs Codec.LoopProofs Codec.SizeProofs Codec.FormatProofs.
Local Open Scope Z_scope.

Local Arguments enc_varint : simpl never.
Local Arguments caster_marshal : simpl never.
Local Arguments caster_size : simpl never.
Local Arguments sov : simpl never.
Local Arguments N.mul : simpl never.
Local Arguments N.add : simpl never.
Local Arguments Z.add : simpl never.
Local Arguments Z.sub : simpl never.
Local Arguments Z.of_nat : simpl never.
Local Arguments Z.to_nat : simpl never.

(* ================= lengths ================= *)
Lemma zlen_app a b : zlen (a ++ b) = zlen a + zlen b.
Proof. unfold zlen. rewrite app_length. lia. Qed.
Lemma zlen_clen l : zlen l = Z.of_N (clen l).
Proof. unfold zlen, clen. lia. Qed.

Ltac zl := unfold zlen, clen in *; repeat first [rewrite app_length in * | progress cbn [length] in * ]; lia.

(* ================= single writes at the end of a known prefix ================= *)
Lemma bset_at pre o suf b : bset (pre ++ o :: suf) (zlen pre) b = Some (pre ++ b :: suf).
Proof.
  unfold bset.
  replace ((zlen pre <? 0) || (zlen (pre ++ o :: suf) <=? zlen pre)) with false by zl.
  unfold zlen. rewrite Nat2Z.id, firstn_app_len.
  replace (pre ++ o :: suf) with ((pre ++ [o]) ++ suf) by (rewrite <- app_assoc; reflexivity).
  replace (S (length pre)) with (length (pre ++ [o])) by (rewrite app_length; cbn [length]; lia).
  rewrite skipn_app_len. reflexivity.
Qed.

Lemma bcopy_at pre old suf x :
  length old = length x -> bcopy (pre ++ old ++ suf) (zlen pre) x = Some (pre ++ x ++ suf).
Proof.
  intros Hl. unfold bcopy.
  replace ((zlen pre <? 0) || (zlen (pre ++ old ++ suf) <? zlen pre)) with false by zl.
  cbv zeta. unfold zlen. rewrite Nat2Z.id, firstn_app_len.
  replace (Nat.min (length x) (length (pre ++ old ++ suf) - length pre)) with (length x)
    by (rewrite !app_length; lia).
  rewrite firstn_all. rewrite (app_assoc pre old suf).
  replace (length pre + length x)%nat with (length (pre ++ old)) by (rewrite app_length; lia).
  rewrite skipn_app_len. reflexivity.
Qed.

(* the loop of encodeVarintEsdt writes the forward varint over any [old] bytes of the same length *)
Lemma encode_varint_loop_spec : forall fuel v pre old suf,
  (v < 128 ^ N.of_nat (S fuel))%N -> length old = length (enc_varint_f fuel v) ->
  encode_varint_loop fuel (pre ++ old ++ suf) (zlen pre) v = Some (pre ++ enc_varint_f fuel v ++ suf).
Proof.
  induction fuel as [|f IH]; intros v pre old suf Hv Hl.
  - change (128 ^ N.of_nat 1)%N with 128%N in Hv. cbn [encode_varint_loop enc_varint_f] in *.
    replace (v <? 128)%N with true by lia. rewrite N.mod_small by lia.
    destruct old as [|o [|? ?]]; try discriminate. cbn [app]. apply bset_at.
  - rewrite enc_varint_f_step in *. cbn [encode_varint_loop]. destruct (v <? 128)%N eqn:E.
    + destruct old as [|o [|? ?]]; try discriminate. cbn [app]. apply bset_at.
    + destruct old as [|o old']; [discriminate|]. cbn [length] in Hl. injection Hl as Hl.
      cbn [app]. rewrite bset_at.
      set (b := n2b (v mod 128 + 128)%N).
      replace (pre ++ b :: old' ++ suf) with ((pre ++ [b]) ++ old' ++ suf) by (rewrite <- app_assoc; reflexivity).
      replace (zlen pre + 1) with (zlen (pre ++ [b])) by zl.
      rewrite IH.
      * rewrite <- app_assoc. reflexivity.
      * rewrite Nnat.Nat2N.inj_succ, N.pow_succ_r' in Hv. apply N.div_lt_upper_bound; lia.
      * exact Hl.
Qed.

(* ================= the suffix invariant ================= *)
Definition st (d0 d : bytes) (i : Z) (suf : bytes) : Prop :=
  0 <= i /\ i + zlen suf = zlen d0 /\ d = firstn (Z.to_nat i) d0 ++ suf.

Definition writes (d0 : bytes) (f : bytes -> Z -> R (bytes * Z)) (F : bytes) : Prop :=
  forall d i suf, st d0 d i suf -> zlen F <= i ->
    exists d' i', f d i = Ok (d', i') /\ st d0 d' i' (F ++ suf).

Lemma st_init d0 : st d0 d0 (zlen d0) [].
Proof.
  unfold st. split; [zl|]. split; [zl|]. unfold zlen. rewrite Nat2Z.id, firstn_all, app_nil_r. reflexivity.
Qed.

(* room for n more bytes: the n bytes before i can be overwritten *)
Lemma st_write d0 d i suf n : st d0 d i suf -> 0 <= n <= i ->
  exists pre old, d = pre ++ old ++ suf /\ zlen pre = i - n /\ zlen old = n /\
    (forall new, zlen new = n -> st d0 (pre ++ new ++ suf) (i - n) (new ++ suf)) /\
    pre = firstn (Z.to_nat (i - n)) d0 /\ exists post, d0 = pre ++ old ++ post.
Proof.
  intros (H0 & Hl & Hd) Hn.
  assert (Hi : (Z.to_nat i <= length d0)%nat) by zl.
  exists (firstn (Z.to_nat (i - n)) d0), (firstn (Z.to_nat n) (skipn (Z.to_nat (i - n)) d0)).
  split; [|split; [|split; [|split; [|split]]]].
  - rewrite Hd, app_assoc. f_equal. rewrite firstn_skipn_comm.
    replace (Z.to_nat (i - n) + Z.to_nat n)%nat with (Z.to_nat i) by lia.
    transitivity (firstn (Z.to_nat (i - n)) (firstn (Z.to_nat i) d0) ++ skipn (Z.to_nat (i - n)) (firstn (Z.to_nat i) d0)).
    + symmetry. apply firstn_skipn.
    + f_equal. rewrite firstn_firstn. f_equal. lia.
  - unfold zlen. rewrite firstn_length. lia.
  - unfold zlen. rewrite firstn_length, skipn_length. lia.
  - intros new Hnew. unfold st. split; [lia|]. split; [rewrite zlen_app; lia|reflexivity].
  - reflexivity.
  - exists (skipn (Z.to_nat n) (skipn (Z.to_nat (i - n)) d0)). rewrite firstn_skipn, firstn_skipn. reflexivity.
Qed.

Lemma st_final d0 d i suf : st d0 d i suf ->
  zlen d0 - i = zlen suf /\ d = firstn (Z.to_nat (zlen d0 - zlen suf)) d0 ++ suf.
Proof. intros (H0 & Hl & Hd). split; [lia|]. rewrite Hd. do 2 f_equal. lia. Qed.

(* ================= blocks ================= *)
Lemma writes_nothing d0 : writes d0 (fun d i => Ok (d, i)) [].
Proof. intros d i suf Hst _. exists d, i. split; [reflexivity|exact Hst]. Qed.

Lemma writes_tag d0 tag : writes d0 (put_tag tag) [tag].
Proof.
  intros d i suf Hst Hb. change (zlen [tag]) with 1 in Hb.
  destruct (st_write d0 d i suf 1 Hst) as (pre & old & Hd & Hp & Ho & Hnew & _ & _); [destruct Hst; lia|].
  destruct old as [|o [|? ?]]; try (exfalso; zl).
  unfold put_tag. cbv zeta. subst d. replace (i - 1) with (zlen pre) by lia. cbn [app]. rewrite bset_at.
  cbn [orp rbind]. exists (pre ++ [tag] ++ suf), (i - 1). split; [rewrite Hp; reflexivity|].
  apply Hnew. reflexivity.
Qed.

Lemma writes_copy d0 x : writes d0 (fun d i => LET d := orp (bcopy d (i - zlen x) x) IN Ok (d, i - zlen x)) x.
Proof.
  intros d i suf Hst Hb.
  destruct (st_write d0 d i suf (zlen x) Hst) as (pre & old & Hd & Hp & Ho & Hnew & _ & _); [zl|].
  subst d. rewrite <- Hp. rewrite bcopy_at by zl. cbn [orp rbind].
  exists (pre ++ x ++ suf), (zlen pre). split; [reflexivity|]. rewrite Hp. apply Hnew. reflexivity.
Qed.

Lemma writes_varint d0 v : writes d0 (fun d i => encode_varint_go d i v) (enc_varint v).
Proof.
  intros d i suf Hst Hb.
  assert (Hs : zlen (enc_varint v) = Z.of_N (sov v)) by (rewrite sov_eq_length; apply zlen_clen).
  destruct (st_write d0 d i suf (Z.of_N (sov v)) Hst) as (pre & old & Hd & Hp & Ho & Hnew & _ & _); [lia|].
  unfold encode_varint_go. cbv zeta. subst d. rewrite <- Hp.
  rewrite (encode_varint_loop_spec (N.size_nat v) v pre old suf).
  - cbn [orp rbind]. exists (pre ++ enc_varint v ++ suf), (zlen pre). split; [reflexivity|].
    rewrite Hp. apply Hnew. exact Hs.
  - apply size_nat_pow128.
  - change (enc_varint_f (N.size_nat v) v) with (enc_varint v). zl.
Qed.

(* sequencing: g after f emits G in front of F *)
Lemma writes_seq d0 f g F G :
  writes d0 f F -> writes d0 g G -> writes d0 (fun d i => LET '(d, i) := f d i IN g d i) (G ++ F).
Proof.
  intros Hf Hg d i suf Hst Hb. rewrite zlen_app in Hb.
  destruct (Hf d i suf Hst) as (d1 & i1 & E1 & Hst1); [zl|].
  destruct (Hg d1 i1 (F ++ suf) Hst1) as (d2 & i2 & E2 & Hst2).
  { destruct Hst as (? & ? & ?), Hst1 as (? & ? & ?). rewrite zlen_app in *. zl. }
  exists d2, i2. rewrite E1. cbn [rbind]. split; [exact E2|]. rewrite <- app_assoc. exact Hst2.
Qed.

Lemma writes_ext d0 f g F : (forall d i, f d i = g d i) -> writes d0 f F -> writes d0 g F.
Proof.
  intros He Hf d i suf Hst Hb. destruct (Hf d i suf Hst Hb) as (d' & i' & E & H). exists d', i'. rewrite <- He. auto.
Qed.

(* i -= len(x); copy; varint(len); tag  emits  tag ‖ varint(len x) ‖ x *)
Lemma writes_bytes_field d0 tag x : writes d0 (put_bytes_field tag x) (doc_len_field tag x).
Proof.
  unfold doc_len_field.
  change (tag :: enc_varint (clen x) ++ x) with ([tag] ++ enc_varint (clen x) ++ x).
  eapply writes_ext; [|apply (writes_seq d0 _ _ _ _ (writes_seq d0 _ _ _ _ (writes_copy d0 x) (writes_varint d0 (clen x)))
                                         (writes_tag d0 tag))].
  intros d i. unfold put_bytes_field. cbv zeta.
  destruct (bcopy d (i - zlen x) x); reflexivity.
Qed.

Lemma writes_opt_bytes d0 tag x : writes d0 (opt_bytes_field tag x) (doc_bytes_field tag x).
Proof.
  unfold opt_bytes_field, doc_bytes_field. destruct x as [|b x'].
  - apply writes_nothing.
  - replace (0 <? zlen (b :: x')) with true by zl. apply writes_bytes_field.
Qed.

Lemma writes_opt_varint d0 tag v : writes d0 (opt_varint_field tag v) (doc_varint_field tag v).
Proof.
  unfold opt_varint_field, doc_varint_field. destruct (v =? 0)%N; cbn [negb].
  - apply writes_nothing.
  - change (tag :: enc_varint v) with ([tag] ++ enc_varint v).
    apply (writes_seq d0 _ _ _ _ (writes_varint d0 v) (writes_tag d0 tag)).
Qed.

(* the repeated-field loop *)
Lemma firstn_succ_nth {A} : forall k (l : list A) x, nth_error l k = Some x -> firstn (S k) l = firstn k l ++ [x].
Proof.
  induction k as [|k IH]; intros [|a l] x H; try discriminate.
  - injection H as ->. reflexivity.
  - cbn [nth_error] in H. cbn [firstn app]. f_equal. apply IH, H.
Qed.
Lemma doc_rep_snoc tag l x : doc_rep_field tag (l ++ [x]) = doc_rep_field tag l ++ doc_len_field tag x.
Proof. unfold doc_rep_field. rewrite map_app, concat_app. cbn [map concat]. rewrite app_nil_r. reflexivity. Qed.

Lemma writes_rep_loop d0 tag l : forall k fuel,
  (k <= length l)%nat -> (k <= fuel)%nat ->
  writes d0 (put_rep_loop fuel tag l (Z.of_nat k - 1)) (doc_rep_field tag (firstn k l)).
Proof.
  induction k as [|k IH]; intros fuel Hk Hf.
  - destruct fuel; apply writes_nothing.
  - destruct fuel as [|f]; [lia|].
    destruct (nth_error l k) as [x|] eqn:En; [|apply nth_error_None in En; lia].
    rewrite (firstn_succ_nth k l x En), doc_rep_snoc.
    eapply writes_ext; [|apply (writes_seq d0 _ _ _ _ (writes_bytes_field d0 tag x) (IH f ltac:(lia) ltac:(lia)))].
    intros d i. cbn [put_rep_loop].
    replace (Z.of_nat (S k) - 1 <? 0) with false by lia.
    replace (Z.to_nat (Z.of_nat (S k) - 1)) with k by lia. rewrite En. cbn [orp rbind].
    replace (Z.of_nat (S k) - 1 - 1) with (Z.of_nat k - 1) by lia. reflexivity.
Qed.

Lemma writes_rep d0 tag l : writes d0 (put_rep_field tag l) (doc_rep_field tag l).
Proof.
  unfold put_rep_field. cbv zeta. destruct (0 <? Z.of_nat (length l)) eqn:E.
  - replace (doc_rep_field tag l) with (doc_rep_field tag (firstn (length l) l)) by (rewrite firstn_all; reflexivity).
    apply writes_rep_loop; lia.
  - destruct l; [apply writes_nothing|cbn [length] in E; lia].
Qed.

(* ================= whole messages ================= *)
(* from [writes] of the body to the statement about MarshalToSizedBuffer *)
Lemma tsb_of_writes d0 body E :
  writes d0 body E -> zlen E <= zlen d0 ->
  (LET '(d, i) := body d0 (zlen d0) IN Ok (zlen d0 - i, d))
  = Ok (zlen E, firstn (Z.to_nat (zlen d0 - zlen E)) d0 ++ E).
Proof.
  intros Hw Hb. destruct (Hw d0 (zlen d0) [] (st_init d0) Hb) as (d & i & Eq & Hst).
  rewrite Eq. cbn [rbind]. rewrite app_nil_r in Hst. destruct (st_final _ _ _ _ Hst) as (H1 & H2).
  rewrite H1, <- H2. reflexivity.
Qed.

Theorem tsb_roles_spec : forall r d0, Z.of_N (size_roles r) <= zlen d0 ->
  tsb_roles r d0 = Ok (Z.of_N (size_roles r), firstn (Z.to_nat (zlen d0 - Z.of_N (size_roles r))) d0 ++ enc_roles r).
Proof.
  intros r d0 Hb. rewrite size_roles_eq, <- zlen_clen in *. rewrite enc_roles_format in *.
  unfold tsb_roles. cbv zeta. apply (tsb_of_writes d0 _ (doc_roles r)); [|exact Hb].
  unfold doc_roles. apply writes_rep.
Qed.

(* one block of a right-nested LET chain: use its [writes] lemma on the current invariant *)
Ltac wstep W :=
  match goal with
  | Hst : st _ ?d ?i ?suf |- _ =>
    let d' := fresh "d" in let i' := fresh "i" in let E := fresh "E" in let H := fresh "Hst" in
    destruct (W d i suf Hst) as (d' & i' & E & H);
    [ unfold st in *; zl | cbv beta in E; rewrite E; cbn [rbind]; clear E ]
  end.
Ltac wfinish :=
  match goal with
  | Hst : st _ ?d ?i ?suf |- _ =>
    let H1 := fresh in let H2 := fresh in
    rewrite ?app_nil_r in Hst; destruct (st_final _ _ _ _ Hst) as (H1 & H2); rewrite H1, <- H2; reflexivity
  end.

Theorem tsb_metadata_doc : forall m d0, zlen (doc_metadata m) <= zlen d0 ->
  tsb_metadata m d0 = Ok (zlen (doc_metadata m), firstn (Z.to_nat (zlen d0 - zlen (doc_metadata m))) d0 ++ doc_metadata m).
Proof.
  intros m d0 Hb. pose proof (st_init d0) as Hst0. unfold tsb_metadata. cbv zeta.
  unfold doc_metadata in Hb |- *.
  wstep (writes_opt_bytes d0 (tg_md "Attributes") (md_attributes m)).
  wstep (writes_rep d0 (tg_md "URIs") (md_uris m)).
  wstep (writes_opt_bytes d0 (tg_md "Hash") (md_hash m)).
  wstep (writes_opt_varint d0 (tg_md "Royalties") (md_royalties m)).
  wstep (writes_opt_bytes d0 (tg_md "Creator") (md_creator m)).
  wstep (writes_opt_bytes d0 (tg_md "Name") (md_name m)).
  wstep (writes_opt_varint d0 (tg_md "Nonce") (md_nonce m)).
  wfinish.
Qed.

Theorem tsb_metadata_spec : forall m d0, Z.of_N (size_metadata m) <= zlen d0 ->
  tsb_metadata m d0
  = Ok (Z.of_N (size_metadata m), firstn (Z.to_nat (zlen d0 - Z.of_N (size_metadata m))) d0 ++ enc_metadata m).
Proof.
  intros m d0 Hb. rewrite size_metadata_eq, <- zlen_clen in *. rewrite enc_metadata_format in *.
  apply tsb_metadata_doc, Hb.
Qed.

(* ================= BigIntCaster.MarshalTo on the Size() bytes [old] in front of [suf] =================
   the second byte of a zero is not written: it has to be 0 already *)
Lemma caster_buf_spec v old suf :
  zlen old = Z.of_N (caster_size v) -> (v = Some 0%Z -> exists o0, old = [o0; x00]) ->
  caster_marshal_to_buf v (old ++ suf) = Ok (Z.of_N (caster_size v), caster_marshal v ++ suf).
Proof.
  intros Hl Hz. destruct v as [z|].
  - unfold caster_marshal_to_buf, caster_size, caster_marshal in *. cbv zeta in *.
    destruct (magnitude z) as [|b m'] eqn:Em.
    + assert (z = 0%Z) by (apply magnitude_nil, Em). subst z.
      destruct (Hz eq_refl) as (o0 & ->).
      change (zlen [] ) with 0. replace (zlen ([o0; x00] ++ suf) <=? 0) with false by zl.
      change ([o0; x00] ++ suf) with ([o0] ++ [] ++ x00 :: suf). change 1 with (zlen [o0]).
      rewrite bcopy_at by reflexivity. cbn [orp rbind app].
      change (o0 :: x00 :: suf) with ([] ++ o0 :: x00 :: suf). change 0 with (zlen []) at 1.
      rewrite bset_at. reflexivity.
    + replace (0 <? clen (b :: m'))%N with true in * by zl.
      destruct old as [|o0 old']; [exfalso; zl|].
      replace (zlen ((o0 :: old') ++ suf) <=? zlen (b :: m')) with false by zl.
      change ((o0 :: old') ++ suf) with ([o0] ++ old' ++ suf). change 1 with (zlen [o0]) at 1.
      rewrite bcopy_at by zl. cbn [orp rbind app].
      set (sg := if z <? 0 then x01 else x00).
      change 0 with (zlen []) at 1.
      pose proof (bset_at [] o0 ((b :: m') ++ suf) sg) as Hbs. cbn [app] in Hbs. rewrite Hbs. cbn [orp rbind app].
      replace (0 <? zlen (b :: m')) with true by zl.
      do 2 f_equal; zl.
  - unfold caster_marshal_to_buf. change (caster_size None) with 1%N in *. change (caster_marshal None) with [x00].
    destruct old as [|o [|? ?]]; try (exfalso; zl).
    change ([o] ++ suf) with ([] ++ o :: suf). change 0 with (zlen []).
    rewrite bset_at. reflexivity.
Qed.

(* after a callee has put [payload] in place: length varint and tag *)
Lemma st_len_tag d0 d i suf tag n payload :
  st d0 d i (payload ++ suf) -> n = clen payload -> 1 + Z.of_N (sov n) <= i ->
  exists d' i', (LET '(d, i) := encode_varint_go d i n IN put_tag tag d i) = Ok (d', i')
                /\ st d0 d' i' (doc_len_field tag payload ++ suf).
Proof.
  intros Hst -> Hb.
  destruct (writes_seq d0 _ _ _ _ (writes_varint d0 (clen payload)) (writes_tag d0 tag) d i (payload ++ suf) Hst)
    as (d' & i' & E & H).
  - rewrite zlen_app, (zlen_clen (enc_varint _)), <- sov_eq_length. change (zlen [tag]) with 1. lia.
  - exists d', i'. split; [exact E|]. unfold doc_len_field.
    change (tag :: enc_varint (clen payload) ++ payload) with (([tag] ++ enc_varint (clen payload)) ++ payload).
    rewrite <- (app_assoc _ payload suf). exact H.
Qed.

Lemma zlen_doc_len tag p : zlen (doc_len_field tag p) = 1 + Z.of_N (sov (clen p)) + zlen p.
Proof. unfold doc_len_field. rewrite sov_eq_length. zl. Qed.

Lemma writes_value d0 tag v :
  (v = Some 0%Z -> Forall (eq x00) d0) ->
  writes d0 (put_value_field tag v) (doc_len_field tag (caster_marshal v)).
Proof.
  intros Hz d i suf Hst Hb. rewrite zlen_doc_len in Hb.
  assert (Hs : Z.of_N (caster_size v) = zlen (caster_marshal v)) by (rewrite caster_size_eq; symmetry; apply zlen_clen).
  pose proof (sov_pos (clen (caster_marshal v))) as Hsov.
  destruct (st_write d0 d i suf (Z.of_N (caster_size v)) Hst) as (pre & old & Hd & Hp & Ho & Hnew & _ & post & Hd0); [zl|].
  unfold put_value_field. cbv zeta.
  assert (Hsl : slice_from d (i - Z.of_N (caster_size v)) = Some (old ++ suf)).
  { unfold slice_from. subst d. rewrite <- Hp.
    replace ((zlen pre <? 0) || (zlen (pre ++ old ++ suf) <? zlen pre)) with false by zl.
    unfold zlen. rewrite Nat2Z.id, skipn_app_len. reflexivity. }
  rewrite Hsl. cbn [orp rbind].
  rewrite caster_buf_spec; [|exact Ho|].
  - cbn [rbind].
    replace (firstn (Z.to_nat (i - Z.of_N (caster_size v))) d) with pre
      by (subst d; rewrite <- Hp; unfold zlen; rewrite Nat2Z.id, firstn_app_len; reflexivity).
    rewrite N2Z.id.
    apply (st_len_tag d0 _ _ suf tag _ (caster_marshal v)).
    + apply Hnew. symmetry. exact Hs.
    + apply caster_size_eq.
    + rewrite Hs, caster_size_eq. lia.
  - intros Hv. specialize (Hz Hv). rewrite Hd0 in Hz. apply Forall_app in Hz. destruct Hz as (_ & Hz).
    apply Forall_app in Hz. destruct Hz as (Hz & _). subst v. change (caster_size (Some 0%Z)) with 2%N in Ho.
    destruct old as [|o0 [|o1 [|? ?]]]; try (exfalso; zl).
    inversion Hz as [|? ? _ Hz1]. inversion Hz1 as [|? ? H1 _]. subst. exists o0. reflexivity.
Qed.

Lemma writes_metadata_field d0 tag m : writes d0 (put_metadata_field tag m) (doc_len_field tag (doc_metadata m)).
Proof.
  intros d i suf Hst Hb. rewrite zlen_doc_len in Hb.
  pose proof (sov_pos (clen (doc_metadata m))) as Hsov.
  destruct Hst as (H0 & Hl & Hd).
  assert (Hi : (Z.to_nat i <= length d0)%nat) by zl.
  set (A := firstn (Z.to_nat i) d0) in *.
  assert (HA : length A = Z.to_nat i) by (unfold A; rewrite firstn_length; lia).
  unfold put_metadata_field.
  assert (Hsl : slice_to d i = Some A).
  { unfold slice_to. replace ((i <? 0) || (zlen d <? i)) with false by (subst d; zl).
    subst d. rewrite <- HA, firstn_app_len. reflexivity. }
  rewrite Hsl. cbn [orp rbind].
  rewrite tsb_metadata_doc by zl. cbn [rbind]. cbv zeta.
  replace (skipn (Z.to_nat i) d) with suf by (subst d; rewrite <- HA, skipn_app_len; reflexivity).
  replace (Z.to_N (zlen (doc_metadata m))) with (clen (doc_metadata m)) by zl.
  rewrite <- app_assoc.
  apply (st_len_tag d0 _ _ suf tag _ (doc_metadata m)).
  - unfold st. split; [zl|]. split; [rewrite zlen_app; zl|]. f_equal.
    replace (zlen A) with i by zl. unfold A. rewrite firstn_firstn. f_equal. zl.
  - reflexivity.
  - lia.
Qed.

Definition doc_opt_md (tag : byte) (mo : option metadata) : bytes :=
  match mo with Some m => doc_len_field tag (doc_metadata m) | None => [] end.
Lemma writes_opt_metadata d0 tag mo :
  writes d0 (fun d i => match mo with Some m => put_metadata_field tag m d i | None => Ok (d, i) end)
            (doc_opt_md tag mo).
Proof. destruct mo; [apply writes_metadata_field|apply writes_nothing]. Qed.

Lemma doc_token_unfold t : doc_token t =
  doc_varint_field (tg_tok "Type") (t_type t)
  ++ doc_len_field (tg_tok "Value") (caster_marshal (t_value t))
  ++ doc_bytes_field (tg_tok "Properties") (t_props t)
  ++ doc_opt_md (tg_tok "TokenMetaData") (t_meta t)
  ++ doc_bytes_field (tg_tok "Reserved") (t_reserved t).
Proof. reflexivity. Qed.

(* the Value slot of a zero amount has to be clean *)
Definition clean_for (t : token) (d0 : bytes) : Prop := t_value t = Some 0%Z -> Forall (eq x00) d0.

Theorem tsb_token_doc : forall t d0, zlen (doc_token t) <= zlen d0 -> clean_for t d0 ->
  tsb_token t d0 = Ok (zlen (doc_token t), firstn (Z.to_nat (zlen d0 - zlen (doc_token t))) d0 ++ doc_token t).
Proof.
  intros t d0 Hb Hc. pose proof (st_init d0) as Hst0. unfold tsb_token. cbv zeta.
  pose proof (writes_value d0 (tg_tok "Value") (t_value t) Hc) as Wv. clear Hc.
  rewrite doc_token_unfold in Hb |- *.
  wstep (writes_opt_bytes d0 (tg_tok "Reserved") (t_reserved t)).
  wstep (writes_opt_metadata d0 (tg_tok "TokenMetaData") (t_meta t)).
  wstep (writes_opt_bytes d0 (tg_tok "Properties") (t_props t)).
  wstep Wv.
  wstep (writes_opt_varint d0 (tg_tok "Type") (t_type t)).
  wfinish.
Qed.

Theorem tsb_token_spec : forall t d0, Z.of_N (size_token t) <= zlen d0 -> clean_for t d0 ->
  tsb_token t d0 = Ok (Z.of_N (size_token t), firstn (Z.to_nat (zlen d0 - Z.of_N (size_token t))) d0 ++ enc_token t).
Proof.
  intros t d0 Hb Hc. rewrite size_token_eq, <- zlen_clen in *. rewrite enc_token_format in *.
  apply tsb_token_doc; assumption.
Qed.

(* ================= Marshal() and MarshalTo() ================= *)
Lemma Forall_zeros n : Forall (eq x00) (repeat x00 n).
Proof. induction n; cbn [repeat]; constructor; auto. Qed.
Lemma Forall_firstn {A} (P : A -> Prop) n l : Forall P l -> Forall P (firstn n l).
Proof. intros H. rewrite <- (firstn_skipn n l) in H. apply Forall_app in H. apply H. Qed.

Lemma slice_to_all d : slice_to d (zlen d) = Some d.
Proof.
  unfold slice_to. replace ((zlen d <? 0) || (zlen d <? zlen d)) with false by zl.
  unfold zlen. rewrite Nat2Z.id, firstn_all. reflexivity.
Qed.

Section Generic.
  Context {X : Type}.
  Variable size_of : X -> N.
  Variable tsb : X -> bytes -> R (Z * bytes).
  Variable enc : X -> bytes.
  Variable ok_for : X -> bytes -> Prop.                (* what the buffer has to satisfy (nothing, or [clean_for]) *)
  Hypothesis size_enc : forall m, size_of m = clen (enc m).
  Hypothesis tsb_spec : forall m d0, Z.of_N (size_of m) <= zlen d0 -> ok_for m d0 ->
    tsb m d0 = Ok (Z.of_N (size_of m), firstn (Z.to_nat (zlen d0 - Z.of_N (size_of m))) d0 ++ enc m).

  (* a buffer of exactly Size() bytes is filled completely: n = Size(), i ends at 0 *)
  Lemma tsb_exact m d0 : zlen d0 = Z.of_N (size_of m) -> ok_for m d0 -> tsb m d0 = Ok (Z.of_N (size_of m), enc m).
  Proof.
    intros Hl Hok. rewrite tsb_spec by (auto; lia). replace (zlen d0 - Z.of_N (size_of m)) with 0 by lia.
    reflexivity.
  Qed.

  Lemma marshal_generic_spec m :
    ok_for m (repeat x00 (Z.to_nat (Z.of_N (size_of m)))) -> marshal_generic size_of tsb m = Ok (enc m).
  Proof.
    intros Hok. unfold marshal_generic. cbv zeta.
    set (buf := repeat x00 (Z.to_nat (Z.of_N (size_of m)))) in *.
    assert (Hl : zlen buf = Z.of_N (size_of m)) by (unfold buf, zlen; rewrite repeat_length; lia).
    rewrite <- Hl at 1. rewrite slice_to_all. cbn [orp rbind].
    rewrite tsb_exact by assumption. cbn [rbind].
    rewrite size_enc, <- zlen_clen. rewrite slice_to_all. reflexivity.
  Qed.

  (* MarshalTo into an array of capacity >= Size(): the encoding at the front, the rest untouched *)
  Lemma marshal_to_generic_spec m arr :
    Z.of_N (size_of m) <= zlen arr -> ok_for m (firstn (Z.to_nat (Z.of_N (size_of m))) arr) ->
    marshal_to_generic size_of tsb m arr = Ok (Z.of_N (size_of m), enc m ++ skipn (Z.to_nat (Z.of_N (size_of m))) arr).
  Proof.
    intros Hb Hok. unfold marshal_to_generic. cbv zeta. unfold slice_to.
    replace ((Z.of_N (size_of m) <? 0) || (zlen arr <? Z.of_N (size_of m))) with false by lia.
    cbn [orp rbind]. rewrite tsb_exact; [reflexivity| |exact Hok].
    unfold zlen in *. rewrite firstn_length. lia.
  Qed.

  (* capacity < Size(): dAtA[:size] panics *)
  Lemma marshal_to_generic_small m arr : zlen arr < Z.of_N (size_of m) -> marshal_to_generic size_of tsb m arr = Panic.
  Proof.
    intros Hb. unfold marshal_to_generic. cbv zeta. unfold slice_to.
    replace ((Z.of_N (size_of m) <? 0) || (zlen arr <? Z.of_N (size_of m))) with true by lia. reflexivity.
  Qed.
End Generic.

Definition always_ok {X} (_ : X) (_ : bytes) : Prop := True.

Theorem marshal_go_roles_eq : forall r, marshal_go_roles r = Ok (enc_roles r).
Proof.
  intros r. apply (marshal_generic_spec size_roles tsb_roles enc_roles always_ok size_roles_eq).
  - intros m d0 Hb _. apply tsb_roles_spec, Hb.
  - exact I.
Qed.

Theorem marshal_go_metadata_eq : forall m, marshal_go_metadata m = Ok (enc_metadata m).
Proof.
  intros m. apply (marshal_generic_spec size_metadata tsb_metadata enc_metadata always_ok size_metadata_eq).
  - intros m' d0 Hb _. apply tsb_metadata_spec, Hb.
  - exact I.
Qed.

Theorem marshal_go_token_eq : forall t, marshal_go_token t = Ok (enc_token t).
Proof.
  intros t. apply (marshal_generic_spec size_token tsb_token enc_token clean_for size_token_eq tsb_token_spec).
  intros _. apply Forall_zeros.
Qed.

Theorem marshal_to_roles_spec : forall r arr, Z.of_N (size_roles r) <= zlen arr ->
  marshal_to_roles r arr = Ok (Z.of_N (size_roles r), enc_roles r ++ skipn (Z.to_nat (Z.of_N (size_roles r))) arr).
Proof.
  intros r arr Hb. apply (marshal_to_generic_spec size_roles tsb_roles enc_roles always_ok size_roles_eq); [|exact Hb|exact I].
  intros m d0 Hb' _. apply tsb_roles_spec, Hb'.
Qed.

Theorem marshal_to_metadata_spec : forall m arr, Z.of_N (size_metadata m) <= zlen arr ->
  marshal_to_metadata m arr
  = Ok (Z.of_N (size_metadata m), enc_metadata m ++ skipn (Z.to_nat (Z.of_N (size_metadata m))) arr).
Proof.
  intros m arr Hb.
  apply (marshal_to_generic_spec size_metadata tsb_metadata enc_metadata always_ok size_metadata_eq); [|exact Hb|exact I].
  intros m' d0 Hb' _. apply tsb_metadata_spec, Hb'.
Qed.

Theorem marshal_to_token_spec : forall t arr, Z.of_N (size_token t) <= zlen arr -> clean_for t arr ->
  marshal_to_token t arr = Ok (Z.of_N (size_token t), enc_token t ++ skipn (Z.to_nat (Z.of_N (size_token t))) arr).
Proof.
  intros t arr Hb Hc.
  apply (marshal_to_generic_spec size_token tsb_token enc_token clean_for size_token_eq tsb_token_spec); [exact Hb|].
  intros Hv. apply Forall_firstn, Hc, Hv.
Qed.
