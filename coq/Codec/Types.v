(* Value types of data/esdt: ESDigitalToken, MetaData, ESDTRoles, as the generated Go structs hold them.
   A nil *big.Int is [None]; nil and empty byte slices are not distinguished (neither Equal nor the
   encoder distinguishes them). *)
From EV Require Import Base.Bytes.

Record metadata := {
  md_nonce : N;            (* uint64 *)
  md_name : bytes;
  md_creator : bytes;
  md_royalties : N;        (* uint32 *)
  md_hash : bytes;
  md_uris : list bytes;
  md_attributes : bytes }.

Record token := {
  t_type : N;              (* uint32 *)
  t_value : option Z;      (* *big.Int, None = nil *)
  t_props : bytes;         (* Properties *)
  t_meta : option metadata;
  t_reserved : bytes }.

Definition roles := list bytes.

Definition wf_metadata (m : metadata) : Prop := (md_nonce m < two64)%N /\ (md_royalties m < two32)%N.
Definition wf_token (t : token) : Prop :=
  (t_type t < two32)%N /\ match t_meta t with Some m => wf_metadata m | None => True end.

Definition wf_metadata_b (m : metadata) : bool := ((md_nonce m <? two64) && (md_royalties m <? two32))%N.
Definition wf_token_b (t : token) : bool :=
  ((t_type t <? two32)%N && match t_meta t with Some m => wf_metadata_b m | None => true end).
Lemma wf_token_b_true t : wf_token_b t = true <-> wf_token t.
Proof.
  unfold wf_token_b, wf_token, wf_metadata_b, wf_metadata. destruct (t_meta t); split; intros H; try lia.
Qed.

Definition set_value (t : token) (v : option Z) : token :=
  {| t_type := t_type t; t_value := v; t_props := t_props t; t_meta := t_meta t; t_reserved := t_reserved t |}.
Definition set_props (t : token) (p : bytes) : token :=
  {| t_type := t_type t; t_value := t_value t; t_props := p; t_meta := t_meta t; t_reserved := t_reserved t |}.
Definition set_meta (t : token) (m : option metadata) : token :=
  {| t_type := t_type t; t_value := t_value t; t_props := t_props t; t_meta := m; t_reserved := t_reserved t |}.
Definition set_uris (m : metadata) (u : list bytes) : metadata :=
  {| md_nonce := md_nonce m; md_name := md_name m; md_creator := md_creator m; md_royalties := md_royalties m;
     md_hash := md_hash m; md_uris := u; md_attributes := md_attributes m |}.
Definition set_attributes (m : metadata) (a : bytes) : metadata :=
  {| md_nonce := md_nonce m; md_name := md_name m; md_creator := md_creator m; md_royalties := md_royalties m;
     md_hash := md_hash m; md_uris := md_uris m; md_attributes := a |}.
Definition empty_token : token := {| t_type := 0; t_value := None; t_props := []; t_meta := None; t_reserved := [] |}.
Definition empty_metadata : metadata :=
  {| md_nonce := 0; md_name := []; md_creator := []; md_royalties := 0; md_hash := []; md_uris := []; md_attributes := [] |}.
