(* Concrete instances for property C14 (non-vacuity of the hypotheses, pinned example bytes). *)
From Coq.Strings Require Import String.
From EV Require Import Base.Bytes Base.Monad Codec.Types Codec.Varint Codec.BigIntCaster Codec.Proto
  Codec.LoopProofs Codec.CasterGo Codec.Ideal.
Local Open Scope N_scope.

(* an NFT entry: negative huge value, all metadata fields, an empty and a non-empty URI, absent attributes *)
Definition ex_md : metadata :=
  {| md_nonce := 18446744073709551615; md_name := str "nft"%string; md_creator := repeat xff 32;
     md_royalties := 10000; md_hash := hx "00ff"%string; md_uris := [[]; str "u"%string]; md_attributes := [] |}.
Definition ex_tok : token :=
  {| t_type := 1; t_value := Some (- (2 ^ 200))%Z; t_props := hx "0100"%string; t_meta := Some ex_md;
     t_reserved := [] |}.
Definition ex_tok_bytes : bytes :=
  hx "0801121b0101" ++ repeat x00 25 ++ hx "1a020100223e08ffffffffffffffffff0112036e66741a20" ++ repeat xff 32
  ++ hx "20904e2a0200ff3200320175".

Example ex_tok_wf : wf_token ex_tok.
Proof. apply wf_token_b_true. vm_compute. reflexivity. Qed.
Example ex_tok_fits : fits (enc_token ex_tok).
Proof. vm_compute. reflexivity. Qed.
Example ex_tok_encoding : enc_token ex_tok = ex_tok_bytes /\ size_token ex_tok = 99.
Proof. vm_compute. split; reflexivity. Qed.
Example ex_tok_roundtrip : dec_token ex_tok_bytes = Some ex_tok /\ dec_token_ideal ex_tok_bytes = Some ex_tok.
Proof. vm_compute. split; reflexivity. Qed.
Example ex_md_roundtrip : wf_metadata ex_md /\ fits (enc_metadata ex_md) /\ dec_metadata (enc_metadata ex_md) = Some ex_md.
Proof. split; [split; vm_compute; reflexivity|]. split; vm_compute; reflexivity. Qed.

(* absent value (nil), zero, fungible entries; absent vs empty fields encode alike *)
Example ex_small_encodings :
  enc_token empty_token = hx "120100"
  /\ enc_token (set_value empty_token (Some 0%Z)) = hx "12020000"
  /\ enc_token (set_value empty_token (Some 255%Z)) = hx "120200ff"
  /\ enc_token (set_value empty_token (Some (-256)%Z)) = hx "1203010100"
  /\ enc_token (set_meta empty_token (Some empty_metadata)) = hx "1201002200"
  /\ dec_token (hx "1201002200") = Some (set_meta empty_token (Some empty_metadata))
  /\ enc_roles [str "ESDTRoleLocalMint"; []] = hx "0a11" ++ str "ESDTRoleLocalMint" ++ hx "0a00"
  /\ dec_roles (hx "0a000a0141") = Some [[]; str "A"]
  /\ enc_metadata empty_metadata = [].
Proof. vm_compute. repeat split; reflexivity. Qed.

(* amount codec on the documented shapes *)
Example ex_amounts :
  caster_marshal None = hx "00" /\ caster_marshal (Some 0%Z) = hx "0000"
  /\ caster_marshal (Some (2 ^ 64)%Z) = hx "00010000000000000000"
  /\ caster_marshal (Some (- 1)%Z) = hx "0101"
  /\ caster_unmarshal (hx "0700") = Some (Some 0%Z)                    (* two-byte zero: sign byte not inspected *)
  /\ caster_unmarshal (hx "0701") = None                               (* invalid sign byte *)
  /\ caster_unmarshal (hx "000001") = Some (Some 1%Z)                  (* leading zeros of the magnitude accepted *)
  /\ caster_unmarshal (hx "0100") = Some (Some 0%Z)
  /\ caster_unmarshal (hx "010000") = Some (Some 0%Z)                  (* "negative zero" *)
  /\ caster_unmarshal (hx "05") = Some None
  /\ caster_unmarshal [] = None.
Proof. vm_compute. repeat split; reflexivity. Qed.

(* decoder behaviour on malformed input: errors, never Panic *)
Example ex_malformed :
  dec_token_res (hx "08") = Err EUnexpectedEOF                                        (* truncated *)
  /\ dec_token_res (hx "0880808080808080808080") = Err EIntOverflow                    (* 11-byte varint *)
  /\ dec_token_res (hx "12ffffffffffffffffff01") = Err EInvalidLength                  (* length 2^64-1: negative int *)
  /\ dec_token_res (hx "12ffffffffffffffff7f") = Err EInvalidLength                    (* post index wraps negative *)
  /\ dec_token_res (hx "1205") = Err EUnexpectedEOF                                    (* length beyond the input *)
  /\ dec_token_res (hx "0a00") = Err EWrongWireType                                    (* field 1 as bytes *)
  /\ dec_token_res (hx "00") = Err EIllegalTag                                         (* field number 0 *)
  /\ dec_token_res (hx "0c") = Err EIllegalTag                                         (* end group *)
  /\ dec_token_res (hx "1200") = Err EBadValue                                         (* empty Value payload *)
  /\ dec_token_res (hx "3b3c") = Ok empty_token                                        (* unknown field 7: empty group skipped *)
  /\ dec_token_res (hx "3b") = Err EUnexpectedEOF                                      (* unterminated group *)
  /\ dec_token_res (hx "3e") = Err EIllegalWireType                                    (* wire type 6 *)
  /\ dec_token_res (hx "39") = Err EUnexpectedEOF                                      (* fixed64 beyond the input *)
  /\ dec_token_res (hx "888080808001" ++ hx "05") = Ok (tk_set_type empty_token 5).      (* field number 2^32+1 read as 1 *)
Proof. vm_compute. repeat split; reflexivity. Qed.

Example ex_caster_go : caster_unmarshal_go (hx "0701") = Err EBadValue /\ caster_unmarshal_go (hx "01ff") = Ok (Some (-255)%Z).
Proof. vm_compute. split; reflexivity. Qed.
