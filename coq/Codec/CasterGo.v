(* data/bigIntCaster.go, Unmarshal, written at the level of Go's index and slice expressions:
   `buf[1]`, `buf[1:]`, `buf[0]` are [idx] / [slice], whose out-of-range case is an explicit [Panic].
   Codec/BigIntCaster.v states the same function by pattern matching; NoPanicProofs.v proves the two equal
   on every buffer, hence that no index expression of Unmarshal is ever out of range. *)
From EV Require Import Base.Bytes Base.Monad Codec.Varint Codec.BigIntCaster Codec.Proto.
Local Open Scope N_scope.

Definition caster_unmarshal_go (buf : bytes) : R (option Z) :=
  let l := clen buf in
  if l =? 0 then Err EBadValue                          (* case 0: "bad input" *)
  else if l =? 1 then Ok None                           (* case 1: nil, nil *)
  else
    let zero2 : R bool :=                               (* case 2: if buf[1] == 0 { return big.NewInt(0) } *)
      if l =? 2 then match idx buf 1 with Some b1 => Ok (b2n b1 =? 0) | None => Panic end
      else Ok false in
    match zero2 with
    | Ok true => Ok (Some 0%Z)
    | Ok false =>
      match slice buf 1 l with                          (* buf[1:] *)
      | None => Panic
      | Some rest =>
        let ret := Z.of_N (be_to_N rest) in             (* new(big.Int).SetBytes(buf[1:]) *)
        match idx buf 0 with                            (* switch buf[0] *)
        | None => Panic
        | Some s =>
          if b2n s =? 0 then Ok (Some ret)
          else if b2n s =? 1 then Ok (Some (- ret)%Z)
          else Err EBadValue                            (* invalid sign byte *)
        end
      end
    | Err e => Err e
    | Panic => Panic
    end.

(* BigIntCaster.MarshalTo(a, buf) on a caller-supplied zeroed buffer of [blen] bytes (the generated Marshal
   always hands over Size(a) bytes).  Ok (n, p) = the returned count and the first min(n, blen) bytes of the
   buffer after the call; Err = ErrInvalidValue; Panic = `buf[0]` out of range (nil value, empty buffer). *)
Definition caster_marshal_to_go (a : option Z) (blen : N) : R (N * bytes) :=
  match a with
  | None => if blen =? 0 then Panic else Ok (1, [x00])                  (* buf[0] = 0; return 1 *)
  | Some z =>
    let bs := magnitude z in
    if blen <=? clen bs then Err EBadValue                              (* len(buf) <= len(bytes) *)
    else                                                                (* blen >= 1: buf[1:] and buf[0] are in range *)
      let sign := if (z <? 0)%Z then x01 else x00 in
      if 0 <? clen bs then Ok (clen bs + 1, sign :: bs)
      else Ok (2, if blen <? 2 then [sign] else [sign; x00])            (* zero: returns 2 whatever the buffer *)
  end.
