(* Protobuf base-128 varints as used by data/esdt/esdt.pb.go.
   Encoder: encodeVarintEsdt / sovEsdt.  Decoder: the `for shift := uint(0); ; shift += 7` loop that
   the generated Unmarshal methods and skipEsdt repeat for every tag, scalar and length:
   at most 10 bytes, 64-bit accumulator (higher bits are dropped silently), io.ErrUnexpectedEOF
   when the input ends.  The decoder works on (data, index) like the Go code; `data[i]` is [idx],
   whose out-of-range case is an explicit [Panic] (proved unreachable in VarintProofs.v). *)
From EV Require Import Base.Bytes Base.Monad.
Local Open Scope N_scope.

Definition clen (l : bytes) : N := N.of_nat (length l).
Definition two63 : N := 9223372036854775808.
Definition two31 : N := 2147483648.

(* error classes of the generated decoder (only the class Err/Ok/Panic is compared with Go) *)
Inductive derr :=
| EIntOverflow        (* ErrIntOverflowEsdt *)
| EUnexpectedEOF      (* io.ErrUnexpectedEOF *)
| EInvalidLength      (* ErrInvalidLengthEsdt *)
| EWrongWireType      (* proto: wrong wireType = %d for field %s *)
| EIllegalTag         (* proto: %s: illegal tag %d / wiretype end group for non-group *)
| EEndGroup           (* ErrUnexpectedEndOfGroupEsdt *)
| EIllegalWireType    (* proto: illegal wireType %d *)
| EBadValue.          (* BigIntCaster.Unmarshal: bad input / invalid sign byte *)
Definition R (A : Type) : Type := res derr A.

(* ---- encoder ----
   for v >= 1<<7 { dAtA[offset] = uint8(v&0x7f | 0x80); v >>= 7; offset++ }; dAtA[offset] = uint8(v) *)
Fixpoint enc_varint_f (fuel : nat) (n : N) : bytes :=
  match fuel with
  | O => [n2b (n mod 128)]
  | S f => if n <? 128 then [n2b n] else n2b (n mod 128 + 128) :: enc_varint_f f (n / 128)
  end.
(* the fuel (bit length) is never exhausted; for n < 2^64 this is the Go loop *)
Definition enc_varint (n : N) : bytes := enc_varint_f (N.size_nat n) n.

(* sovEsdt(x) = (bits.Len64(x|1) + 6) / 7 *)
Definition sov (x : N) : N := (N.size (N.lor x 1) + 6) / 7.

(* ---- decoder ---- *)
Definition idx (data : bytes) (i : N) : option byte := nth_error data (N.to_nat i).

(* One varint read starting at index i: Ok (value mod 2^64, index after the varint).
   `wire |= uint64(b&0x7F) << shift`: the bit ranges are disjoint, so `|` is `+`; `<<` on uint64 drops
   the bits beyond 64.  Fuel exhaustion is [Panic], i.e. proved impossible together with the panics. *)
Fixpoint rd_varint_go (fuel : nat) (data : bytes) (l shift acc i : N) : R (N * N) :=
  if 64 <=? shift then Err EIntOverflow else
  match fuel with
  | O => Panic
  | S f =>
    if l <=? i then Err EUnexpectedEOF else
    match idx data i with
    | None => Panic                                   (* dAtA[iNdEx] out of range *)
    | Some b =>
      let acc' := (acc + ((b2n b mod 128) * 2 ^ shift) mod two64) mod two64 in
      if b2n b <? 128 then Ok (acc', i + 1)
      else rd_varint_go f data l (shift + 7) acc' (i + 1)
    end
  end.
Definition rd_varint (data : bytes) (l i : N) : R (N * N) := rd_varint_go 10 data l 0 0 i.
