(* Generic facts about the decoder loop of Codec/Proto.v, for any field table:
   - decoding the concatenation of encoded field occurrences folds the table's setters over them;
   - an invariant of the setters is an invariant of the decoded value;
   - no index / slice expression is ever out of range and the fuel is never exhausted (no [Panic]). *)
From EV Require Import Base.Bytes Base.Monad Codec.Types Codec.Varint Codec.BigIntCaster Codec.Proto
  Codec.VarintProofs.
Local Open Scope N_scope.

Local Arguments N.pow : simpl never.
Local Arguments N.div : simpl never.
Local Arguments N.modulo : simpl never.
Local Arguments N.mul : simpl never.
Local Arguments N.add : simpl never.
Local Arguments N.sub : simpl never.
Local Arguments N.leb : simpl never.
Local Arguments N.ltb : simpl never.
Local Arguments rd_varint : simpl never.
Local Arguments msg_loop : simpl never.
Local Arguments skip_go : simpl never.
Local Arguments enc_varint : simpl never.

(* a buffer that can exist in a Go program: len fits a (64-bit, signed) int *)
Definition fits (b : bytes) : Prop := clen b < two63.

(* ---- slices ---- *)
Lemma skipn_app_len {A} (pre s : list A) : skipn (length pre) (pre ++ s) = s.
Proof. induction pre as [|a pre IH]; [reflexivity|exact IH]. Qed.
Lemma firstn_app_len {A} (x r : list A) : firstn (length x) (x ++ r) = x.
Proof. induction x as [|a x IH]; [reflexivity|cbn; rewrite IH; reflexivity]. Qed.

Lemma at_slice data i x r : at_ data i (x ++ r) -> slice data i (i + clen x) = Some x.
Proof.
  intros (pre & -> & <-). unfold slice. rewrite !clen_app.
  replace ((clen pre <=? clen pre + clen x) && (clen pre + clen x <=? clen pre + (clen x + clen r))) with true by lia.
  f_equal. replace (clen pre + clen x - clen pre) with (clen x) by lia.
  unfold clen. rewrite !Nnat.Nat2N.id. rewrite skipn_app_len, firstn_app_len. reflexivity.
Qed.
Lemma at_slice_end data i s : at_ data i s -> slice data i (clen data) = Some s.
Proof.
  intros H. pose proof (at_clen _ _ _ H) as Hl. rewrite <- (app_nil_r s) in H.
  apply at_slice in H. rewrite Hl. exact H.
Qed.
Lemma slice_some data a b : a <= b -> b <= clen data -> exists s, slice data a b = Some s /\ clen s = b - a.
Proof.
  intros H1 H2. unfold slice. replace ((a <=? b) && (b <=? clen data)) with true by lia.
  eexists. split; [reflexivity|]. unfold clen in *. rewrite firstn_length, skipn_length. lia.
Qed.

(* ---- length-delimited payloads ---- *)
Lemma rd_bytes_enc data i b rest :
  fits data -> at_ data i (enc_varint (clen b) ++ b ++ rest) ->
  rd_bytes data (clen data) i = Ok (b, i + clen (enc_varint (clen b)) + clen b).
Proof.
  unfold fits, two63. intros Hf Hat. pose proof (at_clen _ _ _ Hat) as Hl. rewrite !clen_app in Hl.
  unfold rd_bytes, rd_len.
  rewrite (rd_varint_enc (clen b) data i (b ++ rest)); [|rewrite pow64; lia|exact Hat].
  unfold two63. replace (9223372036854775808 <=? clen b) with false by lia. cbv zeta.
  replace (9223372036854775808 <=? i + clen (enc_varint (clen b)) + clen b) with false by lia.
  replace (clen data <? i + clen (enc_varint (clen b)) + clen b) with false by lia.
  apply at_app in Hat. rewrite (at_slice _ _ _ _ Hat). reflexivity.
Qed.

Definition rdb_safe (l i : N) (r : R (bytes * N)) : Prop :=
  match r with
  | Panic => False
  | Ok (s, i') => i < i' /\ i' <= l /\ clen s < i' - i
  | Err _ => True
  end.
Lemma rd_bytes_safe data i : rdb_safe (clen data) i (rd_bytes data (clen data) i).
Proof.
  unfold rd_bytes, rd_len. pose proof (rd_varint_safe data i) as H. unfold rd_safe in H.
  destruct (rd_varint data (clen data) i) as [[n i2]|e|]; [|exact I|contradiction].
  destruct H as (H1 & H2 & H3).
  destruct (two63 <=? n); [exact I|]. cbv zeta.
  destruct (two63 <=? i2 + n); [exact I|].
  destruct (clen data <? i2 + n) eqn:E; [exact I|].
  destruct (slice_some data i2 (i2 + n)) as (s & Hs & Hc); [lia|lia|].
  rewrite Hs. unfold rdb_safe. lia.
Qed.

(* ---- skipEsdt never panics and skips at least the tag ---- *)
Lemma skip_go_step f data l i depth :
  skip_go (S f) data l i depth =
  if l <=? i then Err EUnexpectedEOF else
    match rd_varint data l i with
    | Ok (wire, i1) =>
      let wt := wire mod 8 in
      let step : R (N * N) :=
        if wt =? 0 then
          match rd_varint data l i1 with Ok (_, i2) => Ok (i2, depth) | Err e => Err e | Panic => Panic end
        else if wt =? 1 then Ok (i1 + 8, depth)
        else if wt =? 2 then
          match rd_varint data l i1 with
          | Ok (n, i2) => if two63 <=? n then Err EInvalidLength else Ok (i2 + n, depth)
          | Err e => Err e | Panic => Panic
          end
        else if wt =? 3 then Ok (i1, depth + 1)
        else if wt =? 4 then (if depth =? 0 then Err EEndGroup else Ok (i1, depth - 1))
        else if wt =? 5 then Ok (i1 + 4, depth)
        else Err EIllegalWireType in
      match step with
      | Ok (i', d') =>
        if two63 <=? i' then Err EInvalidLength
        else if d' =? 0 then Ok i'
        else skip_go f data l i' d'
      | Err e => Err e
      | Panic => Panic
      end
    | Err e => Err e
    | Panic => Panic
    end.
Proof. reflexivity. Qed.

Definition skip_safe (i : N) (r : R N) : Prop :=
  match r with Panic => False | Ok n => i < n | Err _ => True end.

Lemma skip_go_safe : forall fuel data i depth,
  clen data - i <= N.of_nat fuel -> skip_safe i (skip_go fuel data (clen data) i depth).
Proof.
  induction fuel as [|f IH]; intros data i depth Hf.
  - unfold skip_go. replace (clen data <=? i) with true by lia. exact I.
  - rewrite skip_go_step. destruct (clen data <=? i) eqn:E0; [exact I|].
    pose proof (rd_varint_safe data i) as H. unfold rd_safe in H.
    destruct (rd_varint data (clen data) i) as [[wire i1]|e|]; [|exact I|contradiction].
    destruct H as (H1 & H2 & _). cbv zeta.
    assert (Hrec : forall i' d', i < i' ->
      skip_safe i (if two63 <=? i' then Err EInvalidLength else if d' =? 0 then Ok i'
                   else skip_go f data (clen data) i' d')).
    { intros i' d' Hi. destruct (two63 <=? i'); [exact I|]. destruct (d' =? 0); [exact Hi|].
      specialize (IH data i' d'). assert (Hf' : clen data - i' <= N.of_nat f) by lia. specialize (IH Hf').
      unfold skip_safe in *. destruct (skip_go f data (clen data) i' d'); auto. lia. }
    destruct (wire mod 8 =? 0).
    { pose proof (rd_varint_safe data i1) as H3. unfold rd_safe in H3.
      destruct (rd_varint data (clen data) i1) as [[v i2]|e|]; [|exact I|contradiction].
      apply Hrec. lia. }
    destruct (wire mod 8 =? 1); [apply Hrec; lia|].
    destruct (wire mod 8 =? 2).
    { pose proof (rd_varint_safe data i1) as H3. unfold rd_safe in H3.
      destruct (rd_varint data (clen data) i1) as [[v i2]|e|]; [|exact I|contradiction].
      destruct (two63 <=? v); [exact I|]. apply Hrec. lia. }
    destruct (wire mod 8 =? 3); [apply Hrec; lia|].
    destruct (wire mod 8 =? 4); [destruct (depth =? 0); [exact I|apply Hrec; lia]|].
    destruct (wire mod 8 =? 5); [apply Hrec; lia|exact I].
Qed.

Lemma skip_esdt_safe data : skip_safe 0 (skip_esdt data).
Proof. unfold skip_esdt. apply skip_go_safe. unfold clen. lia. Qed.

(* ================= the message loop ================= *)
Section LoopProofs.
  Context {St : Type}.
  Variable kind_of : N -> option (fkind St).

  Lemma msg_loop_step f data l i m :
    msg_loop kind_of (S f) data l i m =
    if l <=? i then (if l <? i then Err EUnexpectedEOF else Ok m) else
      match rd_varint data l i with
      | Ok (wire, i1) =>
        let fieldNum := (wire / 8) mod two32 in
        let wireType := wire mod 8 in
        if wireType =? 4 then Err EIllegalTag
        else if (fieldNum =? 0) || (two31 <=? fieldNum) then Err EIllegalTag
        else
          match kind_of fieldNum with
          | Some (KVarint set) =>
            if negb (wireType =? 0) then Err EWrongWireType else
            match rd_varint data l i1 with
            | Ok (v, i2) => msg_loop kind_of f data l i2 (set m v)
            | Err e => Err e | Panic => Panic
            end
          | Some (KBytes set) =>
            if negb (wireType =? 2) then Err EWrongWireType else
            match rd_bytes data l i1 with
            | Ok (s, i2) =>
              match set m s with
              | Ok m' => msg_loop kind_of f data l i2 m'
              | Err e => Err e | Panic => Panic
              end
            | Err e => Err e | Panic => Panic
            end
          | None =>
            match slice data i l with
            | None => Panic
            | Some sub =>
              match skip_esdt sub with
              | Ok skippy =>
                if two63 <=? skippy then Err EInvalidLength
                else if two63 <=? i + skippy then Err EInvalidLength
                else if l <? i + skippy then Err EUnexpectedEOF
                else msg_loop kind_of f data l (i + skippy) m
              | Err e => Err e | Panic => Panic
              end
            end
          end
      | Err e => Err e
      | Panic => Panic
      end.
  Proof. reflexivity. Qed.

  Lemma msg_loop_end f data i m : at_ data i [] -> msg_loop kind_of f data (clen data) i m = Ok m.
  Proof.
    intros H. apply at_end in H. subst i.
    destruct f as [|f]; [unfold msg_loop|rewrite msg_loop_step];
      replace (clen data <=? clen data) with true by lia;
      replace (clen data <? clen data) with false by lia; reflexivity.
  Qed.

  Lemma rd_tag data i num wt rest :
    num < 16 -> wt < 8 -> at_ data i (tag_byte num wt :: rest) ->
    rd_varint data (clen data) i = Ok (num * 8 + wt, i + 1).
  Proof.
    intros Hn Hw Hat. unfold tag_byte in Hat.
    assert (Hs : num * 8 + wt < 128) by lia.
    change (n2b (num * 8 + wt) :: rest) with ([n2b (num * 8 + wt)] ++ rest) in Hat.
    rewrite <- (enc_varint_small _ Hs) in Hat.
    rewrite (rd_varint_enc (num * 8 + wt) data i rest); [|rewrite pow64; lia|exact Hat].
    rewrite (enc_varint_small _ Hs). reflexivity.
  Qed.

  Lemma tag_decompose num wt : num < 16 -> wt < 8 ->
    ((num * 8 + wt) / 8) mod two32 = num /\ (num * 8 + wt) mod 8 = wt.
  Proof. unfold two32. intros. split; lia. Qed.

  Lemma loop_occ_varint f data i num v set rest m :
    0 < num -> num < 16 -> v < 2 ^ 64 -> kind_of num = Some (KVarint set) ->
    at_ data i (enc_occ (num, FVarint v) ++ rest) ->
    msg_loop kind_of (S f) data (clen data) i m
    = msg_loop kind_of f data (clen data) (i + clen (enc_occ (num, FVarint v))) (set m v).
  Proof.
    intros Hn0 Hn16 Hv Hk Hat. unfold enc_occ in *. cbn [fst snd wire_type] in *.
    cbn [app] in Hat.
    pose proof (at_clen _ _ _ Hat) as Hl. rewrite clen_cons in Hl.
    rewrite msg_loop_step. replace (clen data <=? i) with false by lia.
    rewrite (rd_tag data i num 0 _ Hn16 ltac:(lia) Hat). cbv zeta.
    destruct (tag_decompose num 0 Hn16 ltac:(lia)) as [E1 E2]. rewrite E1, E2.
    change (0 =? 4) with false. cbv iota.
    replace ((num =? 0) || (two31 <=? num)) with false by (unfold two31; lia).
    rewrite Hk. change (negb (0 =? 0)) with false. cbv iota.
    apply at_cons in Hat.
    rewrite (rd_varint_enc v data (i + 1) rest Hv Hat).
    rewrite clen_cons. f_equal. lia.
  Qed.

  Lemma loop_occ_bytes f data i num b set rest m m' :
    0 < num -> num < 16 -> fits data -> kind_of num = Some (KBytes set) -> set m b = Ok m' ->
    at_ data i (enc_occ (num, FBytes b) ++ rest) ->
    msg_loop kind_of (S f) data (clen data) i m
    = msg_loop kind_of f data (clen data) (i + clen (enc_occ (num, FBytes b))) m'.
  Proof.
    intros Hn0 Hn16 Hfit Hk Hset Hat. unfold enc_occ in *. cbn [fst snd wire_type] in *.
    rewrite <- app_comm_cons in Hat. rewrite <- app_assoc in Hat.
    pose proof (at_clen _ _ _ Hat) as Hl. rewrite clen_cons in Hl.
    rewrite msg_loop_step. replace (clen data <=? i) with false by lia.
    rewrite (rd_tag data i num 2 _ Hn16 ltac:(lia) Hat). cbv zeta.
    destruct (tag_decompose num 2 Hn16 ltac:(lia)) as [E1 E2]. rewrite E1, E2.
    change (2 =? 4) with false. cbv iota.
    replace ((num =? 0) || (two31 <=? num)) with false by (unfold two31; lia).
    rewrite Hk. change (negb (2 =? 2)) with false. cbv iota.
    apply at_cons in Hat.
    rewrite (rd_bytes_enc data (i + 1) b rest Hfit Hat). rewrite Hset.
    rewrite clen_cons, clen_app. f_equal. lia.
  Qed.

  (* what the table does with one encoded occurrence, and with a list of them *)
  Definition apply_occ (m : St) (o : occ) : R St :=
    match kind_of (fst o), snd o with
    | Some (KVarint set), FVarint v => Ok (set m v)
    | Some (KBytes set), FBytes b => set m b
    | _, _ => Err EWrongWireType
    end.
  Fixpoint apply_occs (m : St) (l : list occ) : R St :=
    match l with
    | [] => Ok m
    | o :: r => match apply_occ m o with Ok m' => apply_occs m' r | Err e => Err e | Panic => Panic end
    end.
  Definition occ_ok (o : occ) : Prop :=
    0 < fst o /\ fst o < 16 /\ match snd o with FVarint v => v < 2 ^ 64 | FBytes _ => True end.

  Lemma apply_occs_app m a b :
    apply_occs m (a ++ b) = match apply_occs m a with Ok m' => apply_occs m' b | Err e => Err e | Panic => Panic end.
  Proof.
    revert m. induction a as [|o a IH]; intros m; [reflexivity|]. cbn [app apply_occs].
    destruct (apply_occ m o); auto.
  Qed.

  Lemma enc_occ_nonempty o : enc_occ o <> [].
  Proof. unfold enc_occ. discriminate. Qed.
  Lemma enc_occs_cons o l : enc_occs (o :: l) = enc_occ o ++ enc_occs l.
  Proof. reflexivity. Qed.
  Lemma enc_occs_app a b : enc_occs (a ++ b) = enc_occs a ++ enc_occs b.
  Proof. unfold enc_occs. rewrite map_app, concat_app. reflexivity. Qed.
  Lemma enc_occs_length l : (length l <= length (enc_occs l))%nat.
  Proof.
    induction l as [|o l IH]; [cbn; lia|]. rewrite enc_occs_cons, app_length. cbn [length].
    unfold enc_occ at 1. cbn [length]. lia.
  Qed.

  Theorem loop_occs : forall occs f data i m m',
    Forall occ_ok occs -> apply_occs m occs = Ok m' -> fits data ->
    at_ data i (enc_occs occs) -> (length occs <= f)%nat ->
    msg_loop kind_of f data (clen data) i m = Ok m'.
  Proof.
    induction occs as [|o occs IH]; intros f data i m m' Hok Happ Hfit Hat Hf.
    - cbn in Happ. inversion Happ; subst. apply msg_loop_end. exact Hat.
    - destruct f as [|f]; [cbn in Hf; lia|].
      inversion Hok as [|? ? Ho Hok']; subst.
      rewrite enc_occs_cons in Hat. cbn [apply_occs] in Happ.
      destruct (apply_occ m o) as [m1|e|] eqn:Eo; try discriminate.
      destruct o as [num [v|b]]; destruct Ho as (Hn0 & Hn16 & Hv); cbn [fst snd] in *;
        unfold apply_occ in Eo; cbn [fst snd] in Eo;
        destruct (kind_of num) as [[set|set]|] eqn:Ek; try discriminate.
      + inversion Eo; subst m1.
        rewrite (loop_occ_varint f data i num v set _ m Hn0 Hn16 Hv Ek Hat).
        apply IH; auto. { apply at_app in Hat. exact Hat. } cbn in Hf. lia.
      + rewrite (loop_occ_bytes f data i num b set _ m m1 Hn0 Hn16 Hfit Ek Eo Hat).
        apply IH; auto. { apply at_app in Hat. exact Hat. } cbn in Hf. lia.
  Qed.

  Corollary unmarshal_occs occs m m' :
    Forall occ_ok occs -> apply_occs m occs = Ok m' -> fits (enc_occs occs) ->
    unmarshal_from kind_of m (enc_occs occs) = Ok m'.
  Proof.
    intros Hok Happ Hfit. unfold unmarshal_from.
    apply (loop_occs occs); auto; [apply at_0|apply enc_occs_length].
  Qed.

  (* ---- invariants of the decoded value ---- *)
  Lemma msg_loop_inv (P : St -> Prop) :
    (forall num set m v, kind_of num = Some (KVarint set) -> v < two64 -> P m -> P (set m v)) ->
    (forall num set m s m', kind_of num = Some (KBytes set) -> P m -> set m s = Ok m' -> P m') ->
    forall f data i m m', P m -> msg_loop kind_of f data (clen data) i m = Ok m' -> P m'.
  Proof.
    intros HV HB. induction f as [|f IH]; intros data i m m' HP H.
    - unfold msg_loop in H. destruct (clen data <=? i); [|discriminate].
      destruct (clen data <? i); inversion H; subst; exact HP.
    - rewrite msg_loop_step in H. destruct (clen data <=? i).
      { destruct (clen data <? i); inversion H; subst; exact HP. }
      destruct (rd_varint data (clen data) i) as [[wire i1]|e|]; try discriminate. cbv zeta in H.
      destruct (wire mod 8 =? 4); [discriminate|].
      destruct ((wire / 8 mod two32 =? 0) || (two31 <=? wire / 8 mod two32)); [discriminate|].
      destruct (kind_of (wire / 8 mod two32)) as [[set|set]|] eqn:Ek.
      + destruct (negb (wire mod 8 =? 0)); [discriminate|].
        pose proof (rd_varint_safe data i1) as Hs. unfold rd_safe in Hs.
        destruct (rd_varint data (clen data) i1) as [[v i2]|e|]; try discriminate.
        apply (IH data i2 (set m v) m'); [|exact H]. apply (HV _ _ _ _ Ek); [tauto|exact HP].
      + destruct (negb (wire mod 8 =? 2)); [discriminate|].
        destruct (rd_bytes data (clen data) i1) as [[s i2]|e|]; try discriminate.
        destruct (set m s) as [m1|e|] eqn:Es; try discriminate.
        apply (IH data i2 m1 m'); [|exact H]. apply (HB _ _ _ _ _ Ek HP Es).
      + destruct (slice data i (clen data)) as [sub|]; [|discriminate].
        destruct (skip_esdt sub) as [skippy|e|]; try discriminate.
        destruct (two63 <=? skippy); [discriminate|]. destruct (two63 <=? i + skippy); [discriminate|].
        destruct (clen data <? i + skippy); [discriminate|].
        apply (IH data (i + skippy) m m'); [exact HP|exact H].
  Qed.

  (* ---- no panic: every index and slice is in range, the fuel suffices ---- *)
  Lemma msg_loop_no_panic :
    (forall num set m s, kind_of num = Some (KBytes set) -> set m s <> Panic) ->
    forall f data i m, clen data - i <= N.of_nat f -> msg_loop kind_of f data (clen data) i m <> Panic.
  Proof.
    intros HB. induction f as [|f IH]; intros data i m Hf.
    - unfold msg_loop. replace (clen data <=? i) with true by lia. destruct (clen data <? i); discriminate.
    - rewrite msg_loop_step. destruct (clen data <=? i) eqn:E0.
      { destruct (clen data <? i); discriminate. }
      pose proof (rd_varint_safe data i) as H. unfold rd_safe in H.
      destruct (rd_varint data (clen data) i) as [[wire i1]|e|]; [|discriminate|contradiction].
      destruct H as (H1 & H2 & _). cbv zeta.
      destruct (wire mod 8 =? 4); [discriminate|].
      destruct ((wire / 8 mod two32 =? 0) || (two31 <=? wire / 8 mod two32)); [discriminate|].
      destruct (kind_of (wire / 8 mod two32)) as [[set|set]|] eqn:Ek.
      + destruct (negb (wire mod 8 =? 0)); [discriminate|].
        pose proof (rd_varint_safe data i1) as Hs. unfold rd_safe in Hs.
        destruct (rd_varint data (clen data) i1) as [[v i2]|e|]; [|discriminate|contradiction].
        apply IH. lia.
      + destruct (negb (wire mod 8 =? 2)); [discriminate|].
        pose proof (rd_bytes_safe data i1) as Hs. unfold rdb_safe in Hs.
        destruct (rd_bytes data (clen data) i1) as [[s i2]|e|]; [|discriminate|contradiction].
        pose proof (HB _ _ m s Ek) as Hnp.
        destruct (set m s) as [m1|e|]; [|discriminate|congruence].
        apply IH. lia.
      + destruct (slice_some data i (clen data)) as (sub & Hsub & Hc); [lia|lia|].
        rewrite Hsub. pose proof (skip_esdt_safe sub) as Hs. unfold skip_safe in Hs.
        destruct (skip_esdt sub) as [skippy|e|]; [|discriminate|contradiction].
        destruct (two63 <=? skippy); [discriminate|]. destruct (two63 <=? i + skippy); [discriminate|].
        destruct (clen data <? i + skippy) eqn:E3; [discriminate|].
        apply IH. lia.
  Qed.

  Corollary unmarshal_no_panic :
    (forall num set m s, kind_of num = Some (KBytes set) -> set m s <> Panic) ->
    forall m data, unmarshal_from kind_of m data <> Panic.
  Proof. intros HB m data. unfold unmarshal_from. apply msg_loop_no_panic; [exact HB|unfold clen; lia]. Qed.

  Corollary unmarshal_inv (P : St -> Prop) :
    (forall num set m v, kind_of num = Some (KVarint set) -> v < two64 -> P m -> P (set m v)) ->
    (forall num set m s m', kind_of num = Some (KBytes set) -> P m -> set m s = Ok m' -> P m') ->
    forall m data m', P m -> unmarshal_from kind_of m data = Ok m' -> P m'.
  Proof. intros HV HB m data m' HP H. exact (msg_loop_inv P HV HB _ _ _ _ _ HP H). Qed.
End LoopProofs.
