(* data/esdt/esdt.pb.go, the ENCODE side at the level of Go's index and slice expressions.

   Codec/Proto.v models Marshal as the forward concatenation of the emitted fields.  The generated code does
   something else: it allocates Size() bytes and fills them BACKWARDS (`i := len(dAtA)`, last field first, for
   every field payload, then length varint, then tag byte, each at a decremented index).  This file transcribes
   that code line by line over a buffer model in which

     dAtA[i] = b            is [bset]        (index out of range                 -> None)
     copy(dAtA[i:], x)      is [bcopy]       (slice bounds out of range          -> None)
     dAtA[:j] / dAtA[i:]    are [slice_to] / [slice_from]                        (-> None)

   and None is lifted to [Panic].  `i`, `offset`, `iNdEx`, `size`, `n` are Go ints ([Z]: they may become
   negative, which is how a too small buffer shows up).  Codec/MarshalGoProofs.v proves that on a buffer of
   Size() bytes no index is ever out of range, the buffer is filled completely and its content is exactly the
   forward model's enc_* (so the forward model is the function the source computes, not merely tested equal).

   A buffer is the list of the bytes of a slice with len = cap.  Inside MarshalToSizedBuffer the capacity is
   only consulted by `dAtA[:i]` (nested MetaData call); there i <= len(dAtA) <= cap(dAtA) because i starts at
   len(dAtA) and is only decreased, so checking against len is checking against cap.  MarshalTo's
   `dAtA[:size]` IS bounded by the capacity: [marshal_to_*] takes the whole backing array of its argument
   (its length is cap(dAtA); len(dAtA) plays no role in the Go code).

   The tag bytes are looked up by field name in the table extracted from the source (gen/ProtoTags.v) through
   Format.tg_md / tg_tok / tg_rol, as Codec/Format.v does. *)
From Coq.Strings Require Import String.
From EV Require Import Base.Bytes Base.Monad Codec.Types Codec.Varint Codec.BigIntCaster Codec.Proto gen.ProtoTags
  Codec.Format.
Local Open Scope Z_scope.

(* ================= buffers ================= *)

Definition zlen (l : bytes) : Z := Z.of_nat (length l).                  (* len(x) as a Go int *)

(* dAtA[i] = b *)
Definition bset (d : bytes) (i : Z) (b : byte) : option bytes :=
  if (i <? 0) || (zlen d <=? i) then None
  else Some (firstn (Z.to_nat i) d ++ b :: skipn (S (Z.to_nat i)) d).

(* copy(dAtA[i:], x): the slice expression needs 0 <= i <= len(dAtA); min(len(dAtA) - i, len(x)) bytes move *)
Definition bcopy (d : bytes) (i : Z) (x : bytes) : option bytes :=
  if (i <? 0) || (zlen d <? i) then None
  else
    let k := Z.to_nat i in
    let n := Nat.min (length x) (length d - k) in
    Some (firstn k d ++ firstn n x ++ skipn (k + n) d).

(* dAtA[:j] *)
Definition slice_to (d : bytes) (j : Z) : option bytes :=
  if (j <? 0) || (zlen d <? j) then None else Some (firstn (Z.to_nat j) d).
(* dAtA[i:] *)
Definition slice_from (d : bytes) (i : Z) : option bytes :=
  if (i <? 0) || (zlen d <? i) then None else Some (skipn (Z.to_nat i) d).

(* ================= results ================= *)

Definition rbind {A B} (m : R A) (f : A -> R B) : R B :=
  match m with Ok a => f a | Err e => Err e | Panic => Panic end.
Definition orp {A} (o : option A) : R A := match o with Some a => Ok a | None => Panic end.

Notation "'LET' x ':=' m 'IN' k" := (rbind m (fun x => k))
  (at level 200, x name, m at level 200, k at level 200, only parsing).
Notation "'LET' ' p ':=' m 'IN' k" := (rbind m (fun x => match x with p => k end))
  (at level 200, p pattern, m at level 200, k at level 200, only parsing).

(* ================= encodeVarintEsdt =================
   func encodeVarintEsdt(dAtA []byte, offset int, v uint64) int {
       offset -= sovEsdt(v)
       base := offset
       for v >= 1<<7 { dAtA[offset] = uint8(v&0x7f | 0x80); v >>= 7; offset++ }
       dAtA[offset] = uint8(v)
       return base
   }
   The fuel (bit length of v) only makes the loop structurally recursive; running out of it is None like an
   out-of-range index, so the theorems also show that it is never exhausted. *)
Fixpoint encode_varint_loop (fuel : nat) (d : bytes) (offset : Z) (v : N) : option bytes :=
  if (v <? 128)%N then bset d offset (n2b v)                             (* dAtA[offset] = uint8(v) *)
  else
    match fuel with
    | O => None
    | S f =>
      match bset d offset (n2b (v mod 128 + 128)%N) with                 (* dAtA[offset] = uint8(v&0x7f | 0x80) *)
      | None => None
      | Some d' => encode_varint_loop f d' (offset + 1) (v / 128)%N       (* v >>= 7; offset++ *)
      end
    end.

Definition encode_varint_go (d : bytes) (offset : Z) (v : N) : R (bytes * Z) :=
  let offset := offset - Z.of_N (sov v) in
  let base := offset in
  LET d' := orp (encode_varint_loop (N.size_nat v) d offset v) IN
  Ok (d', base).

(* ================= the blocks the generator emits =================
   Every function below takes the buffer and the running index i and returns both. *)

(* i--; dAtA[i] = tag *)
Definition put_tag (tag : byte) (d : bytes) (i : Z) : R (bytes * Z) :=
  let i := i - 1 in
  LET d := orp (bset d i tag) IN
  Ok (d, i).

(* i -= len(x); copy(dAtA[i:], x); i = encodeVarintEsdt(dAtA, i, uint64(len(x))); i--; dAtA[i] = tag *)
Definition put_bytes_field (tag : byte) (x : bytes) (d : bytes) (i : Z) : R (bytes * Z) :=
  let i := i - zlen x in
  LET d := orp (bcopy d i x) IN
  LET '(d, i) := encode_varint_go d i (clen x) IN
  put_tag tag d i.

(* if len(m.X) > 0 { <bytes block> } *)
Definition opt_bytes_field (tag : byte) (x : bytes) (d : bytes) (i : Z) : R (bytes * Z) :=
  if 0 <? zlen x then put_bytes_field tag x d i else Ok (d, i).

(* if m.X != 0 { i = encodeVarintEsdt(dAtA, i, uint64(m.X)); i--; dAtA[i] = tag } *)
Definition opt_varint_field (tag : byte) (v : N) (d : bytes) (i : Z) : R (bytes * Z) :=
  if negb (v =? 0)%N then
    LET '(d, i) := encode_varint_go d i v IN
    put_tag tag d i
  else Ok (d, i).

(* if len(m.L) > 0 { for iNdEx := len(m.L) - 1; iNdEx >= 0; iNdEx-- { <bytes block for m.L[iNdEx]> } }
   m.L[iNdEx] is an index expression of its own ([nth_error], None -> Panic); the fuel is len(m.L). *)
Fixpoint put_rep_loop (fuel : nat) (tag : byte) (l : list bytes) (iNdEx : Z) (d : bytes) (i : Z) : R (bytes * Z) :=
  if iNdEx <? 0 then Ok (d, i)
  else
    match fuel with
    | O => Panic
    | S f =>
      LET x := orp (nth_error l (Z.to_nat iNdEx)) IN
      LET '(d, i) := put_bytes_field tag x d i IN
      put_rep_loop f tag l (iNdEx - 1) d i
    end.
Definition put_rep_field (tag : byte) (l : list bytes) (d : bytes) (i : Z) : R (bytes * Z) :=
  let n := Z.of_nat (length l) in
  if 0 <? n then put_rep_loop (length l) tag l (n - 1) d i else Ok (d, i).

(* ================= ESDTRoles =================
   func (m *ESDTRoles) MarshalToSizedBuffer(dAtA []byte) (int, error): returns (n, the buffer afterwards) *)
Definition tsb_roles (r : roles) (dAtA : bytes) : R (Z * bytes) :=
  let i := zlen dAtA in
  LET '(d, i) := put_rep_field (tg_rol "Roles") r dAtA i IN
  Ok (zlen dAtA - i, d).

(* ================= MetaData ================= *)
Definition tsb_metadata (m : metadata) (dAtA : bytes) : R (Z * bytes) :=
  let i := zlen dAtA in
  LET '(d, i) := opt_bytes_field (tg_md "Attributes") (md_attributes m) dAtA i IN
  LET '(d, i) := put_rep_field (tg_md "URIs") (md_uris m) d i IN
  LET '(d, i) := opt_bytes_field (tg_md "Hash") (md_hash m) d i IN
  LET '(d, i) := opt_varint_field (tg_md "Royalties") (md_royalties m) d i IN
  LET '(d, i) := opt_bytes_field (tg_md "Creator") (md_creator m) d i IN
  LET '(d, i) := opt_bytes_field (tg_md "Name") (md_name m) d i IN
  LET '(d, i) := opt_varint_field (tg_md "Nonce") (md_nonce m) d i IN
  Ok (zlen dAtA - i, d).                                                 (* return len(dAtA) - i, nil *)

(* ================= BigIntCaster.MarshalTo on a real buffer =================
   func (c *BigIntCaster) MarshalTo(a *big.Int, buf []byte) (int, error) {
       if a == nil { buf[0] = 0; return 1, nil }
       bytes := a.Bytes()
       if len(buf) <= len(bytes) { return 0, ErrInvalidValue }
       copy(buf[1:], bytes)
       if a.Sign() < 0 { buf[0] = 1 } else { buf[0] = 0 }
       bsize := len(bytes); if bsize > 0 { return bsize + 1, nil }; return 2, nil
   }
   For a == 0 it reports 2 bytes but writes only buf[0]: buf[1] keeps whatever the buffer held. *)
Definition caster_marshal_to_buf (a : option Z) (buf : bytes) : R (Z * bytes) :=
  match a with
  | None =>
    LET b := orp (bset buf 0 x00) IN
    Ok (1, b)
  | Some z =>
    let bs := magnitude z in
    if zlen buf <=? zlen bs then Err EBadValue
    else
      LET b := orp (bcopy buf 1 bs) IN
      LET b := orp (bset b 0 (if z <? 0 then x01 else x00)) IN
      let bsize := zlen bs in
      if 0 <? bsize then Ok (bsize + 1, b) else Ok (2, b)
  end.

(* ================= ESDigitalToken ================= *)

(* { __caster := &BigIntCaster{}; size := __caster.Size(m.Value); i -= size
     if _, err := __caster.MarshalTo(m.Value, dAtA[i:]); err != nil { return 0, err }
     i = encodeVarintEsdt(dAtA, i, uint64(size)) }
   i--; dAtA[i] = tag
   The callee writes into the shared backing array: the caller's buffer is dAtA[:i] followed by the callee's. *)
Definition put_value_field (tag : byte) (v : option Z) (d : bytes) (i : Z) : R (bytes * Z) :=
  let size := Z.of_N (caster_size v) in
  let i := i - size in
  LET buf := orp (slice_from d i) IN
  LET '(_, buf') := caster_marshal_to_buf v buf IN
  let d := firstn (Z.to_nat i) d ++ buf' in
  LET '(d, i) := encode_varint_go d i (Z.to_N size) IN                   (* size >= 0 *)
  put_tag tag d i.

(* { size, err := m.TokenMetaData.MarshalToSizedBuffer(dAtA[:i]); if err != nil { return 0, err }
     i -= size; i = encodeVarintEsdt(dAtA, i, uint64(size)) }
   i--; dAtA[i] = tag
   size is the callee's len(dAtA[:i]) - i', which is >= 0. *)
Definition put_metadata_field (tag : byte) (m : metadata) (d : bytes) (i : Z) : R (bytes * Z) :=
  LET sub := orp (slice_to d i) IN
  LET '(size, sub') := tsb_metadata m sub IN
  let d := sub' ++ skipn (Z.to_nat i) d in
  let i := i - size in
  LET '(d, i) := encode_varint_go d i (Z.to_N size) IN
  put_tag tag d i.

Definition tsb_token (t : token) (dAtA : bytes) : R (Z * bytes) :=
  let i := zlen dAtA in
  LET '(d, i) := opt_bytes_field (tg_tok "Reserved") (t_reserved t) dAtA i IN
  LET '(d, i) := match t_meta t with                                     (* if m.TokenMetaData != nil *)
                 | Some m => put_metadata_field (tg_tok "TokenMetaData") m d i
                 | None => Ok (d, i)
                 end IN
  LET '(d, i) := opt_bytes_field (tg_tok "Properties") (t_props t) d i IN
  LET '(d, i) := put_value_field (tg_tok "Value") (t_value t) d i IN      (* unconditional *)
  LET '(d, i) := opt_varint_field (tg_tok "Type") (t_type t) d i IN
  Ok (zlen dAtA - i, d).

(* ================= Marshal / MarshalTo =================
   func (m *X) Marshal() (dAtA []byte, err error) {
       size := m.Size()
       dAtA = make([]byte, size)
       n, err := m.MarshalToSizedBuffer(dAtA[:size])
       if err != nil { return nil, err }
       return dAtA[:n], nil
   }
   func (m *X) MarshalTo(dAtA []byte) (int, error) { size := m.Size(); return m.MarshalToSizedBuffer(dAtA[:size]) } *)
Section Generic.
  Context {X : Type}.
  Variable size_of : X -> N.                                             (* Size(), Codec/Proto.v *)
  Variable tsb : X -> bytes -> R (Z * bytes).

  Definition marshal_generic (m : X) : R bytes :=
    let size := Z.of_N (size_of m) in
    let dAtA := repeat x00 (Z.to_nat size) in                            (* make([]byte, size) *)
    LET sub := orp (slice_to dAtA size) IN
    LET '(n, d) := tsb m sub IN
    orp (slice_to d n).

  (* arr: the backing array of the argument from its first element (length = cap).  Result: n and the array
     afterwards. *)
  Definition marshal_to_generic (m : X) (arr : bytes) : R (Z * bytes) :=
    let size := Z.of_N (size_of m) in
    LET sub := orp (slice_to arr size) IN
    LET '(n, sub') := tsb m sub IN
    Ok (n, sub' ++ skipn (Z.to_nat size) arr).
End Generic.

Definition marshal_go_roles : roles -> R bytes := marshal_generic size_roles tsb_roles.
Definition marshal_go_metadata : metadata -> R bytes := marshal_generic size_metadata tsb_metadata.
Definition marshal_go_token : token -> R bytes := marshal_generic size_token tsb_token.
Definition marshal_to_roles : roles -> bytes -> R (Z * bytes) := marshal_to_generic size_roles tsb_roles.
Definition marshal_to_metadata : metadata -> bytes -> R (Z * bytes) := marshal_to_generic size_metadata tsb_metadata.
Definition marshal_to_token : token -> bytes -> R (Z * bytes) := marshal_to_generic size_token tsb_token.
