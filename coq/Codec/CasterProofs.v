(* Proofs about Codec/BigIntCaster.v: round trip (nil, 0, positive, negative, arbitrarily large),
   Size = length of the marshalled bytes, documented byte format. *)
From EV Require Import Base.Bytes Codec.Varint Codec.BigIntCaster Codec.VarintProofs.
Local Open Scope N_scope.

Lemma be_to_N_single b : be_to_N [b] = b2n b.
Proof. unfold be_to_N. cbn [fold_left]. lia. Qed.

Lemma magnitude_value z : be_to_N (magnitude z) = Z.abs_N z.
Proof. apply be_to_N_to_be. Qed.

Lemma magnitude_nil z : magnitude z = [] -> z = 0%Z.
Proof. intros H. pose proof (magnitude_value z) as E. rewrite H in E. cbn in E. lia. Qed.

Theorem caster_roundtrip : forall v, caster_unmarshal (caster_marshal v) = Some v.
Proof.
  intros [z|]; [|reflexivity]. unfold caster_marshal.
  pose proof (magnitude_value z) as Hv.
  destruct (magnitude z) as [|b m'] eqn:Em.
  - apply magnitude_nil in Em. subst z. reflexivity.
  - cbv zeta. unfold caster_unmarshal.
    assert (Hz : match b :: m' with [b1] => b2n b1 =? 0 | _ => false end = false).
    { destruct m' as [|c m'']; [|reflexivity]. rewrite be_to_N_single in Hv.
      destruct (b2n b =? 0) eqn:E0; [|reflexivity]. exfalso.
      assert (Z.abs_N z = 0) by lia. assert (z = 0%Z) by lia. subst z. discriminate Em. }
    rewrite Hz. rewrite Hv.
    destruct (z <? 0)%Z eqn:Es.
    + change (b2n x01) with 1. cbn [N.eqb Pos.eqb]. f_equal. f_equal. lia.
    + change (b2n x00) with 0. cbn [N.eqb]. f_equal. f_equal. lia.
Qed.

Theorem caster_size_eq : forall v, caster_size v = clen (caster_marshal v).
Proof.
  intros [z|]; [|reflexivity]. unfold caster_size, caster_marshal. cbv zeta.
  destruct (magnitude z) as [|b m']; [reflexivity|].
  rewrite !clen_cons. replace (0 <? 1 + clen m') with true by lia. lia.
Qed.

(* minimal magnitude: no leading zero byte *)
Lemma le_digits_last : forall fuel n, n < 2 ^ N.of_nat fuel -> n <> 0 ->
  exists r b, le_digits fuel n = r ++ [b] /\ b <> x00.
Proof.
  induction fuel as [|f IH]; intros n Hn H0.
  - change (2 ^ N.of_nat 0) with 1 in Hn. lia.
  - cbn [le_digits]. replace (n =? 0) with false by lia.
    destruct (N.eq_dec (n / 256) 0) as [Hq|Hq].
    + exists [], (n2b (n mod 256)). split.
      * rewrite Hq. destruct f; reflexivity.
      * intros E. assert (Hb : b2n (n2b (n mod 256)) = 0) by (rewrite E; reflexivity).
        rewrite b2n_n2b in Hb by (apply N.mod_upper_bound; lia).
        pose proof (N.div_mod n 256). lia.
    + destruct (IH (n / 256)) as (r & b & E & Hb).
      * rewrite Nnat.Nat2N.inj_succ, N.pow_succ_r' in Hn. apply N.div_lt_upper_bound; [lia|].
        assert (2 ^ N.of_nat f <= 128 * 2 ^ N.of_nat f) by nia. nia.
      * exact Hq.
      * exists (n2b (n mod 256) :: r), b. split; [rewrite E; reflexivity|exact Hb].
Qed.

Lemma N_to_be_minimal n : n <> 0 -> exists b r, N_to_be n = b :: r /\ b <> x00.
Proof.
  intros H0. unfold N_to_be.
  destruct (le_digits_last (N.size_nat n) n (size_nat_bound n) H0) as (r & b & E & Hb).
  rewrite E, rev_app_distr. cbn [rev app]. eauto.
Qed.

(* documented format: nil -> 00; 0 -> 00 00; otherwise sign byte (00 / 01) followed by the minimal
   big-endian magnitude (value recoverable with SetBytes, first magnitude byte non-zero) *)
Theorem caster_format :
  caster_marshal None = [x00] /\
  caster_marshal (Some 0%Z) = [x00; x00] /\
  forall z, z <> 0%Z ->
    caster_marshal (Some z) = (if (z <? 0)%Z then x01 else x00) :: N_to_be (Z.abs_N z)
    /\ be_to_N (N_to_be (Z.abs_N z)) = Z.abs_N z
    /\ exists b r, N_to_be (Z.abs_N z) = b :: r /\ b <> x00.
Proof.
  split; [reflexivity|]. split; [reflexivity|]. intros z Hz.
  destruct (N_to_be_minimal (Z.abs_N z)) as (b & r & E & Hb); [lia|].
  split; [|split].
  - unfold caster_marshal, magnitude. cbv zeta. rewrite E. reflexivity.
  - apply be_to_N_to_be.
  - eauto.
Qed.

Lemma caster_marshal_nonempty v : caster_marshal v <> [].
Proof.
  destruct v as [z|]; [|discriminate]. unfold caster_marshal. cbv zeta. destruct (magnitude z); discriminate.
Qed.

(* what the decoder accepts: every accepted buffer of length >= 2 is sign byte 0/1 or the 2-byte zero form *)
Lemma caster_unmarshal_error_iff buf :
  caster_unmarshal buf = None <->
  buf = [] \/ exists s b r, buf = s :: b :: r /\ ~ (r = [] /\ b2n b = 0) /\ b2n s <> 0 /\ b2n s <> 1.
Proof.
  split.
  - destruct buf as [|s [|b r]]; [auto|discriminate|]. intros H. right. exists s, b, r.
    split; [reflexivity|]. unfold caster_unmarshal in H.
    destruct r as [|c r'].
    + destruct (b2n b =? 0) eqn:E0; [discriminate|].
      destruct (b2n s =? 0) eqn:E1; [discriminate|]. destruct (b2n s =? 1) eqn:E2; [discriminate|].
      split; [intros [_ ?]; lia|split; lia].
    + destruct (b2n s =? 0) eqn:E1; [discriminate|]. destruct (b2n s =? 1) eqn:E2; [discriminate|].
      split; [intros [? _]; discriminate|split; lia].
  - intros [->|(s & b & r & -> & Hn & H0 & H1)]; [reflexivity|]. unfold caster_unmarshal.
    destruct r as [|c r'].
    + destruct (b2n b =? 0) eqn:E0; [exfalso; apply Hn; split; [reflexivity|lia]|].
      replace (b2n s =? 0) with false by lia. replace (b2n s =? 1) with false by lia. reflexivity.
    + replace (b2n s =? 0) with false by lia. replace (b2n s =? 1) with false by lia. reflexivity.
Qed.
