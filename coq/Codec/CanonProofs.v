(* Consequences of the round trips: the encoding is canonical (injective; re-encoding a decoded encoding gives
   the same bytes), and the size hypothesis [fits] of the round-trip theorems is necessary for the exact
   decoder model (a role longer than any Go slice does not round-trip). *)
From EV Require Import Base.Bytes Base.Monad Codec.Types Codec.Varint Codec.BigIntCaster Codec.Proto
  Codec.VarintProofs Codec.CasterProofs Codec.LoopProofs Codec.CodecProofs.
Local Open Scope N_scope.

Local Arguments N.pow : simpl never.
Local Arguments N.div : simpl never.
Local Arguments N.modulo : simpl never.
Local Arguments N.mul : simpl never.
Local Arguments N.add : simpl never.
Local Arguments N.leb : simpl never.
Local Arguments N.ltb : simpl never.
Local Arguments rd_varint : simpl never.
Local Arguments msg_loop : simpl never.
Local Arguments enc_varint : simpl never.

(* ---- canonical ---- *)
Theorem caster_marshal_injective : forall a b, caster_marshal a = caster_marshal b -> a = b.
Proof.
  intros a b H. pose proof (caster_roundtrip a) as Ha. rewrite H, caster_roundtrip in Ha. congruence.
Qed.

Theorem enc_token_injective : forall t1 t2,
  wf_token t1 -> wf_token t2 -> fits (enc_token t1) -> enc_token t1 = enc_token t2 -> t1 = t2.
Proof.
  intros t1 t2 H1 H2 Hf He.
  pose proof (dec_enc_token_partial t1 H1 Hf) as D1.
  rewrite He in Hf, D1. rewrite (dec_enc_token_partial t2 H2 Hf) in D1. congruence.
Qed.
Theorem enc_metadata_injective : forall m1 m2,
  wf_metadata m1 -> wf_metadata m2 -> fits (enc_metadata m1) -> enc_metadata m1 = enc_metadata m2 -> m1 = m2.
Proof.
  intros m1 m2 H1 H2 Hf He.
  pose proof (dec_enc_metadata_partial m1 H1 Hf) as D1.
  rewrite He in Hf, D1. rewrite (dec_enc_metadata_partial m2 H2 Hf) in D1. congruence.
Qed.
Theorem enc_roles_injective : forall r1 r2, fits (enc_roles r1) -> enc_roles r1 = enc_roles r2 -> r1 = r2.
Proof.
  intros r1 r2 Hf He.
  pose proof (dec_enc_roles_partial r1 Hf) as D1.
  rewrite He in Hf, D1. rewrite (dec_enc_roles_partial r2 Hf) in D1. congruence.
Qed.

(* decode / encode cycle: the bytes are reproduced *)
Theorem token_reencode_stable : forall t t',
  wf_token t -> fits (enc_token t) -> dec_token (enc_token t) = Some t' -> enc_token t' = enc_token t.
Proof. intros t t' Hw Hf H. rewrite (dec_enc_token_partial t Hw Hf) in H. congruence. Qed.

(* whatever decodes, re-encodes to a canonical form that decodes to the same value *)
Theorem token_canonical_form : forall b t,
  dec_token b = Some t -> fits (enc_token t) -> dec_token (enc_token t) = Some t.
Proof. intros b t H Hf. apply dec_enc_token_partial; [exact (dec_token_wf b t H)|exact Hf]. Qed.
Theorem metadata_canonical_form : forall b m,
  dec_metadata b = Some m -> fits (enc_metadata m) -> dec_metadata (enc_metadata m) = Some m.
Proof. intros b m H Hf. apply dec_enc_metadata_partial; [exact (dec_metadata_wf b m H)|exact Hf]. Qed.

(* ---- [fits] is necessary ---- *)
Lemma roles_too_long_rejected b : clen b = two63 -> dec_roles_res (enc_roles [b]) = Err EInvalidLength.
Proof.
  intros Hb. unfold enc_roles, roles_occs, occ_rep. cbn [map]. unfold enc_occs. cbn [map concat].
  rewrite app_nil_r. unfold enc_occ. cbn [fst snd wire_type].
  set (data := tag_byte 1 2 :: enc_varint (clen b) ++ b).
  assert (Hat0 : at_ data 0 (tag_byte 1 2 :: enc_varint (clen b) ++ b ++ [])).
  { rewrite app_nil_r. apply at_0. }
  pose proof (at_clen _ _ _ Hat0) as Hl. rewrite clen_cons in Hl.
  unfold dec_roles_res, unmarshal_roles, unmarshal_from.
  assert (Hlen : length data = S (length (enc_varint (clen b) ++ b))) by reflexivity.
  rewrite Hlen. rewrite msg_loop_step. replace (clen data <=? 0) with false by lia.
  rewrite (rd_tag roles_kind data 0 1 2 _ ltac:(lia) ltac:(lia) Hat0). cbv zeta.
  destruct (tag_decompose roles_kind 1 2 ltac:(lia) ltac:(lia)) as [E1 E2]. rewrite E1, E2.
  change (2 =? 4) with false. cbv iota.
  change ((1 =? 0) || (two31 <=? 1)) with false. cbv iota.
  rewrite roles_kind_1. change (negb (2 =? 2)) with false. cbv iota.
  apply at_cons in Hat0. unfold rd_bytes, rd_len.
  rewrite (rd_varint_enc (clen b) data (0 + 1) (b ++ [])); [|rewrite Hb, pow64; unfold two63; lia|exact Hat0].
  rewrite Hb. change (two63 <=? two63) with true. reflexivity.
Qed.

Lemma roles_too_long (b : bytes) : clen b = two63 -> ~ fits (enc_roles [b]) /\ dec_roles (enc_roles [b]) = None.
Proof.
  intros Hb. split.
  - unfold fits, enc_roles, roles_occs, occ_rep. cbn [map]. unfold enc_occs. cbn [map concat].
    rewrite app_nil_r. unfold enc_occ. cbn [fst snd]. rewrite clen_cons, clen_app, Hb. lia.
  - unfold dec_roles. rewrite (roles_too_long_rejected b Hb). reflexivity.
Qed.

Theorem roles_roundtrip_needs_fits : exists r, ~ fits (enc_roles r) /\ dec_roles (enc_roles r) = None.
Proof.
  assert (Hb : clen (repeat x00 (N.to_nat two63)) = two63).
  { unfold clen. rewrite repeat_length, Nnat.N2Nat.id. reflexivity. }
  eexists. exact (roles_too_long _ Hb).
Qed.
