(* How the concrete protobuf codec model relates to the abstract [codec_ok] that the ledger proofs assume.

   - [proto_codec] (= Corr/Exec.v's [the_codec]: the exact model of Go's Marshal / Reset+Unmarshal) satisfies
     every field of [codec_ok] when the two round-trip fields are restricted to encodings that can exist in a
     Go program ([fits]: length < 2^63): [the_codec_ok_sized].
   - It does NOT satisfy [codec_ok] as stated (no size bound): [proto_codec_not_ok].
   - [ideal_codec] has the same encoder, a decoder that EQUALS the exact one on every byte string of Go
     length ([ideal_agrees]) and satisfies [codec_ok] in full ([ideal_codec_ok]). *)
From EV Require Import Base.Bytes Base.Monad Codec.Types Codec.Varint Codec.BigIntCaster Codec.Proto
  Codec.VarintProofs Codec.CasterProofs Codec.LoopProofs Codec.CodecProofs Codec.CanonProofs Codec.Ideal
  Ledger.Types.
Local Open Scope N_scope.

Local Arguments N.pow : simpl never.
Local Arguments N.div : simpl never.
Local Arguments N.modulo : simpl never.
Local Arguments N.mul : simpl never.
Local Arguments N.add : simpl never.
Local Arguments N.leb : simpl never.
Local Arguments N.ltb : simpl never.
Local Arguments enc_varint : simpl never.
Local Arguments caster_marshal : simpl never.
Local Arguments caster_unmarshal : simpl never.
Local Arguments rd_uvarint : simpl never.

Definition proto_codec : codec :=
  {| enc_tok := enc_token; dec_tok := dec_token; enc_rol := enc_roles; dec_rol := dec_roles |}.

Record codec_ok_sized (c : codec) : Prop := {
  s_dec_enc_tok : forall t, wf_token t -> fits (enc_tok c t) -> dec_tok c (enc_tok c t) = Some t;
  s_enc_tok_nonempty : forall t, enc_tok c t <> [];
  s_dec_tok_wf : forall b t, dec_tok c b = Some t -> wf_token t;
  s_dec_enc_rol : forall r, fits (enc_rol c r) -> dec_rol c (enc_rol c r) = Some r;
  s_enc_rol_nil : enc_rol c [] = [];
  s_enc_rol_nonempty : forall r, r <> [] -> enc_rol c r <> [] }.

Theorem the_codec_ok_sized : codec_ok_sized proto_codec.
Proof.
  constructor; cbn [enc_tok dec_tok enc_rol dec_rol proto_codec].
  - exact dec_enc_token_partial.
  - exact enc_token_nonempty.
  - exact dec_token_wf.
  - exact dec_enc_roles_partial.
  - exact enc_roles_nil.
  - exact enc_roles_nonempty.
Qed.

Theorem proto_codec_not_ok : ~ codec_ok proto_codec.
Proof.
  intros H. destruct roles_roundtrip_needs_fits as (r & _ & Hr).
  pose proof (dec_enc_rol _ H r) as E. cbn [enc_rol dec_rol proto_codec] in E. congruence.
Qed.

(* a codec_ok codec is also codec_ok_sized *)
Theorem codec_ok_sized_of_ok c : codec_ok c -> codec_ok_sized c.
Proof.
  intros H. constructor.
  - intros t Hw _. exact (dec_enc_tok _ H t Hw).
  - exact (enc_tok_nonempty _ H).
  - exact (dec_tok_wf _ H).
  - intros r _. exact (dec_enc_rol _ H r).
  - exact (enc_rol_nil _ H).
  - exact (enc_rol_nonempty _ H).
Qed.

(* ================= the unbounded parser inverts the encoder ================= *)
Lemma rdv_enc : forall f n shift acc rest fuel,
  n < 128 ^ N.of_nat (S f) -> (length (enc_varint_f f n) <= fuel)%nat ->
  rdv fuel (enc_varint_f f n ++ rest) shift acc = Some (acc + n * 2 ^ shift, rest).
Proof.
  induction f as [|f IH]; intros n shift acc rest fuel Hn Hf.
  - change (128 ^ N.of_nat 1) with 128 in Hn. cbn [enc_varint_f] in *. cbn [length] in Hf.
    destruct fuel as [|fuel]; [lia|]. cbn [app rdv].
    rewrite (N.mod_small n 128) by lia. rewrite b2n_n2b by lia.
    replace (n <? 128) with true by lia. rewrite (N.mod_small n 128) by lia. reflexivity.
  - rewrite enc_varint_f_step in *. destruct (n <? 128) eqn:E.
    + cbn [length] in Hf. destruct fuel as [|fuel]; [lia|]. cbn [app rdv].
      rewrite b2n_n2b by lia. rewrite E. rewrite (N.mod_small n 128) by lia. reflexivity.
    + cbn [length] in Hf. destruct fuel as [|fuel]; [lia|]. cbn [app rdv].
      assert (Hm : n mod 128 < 128) by (apply N.mod_upper_bound; lia).
      rewrite b2n_n2b by lia. replace (n mod 128 + 128 <? 128) with false by lia.
      rewrite (IH (n / 128)).
      * f_equal. f_equal.
        replace ((n mod 128 + 128) mod 128) with (n mod 128) by lia.
        rewrite N.pow_add_r. change (2 ^ 7) with 128.
        pose proof (N.div_mod n 128 ltac:(lia)) as Hd. nia.
      * rewrite (Nnat.Nat2N.inj_succ (S f)), N.pow_succ_r' in Hn. apply N.div_lt_upper_bound; lia.
      * lia.
Qed.

Lemma rd_uvarint_enc n rest : rd_uvarint (enc_varint n ++ rest) = Some (n, rest).
Proof.
  unfold rd_uvarint, enc_varint. rewrite (rdv_enc (N.size_nat n) n 0 0 rest).
  - f_equal. f_equal. rewrite N.pow_0_r. lia.
  - apply size_nat_pow128.
  - rewrite app_length. lia.
Qed.

Definition occ_ok1 (o : occ) : Prop :=
  fst o < 16 /\ match snd o with FVarint v => v < two64 | FBytes _ => True end.

Lemma parse_occs_enc : forall occs fuel,
  Forall occ_ok1 occs -> (length (enc_occs occs) <= fuel)%nat -> parse_occs fuel (enc_occs occs) = Some occs.
Proof.
  induction occs as [|o occs IH]; intros fuel Hok Hf.
  - destruct fuel; reflexivity.
  - inversion Hok as [|? ? Ho Hok']; subst. rewrite enc_occs_cons in *.
    destruct o as [num fv]. destruct Ho as [Hn Hv]. cbn [fst snd] in Hn, Hv.
    unfold enc_occ in *. cbn [fst snd] in *. rewrite <- app_comm_cons in *. cbn [length] in Hf.
    destruct fuel as [|fuel]; [lia|]. cbn [parse_occs]. cbv zeta.
    assert (Hw : wire_type fv < 8) by (destruct fv; cbn; lia).
    unfold tag_byte. rewrite b2n_n2b by lia.
    replace (128 <=? num * 8 + wire_type fv) with false by lia.
    replace ((num * 8 + wire_type fv) / 8) with num by lia.
    replace ((num * 8 + wire_type fv) mod 8) with (wire_type fv) by lia.
    rewrite app_length in Hf.
    destruct fv as [v|b]; cbn [wire_type].
    + rewrite rd_uvarint_enc. change (0 =? 0) with true. cbv iota.
      replace (two64 <=? v) with false by lia.
      rewrite IH; [reflexivity|exact Hok'|lia].
    + rewrite <- app_assoc. rewrite rd_uvarint_enc. change (2 =? 0) with false. change (2 =? 2) with true. cbv iota.
      rewrite clen_app. replace (clen b + clen (enc_occs occs) <? clen b) with false by lia.
      unfold clen at 1 2. rewrite Nnat.Nat2N.id. rewrite skipn_app_len, firstn_app_len.
      rewrite IH; [reflexivity|exact Hok'|]. rewrite app_length in Hf. lia.
Qed.

Lemma parse_enc occs : Forall occ_ok1 occs -> parse (enc_occs occs) = Some occs.
Proof. intros H. unfold parse. apply parse_occs_enc; [exact H|lia]. Qed.

Lemma occ_ok_ok1 o : occ_ok o -> occ_ok1 o.
Proof.
  unfold occ_ok, occ_ok1. intros (_ & H2 & H3). split; [exact H2|].
  destruct (snd o); [rewrite pow64 in H3; unfold two64; lia|exact I].
Qed.
Lemma Forall_ok_ok1 l : Forall occ_ok l -> Forall occ_ok1 l.
Proof. intros H. eapply Forall_impl; [|exact H]. exact occ_ok_ok1. Qed.

(* ---- MetaData, roles, token ---- *)
Theorem dec_enc_metadata_u : forall m, wf_metadata m -> dec_metadata_u (enc_metadata m) = Some m.
Proof.
  intros m Hwf. unfold dec_metadata_u, enc_metadata.
  rewrite parse_enc by (apply Forall_ok_ok1, metadata_occs_ok; exact Hwf).
  rewrite (apply_metadata m Hwf).
  assert (Hb : wf_metadata_b m = true).
  { unfold wf_metadata_b. destruct Hwf as [H1 H2]. apply andb_true_intro. split; apply N.ltb_lt; assumption. }
  rewrite Hb. reflexivity.
Qed.

Theorem dec_enc_roles_u : forall r, dec_roles_u (enc_roles r) = Some r.
Proof.
  intros r. unfold dec_roles_u, enc_roles.
  rewrite parse_enc by (apply Forall_ok_ok1, occ_ok_rep; lia).
  rewrite apply_roles. reflexivity.
Qed.

Lemma token_kind_u_1 : token_kind_u 1 = Some (KVarint (fun m v => tk_set_type m (v mod two32))). Proof. reflexivity. Qed.
Lemma token_kind_u_2 : token_kind_u 2 = Some (KBytes token_set_value). Proof. reflexivity. Qed.
Lemma token_kind_u_3 : token_kind_u 3 = Some (KBytes (fun m s => Ok (set_props m s))). Proof. reflexivity. Qed.
Definition token_set_meta_u (m : token) (s : bytes) : R token :=
  match dec_metadata_u s with Some md => Ok (set_meta m (Some md)) | None => Err EBadValue end.
Lemma token_kind_u_4 : token_kind_u 4 = Some (KBytes token_set_meta_u). Proof. reflexivity. Qed.
Lemma token_kind_u_5 : token_kind_u 5 = Some (KBytes (fun m s => Ok (tk_set_reserved m s))). Proof. reflexivity. Qed.

Lemma apply_token_u t : wf_token t -> apply_occs token_kind_u empty_token (token_occs t) = Ok t.
Proof.
  intros Hwf.
  assert (Hmeta : forall m, t_meta t = Some m -> dec_metadata_u (enc_metadata m) = Some m).
  { intros m Hm. apply dec_enc_metadata_u. destruct Hwf as [_ Hw]. rewrite Hm in Hw. exact Hw. }
  destruct t as [ty val props meta res]. destruct Hwf as [Hty _]. cbn in Hty, Hmeta.
  unfold two32 in Hty. unfold token_occs, empty_token. cbn [t_type t_value t_props t_meta t_reserved].
  rewrite (apply_piece_varint token_kind_u 1 ty _ _ _ token_kind_u_1) by (intros ->; reflexivity).
  cbn [app]. rewrite (apply_piece_one token_kind_u 2 _ _ _ _ token_kind_u_2).
  unfold token_set_value at 1. rewrite caster_roundtrip.
  rewrite (apply_piece_bytes token_kind_u 3 props _ _ _ token_kind_u_3) by (intros ->; reflexivity).
  destruct meta as [m|].
  - cbn [app]. rewrite (apply_piece_one token_kind_u 4 _ _ _ _ token_kind_u_4).
    unfold token_set_meta_u at 1. rewrite (Hmeta m eq_refl).
    rewrite <- (app_nil_r (occ_bytes 5 res)).
    rewrite (apply_piece_bytes token_kind_u 5 res _ _ _ token_kind_u_5) by (intros ->; reflexivity).
    cbn. unfold tk_set_reserved, set_meta. cbn. rewrite (N.mod_small ty) by (unfold two32; lia). reflexivity.
  - cbn [app]. rewrite <- (app_nil_r (occ_bytes 5 res)).
    rewrite (apply_piece_bytes token_kind_u 5 res _ _ _ token_kind_u_5) by (intros ->; reflexivity).
    cbn. unfold tk_set_reserved. cbn. rewrite (N.mod_small ty) by (unfold two32; lia). reflexivity.
Qed.

Theorem dec_enc_token_u : forall t, wf_token t -> dec_token_u (enc_token t) = Some t.
Proof.
  intros t Hwf. unfold dec_token_u, enc_token.
  rewrite parse_enc by (apply Forall_ok_ok1, token_occs_ok; exact Hwf).
  rewrite (apply_token_u t Hwf).
  replace (wf_token_b t) with true by (symmetry; apply wf_token_b_true; exact Hwf). reflexivity.
Qed.

Lemma dec_token_u_wf b t : dec_token_u b = Some t -> wf_token t.
Proof.
  unfold dec_token_u. destruct (parse b) as [occs|]; [|discriminate].
  destruct (apply_occs token_kind_u empty_token occs) as [t'|e|]; try discriminate.
  destruct (wf_token_b t') eqn:E; [|discriminate]. intros H. inversion H; subst.
  apply wf_token_b_true. exact E.
Qed.

(* ================= the ideal codec ================= *)
Definition ideal_codec : codec :=
  {| enc_tok := enc_token; dec_tok := dec_token_ideal; enc_rol := enc_roles; dec_rol := dec_roles_ideal |}.

Lemma fits_b_true b : fits_b b = true <-> fits b.
Proof. unfold fits_b, fits. apply N.ltb_lt. Qed.

(* same encoder; same decoder on every byte string that fits a Go slice *)
Theorem ideal_agrees :
  enc_tok ideal_codec = enc_tok proto_codec /\ enc_rol ideal_codec = enc_rol proto_codec
  /\ (forall b, fits b -> dec_tok ideal_codec b = dec_tok proto_codec b)
  /\ (forall b, fits b -> dec_rol ideal_codec b = dec_rol proto_codec b).
Proof.
  repeat split; intros b Hf; cbn [dec_tok dec_rol ideal_codec proto_codec];
    unfold dec_token_ideal, dec_roles_ideal; apply fits_b_true in Hf; rewrite Hf; reflexivity.
Qed.

Theorem dec_metadata_ideal_agrees : forall b, fits b -> dec_metadata_ideal b = dec_metadata b.
Proof. intros b Hf. unfold dec_metadata_ideal. apply fits_b_true in Hf. rewrite Hf. reflexivity. Qed.

Theorem ideal_codec_ok : codec_ok ideal_codec.
Proof.
  constructor; cbn [enc_tok dec_tok enc_rol dec_rol ideal_codec].
  - intros t Hwf. unfold dec_token_ideal. destruct (fits_b (enc_token t)) eqn:E.
    + apply dec_enc_token_partial; [exact Hwf|apply fits_b_true; exact E].
    + apply dec_enc_token_u. exact Hwf.
  - exact enc_token_nonempty.
  - intros b t. unfold dec_token_ideal. destruct (fits_b b); [apply dec_token_wf|apply dec_token_u_wf].
  - intros r. unfold dec_roles_ideal. destruct (fits_b (enc_roles r)) eqn:E.
    + apply dec_enc_roles_partial. apply fits_b_true. exact E.
    + apply dec_enc_roles_u.
  - exact enc_roles_nil.
  - exact enc_roles_nonempty.
Qed.

(* unconditional round trips for the ideal decoders, as the property text states them *)
Theorem dec_enc_metadata_ideal : forall m, wf_metadata m -> dec_metadata_ideal (enc_metadata m) = Some m.
Proof.
  intros m Hwf. unfold dec_metadata_ideal. destruct (fits_b (enc_metadata m)) eqn:E.
  - apply dec_enc_metadata_partial; [exact Hwf|apply fits_b_true; exact E].
  - apply dec_enc_metadata_u. exact Hwf.
Qed.
