(* Decoding never panics: for EVERY byte string (no size hypothesis) the model decoders of Codec/Proto.v
   return a value or an error; every index / slice expression is in range and the fuel suffices.
   Also: the index-level transcription of BigIntCaster.Unmarshal (Codec/CasterGo.v) equals the
   pattern-matching one of Codec/BigIntCaster.v on every buffer, so it never panics either. *)
From EV Require Import Base.Bytes Base.Monad Codec.Types Codec.Varint Codec.BigIntCaster Codec.Proto
  Codec.CasterGo Codec.VarintProofs Codec.CasterProofs Codec.LoopProofs.
Local Open Scope N_scope.

Local Arguments N.add : simpl never.
Local Arguments N.sub : simpl never.
Local Arguments N.leb : simpl never.
Local Arguments N.ltb : simpl never.
Local Arguments caster_unmarshal : simpl never.
Local Arguments msg_loop : simpl never.

(* ---- messages ---- *)
Lemma metadata_setters_no_panic : forall num set (m : metadata) s,
  metadata_kind num = Some (KBytes set) -> set m s <> Panic.
Proof.
  intros num set m s Hk. unfold metadata_kind in Hk.
  repeat match type of Hk with (if ?c then _ else _) = _ => destruct c end; inversion Hk; subst; discriminate.
Qed.

Theorem unmarshal_metadata_no_panic : forall m0 b, unmarshal_metadata m0 b <> Panic.
Proof. intros m0 b. unfold unmarshal_metadata. apply unmarshal_no_panic. exact metadata_setters_no_panic. Qed.

Lemma roles_setters_no_panic : forall num set (m : roles) s,
  roles_kind num = Some (KBytes set) -> set m s <> Panic.
Proof.
  intros num set m s Hk. unfold roles_kind in Hk.
  destruct (num =? 1); inversion Hk; subst; discriminate.
Qed.

Theorem unmarshal_roles_no_panic : forall r0 b, unmarshal_roles r0 b <> Panic.
Proof. intros r0 b. unfold unmarshal_roles. apply unmarshal_no_panic. exact roles_setters_no_panic. Qed.

Lemma token_setters_no_panic : forall num set (m : token) s,
  token_kind num = Some (KBytes set) -> set m s <> Panic.
Proof.
  intros num set m s Hk. unfold token_kind in Hk.
  repeat match type of Hk with (if ?c then _ else _) = _ => destruct c end; inversion Hk; subst; clear Hk;
    try discriminate.
  - destruct (caster_unmarshal s); discriminate.
  - cbv zeta.
    pose proof (unmarshal_metadata_no_panic (match t_meta m with Some x => x | None => empty_metadata end) s) as Hn.
    destruct (unmarshal_metadata (match t_meta m with Some x => x | None => empty_metadata end) s);
      [discriminate|discriminate|congruence].
Qed.

Theorem unmarshal_token_no_panic : forall t0 b, unmarshal_token t0 b <> Panic.
Proof. intros t0 b. unfold unmarshal_token. apply unmarshal_no_panic. exact token_setters_no_panic. Qed.

(* the production adapter (Reset + Unmarshal), on any byte string *)
Theorem dec_token_no_panic : forall b, dec_token_res b <> Panic.
Proof. intros b. apply unmarshal_token_no_panic. Qed.
Theorem dec_metadata_no_panic : forall b, dec_metadata_res b <> Panic.
Proof. intros b. apply unmarshal_metadata_no_panic. Qed.
Theorem dec_roles_no_panic : forall b, dec_roles_res b <> Panic.
Proof. intros b. apply unmarshal_roles_no_panic. Qed.

(* value or error, nothing else *)
Corollary dec_token_value_or_error : forall b, (exists t, dec_token_res b = Ok t) \/ (exists e, dec_token_res b = Err e).
Proof.
  intros b. pose proof (dec_token_no_panic b) as H. destruct (dec_token_res b) as [t|e|]; [left|right|congruence]; eauto.
Qed.

(* skipEsdt on its own *)
Theorem skip_esdt_no_panic : forall b, skip_esdt b <> Panic.
Proof. intros b. pose proof (skip_esdt_safe b) as H. unfold skip_safe in H. destruct (skip_esdt b); auto; discriminate. Qed.

(* ---- amount codec ---- *)
Definition caster_outcome (r : option (option Z)) : R (option Z) :=
  match r with Some v => Ok v | None => Err EBadValue end.

Lemma firstn_length_all {A} (l : list A) : firstn (length l) l = l.
Proof. apply firstn_all. Qed.

Theorem caster_unmarshal_go_eq : forall buf, caster_unmarshal_go buf = caster_outcome (caster_unmarshal buf).
Proof.
  intros buf. unfold caster_unmarshal_go. cbv zeta.
  destruct buf as [|s [|b1 r]].
  - reflexivity.
  - reflexivity.
  - rewrite !clen_cons.
    replace (1 + (1 + clen r) =? 0) with false by lia.
    replace (1 + (1 + clen r) =? 1) with false by lia.
    assert (Hsl : slice (s :: b1 :: r) 1 (1 + (1 + clen r)) = Some (b1 :: r)).
    { unfold slice. rewrite !clen_cons.
      replace ((1 <=? 1 + (1 + clen r)) && (1 + (1 + clen r) <=? 1 + (1 + clen r))) with true by lia.
      f_equal. change (N.to_nat 1) with 1%nat. cbn [skipn].
      replace (N.to_nat (1 + (1 + clen r) - 1)) with (length (b1 :: r)).
      - apply firstn_all.
      - cbn [length]. unfold clen. lia. }
    assert (Hi0 : idx (s :: b1 :: r) 0 = Some s) by reflexivity.
    assert (Hi1 : idx (s :: b1 :: r) 1 = Some b1) by reflexivity.
    rewrite Hi1, Hsl, Hi0. unfold caster_unmarshal.
    destruct r as [|c r'].
    + change (clen []) with 0. change (1 + (1 + 0) =? 2) with true. cbv iota.
      destruct (b2n b1 =? 0); [reflexivity|].
      destruct (b2n s =? 0); [reflexivity|]. destruct (b2n s =? 1); reflexivity.
    + rewrite clen_cons. replace (1 + (1 + (1 + clen r')) =? 2) with false by lia. cbv iota.
      destruct (b2n s =? 0); [reflexivity|]. destruct (b2n s =? 1); reflexivity.
Qed.

Theorem caster_unmarshal_no_panic : forall buf, caster_unmarshal_go buf <> Panic.
Proof. intros buf. rewrite caster_unmarshal_go_eq. destruct (caster_unmarshal buf); discriminate. Qed.

(* MarshalTo into the Size(a) bytes the generated Marshal hands over: no error, no panic, the documented bytes *)
Theorem caster_marshal_to_sized : forall a,
  caster_marshal_to_go a (caster_size a) = Ok (caster_size a, caster_marshal a).
Proof.
  intros [z|]; [|reflexivity]. unfold caster_marshal_to_go, caster_size, caster_marshal. cbv zeta.
  destruct (magnitude z) as [|b m'].
  - reflexivity.
  - rewrite !clen_cons. replace (0 <? 1 + clen m') with true by lia.
    replace (1 + clen m' + 1 <=? 1 + clen m') with false by lia. reflexivity.
Qed.
(* and it panics / errors only on a buffer shorter than Size(a) *)
Theorem caster_marshal_to_ok_iff : forall a blen,
  (exists r, caster_marshal_to_go a blen = Ok r) <-> (match a with Some 0%Z => 1 | _ => caster_size a end <= blen).
Proof.
  intros [z|] blen; unfold caster_marshal_to_go, caster_size; cbv zeta.
  - assert (Hm : magnitude z = [] <-> z = 0%Z).
    { split; [apply magnitude_nil|intros ->; reflexivity]. }
    destruct (magnitude z) as [|b m'] eqn:Em.
    + assert (z = 0%Z) by (apply Hm; reflexivity). subst z. change (clen []) with 0.
      destruct (blen <=? 0) eqn:E; split; intros H; try lia.
      * destruct H as [r H]. discriminate.
      * eexists. reflexivity.
    + assert (z <> 0%Z) by (intros Hz; apply Hm in Hz; discriminate).
      rewrite !clen_cons. replace (0 <? 1 + clen m') with true by lia.
      destruct (blen <=? 1 + clen m') eqn:E; split; intros H'.
      * destruct H' as [r H']. discriminate.
      * destruct z; try congruence; lia.
      * destruct z; try congruence; lia.
      * eexists. reflexivity.
  - destruct (blen =? 0) eqn:E; split; intros H; try lia.
    + destruct H as [r H]. discriminate.
    + eexists. reflexivity.
Qed.
