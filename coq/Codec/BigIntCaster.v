(* data/bigIntCaster.go: the amount codec used for ESDigitalToken.Value.
   A big.Int pointer is [option Z] (None = nil pointer).  big.Int.Bytes() is the minimal big-endian
   magnitude ([N_to_be] of the absolute value), big.Int.SetBytes is [be_to_N]. *)
From EV Require Import Base.Bytes Codec.Varint.
Local Open Scope N_scope.

Definition magnitude (z : Z) : bytes := N_to_be (Z.abs_N z).

(* BigIntCaster.Size *)
Definition caster_size (a : option Z) : N :=
  match a with
  | None => 1
  | Some z => let size := clen (magnitude z) in if 0 <? size then size + 1 else 2
  end.

(* BigIntCaster.MarshalTo: the bytes written into a zeroed buffer of
   Size(a) bytes (what the generated Marshal hands over): buf[0] = sign, copy(buf[1:], a.Bytes());
   for zero nothing is copied and buf[1] keeps its 0. *)
Definition caster_marshal (a : option Z) : bytes :=
  match a with
  | None => [x00]
  | Some z =>
    let bs := magnitude z in
    let sign := if (z <? 0)%Z then x01 else x00 in
    match bs with
    | [] => [sign; x00]
    | _ => sign :: bs
    end
  end.

(* BigIntCaster.Unmarshal(buf []byte) returns a big.Int pointer and an error; outer None = error *)
Definition caster_unmarshal (buf : bytes) : option (option Z) :=
  match buf with
  | [] => None                                        (* case 0: bad input *)
  | [_] => Some None                                  (* case 1: nil *)
  | s :: rest =>
    if match rest with [b1] => b2n b1 =? 0 | _ => false end
    then Some (Some 0%Z)                              (* case 2 with buf[1] == 0, buf[0] not inspected *)
    else
      let ret := Z.of_N (be_to_N rest) in             (* SetBytes(buf[1:]) *)
      if b2n s =? 0 then Some (Some ret)
      else if b2n s =? 1 then Some (Some (- ret)%Z)
      else None                                       (* invalid sign byte *)
  end.
