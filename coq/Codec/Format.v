(* The documented wire format of data/esdt, written as an independent reference encoder: each message is the
   concatenation of its fields in field-number order; the tag bytes are looked up BY FIELD NAME in the table
   of literals extracted from the Marshal functions of esdt.pb.go (gen/ProtoTags.v, regenerated from the
   source on every run), so a change of a field number, a wire type or the emission order in the source
   breaks the theorems of FormatProofs.v.  Also: consistency checks between the generated tables. *)
From Coq.Strings Require Import String.
From EV Require Import Base.Bytes Base.Monad Codec.Types Codec.Varint Codec.BigIntCaster Codec.Proto gen.ProtoTags.
Local Open Scope N_scope.

Fixpoint lookup_tag (tbl : list (string * N)) (f : string) : byte :=
  match tbl with
  | [] => xff
  | (g, n) :: r => if String.eqb f g then n2b n else lookup_tag r f
  end.

(* a scalar field is omitted when zero; a bytes field when empty; every element of a repeated field is
   written (even an empty one); a length-delimited field is tag ‖ varint(length) ‖ payload *)
Definition doc_varint_field (tag : byte) (v : N) : bytes := if v =? 0 then [] else tag :: enc_varint v.
Definition doc_len_field (tag : byte) (payload : bytes) : bytes := tag :: enc_varint (clen payload) ++ payload.
Definition doc_bytes_field (tag : byte) (b : bytes) : bytes := match b with [] => [] | _ => doc_len_field tag b end.
Definition doc_rep_field (tag : byte) (l : list bytes) : bytes := concat (map (doc_len_field tag) l).

Definition tg_md : string -> byte := lookup_tag PT.marshal_MetaData.
Definition tg_tok : string -> byte := lookup_tag PT.marshal_ESDigitalToken.
Definition tg_rol : string -> byte := lookup_tag PT.marshal_ESDTRoles.

Definition doc_metadata (m : metadata) : bytes :=
  doc_varint_field (tg_md "Nonce") (md_nonce m)
  ++ doc_bytes_field (tg_md "Name") (md_name m)
  ++ doc_bytes_field (tg_md "Creator") (md_creator m)
  ++ doc_varint_field (tg_md "Royalties") (md_royalties m)
  ++ doc_bytes_field (tg_md "Hash") (md_hash m)
  ++ doc_rep_field (tg_md "URIs") (md_uris m)
  ++ doc_bytes_field (tg_md "Attributes") (md_attributes m).

Definition doc_token (t : token) : bytes :=
  doc_varint_field (tg_tok "Type") (t_type t)
  ++ doc_len_field (tg_tok "Value") (caster_marshal (t_value t))           (* always present *)
  ++ doc_bytes_field (tg_tok "Properties") (t_props t)
  ++ match t_meta t with Some m => doc_len_field (tg_tok "TokenMetaData") (doc_metadata m) | None => [] end
  ++ doc_bytes_field (tg_tok "Reserved") (t_reserved t).

Definition doc_roles (r : roles) : bytes := doc_rep_field (tg_rol "Roles") r.

(* ---- consistency of the generated tables ---- *)
Definition wt_of_kind (k : string) : N := if String.eqb k "varint" then 0 else if String.eqb k "bytes" then 2 else 7.
Definition kind_of_type (ty : string) : string :=
  if String.eqb ty "uint32" || String.eqb ty "uint64" then "varint" else "bytes".   (* bytes and sub-messages *)

Definition row_ok (s : string * string * N * string) (m : string * N) (u : N * N * string)
  (z : string) (p : string * string * N * bool) : bool :=
  let '(sname, skind, snum, slabel) := s in
  let '(mname, mtag) := m in
  let '(unum, uwt, uname) := u in
  let '(pname, pty, pnum, prep) := p in
  String.eqb sname mname && String.eqb sname uname && String.eqb sname z && String.eqb sname pname
  && (snum =? unum) && (snum =? pnum) && (uwt =? wt_of_kind skind) && (mtag =? snum * 8 + uwt)
  && String.eqb skind (kind_of_type pty) && Bool.eqb prep (String.eqb slabel "rep")
  && (String.eqb slabel "rep" || String.eqb slabel "opt").

Fixpoint rows_ok (s : list (string * string * N * string)) (m : list (string * N)) (u : list (N * N * string))
  (z : list string) (p : list (string * string * N * bool)) : bool :=
  match s, m, u, z, p with
  | [], [], [], [], [] => true
  | s1 :: s', m1 :: m', u1 :: u', z1 :: z', p1 :: p' => row_ok s1 m1 u1 z1 p1 && rows_ok s' m' u' z' p'
  | _, _, _, _, _ => false
  end.

(* struct tags, Marshal literals (reversed: the buffer is filled backwards), Unmarshal cases, Size() order and
   the .proto declarations describe the same fields, in the same (ascending) order *)
Definition tables_consistent : bool :=
  rows_ok PT.struct_ESDigitalToken (rev PT.marshal_ESDigitalToken) PT.unmarshal_ESDigitalToken
          PT.size_ESDigitalToken PT.proto_ESDigitalToken
  && rows_ok PT.struct_ESDTRoles (rev PT.marshal_ESDTRoles) PT.unmarshal_ESDTRoles PT.size_ESDTRoles PT.proto_ESDTRoles
  && rows_ok PT.struct_MetaData (rev PT.marshal_MetaData) PT.unmarshal_MetaData PT.size_MetaData PT.proto_MetaData
  && match PT.unrecognised with [] => true | _ => false end
  && PT.stable_marshaler_all.

(* (field number, wire type) per message, from the Unmarshal case table *)
Definition fields_of (u : list (N * N * string)) : list (N * N) := map (fun r => (fst (fst r), snd (fst r))) u.
Fixpoint lookup_wt (u : list (N * N * string)) (n : N) : option N :=
  match u with
  | [] => None
  | (num, wt, _) :: r => if n =? num then Some wt else lookup_wt r n
  end.

(* what the model's decoder table says about a field number *)
Definition kind_wt {St} (k : option (fkind St)) : option N :=
  match k with Some (KVarint _) => Some 0 | Some (KBytes _) => Some 2 | None => None end.
