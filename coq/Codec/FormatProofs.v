(* The model encoder produces exactly the documented format (Codec/Format.v): fields in field-number order
   with the tag bytes of the source's Marshal functions; the model decoder knows exactly the fields and wire
   types of the source's Unmarshal switch; the generated tables agree with each other and with the field
   numbers the property text names. *)
From Coq.Strings Require Import String.
From EV Require Import Base.Bytes Base.Monad Codec.Types Codec.Varint Codec.BigIntCaster Codec.Proto gen.ProtoTags
  Codec.Format Codec.VarintProofs Codec.LoopProofs.
Local Open Scope N_scope.

Local Arguments enc_varint : simpl never.
Local Arguments caster_marshal : simpl never.
Local Arguments N.mul : simpl never.
Local Arguments N.add : simpl never.

(* ---- the generated tables ---- *)
Theorem tables_consistent_true : tables_consistent = true.
Proof. vm_compute. reflexivity. Qed.

(* protobuf fields 1-5 / 1 / 1-7 with their wire types (0 = varint, 2 = length-delimited) *)
Theorem documented_fields :
  fields_of PT.unmarshal_ESDigitalToken = [(1, 0); (2, 2); (3, 2); (4, 2); (5, 2)]
  /\ fields_of PT.unmarshal_ESDTRoles = [(1, 2)]
  /\ fields_of PT.unmarshal_MetaData = [(1, 0); (2, 2); (3, 2); (4, 0); (5, 2); (6, 2); (7, 2)]
  /\ map fst (rev PT.marshal_ESDigitalToken) = ["Type"; "Value"; "Properties"; "TokenMetaData"; "Reserved"]%string
  /\ map fst (rev PT.marshal_ESDTRoles) = ["Roles"]%string
  /\ map fst (rev PT.marshal_MetaData) = ["Nonce"; "Name"; "Creator"; "Royalties"; "Hash"; "URIs"; "Attributes"]%string
  /\ map snd (rev PT.marshal_ESDigitalToken) = [8; 18; 26; 34; 42]
  /\ map snd (rev PT.marshal_ESDTRoles) = [10]
  /\ map snd (rev PT.marshal_MetaData) = [8; 18; 26; 32; 42; 50; 58].
Proof. repeat split. Qed.

(* ---- pieces ---- *)
Lemma doc_piece_varint num v : enc_occs (occ_varint num v) = doc_varint_field (tag_byte num 0) v.
Proof.
  unfold occ_varint, doc_varint_field. destruct (v =? 0); [reflexivity|].
  unfold enc_occs. cbn [map concat]. rewrite app_nil_r. reflexivity.
Qed.
Lemma doc_piece_len num b : enc_occs [(num, FBytes b)] = doc_len_field (tag_byte num 2) b.
Proof. unfold enc_occs. cbn [map concat]. rewrite app_nil_r. reflexivity. Qed.
Lemma doc_piece_bytes num b : enc_occs (occ_bytes num b) = doc_bytes_field (tag_byte num 2) b.
Proof. unfold occ_bytes, doc_bytes_field. destruct b; [reflexivity|apply doc_piece_len]. Qed.
Lemma doc_piece_rep num l : enc_occs (occ_rep num l) = doc_rep_field (tag_byte num 2) l.
Proof.
  unfold occ_rep, doc_rep_field. induction l as [|b l IH]; [reflexivity|].
  cbn [map concat]. rewrite enc_occs_cons, IH. reflexivity.
Qed.

(* the tag bytes of the model = the literals of the source, field by field *)
Lemma tags_metadata :
  (tg_md "Nonce", tg_md "Name", tg_md "Creator", tg_md "Royalties", tg_md "Hash", tg_md "URIs", tg_md "Attributes")
  = (tag_byte 1 0, tag_byte 2 2, tag_byte 3 2, tag_byte 4 0, tag_byte 5 2, tag_byte 6 2, tag_byte 7 2).
Proof. reflexivity. Qed.
Lemma tags_token :
  (tg_tok "Type", tg_tok "Value", tg_tok "Properties", tg_tok "TokenMetaData", tg_tok "Reserved")
  = (tag_byte 1 0, tag_byte 2 2, tag_byte 3 2, tag_byte 4 2, tag_byte 5 2).
Proof. reflexivity. Qed.
Lemma tags_roles : tg_rol "Roles" = tag_byte 1 2.
Proof. reflexivity. Qed.

Theorem enc_metadata_format : forall m, enc_metadata m = doc_metadata m.
Proof.
  intros m. unfold enc_metadata, metadata_occs, doc_metadata.
  change (tg_md "Nonce") with (tag_byte 1 0). change (tg_md "Name") with (tag_byte 2 2).
  change (tg_md "Creator") with (tag_byte 3 2). change (tg_md "Royalties") with (tag_byte 4 0).
  change (tg_md "Hash") with (tag_byte 5 2). change (tg_md "URIs") with (tag_byte 6 2).
  change (tg_md "Attributes") with (tag_byte 7 2).
  rewrite !enc_occs_app, !doc_piece_varint, !doc_piece_bytes, doc_piece_rep. reflexivity.
Qed.

Theorem enc_roles_format : forall r, enc_roles r = doc_roles r.
Proof. intros r. unfold enc_roles, roles_occs, doc_roles. change (tg_rol "Roles") with (tag_byte 1 2). apply doc_piece_rep. Qed.

Theorem enc_token_format : forall t, enc_token t = doc_token t.
Proof.
  intros t. unfold enc_token, token_occs, doc_token.
  change (tg_tok "Type") with (tag_byte 1 0). change (tg_tok "Value") with (tag_byte 2 2).
  change (tg_tok "Properties") with (tag_byte 3 2). change (tg_tok "TokenMetaData") with (tag_byte 4 2).
  change (tg_tok "Reserved") with (tag_byte 5 2).
  rewrite !enc_occs_app, doc_piece_varint, !doc_piece_bytes, doc_piece_len.
  destruct (t_meta t) as [m|].
  - rewrite doc_piece_len, enc_metadata_format. reflexivity.
  - reflexivity.
Qed.

(* ---- the decoder's field tables = the source's `switch fieldNum` ---- *)
Theorem token_kind_table : forall n, kind_wt (token_kind n) = lookup_wt PT.unmarshal_ESDigitalToken n.
Proof.
  intros n. unfold token_kind. cbn [lookup_wt PT.unmarshal_ESDigitalToken].
  repeat match goal with |- context [n =? ?k] => destruct (n =? k) end; reflexivity.
Qed.
Theorem metadata_kind_table : forall n, kind_wt (metadata_kind n) = lookup_wt PT.unmarshal_MetaData n.
Proof.
  intros n. unfold metadata_kind. cbn [lookup_wt PT.unmarshal_MetaData].
  repeat match goal with |- context [n =? ?k] => destruct (n =? k) end; reflexivity.
Qed.
Theorem roles_kind_table : forall n, kind_wt (roles_kind n) = lookup_wt PT.unmarshal_ESDTRoles n.
Proof.
  intros n. unfold roles_kind. cbn [lookup_wt PT.unmarshal_ESDTRoles].
  repeat match goal with |- context [n =? ?k] => destruct (n =? k) end; reflexivity.
Qed.
