(* Proofs about Codec/Varint.v: positions in a buffer ([at_]), the varint reader never panics and
   makes progress, varint round trip for every n < 2^64, sov = encoded length. *)
From EV Require Import Base.Bytes Base.Monad Codec.Varint.
Local Open Scope N_scope.

Local Arguments N.pow : simpl never.
Local Arguments N.div : simpl never.
Local Arguments N.modulo : simpl never.
Local Arguments N.mul : simpl never.
Local Arguments N.add : simpl never.
Local Arguments rd_varint_go : simpl never.
Local Arguments enc_varint_f : simpl never.

Lemma clen_nil : clen [] = 0. Proof. reflexivity. Qed.
Lemma clen_cons b (l : bytes) : clen (b :: l) = 1 + clen l.
Proof. unfold clen. cbn [length]. lia. Qed.
Lemma clen_app (a b : bytes) : clen (a ++ b) = clen a + clen b.
Proof. unfold clen. rewrite app_length. lia. Qed.
Lemma clen_0 (l : bytes) : clen l = 0 -> l = [].
Proof. destruct l; [reflexivity|]. rewrite clen_cons. lia. Qed.

(* ---- positions: [at_ data i s] says that the suffix of data starting at index i is s ---- *)
Definition at_ (data : bytes) (i : N) (s : bytes) : Prop := exists pre, data = pre ++ s /\ clen pre = i.

Lemma at_0 data : at_ data 0 data.
Proof. exists []. split; reflexivity. Qed.
Lemma at_clen data i s : at_ data i s -> clen data = i + clen s.
Proof. intros (pre & -> & <-). apply clen_app. Qed.
Lemma at_idx data i b r : at_ data i (b :: r) -> idx data i = Some b.
Proof.
  intros (pre & -> & <-). unfold idx, clen. rewrite Nnat.Nat2N.id.
  rewrite nth_error_app2 by lia. rewrite Nat.sub_diag. reflexivity.
Qed.
Lemma at_app data i x r : at_ data i (x ++ r) -> at_ data (i + clen x) r.
Proof.
  intros (pre & -> & <-). exists (pre ++ x). split; [apply app_assoc|apply clen_app].
Qed.
Lemma at_cons data i b r : at_ data i (b :: r) -> at_ data (i + 1) r.
Proof. intros H. apply (at_app data i [b] r) in H. exact H. Qed.
Lemma at_end data i : at_ data i [] -> i = clen data.
Proof. intros H. apply at_clen in H. rewrite clen_nil in H. lia. Qed.

Lemma idx_some data i : i < clen data -> exists b, idx data i = Some b.
Proof.
  intros H. unfold idx. destruct (nth_error data (N.to_nat i)) eqn:E; [eauto|].
  apply nth_error_None in E. unfold clen in H. lia.
Qed.

Lemma pow64 : 2 ^ 64 = 18446744073709551616. Proof. reflexivity. Qed.

(* ---- the reader never panics, stays inside the buffer and advances ---- *)
Lemma rd_varint_go_step f data l shift acc i :
  rd_varint_go (S f) data l shift acc i =
  if 64 <=? shift then Err EIntOverflow else
  if l <=? i then Err EUnexpectedEOF else
  match idx data i with
  | None => Panic
  | Some b =>
    let acc' := (acc + ((b2n b mod 128) * 2 ^ shift) mod two64) mod two64 in
    if b2n b <? 128 then Ok (acc', i + 1) else rd_varint_go f data l (shift + 7) acc' (i + 1)
  end.
Proof. reflexivity. Qed.

Definition rd_safe (l i : N) (r : R (N * N)) : Prop :=
  match r with
  | Panic => False
  | Ok (v, i') => i < i' /\ i' <= l /\ v < two64
  | Err _ => True
  end.

Lemma rd_varint_go_safe : forall fuel data shift acc i,
  63 < shift + 7 * N.of_nat fuel -> rd_safe (clen data) i (rd_varint_go fuel data (clen data) shift acc i).
Proof.
  induction fuel as [|f IH]; intros data shift acc i Hf.
  - unfold rd_varint_go. replace (64 <=? shift) with true by lia. exact I.
  - rewrite rd_varint_go_step.
    destruct (64 <=? shift) eqn:E1; [exact I|].
    destruct (clen data <=? i) eqn:E2; [exact I|].
    destruct (idx_some data i) as [b Hb]; [lia|]. rewrite Hb. cbv zeta.
    destruct (b2n b <? 128) eqn:E3.
    + unfold rd_safe. repeat split; try lia. apply N.mod_upper_bound. discriminate.
    + specialize (IH data (shift + 7) ((acc + (b2n b mod 128 * 2 ^ shift) mod two64) mod two64) (i + 1)).
      assert (Hf' : 63 < shift + 7 + 7 * N.of_nat f) by lia. specialize (IH Hf').
      unfold rd_safe in *.
      destruct (rd_varint_go f data (clen data) (shift + 7) _ (i + 1)) as [[v i']|e|]; auto.
      destruct IH as (H1 & H2 & H3). repeat split; lia.
Qed.

Lemma rd_varint_safe data i : rd_safe (clen data) i (rd_varint data (clen data) i).
Proof. unfold rd_varint. apply rd_varint_go_safe. simpl. lia. Qed.

(* ---- round trip ---- *)
Lemma enc_varint_f_step f n :
  enc_varint_f (S f) n = if n <? 128 then [n2b n] else n2b (n mod 128 + 128) :: enc_varint_f f (n / 128).
Proof. reflexivity. Qed.

Lemma rd_enc_gen : forall fuel n shift acc data i rest,
  shift < 64 -> n < 2 ^ (64 - shift) -> acc < 2 ^ shift -> n < 128 ^ N.of_nat (S fuel) ->
  at_ data i (enc_varint_f fuel n ++ rest) ->
  rd_varint_go (S fuel) data (clen data) shift acc i
  = Ok (acc + n * 2 ^ shift, i + clen (enc_varint_f fuel n)).
Proof.
  unfold two64.
  induction fuel as [|f IH]; intros n shift acc data i rest Hs Hn Hacc Hf Hat.
  - assert (HPQ : 2 ^ shift * 2 ^ (64 - shift) = 2 ^ 64) by (rewrite <- N.pow_add_r; f_equal; lia).
    rewrite pow64 in HPQ.
    assert (H128 : 128 ^ N.of_nat 1 = 128) by reflexivity. rewrite H128 in Hf.
    unfold enc_varint_f in *. cbn [app] in Hat.
    rewrite rd_varint_go_step. replace (64 <=? shift) with false by lia.
    pose proof (at_clen _ _ _ Hat) as Hl. rewrite clen_cons in Hl.
    replace (clen data <=? i) with false by lia.
    rewrite (at_idx _ _ _ _ Hat). cbv zeta. unfold two64.
    rewrite N.mod_small with (a:=n) (b:=128) by lia. rewrite b2n_n2b by lia.
    replace (n <? 128) with true by lia. rewrite (N.mod_small n 128) by lia.
    rewrite (N.mod_small (n * 2^shift)) by nia. rewrite N.mod_small by nia.
    rewrite clen_cons, clen_nil. f_equal; try f_equal; lia.
  - assert (HPQ : 2 ^ shift * 2 ^ (64 - shift) = 2 ^ 64) by (rewrite <- N.pow_add_r; f_equal; lia).
    rewrite pow64 in HPQ.
    rewrite enc_varint_f_step in *. destruct (n <? 128) eqn:E.
    + cbn [app] in Hat. rewrite rd_varint_go_step. replace (64 <=? shift) with false by lia.
      pose proof (at_clen _ _ _ Hat) as Hl. rewrite clen_cons in Hl.
      replace (clen data <=? i) with false by lia.
      rewrite (at_idx _ _ _ _ Hat). cbv zeta. unfold two64.
      rewrite b2n_n2b by lia. rewrite E. rewrite (N.mod_small n 128) by lia.
      rewrite (N.mod_small (n * 2^shift)) by nia. rewrite N.mod_small by nia.
      rewrite clen_cons, clen_nil. f_equal; try f_equal; lia.
    + cbn [app] in Hat. rewrite rd_varint_go_step. replace (64 <=? shift) with false by lia.
      pose proof (at_clen _ _ _ Hat) as Hl. rewrite clen_cons in Hl.
      replace (clen data <=? i) with false by lia.
      rewrite (at_idx _ _ _ _ Hat). cbv zeta. unfold two64.
      assert (Hm : n mod 128 < 128) by (apply N.mod_upper_bound; lia).
      rewrite b2n_n2b by lia.
      replace (n mod 128 + 128 <? 128) with false by lia.
      replace ((n mod 128 + 128) mod 128) with (n mod 128)
        by (rewrite N.add_mod by lia; rewrite N.mod_same by lia; rewrite N.add_0_r; rewrite !N.mod_mod by lia; reflexivity).
      assert (Hd : n = 128 * (n / 128) + n mod 128) by (apply N.div_mod; lia).
      assert (Hge : 128 <= n) by lia.
      assert (Hsh : shift + 7 < 64).
      { destruct (N.ltb_spec (shift + 7) 64) as [?|Hc]; [assumption|exfalso].
        assert (2 ^ (64 - shift) <= 2 ^ 7) by (apply N.pow_le_mono_r; lia). change (2^7) with 128 in *. lia. }
      assert (Hp : 2 ^ (shift + 7) = 2 ^ shift * 128) by (rewrite N.pow_add_r; reflexivity).
      assert (Hq : 2 ^ (64 - shift) = 2 ^ (64 - (shift + 7)) * 128).
      { replace (64 - shift) with ((64 - (shift + 7)) + 7) by lia. rewrite N.pow_add_r. reflexivity. }
      rewrite (N.mod_small (n mod 128 * 2^shift)) by nia.
      assert (Hsum : acc + n mod 128 * 2 ^ shift < 2 ^ (shift + 7)) by (rewrite Hp; nia).
      rewrite N.mod_small by nia.
      apply at_cons in Hat.
      rewrite (IH (n / 128) (shift + 7) (acc + n mod 128 * 2 ^ shift) data (i + 1) rest).
      * rewrite clen_cons. f_equal. f_equal; [rewrite Hp; nia|lia].
      * lia.
      * rewrite Hq in Hn. apply N.div_lt_upper_bound; lia.
      * exact Hsum.
      * rewrite Nnat.Nat2N.inj_succ in Hf. rewrite N.pow_succ_r' in Hf. apply N.div_lt_upper_bound; lia.
      * exact Hat.
Qed.

(* the encoder's fuel does not matter once it is large enough *)
Lemma enc_varint_f_fuel : forall f f' n,
  n < 128 ^ N.of_nat (S f) -> n < 128 ^ N.of_nat (S f') -> enc_varint_f f n = enc_varint_f f' n.
Proof.
  induction f as [|f IH]; intros f' n H1 H2.
  - assert (H128 : 128 ^ N.of_nat 1 = 128) by reflexivity. rewrite H128 in H1. destruct f' as [|f'].
    + reflexivity.
    + rewrite enc_varint_f_step. replace (n <? 128) with true by lia. unfold enc_varint_f.
      rewrite N.mod_small by lia. reflexivity.
  - destruct f' as [|f'].
    + assert (H128 : 128 ^ N.of_nat 1 = 128) by reflexivity. rewrite H128 in H2. rewrite enc_varint_f_step.
      replace (n <? 128) with true by lia. unfold enc_varint_f. rewrite N.mod_small by lia. reflexivity.
    + rewrite !enc_varint_f_step. destruct (n <? 128); [reflexivity|]. f_equal. apply IH.
      * rewrite Nnat.Nat2N.inj_succ, N.pow_succ_r' in H1. apply N.div_lt_upper_bound; lia.
      * rewrite Nnat.Nat2N.inj_succ, N.pow_succ_r' in H2. apply N.div_lt_upper_bound; lia.
Qed.

Lemma size_nat_pow128 n : n < 128 ^ N.of_nat (S (N.size_nat n)).
Proof.
  pose proof (size_nat_bound n) as H.
  assert (H2 : forall k, 2 ^ N.of_nat k <= 128 ^ N.of_nat (S k)).
  { induction k as [|k IHk].
    - change (2 ^ N.of_nat 0) with 1. change (128 ^ N.of_nat 1) with 128. lia.
    - rewrite (Nnat.Nat2N.inj_succ (S k)), (Nnat.Nat2N.inj_succ k).
      rewrite (N.pow_succ_r' 2), (N.pow_succ_r' 128).
      rewrite (Nnat.Nat2N.inj_succ k) in IHk. nia. }
  specialize (H2 (N.size_nat n)). lia.
Qed.

Lemma enc_varint_fuel9 n : n < 2 ^ 64 -> enc_varint n = enc_varint_f 9 n.
Proof.
  intros H. unfold enc_varint. apply enc_varint_f_fuel.
  - apply size_nat_pow128.
  - rewrite pow64 in H. assert (H10 : 128 ^ N.of_nat 10 = 1180591620717411303424) by reflexivity. rewrite H10. lia.
Qed.

Theorem rd_varint_enc n data i rest :
  n < 2 ^ 64 -> at_ data i (enc_varint n ++ rest) ->
  rd_varint data (clen data) i = Ok (n, i + clen (enc_varint n)).
Proof.
  intros H Hat. rewrite enc_varint_fuel9 in * by exact H. unfold rd_varint.
  assert (H10 : 128 ^ N.of_nat 10 = 1180591620717411303424) by reflexivity.
  rewrite (rd_enc_gen 9 n 0 0 data i rest).
  - f_equal. f_equal. rewrite N.pow_0_r. lia.
  - lia.
  - rewrite N.sub_0_r. exact H.
  - rewrite N.pow_0_r. lia.
  - rewrite pow64 in H. rewrite H10. lia.
  - exact Hat.
Qed.

(* the statement for the property: all n < 2^64, any trailing bytes *)
Theorem varint_roundtrip n rest :
  n < 2 ^ 64 ->
  rd_varint (enc_varint n ++ rest) (clen (enc_varint n ++ rest)) 0 = Ok (n, clen (enc_varint n)).
Proof. intros H. rewrite (rd_varint_enc n _ 0 rest H (at_0 _)). reflexivity. Qed.

Lemma enc_varint_nonempty n : enc_varint n <> [].
Proof.
  unfold enc_varint. destruct (N.size_nat n); [discriminate|].
  rewrite enc_varint_f_step. destruct (n <? 128); discriminate.
Qed.

(* ---- sov = encoded length ---- *)
Lemma size_lor1 n : N.size (N.lor n 1) = N.max 1 (N.size n).
Proof. destruct n as [|[p|p|]]; cbn; try reflexivity; lia. Qed.

Lemma size_small n : 0 < n -> n < 128 -> 1 <= N.size n /\ N.size n <= 7.
Proof.
  intros H0 H. pose proof (N.size_gt n) as Hg. pose proof (N.size_le n) as Hl.
  split.
  - destruct (N.size n) eqn:E; [|lia]. change (2 ^ 0) with 1 in Hg. lia.
  - destruct (N.leb_spec (N.size n) 7) as [?|Hc]; [assumption|exfalso].
    assert (2 ^ 8 <= 2 ^ N.size n) by (apply N.pow_le_mono_r; lia).
    change (2 ^ 8) with 256 in *. rewrite N.succ_double_spec in Hl. lia.
Qed.

Lemma size_div128 n : 128 <= n -> N.size n = N.size (n / 128) + 7.
Proof.
  intros H. assert (Hq : 1 <= n / 128) by (apply N.div_le_lower_bound; lia).
  rewrite !N.size_log2 by lia.
  change 128 with (2 ^ 7). rewrite <- N.shiftr_div_pow2, N.log2_shiftr.
  assert (7 <= N.log2 n) by (change 7 with (N.log2 (2 ^ 7)); apply N.log2_le_mono; exact H). lia.
Qed.

Lemma enc_varint_f_len : forall f n, n < 2 ^ N.of_nat f -> clen (enc_varint_f f n) = sov n.
Proof.
  unfold sov. induction f as [|f IH]; intros n H.
  - change (2 ^ N.of_nat 0) with 1 in H. assert (n = 0) by lia. subst. reflexivity.
  - rewrite enc_varint_f_step, size_lor1. destruct (n <? 128) eqn:E.
    + rewrite clen_cons, clen_nil. destruct (N.eq_dec n 0) as [->|Hn]; [reflexivity|].
      pose proof (size_small n) as Hs. assert (N.max 1 (N.size n) + 6 < 14) by lia.
      assert (7 <= N.max 1 (N.size n) + 6) by lia.
      lia.
    + rewrite clen_cons. rewrite IH.
      * rewrite size_lor1. rewrite (size_div128 n) by lia.
        assert (1 <= n / 128) by (apply N.div_le_lower_bound; lia).
        assert (1 <= N.size (n / 128)) by (rewrite N.size_log2 by lia; lia).
        replace (N.max 1 (N.size (n / 128) + 7) + 6) with (N.max 1 (N.size (n / 128)) + 6 + 1 * 7) by lia.
        rewrite N.div_add by lia. lia.
      * rewrite Nnat.Nat2N.inj_succ, N.pow_succ_r' in H. apply N.div_lt_upper_bound; lia.
Qed.

Theorem sov_eq_length n : sov n = clen (enc_varint n).
Proof. unfold enc_varint. symmetry. apply enc_varint_f_len. apply size_nat_bound. Qed.

Lemma sov_pos n : 1 <= sov n.
Proof.
  rewrite sov_eq_length. pose proof (enc_varint_nonempty n). destruct (enc_varint n); [congruence|].
  rewrite clen_cons. lia.
Qed.

(* small values are one byte: used for tags *)
Lemma enc_varint_small n : n < 128 -> enc_varint n = [n2b n].
Proof.
  intros H. rewrite enc_varint_fuel9 by (rewrite pow64; lia). rewrite enc_varint_f_step.
  replace (n <? 128) with true by lia. reflexivity.
Qed.
