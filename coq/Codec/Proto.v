(* Executable model of data/esdt/esdt.pb.go: Marshal / Size / Unmarshal of ESDigitalToken, ESDTRoles and
   MetaData, and skipEsdt.

   Decoder: exact on every input.  It works on (data, index) like the Go code; every index / slice
   expression is [idx] / [slice], whose out-of-range case is an explicit [Panic]; running out of fuel is
   [Panic] too, so `decode_no_panic` (CodecProofs.v) also shows that the fuel is always enough.
   Go's `int` is 64 bits: lengths are read mod 2^64, values >= 2^63 are negative.

   The three Unmarshal methods are one loop ([msg_loop]) over a per-message field table ([fkind]):
   a known field checks its wire type, reads a varint or a length-delimited payload and stores it;
   an unknown field number is skipped with skipEsdt.  Decoding starts from the zero value
   (the production adapter calls Reset() first).

   Encoder: forward concatenation of the emitted field occurrences (the Go code fills the buffer
   backwards; only the resulting bytes are modelled). *)
From EV Require Import Base.Bytes Base.Monad Codec.Types Codec.Varint Codec.BigIntCaster.
Local Open Scope N_scope.

(* ================= encoder ================= *)

Inductive fval := FVarint (v : N) | FBytes (b : bytes).
Definition occ : Type := N * fval.                   (* one emitted field: field number, payload *)
Definition wire_type (v : fval) : N := match v with FVarint _ => 0 | FBytes _ => 2 end.
Definition tag_byte (num wt : N) : byte := n2b (num * 8 + wt).
Definition enc_occ (o : occ) : bytes :=
  tag_byte (fst o) (wire_type (snd o)) ::
  match snd o with
  | FVarint x => enc_varint x
  | FBytes b => enc_varint (clen b) ++ b
  end.
Definition enc_occs (l : list occ) : bytes := concat (map enc_occ l).

Definition occ_varint (num v : N) : list occ := if v =? 0 then [] else [(num, FVarint v)].     (* if m.X != 0 *)
Definition occ_bytes (num : N) (b : bytes) : list occ :=                                        (* if len(m.X) > 0 *)
  match b with [] => [] | _ => [(num, FBytes b)] end.
Definition occ_rep (num : N) (l : list bytes) : list occ := map (fun b => (num, FBytes b)) l.   (* every element *)

Definition metadata_occs (m : metadata) : list occ :=
  occ_varint 1 (md_nonce m) ++ occ_bytes 2 (md_name m) ++ occ_bytes 3 (md_creator m)
  ++ occ_varint 4 (md_royalties m) ++ occ_bytes 5 (md_hash m) ++ occ_rep 6 (md_uris m)
  ++ occ_bytes 7 (md_attributes m).
Definition enc_metadata (m : metadata) : bytes := enc_occs (metadata_occs m).

Definition token_occs (t : token) : list occ :=
  occ_varint 1 (t_type t)
  ++ [(2, FBytes (caster_marshal (t_value t)))]                                                 (* always *)
  ++ occ_bytes 3 (t_props t)
  ++ match t_meta t with Some m => [(4, FBytes (enc_metadata m))] | None => [] end              (* if != nil *)
  ++ occ_bytes 5 (t_reserved t).
Definition enc_token (t : token) : bytes := enc_occs (token_occs t).

Definition roles_occs (r : roles) : list occ := occ_rep 1 r.
Definition enc_roles (r : roles) : bytes := enc_occs (roles_occs r).

(* ---- Size() ---- *)
Definition size_varint_field (v : N) : N := if v =? 0 then 0 else 1 + sov v.
Definition size_len_field (l : N) : N := 1 + l + sov l.
Definition size_bytes_field (b : bytes) : N := let l := clen b in if 0 <? l then size_len_field l else 0.
Definition size_rep_field (l : list bytes) : N := fold_left (fun n b => n + size_len_field (clen b)) l 0.

Definition size_metadata (m : metadata) : N :=
  size_varint_field (md_nonce m) + size_bytes_field (md_name m) + size_bytes_field (md_creator m)
  + size_varint_field (md_royalties m) + size_bytes_field (md_hash m) + size_rep_field (md_uris m)
  + size_bytes_field (md_attributes m).
Definition size_token (t : token) : N :=
  size_varint_field (t_type t) + size_len_field (caster_size (t_value t)) + size_bytes_field (t_props t)
  + match t_meta t with Some m => size_len_field (size_metadata m) | None => 0 end
  + size_bytes_field (t_reserved t).
Definition size_roles (r : roles) : N := size_rep_field r.

(* ================= decoder ================= *)

(* dAtA[a:b]; None = slice bounds out of range *)
Definition slice (data : bytes) (a b : N) : option bytes :=
  if (a <=? b) && (b <=? clen data)
  then Some (firstn (N.to_nat (b - a)) (skipn (N.to_nat a) data))
  else None.

(* the length prologue of every length-delimited field:
     var byteLen int; <varint loop>; if byteLen < 0 {ErrInvalidLength}
     postIndex := iNdEx + byteLen; if postIndex < 0 {ErrInvalidLength}; if postIndex > l {EOF}
   returns (iNdEx after the length, postIndex) *)
Definition rd_len (data : bytes) (l i : N) : R (N * N) :=
  match rd_varint data l i with
  | Ok (n, i2) =>
    if two63 <=? n then Err EInvalidLength else
    let post := i2 + n in
    if two63 <=? post then Err EInvalidLength else
    if l <? post then Err EUnexpectedEOF else Ok (i2, post)
  | Err e => Err e
  | Panic => Panic
  end.
(* ... followed by dAtA[iNdEx:postIndex]; returns (payload, postIndex) *)
Definition rd_bytes (data : bytes) (l i : N) : R (bytes * N) :=
  match rd_len data l i with
  | Ok (i2, post) => match slice data i2 post with Some s => Ok (s, post) | None => Panic end
  | Err e => Err e
  | Panic => Panic
  end.

(* func skipEsdt(dAtA []byte) (n int, err error) *)
Fixpoint skip_go (fuel : nat) (data : bytes) (l i depth : N) : R N :=
  if l <=? i then Err EUnexpectedEOF else            (* for iNdEx < l {...}; return 0, io.ErrUnexpectedEOF *)
  match fuel with
  | O => Panic
  | S f =>
    match rd_varint data l i with
    | Ok (wire, i1) =>
      let wt := wire mod 8 in
      let step : R (N * N) :=
        if wt =? 0 then
          match rd_varint data l i1 with Ok (_, i2) => Ok (i2, depth) | Err e => Err e | Panic => Panic end
        else if wt =? 1 then Ok (i1 + 8, depth)
        else if wt =? 2 then
          match rd_varint data l i1 with
          | Ok (n, i2) => if two63 <=? n then Err EInvalidLength else Ok (i2 + n, depth)
          | Err e => Err e | Panic => Panic
          end
        else if wt =? 3 then Ok (i1, depth + 1)
        else if wt =? 4 then (if depth =? 0 then Err EEndGroup else Ok (i1, depth - 1))
        else if wt =? 5 then Ok (i1 + 4, depth)
        else Err EIllegalWireType in
      match step with
      | Ok (i', d') =>
        if two63 <=? i' then Err EInvalidLength      (* iNdEx < 0 after int wrap-around *)
        else if d' =? 0 then Ok i'
        else skip_go f data l i' d'
      | Err e => Err e
      | Panic => Panic
      end
    | Err e => Err e
    | Panic => Panic
    end
  end.
Definition skip_esdt (data : bytes) : R N := skip_go (length data) data (clen data) 0 0.

(* what a known field does with its payload *)
Inductive fkind (St : Type) :=
| KVarint (set : St -> N -> St)                       (* wire type 0; the N is the varint mod 2^64 *)
| KBytes (set : St -> bytes -> R St).                 (* wire type 2 *)
Arguments KVarint {St}. Arguments KBytes {St}.

Section Loop.
  Context {St : Type}.
  Variable kind_of : N -> option (fkind St).          (* the `switch fieldNum` of one message type *)

  Fixpoint msg_loop (fuel : nat) (data : bytes) (l i : N) (m : St) : R St :=
    if l <=? i then (if l <? i then Err EUnexpectedEOF else Ok m) else     (* for iNdEx < l; if iNdEx > l *)
    match fuel with
    | O => Panic
    | S f =>
      match rd_varint data l i with
      | Ok (wire, i1) =>
        let fieldNum := (wire / 8) mod two32 in       (* int32(wire >> 3), as an unsigned 32-bit pattern *)
        let wireType := wire mod 8 in
        if wireType =? 4 then Err EIllegalTag
        else if (fieldNum =? 0) || (two31 <=? fieldNum) then Err EIllegalTag          (* fieldNum <= 0 *)
        else
          match kind_of fieldNum with
          | Some (KVarint set) =>
            if negb (wireType =? 0) then Err EWrongWireType else
            match rd_varint data l i1 with
            | Ok (v, i2) => msg_loop f data l i2 (set m v)
            | Err e => Err e | Panic => Panic
            end
          | Some (KBytes set) =>
            if negb (wireType =? 2) then Err EWrongWireType else
            match rd_bytes data l i1 with
            | Ok (s, i2) =>
              match set m s with
              | Ok m' => msg_loop f data l i2 m'
              | Err e => Err e | Panic => Panic
              end
            | Err e => Err e | Panic => Panic
            end
          | None =>                                   (* default: iNdEx = preIndex; skipEsdt(dAtA[iNdEx:]) *)
            match slice data i l with
            | None => Panic
            | Some sub =>
              match skip_esdt sub with
              | Ok skippy =>
                if two63 <=? skippy then Err EInvalidLength
                else if two63 <=? i + skippy then Err EInvalidLength
                else if l <? i + skippy then Err EUnexpectedEOF
                else msg_loop f data l (i + skippy) m
              | Err e => Err e | Panic => Panic
              end
            end
          end
      | Err e => Err e
      | Panic => Panic
      end
    end.

  (* func (m *X) Unmarshal(dAtA []byte) error, on a receiver holding m0 *)
  Definition unmarshal_from (m0 : St) (data : bytes) : R St := msg_loop (length data) data (clen data) 0 m0.
End Loop.

(* setters missing from Types.v *)
Definition tk_set_type (t : token) (x : N) : token :=
  {| t_type := x; t_value := t_value t; t_props := t_props t; t_meta := t_meta t; t_reserved := t_reserved t |}.
Definition tk_set_reserved (t : token) (x : bytes) : token :=
  {| t_type := t_type t; t_value := t_value t; t_props := t_props t; t_meta := t_meta t; t_reserved := x |}.
Definition md_set_nonce (m : metadata) (x : N) : metadata :=
  {| md_nonce := x; md_name := md_name m; md_creator := md_creator m; md_royalties := md_royalties m;
     md_hash := md_hash m; md_uris := md_uris m; md_attributes := md_attributes m |}.
Definition md_set_name (m : metadata) (x : bytes) : metadata :=
  {| md_nonce := md_nonce m; md_name := x; md_creator := md_creator m; md_royalties := md_royalties m;
     md_hash := md_hash m; md_uris := md_uris m; md_attributes := md_attributes m |}.
Definition md_set_creator (m : metadata) (x : bytes) : metadata :=
  {| md_nonce := md_nonce m; md_name := md_name m; md_creator := x; md_royalties := md_royalties m;
     md_hash := md_hash m; md_uris := md_uris m; md_attributes := md_attributes m |}.
Definition md_set_royalties (m : metadata) (x : N) : metadata :=
  {| md_nonce := md_nonce m; md_name := md_name m; md_creator := md_creator m; md_royalties := x;
     md_hash := md_hash m; md_uris := md_uris m; md_attributes := md_attributes m |}.
Definition md_set_hash (m : metadata) (x : bytes) : metadata :=
  {| md_nonce := md_nonce m; md_name := md_name m; md_creator := md_creator m; md_royalties := md_royalties m;
     md_hash := x; md_uris := md_uris m; md_attributes := md_attributes m |}.

(* func (m *MetaData) Unmarshal: switch fieldNum *)
Definition metadata_kind (fieldNum : N) : option (fkind metadata) :=
  if fieldNum =? 1 then Some (KVarint (fun m v => md_set_nonce m v))                     (* uint64 *)
  else if fieldNum =? 2 then Some (KBytes (fun m s => Ok (md_set_name m s)))
  else if fieldNum =? 3 then Some (KBytes (fun m s => Ok (md_set_creator m s)))
  else if fieldNum =? 4 then Some (KVarint (fun m v => md_set_royalties m (v mod two32))) (* uint32 accumulator *)
  else if fieldNum =? 5 then Some (KBytes (fun m s => Ok (md_set_hash m s)))
  else if fieldNum =? 6 then Some (KBytes (fun m s => Ok (set_uris m (md_uris m ++ [s]))))  (* append *)
  else if fieldNum =? 7 then Some (KBytes (fun m s => Ok (set_attributes m s)))
  else None.
Definition unmarshal_metadata : metadata -> bytes -> R metadata := unmarshal_from metadata_kind.

(* func (m *ESDTRoles) Unmarshal *)
Definition roles_kind (fieldNum : N) : option (fkind roles) :=
  if fieldNum =? 1 then Some (KBytes (fun m s => Ok (m ++ [s]))) else None.
Definition unmarshal_roles : roles -> bytes -> R roles := unmarshal_from roles_kind.

(* func (m *ESDigitalToken) Unmarshal *)
Definition token_kind (fieldNum : N) : option (fkind token) :=
  if fieldNum =? 1 then Some (KVarint (fun m v => tk_set_type m (v mod two32)))          (* uint32 accumulator *)
  else if fieldNum =? 2 then
    Some (KBytes (fun m s => match caster_unmarshal s with
                             | Some v => Ok (set_value m v)
                             | None => Err EBadValue
                             end))
  else if fieldNum =? 3 then Some (KBytes (fun m s => Ok (set_props m s)))
  else if fieldNum =? 4 then
    (* if m.TokenMetaData == nil { m.TokenMetaData = &MetaData{} }; m.TokenMetaData.Unmarshal(sub) *)
    Some (KBytes (fun m s =>
            let md0 := match t_meta m with Some x => x | None => empty_metadata end in
            match unmarshal_metadata md0 s with
            | Ok md => Ok (set_meta m (Some md))
            | Err e => Err e
            | Panic => Panic
            end))
  else if fieldNum =? 5 then Some (KBytes (fun m s => Ok (tk_set_reserved m s)))
  else None.
Definition unmarshal_token : token -> bytes -> R token := unmarshal_from token_kind.

(* the production adapter: obj.Reset(); obj.Unmarshal(b) *)
Definition dec_token_res (b : bytes) : R token := unmarshal_token empty_token b.
Definition dec_metadata_res (b : bytes) : R metadata := unmarshal_metadata empty_metadata b.
Definition dec_roles_res (b : bytes) : R roles := unmarshal_roles [] b.

Definition res_to_option {A} (r : R A) : option A := match r with Ok a => Some a | _ => None end.
Definition dec_token (b : bytes) : option token := res_to_option (dec_token_res b).
Definition dec_metadata (b : bytes) : option metadata := res_to_option (dec_metadata_res b).
Definition dec_roles (b : bytes) : option roles := res_to_option (dec_roles_res b).
