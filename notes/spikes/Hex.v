(* Feasibility spike: hex codec and '@' tokenizer round trip (C10/C12 core). *)
From Coq Require Import List NArith ZArith Lia Bool.
From Coq Require Import ZifyN ZifyNat ZifyBool.
From Coq.Strings Require Import Byte.
Import ListNotations.
Open Scope N_scope.
Ltac Zify.zify_post_hook ::= Z.div_mod_to_equations.

Definition bytes := list byte.
Definition b2n (b : byte) : N := Byte.to_N b.
Definition n2b (n : N) : byte := match Byte.of_N (n mod 256) with Some b => b | None => x00 end.
Lemma b2n_lt b : b2n b < 256. Proof. pose proof (Byte.to_N_bounded b). unfold b2n. lia. Qed.
Lemma b2n_n2b n : n < 256 -> b2n (n2b n) = n.
Proof.
  intros H. unfold b2n, n2b. rewrite N.mod_small by lia.
  destruct (Byte.of_N n) eqn:E.
  - apply Byte.to_of_N in E. auto.
  - exfalso. pose proof (Byte.of_N_None_iff n). rewrite E in H0. destruct H0 as [H0 _]. specialize (H0 eq_refl). lia.
Qed.
Lemma n2b_b2n b : n2b (b2n b) = b.
Proof. unfold n2b, b2n. rewrite N.mod_small by (pose proof (Byte.to_N_bounded b); lia). rewrite Byte.of_to_N. reflexivity. Qed.

(* lower-case hex digit of a nibble, as encoding/hex.EncodeToString *)
Definition hexdigit (n : N) : byte := if n <? 10 then n2b (48 + n) else n2b (87 + n).
(* value of a hex digit, upper or lower case, as encoding/hex.DecodeString *)
Definition hexval (b : byte) : option N :=
  let c := b2n b in
  if (48 <=? c) && (c <=? 57) then Some (c - 48)
  else if (97 <=? c) && (c <=? 102) then Some (c - 87)
  else if (65 <=? c) && (c <=? 70) then Some (c - 55)
  else None.
Lemma hexval_hexdigit n : n < 16 -> hexval (hexdigit n) = Some n.
Proof.
  intros H. unfold hexval, hexdigit. destruct (n <? 10) eqn:E.
  - rewrite b2n_n2b by lia. replace ((48 <=? 48 + n) && (48 + n <=? 57)) with true by lia. f_equal. lia.
  - rewrite b2n_n2b by lia. replace ((48 <=? 87 + n) && (87 + n <=? 57)) with false by lia.
    replace ((97 <=? 87 + n) && (87 + n <=? 102)) with true by lia. f_equal. lia.
Qed.

Fixpoint hex_enc (l : bytes) : bytes :=
  match l with [] => [] | b :: r => hexdigit (b2n b / 16) :: hexdigit (b2n b mod 16) :: hex_enc r end.
Fixpoint hex_dec (l : bytes) : option bytes :=
  match l with
  | [] => Some []
  | [_] => None                                      (* odd length *)
  | h :: lo :: r =>
    match hexval h, hexval lo, hex_dec r with
    | Some a, Some b, Some t => Some (n2b (a * 16 + b) :: t)
    | _, _, _ => None
    end
  end.

Theorem hex_roundtrip l : hex_dec (hex_enc l) = Some l.
Proof.
  induction l as [|b r IH]; [reflexivity|]. cbn [hex_enc hex_dec].
  pose proof (b2n_lt b).
  rewrite !hexval_hexdigit by (try apply N.div_lt_upper_bound; try apply N.mod_upper_bound; lia).
  rewrite IH. f_equal. f_equal.
  replace (b2n b / 16 * 16 + b2n b mod 16) with (b2n b) by (pose proof (N.div_mod (b2n b) 16); lia).
  apply n2b_b2n.
Qed.

Definition at_ : byte := x40.
Definition is_at (b : byte) : bool := N.eqb (b2n b) 64.
Lemma hexdigit_not_at n : n < 16 -> is_at (hexdigit n) = false.
Proof. intros H. unfold is_at, hexdigit. destruct (n <? 10) eqn:E; rewrite b2n_n2b by lia; lia. Qed.

(* strings.Split(data, "@") *)
Fixpoint split_at (cur : bytes) (l : bytes) : list bytes :=
  match l with
  | [] => [rev cur]
  | b :: r => if is_at b then rev cur :: split_at [] r else split_at (b :: cur) r
  end.
Definition noat (l : bytes) : Prop := Forall (fun b => is_at b = false) l.
Lemma hex_enc_noat l : noat (hex_enc l).
Proof.
  induction l as [|b r IH]; [constructor|]. cbn [hex_enc]. pose proof (b2n_lt b).
  constructor; [apply hexdigit_not_at; apply N.div_lt_upper_bound; lia|].
  constructor; [apply hexdigit_not_at; apply N.mod_upper_bound; lia|exact IH].
Qed.

Lemma split_noat cur l rest : noat l ->
  split_at cur (l ++ rest) = match rest with
                             | [] => [rev cur ++ l]
                             | _ => split_at (rev l ++ cur) rest end.
Proof.
  revert cur. induction l as [|b r IH]; intros cur Hn; cbn [app].
  - destruct rest; [simpl; rewrite app_nil_r; reflexivity|reflexivity].
  - inversion Hn; subst. cbn [split_at]. rewrite H1. rewrite IH by assumption.
    destruct rest.
    + simpl. rewrite <- app_assoc. reflexivity.
    + simpl. rewrite <- app_assoc. reflexivity.
Qed.

(* the message encoder of the built-ins and of the tx-data builder *)
Definition build (f : bytes) (args : list bytes) : bytes :=
  f ++ concat (map (fun a => at_ :: hex_enc a) args).

Lemma split_args cur args : 
  split_at cur (concat (map (fun a => at_ :: hex_enc a) args)) =
  match args with [] => [rev cur] | _ => rev cur :: map hex_enc args end.
Proof.
  revert cur. induction args as [|a r IH]; intros cur; [reflexivity|].
  cbn [map concat app]. cbn [split_at]. change (is_at at_) with true. cbv iota.
  f_equal. rewrite split_noat by apply hex_enc_noat.
  destruct r as [|a2 r2].
  - simpl. reflexivity.
  - cbn [map concat]. cbn [app]. cbn [map concat] in IH. rewrite IH. simpl. rewrite app_nil_r, rev_involutive. reflexivity.
Qed.

Theorem tokenize_build f args : noat f ->
  split_at [] (build f args) = f :: map hex_enc args.
Proof.
  intros Hf. unfold build. rewrite split_noat by assumption.
  destruct args as [|a r]; [reflexivity|].
  cbn [map concat]. cbn [app]. pose proof (split_args (rev f ++ []) (a :: r)) as H.
  cbn [map concat app] in H. rewrite H. rewrite app_nil_r, rev_involutive. reflexivity.
Qed.

(* call-arguments parser: tokens[0] must be non-empty; every other token hex-decodes *)
Fixpoint decode_all (l : list bytes) : option (list bytes) :=
  match l with [] => Some [] | t :: r => match hex_dec t, decode_all r with Some a, Some b => Some (a :: b) | _, _ => None end end.
Definition parse_call (data : bytes) : option (bytes * list bytes) :=
  match split_at [] data with
  | [] => None
  | [] :: _ => None
  | f :: toks => match decode_all toks with Some a => Some (f, a) | None => None end
  end.
Lemma decode_all_enc args : decode_all (map hex_enc args) = Some args.
Proof. induction args as [|a r IH]; [reflexivity|]. simpl. rewrite hex_roundtrip, IH. reflexivity. Qed.

Theorem parse_build f args : f <> [] -> noat f -> parse_call (build f args) = Some (f, args).
Proof.
  intros Hne Hf. unfold parse_call. rewrite tokenize_build by assumption.
  destruct f; [congruence|]. rewrite decode_all_enc. reflexivity.
Qed.
Print Assumptions parse_build.
