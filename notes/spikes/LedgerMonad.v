(* Feasibility spike: monadic model of addToESDTBalance over an abstract codec, with
   (1) a characterising lemma for fault-free and faulty plans alike,
   (2) the C17-style statement "Ok implies no planned fault in the window",
   (3) the account-sum lemma conservation proofs need. *)
From Coq Require Import List NArith ZArith Lia Bool.
From Coq.Strings Require Import Byte.
Import ListNotations.

Definition bytes := list byte.
Definition beqb (a b : bytes) : bool := if list_eq_dec Byte.byte_eq_dec a b then true else false.
Lemma beqb_true a b : beqb a b = true <-> a = b.
Proof. unfold beqb; destruct (list_eq_dec _ a b); split; congruence. Qed.
Lemma beqb_refl a : beqb a a = true. Proof. apply beqb_true; reflexivity. Qed.
Lemma beqb_false a b : a <> b -> beqb a b = false.
Proof. intros H; destruct (beqb a b) eqn:E; [apply beqb_true in E; congruence|reflexivity]. Qed.

Definition store := list (bytes * bytes).
Fixpoint sget (s : store) (k : bytes) : bytes :=
  match s with [] => [] | (k', v) :: r => if beqb k k' then v else sget r k end.
Definition sput (s : store) (k v : bytes) : store := (k, v) :: s.
Lemma sget_put_eq s k v : sget (sput s k v) k = v.
Proof. simpl. rewrite beqb_refl. reflexivity. Qed.
Lemma sget_put_ne s k k' v : k' <> k -> sget (sput s k v) k' = sget s k'.
Proof. simpl. intros H. rewrite beqb_false; auto. Qed.
Global Opaque sget sput.

Inductive err := EType | EFrozen | EPaused | EFunds | EDecode | EFault.
Inductive res (A : Type) := Ok (a : A) | Err (e : err) | Panic.
Arguments Ok {A}. Arguments Err {A}. Arguments Panic {A}.

Record token := { tType : N; tValue : Z; tProps : bytes; tMeta : option bytes }.

Record mstate := { st : store; calls : nat }.
Definition M (A : Type) := mstate -> res A * mstate.
Definition ret {A} (a : A) : M A := fun s => (Ok a, s).
Definition fail {A} (e : err) : M A := fun s => (Err e, s).
Definition bind {A B} (m : M A) (f : A -> M B) : M B :=
  fun s => match m s with
           | (Ok a, s') => f a s'
           | (Err e, s') => (Err e, s')
           | (Panic, s') => (Panic, s')
           end.
Notation "x <- m ;; f" := (bind m (fun x => f)) (at level 61, m at next level, right associativity).
Notation "m ;;; f" := (bind m (fun _ => f)) (at level 61, right associativity).
Definition guard (b : bool) (e : err) : M unit := if b then ret tt else fail e.

Lemma bind_ok {A B} (m : M A) (f : A -> M B) s b s' :
  bind m f s = (Ok b, s') -> exists a s1, m s = (Ok a, s1) /\ f a s1 = (Ok b, s').
Proof. unfold bind. destruct (m s) as [[a|e|] s1]; intros H; try discriminate. eauto. Qed.
Lemma guard_ok b e s u s' : guard b e s = (Ok u, s') -> b = true /\ s' = s.
Proof. unfold guard, ret, fail. destruct b; intros H; inversion H; auto. Qed.
Lemma ret_ok {A} (a : A) s b s' : ret a s = (Ok b, s') -> b = a /\ s' = s.
Proof. unfold ret. intros H; inversion H; auto. Qed.
Lemma fail_ok {A} e s (b : A) s' : fail e s = (Ok b, s') -> False.
Proof. unfold fail. discriminate. Qed.

Section Ledger.
  Variable plan : nat -> bool.                 (* does the k-th dependency call fail? *)
  Variable enc : token -> bytes.
  Variable dec : bytes -> option token.
  Hypothesis dec_enc : forall t, dec (enc t) = Some t.
  Hypothesis enc_nonempty : forall t, enc t <> [].
  Variable paused : bytes -> bool.

  Definition dep : M unit := fun s =>
    if plan (calls s) then (Err EFault, {| st := st s; calls := S (calls s) |})
    else (Ok tt, {| st := st s; calls := S (calls s) |}).
  Definition retrieve (k : bytes) : M bytes := fun s => (Ok (sget (st s) k), s).
  Definition write (k v : bytes) : M unit := fun s => (Ok tt, {| st := sput (st s) k v; calls := calls s |}).
  Definition save (k v : bytes) : M unit := dep ;;; write k v.

  Lemma dep_ok s u s' : dep s = (Ok u, s') -> plan (calls s) = false /\ st s' = st s /\ calls s' = S (calls s).
  Proof. unfold dep. destruct (plan (calls s)); intros H; inversion H; auto. Qed.
  Lemma retrieve_ok k s b s' : retrieve k s = (Ok b, s') -> b = sget (st s) k /\ s' = s.
  Proof. unfold retrieve. intros H; inversion H; auto. Qed.
  Lemma write_ok k v s u s' : write k v s = (Ok u, s') -> st s' = sput (st s) k v /\ calls s' = calls s.
  Proof. unfold write. intros H; inversion H; auto. Qed.

  Definition defaultTok := {| tType := 0; tValue := 0; tProps := []; tMeta := None |}.
  Definition unmarshal (b : bytes) : M token :=
    dep ;;; match dec b with Some t => ret t | None => fail EDecode end.
  Definition marshal (t : token) : M bytes := dep ;;; ret (enc t).
  Definition getData (k : bytes) : M token :=
    b <- retrieve k ;;
    match b with [] => ret defaultTok | _ => unmarshal b end.
  Definition frozen (p : bytes) : bool :=
    match p with [b0; _] => N.odd (Byte.to_N b0) | _ => false end.
  Definition allZero (p : bytes) := forallb (fun b => N.eqb (Byte.to_N b) 0) p.

  Definition saveData (k : bytes) (t : token) : M unit :=
    if (Z.eqb (tValue t) 0 && allZero (tProps t))%bool then save k []
    else (b <- marshal t ;; save k b).

  Definition withValue (t : token) (v : Z) := {| tType := tType t; tValue := v; tProps := tProps t; tMeta := tMeta t |}.

  Definition addToBalance (k : bytes) (v : Z) (rae : bool) : M unit :=
    t <- getData k ;;
    guard (N.eqb (tType t) 0) EType ;;;
    guard (rae || negb (frozen (tProps t))) EFrozen ;;;
    guard (rae || negb (paused k)) EPaused ;;;
    let t' := withValue t (tValue t + v) in
    guard (0 <=? tValue t')%Z EFunds ;;;
    saveData k t'.

  Definition entry (s : store) (k : bytes) : option token :=
    match sget s k with [] => Some defaultTok | b => dec b end.
  Definition balance (s : store) (k : bytes) : Z :=
    match entry s k with Some t => tValue t | None => 0%Z end.

  Ltac minv :=
    repeat match goal with
    | H : bind _ _ _ = (Ok _, _) |- _ => apply bind_ok in H; destruct H as (? & ? & ? & ?)
    | H : guard _ _ _ = (Ok _, _) |- _ => apply guard_ok in H; destruct H as [? ?]; subst
    | H : ret _ _ = (Ok _, _) |- _ => apply ret_ok in H; destruct H as [? ?]; subst
    | H : fail _ _ = (Ok _, _) |- _ => apply fail_ok in H; contradiction
    | H : dep _ = (Ok _, _) |- _ => apply dep_ok in H; destruct H as (? & ? & ?)
    | H : retrieve _ _ = (Ok _, _) |- _ => apply retrieve_ok in H; destruct H as [? ?]; subst
    | H : write _ _ _ = (Ok _, _) |- _ => apply write_ok in H; destruct H as [? ?]
    end.

  (* window of dependency calls made between two states contains no planned fault *)
  Definition clean (s s' : mstate) := calls s <= calls s' /\ forall n, calls s <= n < calls s' -> plan n = false.
  Lemma clean_refl s : clean s s. Proof. split; [lia|intros; lia]. Qed.
  Lemma clean_trans a b c : clean a b -> clean b c -> clean a c.
  Proof. intros [H1 H2] [H3 H4]. split; [lia|]. intros n Hn. destruct (Nat.lt_ge_cases n (calls b)); [apply H2|apply H4]; lia. Qed.
  Lemma clean_dep s s' : plan (calls s) = false -> calls s' = S (calls s) -> clean s s'.
  Proof. intros Hp Hc. split; [lia|]. intros n Hn. assert (n = calls s) by lia. subst. exact Hp. Qed.
  Lemma clean_eqcalls s s' : calls s' = calls s -> clean s s'.
  Proof. intros H. split; [lia|intros; lia]. Qed.

  Lemma getData_ok k s t s' : getData k s = (Ok t, s') ->
    entry (st s) k = Some t /\ st s' = st s /\ clean s s'.
  Proof.
    unfold getData, unmarshal, entry. intros H. minv.
    destruct (sget (st s) k) as [|b0 br] eqn:E; minv; [split; [reflexivity|split; [reflexivity|apply clean_refl]]|].
    destruct (dec (b0 :: br)) eqn:D; minv. split; [congruence|]. split; [congruence|].
    apply clean_dep; auto.
  Qed.

  Lemma saveData_ok k t s u s' : saveData k t s = (Ok u, s') ->
    entry (st s') k = Some (if (Z.eqb (tValue t) 0 && allZero (tProps t))%bool then defaultTok else t)
    /\ (forall k', k' <> k -> sget (st s') k' = sget (st s) k') /\ clean s s'.
  Proof.
    unfold saveData, save, marshal, entry. intros H.
    destruct (_ && _)%bool; minv.
    - match goal with H : st s' = _ |- _ => rewrite H end. rewrite sget_put_eq. split; [reflexivity|split].
      + intros; rewrite sget_put_ne by auto. congruence.
      + eapply clean_trans; [apply clean_dep; eauto|apply clean_eqcalls; auto].
    - match goal with H : st s' = _ |- _ => rewrite H end. rewrite sget_put_eq. split; [|split].
      + destruct (enc t) eqn:E; [exfalso; eapply enc_nonempty; eauto|]. rewrite <- E. apply dec_enc.
      + intros; rewrite sget_put_ne by auto. congruence.
      + eapply clean_trans; [apply clean_dep; eauto|].
        eapply clean_trans; [apply clean_dep; eauto|apply clean_eqcalls; auto].
  Qed.

  (* one lemma gives C02-style exactness, C02 no-overdraft, C05 frame and C17 *)
  Lemma addToBalance_spec k v rae s u s' :
    addToBalance k v rae s = (Ok u, s') ->
    (0 <= balance (st s) k + v)%Z /\ balance (st s') k = (balance (st s) k + v)%Z
    /\ (forall k', k' <> k -> sget (st s') k' = sget (st s) k')
    /\ clean s s'.
  Proof.
    unfold addToBalance. intros H. minv.
    match goal with H : getData _ _ = _ |- _ => apply getData_ok in H as (He & Hs & Hc1) end.
    match goal with H : saveData _ _ _ = _ |- _ => apply saveData_ok in H as (He' & Hf & Hc2) end.
    unfold balance. rewrite He, He'. simpl in *.
    split; [lia|]. split; [|split].
    - destruct (_ && _)%bool eqn:Z0; simpl; [apply andb_prop in Z0; lia| reflexivity].
    - intros. rewrite Hf by auto. congruence.
    - eapply clean_trans; eauto.
  Qed.
End Ledger.

(* accounts: association list with in-place update, keys stay NoDup *)
Section Sums.
  Variable A : Type.
  Definition amap := list (bytes * A).
  Variable dflt : A.
  Fixpoint aget (l : amap) (a : bytes) : A :=
    match l with [] => dflt | (a', x) :: r => if beqb a a' then x else aget r a end.
  Fixpoint aput (l : amap) (a : bytes) (x : A) : amap :=
    match l with [] => [(a, x)] | (a', y) :: r => if beqb a a' then (a', x) :: r else (a', y) :: aput r a x end.
  Variable f : A -> Z.
  Hypothesis f_dflt : f dflt = 0%Z.
  Fixpoint asum (l : amap) : Z := match l with [] => 0%Z | (_, x) :: r => (f x + asum r)%Z end.

  Lemma asum_aput l a x : NoDup (map fst l) -> asum (aput l a x) = (asum l - f (aget l a) + f x)%Z.
  Proof.
    induction l as [|[a' y] r IH]; simpl; intros Hnd.
    - rewrite f_dflt. lia.
    - inversion Hnd; subst. destruct (beqb a a') eqn:E; simpl.
      + lia.
      + rewrite IH by assumption. lia.
  Qed.
  Lemma keys_aput l a x : NoDup (map fst l) -> NoDup (map fst (aput l a x)).
  Proof.
    induction l as [|[a' y] r IH]; simpl; intros Hnd.
    - constructor; [intros []|constructor].
    - inversion Hnd; subst. destruct (beqb a a') eqn:E; simpl; [exact Hnd|].
      constructor; [|auto]. intros Hin.
      assert (Hsub : forall l0, In a' (map fst (aput l0 a x)) -> In a' (map fst l0) \/ a' = a).
      { clear. induction l0 as [|[b z] r0 IH0]; simpl; [intros [H|[]]; auto|].
        destruct (beqb a b); simpl; intros [H|H]; auto. destruct (IH0 H); auto. }
      destruct (Hsub _ Hin) as [H|H]; [contradiction|]. subst. rewrite beqb_refl in E. discriminate.
  Qed.
End Sums.
Print Assumptions addToBalance_spec.
Print Assumptions asum_aput.
