(* Feasibility spike: Go slices over a heap of backing arrays (C13) and the aliasing
   behaviour of OutputAccount.MergeOutputAccounts (C20). *)
From Coq Require Import List Arith ZArith Lia Bool.
Import ListNotations.

Section Slices.
  Variable E : Type.                              (* element type *)
  Variable junk : E.
  Definition heap := nat -> list E.               (* array id -> contents (length = capacity) *)
  Record slice := { arr : nat; len : nat; cap : nat }.
  Definition upd (h : heap) (i : nat) (l : list E) : heap := fun j => if Nat.eqb j i then l else h j.
  Definition view (h : heap) (s : slice) : list E := firstn (len s) (h (arr s)).

  (* append(s, xs...): in place when capacity suffices, otherwise a fresh array `fresh` *)
  Definition go_append (h : heap) (fresh : nat) (s : slice) (xs : list E) : heap * slice :=
    if len s + length xs <=? cap s then
      (upd h (arr s) (firstn (len s) (h (arr s)) ++ xs ++ skipn (len s + length xs) (h (arr s))),
       {| arr := arr s; len := len s + length xs; cap := cap s |})
    else
      (upd h fresh (firstn (len s) (h (arr s)) ++ xs),
       {| arr := fresh; len := len s + length xs; cap := len s + length xs |}).

  Definition wf (h : heap) (s : slice) := len s <= cap s /\ length (h (arr s)) = cap s.

  Lemma upd_same h i l : upd h i l i = l. Proof. unfold upd. rewrite Nat.eqb_refl. reflexivity. Qed.
  Lemma upd_other h i l j : j <> i -> upd h i l j = h j.
  Proof. unfold upd. intros H. apply Nat.eqb_neq in H. rewrite H. reflexivity. Qed.

  (* 1. the visible part of the appended-to slice never changes, whatever the capacity *)
  Theorem append_keeps_view h fresh s xs : wf h s -> fresh <> arr s ->
    view (fst (go_append h fresh s xs)) s = view h s.
  Proof.
    intros [Hl Hc] Hf. unfold go_append, view. destruct (len s + length xs <=? cap s) eqn:Ecap; simpl.
    - rewrite upd_same. rewrite firstn_app. rewrite firstn_firstn, Nat.min_id.
      rewrite firstn_length, Hc, Nat.min_l by lia. rewrite Nat.sub_diag. simpl. rewrite app_nil_r. reflexivity.
    - rewrite upd_other by auto. reflexivity.
  Qed.

  (* 2. arrays other than the slice's own (and the fresh one) are never written *)
  Theorem append_frame h fresh s xs j : j <> arr s -> j <> fresh -> fst (go_append h fresh s xs) j = h j.
  Proof.
    intros H1 H2. unfold go_append. destruct (_ <=? _); simpl; rewrite upd_other; auto.
  Qed.

  (* 3. a full slice (cap = len) is never written at all by a non-empty append: the key prefixes *)
  Theorem append_full_allocates h fresh s xs : len s = cap s -> xs <> [] -> fresh <> arr s ->
    fst (go_append h fresh s xs) (arr s) = h (arr s) /\ arr (snd (go_append h fresh s xs)) = fresh.
  Proof.
    intros Hfull Hne Hf. unfold go_append.
    assert (length xs > 0) by (destruct xs; [congruence|simpl; lia]).
    replace (len s + length xs <=? cap s) with false by (symmetry; apply Nat.leb_gt; lia).
    simpl. split; [apply upd_other; auto|reflexivity].
  Qed.

  (* the result views what it should *)
  Theorem append_view h fresh s xs : wf h s ->
    view (fst (go_append h fresh s xs)) (snd (go_append h fresh s xs)) = view h s ++ xs.
  Proof.
    intros [Hl Hc]. unfold go_append, view. destruct (len s + length xs <=? cap s) eqn:Ecap; simpl; rewrite upd_same.
    - apply Nat.leb_le in Ecap. rewrite app_assoc. rewrite firstn_app.
      assert (Hlen : length (firstn (len s) (h (arr s)) ++ xs) = len s + length xs)
        by (rewrite app_length, firstn_length, Hc, Nat.min_l by lia; reflexivity).
      rewrite Hlen, Nat.sub_diag. simpl. rewrite app_nil_r.
      rewrite <- Hlen at 1. apply firstn_all.
    - assert (Hlen : length (firstn (len s) (h (arr s)) ++ xs) = len s + length xs)
        by (rewrite app_length, firstn_length, Hc, Nat.min_l by lia; reflexivity).
      rewrite <- Hlen. apply firstn_all.
  Qed.
End Slices.

(* MergeOutputAccounts on a heap of *big.Int cells and OutputTransfer arrays *)
Section Merge.
  Definition cells := nat -> Z.
  Record oacc := { bdelta : option nat; bal : option nat; transfers : slice }.
  Record mheap := { ints : cells; arrs : heap nat; nextInt : nat; nextArr : nat }.
  Definition setc (c : cells) (i : nat) (z : Z) : cells := fun j => if Nat.eqb j i then z else c j.

  Definition merge (h : mheap) (o a : oacc) : mheap * oacc :=
    let bal' := match bal a with Some p => Some p | None => bal o end in          (* pointer copy *)
    let '(h1, od) := match bdelta o with
                     | Some p => (h, p)
                     | None => ({| ints := setc (ints h) (nextInt h) 0%Z; arrs := arrs h;
                                   nextInt := S (nextInt h); nextArr := nextArr h |}, nextInt h)
                     end in
    let h2 := match bdelta a with
              | Some q => {| ints := setc (ints h1) od (ints h1 od + ints h1 q)%Z; arrs := arrs h1;
                             nextInt := nextInt h1; nextArr := nextArr h1 |}
              | None => h1 end in
    let la := len (transfers a) in let lo := len (transfers o) in
    if lo <? la then
      let xs := skipn lo (view nat (arrs h2) (transfers a)) in
      let '(ar, s') := go_append nat (arrs h2) (nextArr h2) (transfers o) xs in
      ({| ints := ints h2; arrs := ar; nextInt := nextInt h2; nextArr := S (nextArr h2) |},
       {| bdelta := Some od; bal := bal'; transfers := s' |})
    else (h2, {| bdelta := Some od; bal := bal'; transfers := transfers o |}).

  (* ownership: the cells merge may WRITE through o are o's delta cell and o's transfer array *)
  Definition owns_disjoint (h : mheap) (o a : oacc) : Prop :=
    (forall p q, bdelta o = Some p -> bdelta a = Some q -> p <> q) /\
    (forall p q, bdelta o = Some p -> bal a = Some q -> p <> q) /\
    arr (transfers o) <> arr (transfers a) /\
    (forall q, bdelta a = Some q -> q < nextInt h) /\ (forall q, bal a = Some q -> q < nextInt h) /\
    arr (transfers a) < nextArr h.

  (* what an observer holding `a` can see *)
  Definition observe (h : mheap) (a : oacc) :=
    (option_map (ints h) (bdelta a), option_map (ints h) (bal a), view nat (arrs h) (transfers a)).

  Theorem merge_does_not_mutate_argument h o a :
    owns_disjoint h o a -> observe (fst (merge h o a)) a = observe h a.
  Proof.
    intros (Hd1 & Hd2 & Harr & Hq1 & Hq2 & Hn). unfold merge, observe.
    destruct (bdelta o) as [p|] eqn:Eo.
    - (* o has its own cell p *)
      destruct (bdelta a) as [q|] eqn:Ea; simpl.
      + destruct (len (transfers o) <? len (transfers a)) eqn:El.
        * destruct (go_append _ _ _ _ _) as [ar s'] eqn:Eg. simpl.
          assert (Hp : p <> q) by (eapply Hd1; eauto).
          unfold setc. replace (Nat.eqb q p) with false by (symmetry; apply Nat.eqb_neq; auto).
          f_equal; [f_equal|].
          -- destruct (bal a) as [r|] eqn:Eb; simpl; [|reflexivity].
             assert (p <> r) by (eapply Hd2; eauto).
             replace (Nat.eqb r p) with false by (symmetry; apply Nat.eqb_neq; auto). reflexivity.
          -- unfold view. replace ar with (fst (go_append nat (arrs h) (nextArr h) (transfers o)
                (skipn (len (transfers o)) (firstn (len (transfers a)) (arrs h (arr (transfers a)))))))
               by (unfold view in Eg; rewrite Eg; reflexivity).
             rewrite append_frame; auto. lia.
        * simpl. assert (Hp : p <> q) by (eapply Hd1; eauto).
          unfold setc. replace (Nat.eqb q p) with false by (symmetry; apply Nat.eqb_neq; auto).
          f_equal. f_equal. destruct (bal a) as [r|] eqn:Eb; simpl; [|reflexivity].
          assert (p <> r) by (eapply Hd2; eauto).
          replace (Nat.eqb r p) with false by (symmetry; apply Nat.eqb_neq; auto). reflexivity.
      + destruct (len (transfers o) <? len (transfers a)) eqn:El.
        * destruct (go_append _ _ _ _ _) as [ar s'] eqn:Eg. simpl. f_equal.
          unfold view. replace ar with (fst (go_append nat (arrs h) (nextArr h) (transfers o)
                (skipn (len (transfers o)) (firstn (len (transfers a)) (arrs h (arr (transfers a)))))))
               by (unfold view in Eg; rewrite Eg; reflexivity).
          rewrite append_frame; auto. lia.
        * reflexivity.
    - (* o's delta was nil: a fresh cell nextInt h is allocated and written *)
      destruct (bdelta a) as [q|] eqn:Ea; simpl.
      + assert (Hq : q < nextInt h) by auto.
        destruct (len (transfers o) <? len (transfers a)) eqn:El.
        * destruct (go_append _ _ _ _ _) as [ar s'] eqn:Eg. simpl.
          unfold setc. rewrite Nat.eqb_refl.
          replace (Nat.eqb q (nextInt h)) with false by (symmetry; apply Nat.eqb_neq; lia).
          f_equal; [f_equal|].
          -- destruct (bal a) as [r|] eqn:Eb; simpl; [|reflexivity].
             assert (r < nextInt h) by auto.
             replace (Nat.eqb r (nextInt h)) with false by (symmetry; apply Nat.eqb_neq; lia). reflexivity.
          -- unfold view. replace ar with (fst (go_append nat (arrs h) (nextArr h) (transfers o)
                (skipn (len (transfers o)) (firstn (len (transfers a)) (arrs h (arr (transfers a)))))))
               by (unfold view in Eg; simpl in Eg; rewrite Eg; reflexivity).
             rewrite append_frame; auto. lia.
        * simpl. unfold setc. rewrite Nat.eqb_refl.
          replace (Nat.eqb q (nextInt h)) with false by (symmetry; apply Nat.eqb_neq; lia).
          f_equal. f_equal. destruct (bal a) as [r|] eqn:Eb; simpl; [|reflexivity].
          assert (r < nextInt h) by auto.
          replace (Nat.eqb r (nextInt h)) with false by (symmetry; apply Nat.eqb_neq; lia). reflexivity.
      + destruct (len (transfers o) <? len (transfers a)) eqn:El.
        * destruct (go_append _ _ _ _ _) as [ar s'] eqn:Eg. simpl. f_equal; [f_equal|].
          -- destruct (bal a) as [r|] eqn:Eb; simpl; [|reflexivity].
             assert (r < nextInt h) by auto. unfold setc.
             replace (Nat.eqb r (nextInt h)) with false by (symmetry; apply Nat.eqb_neq; lia). reflexivity.
          -- unfold view. replace ar with (fst (go_append nat (arrs h) (nextArr h) (transfers o)
                (skipn (len (transfers o)) (firstn (len (transfers a)) (arrs h (arr (transfers a)))))))
               by (unfold view in Eg; simpl in Eg; rewrite Eg; reflexivity).
             rewrite append_frame; auto. lia.
        * simpl. f_equal. f_equal. destruct (bal a) as [r|] eqn:Eb; simpl; [|reflexivity].
          assert (r < nextInt h) by auto. unfold setc.
          replace (Nat.eqb r (nextInt h)) with false by (symmetry; apply Nat.eqb_neq; lia). reflexivity.
  Qed.
End Merge.
Print Assumptions merge_does_not_mutate_argument.
Print Assumptions append_view.
