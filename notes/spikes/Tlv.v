(* Feasibility spike: protobuf tag-length-value layer on top of the varint lemma (C14 core).
   encode: list of fields -> bytes ; decode: bytes -> list of fields ; round trip. *)
From Coq Require Import List NArith ZArith Lia Bool.
From Coq Require Import ZifyN ZifyNat ZifyBool.
From Coq.Strings Require Import Byte.
Import ListNotations.
Require Import Varint.
Open Scope N_scope.
Arguments enc_varint : simpl never.
Arguments dec_varint : simpl never.
Arguments N.pow : simpl never.
Ltac Zify.zify_post_hook ::= Z.div_mod_to_equations.

Inductive wire := WVarint (n : N) | WBytes (b : bytes).
Definition field := (N * wire)%type.          (* field number, payload *)

Definition len (l : bytes) : N := N.of_nat (length l).
Definition enc_field (f : field) : bytes :=
  match f with
  | (num, WVarint n) => enc_varint 9 (num * 8 + 0) ++ enc_varint 9 n
  | (num, WBytes b) => enc_varint 9 (num * 8 + 2) ++ enc_varint 9 (len b) ++ b
  end.
Definition enc_fields (fs : list field) : bytes := concat (map enc_field fs).

(* one field; None = malformed (all error classes collapsed) *)
Definition dec_field (l : bytes) : option (field * bytes) :=
  match dec_varint 10 0 0 l with
  | DOk tag r =>
    let num := tag / 8 in
    if num =? 0 then None else
    match tag mod 8 with
    | 0 => match dec_varint 10 0 0 r with DOk n r' => Some ((num, WVarint n), r') | _ => None end
    | 2 => match dec_varint 10 0 0 r with
           | DOk n r' => if (n <? 2 ^ 63) && (n <=? len r')
                         then Some ((num, WBytes (firstn (N.to_nat n) r')), skipn (N.to_nat n) r')
                         else None
           | _ => None end
    | _ => None          (* other wire types: skipping logic omitted in the spike *)
    end
  | _ => None
  end.
Fixpoint dec_fields (fuel : nat) (l : bytes) : option (list field) :=
  match l with
  | [] => Some []
  | _ => match fuel with
         | O => None
         | S f => match dec_field l with
                  | Some (fd, r) => match dec_fields f r with Some fs => Some (fd :: fs) | None => None end
                  | None => None
                  end
         end
  end.

Definition wf_field (f : field) : Prop :=
  let '(num, w) := f in
  0 < num /\ num < 2 ^ 29 /\
  match w with WVarint n => n < 2 ^ 64 | WBytes b => len b < 2 ^ 63 end.

Lemma pow_facts : 2 ^ 29 = 536870912 /\ 2 ^ 63 = 9223372036854775808 /\ 2 ^ 64 = 18446744073709551616.
Proof. repeat split; reflexivity. Qed.

Lemma dec_enc_field f rest : wf_field f -> dec_field (enc_field f ++ rest) = Some (f, rest).
Proof.
  destruct pow_facts as (P29 & P63 & P64).
  destruct f as [num [n|b]]; unfold wf_field, enc_field; intros (H0 & Hn & Hw); unfold dec_field.
  - rewrite <- app_assoc. rewrite varint_roundtrip by lia.
    replace ((num * 8 + 0) / 8) with num by lia. replace (num =? 0) with false by lia.
    replace ((num * 8 + 0) mod 8) with 0 by lia. rewrite varint_roundtrip by lia. reflexivity.
  - rewrite <- !app_assoc. rewrite varint_roundtrip by lia.
    replace ((num * 8 + 2) / 8) with num by lia. replace (num =? 0) with false by lia.
    replace ((num * 8 + 2) mod 8) with 2 by lia. rewrite varint_roundtrip by lia.
    replace (len b <? 2 ^ 63) with true by lia.
    assert (Hl : len b <=? len (b ++ rest) = true).
    { unfold len. rewrite app_length. lia. }
    rewrite Hl. cbn [andb]. unfold len. rewrite Nat2N.id.
    rewrite firstn_app, Nat.sub_diag, firstn_all. cbn [firstn]. rewrite app_nil_r.
    rewrite skipn_app, Nat.sub_diag, skipn_all. reflexivity.
Qed.

Lemma enc_field_nonempty f : enc_field f <> [].
Proof.
  destruct f as [num [n|b]]; unfold enc_field; intros E; apply app_eq_nil in E; destruct E as [E _];
    revert E; unfold enc_varint; destruct (_ <? 128); discriminate.
Qed.

Theorem dec_enc_fields fs : Forall wf_field fs ->
  forall fuel, (length fs <= fuel)%nat -> dec_fields fuel (enc_fields fs) = Some fs.
Proof.
  induction 1 as [|f fs Hf Hfs IH]; intros fuel Hfuel.
  - destruct fuel; reflexivity.
  - unfold enc_fields. cbn [map concat]. fold (enc_fields fs).
    destruct (enc_field f ++ enc_fields fs) eqn:E.
    + exfalso. apply app_eq_nil in E. destruct E as [E _]. exact (enc_field_nonempty _ E).
    + rewrite <- E. destruct fuel as [|fuel']; [simpl in Hfuel; lia|].
      cbn [dec_fields]. rewrite E. rewrite <- E. rewrite dec_enc_field by assumption.
      rewrite IH by (simpl in Hfuel; lia). reflexivity.
Qed.
Print Assumptions dec_enc_fields.
