(* Feasibility spike: multi-shard world around a fungible transfer, with in-flight
   messages, delivery, rejection and refund; conservation of `total k` over every op list.
   Builds on LedgerMonad.v (abstract codec, fault plan fixed to "no fault"). *)
From Coq Require Import List NArith ZArith Lia Bool.
From Coq.Strings Require Import Byte.
Import ListNotations.
Require Import LedgerMonad.

Section World.
  Variable enc : token -> bytes.
  Variable dec : bytes -> option token.
  Hypothesis dec_enc : forall t, dec (enc t) = Some t.
  Hypothesis enc_nonempty : forall t, enc t <> [].
  Variable paused : bytes -> bool.
  Variable shardOf : bytes -> N.

  Definition noplan : nat -> bool := fun _ => false.
  Definition accounts := amap store.
  Definition getst (w : accounts) (a : bytes) : store := aget store [] w a.
  Definition putst (w : accounts) (a : bytes) (s : store) : accounts := aput store w a s.

  (* run addToBalance on one account's storage *)
  Definition credit (w : accounts) (a k : bytes) (v : Z) (rae : bool) : res accounts :=
    match addToBalance noplan enc dec paused k v rae {| st := getst w a; calls := 0 |} with
    | (Ok _, s') => Ok (putst w a (st s'))
    | (Err e, _) => Err e
    | (Panic, _) => Panic
    end.

  Definition bal (w : accounts) (a k : bytes) : Z := balance dec (getst w a) k.
  Definition sumbal (w : accounts) (k : bytes) : Z := asum store (fun s => balance dec s k) w.

  Lemma balance_empty k : balance dec [] k = 0%Z.
  Proof. unfold balance, entry. Transparent sget. simpl. Opaque sget. reflexivity. Qed.

  Lemma credit_ok w a k v rae w' : NoDup (map fst w) -> credit w a k v rae = Ok w' ->
    NoDup (map fst w') /\ (0 <= bal w a k + v)%Z /\
    sumbal w' k = (sumbal w k + v)%Z /\ (forall k', k' <> k -> sumbal w' k' = sumbal w k').
  Proof.
    unfold credit. intros Hnd H.
    destruct (addToBalance _ _ _ _ _ _ _ _) as [[u|e|] s'] eqn:E; try discriminate.
    inversion H; subst; clear H.
    apply (addToBalance_spec noplan enc dec dec_enc enc_nonempty paused) in E.
    destruct E as (Hpos & Hbal & Hframe & _). simpl in *.
    split; [apply keys_aput; assumption|]. split; [exact Hpos|]. split.
    - unfold sumbal, putst. rewrite (asum_aput store [] (fun s => balance dec s k) (balance_empty k)) by assumption.
      fold (getst w a). rewrite Hbal. lia.
    - intros k' Hk. unfold sumbal, putst. rewrite (asum_aput store [] (fun s => balance dec s k') (balance_empty k')) by assumption.
      fold (getst w a). unfold balance, entry. rewrite Hframe by auto. lia.
  Qed.

  Record msg := { m_from : bytes; m_to : bytes; m_tok : bytes; m_val : Z }.
  Record world := { accts : accounts; inflight : list (nat * msg); failedIds : list nat; nextId : nat }.

  Inductive op :=
  | OTx (from to tok : bytes) (v : Z)       (* executed on shardOf from *)
  | ODeliver (id : nat) | ORefund (id : nat).

  Fixpoint find_msg (id : nat) (l : list (nat * msg)) : option msg :=
    match l with [] => None | (i, m) :: r => if Nat.eqb i id then Some m else find_msg id r end.
  Fixpoint drop_msg (id : nat) (l : list (nat * msg)) : list (nat * msg) :=
    match l with [] => [] | (i, m) :: r => if Nat.eqb i id then r else (i, m) :: drop_msg id r end.

  (* origin-side execution: debit the sender; credit the destination iff it lives on the same shard *)
  Definition exec_origin (w : accounts) (from to tok : bytes) (v : Z) : res accounts :=
    if (v <=? 0)%Z then Err EFunds else
    match credit w from tok (- v) false with
    | Ok w1 => if N.eqb (shardOf to) (shardOf from) then credit w1 to tok v false else Ok w1
    | Err e => Err e | Panic => Panic
    end.

  Definition step (w : world) (o : op) : world :=
    match o with
    | OTx from to tok v =>
      match exec_origin (accts w) from to tok v with
      | Ok a' =>
        if N.eqb (shardOf to) (shardOf from)
        then {| accts := a'; inflight := inflight w; failedIds := failedIds w; nextId := nextId w |}
        else {| accts := a';
                inflight := (nextId w, {| m_from := from; m_to := to; m_tok := tok; m_val := v |}) :: inflight w;
                failedIds := failedIds w; nextId := S (nextId w) |}
      | _ => w                                  (* rolled back *)
      end
    | ODeliver id =>
      match find_msg id (inflight w) with
      | None => w
      | Some m =>
        match credit (accts w) (m_to m) (m_tok m) (m_val m) false with
        | Ok a' => {| accts := a'; inflight := drop_msg id (inflight w); failedIds := failedIds w; nextId := nextId w |}
        | _ => {| accts := accts w; inflight := inflight w; failedIds := id :: failedIds w; nextId := nextId w |}
        end
      end
    | ORefund id =>
      if existsb (Nat.eqb id) (failedIds w) then
        match find_msg id (inflight w) with
        | None => w
        | Some m =>
          match credit (accts w) (m_from m) (m_tok m) (m_val m) true with
          | Ok a' => {| accts := a'; inflight := drop_msg id (inflight w); failedIds := failedIds w; nextId := nextId w |}
          | _ => w
          end
        end
      else w
    end.

  Definition qty (m : msg) (k : bytes) : Z := if beqb (m_tok m) k then m_val m else 0%Z.
  Fixpoint pending (l : list (nat * msg)) (k : bytes) : Z :=
    match l with [] => 0%Z | (_, m) :: r => (qty m k + pending r k)%Z end.
  Definition total (w : world) (k : bytes) : Z := (sumbal (accts w) k + pending (inflight w) k)%Z.
  Definition WF (w : world) : Prop := NoDup (map fst (accts w)).

  Lemma pending_drop id l m k : find_msg id l = Some m ->
    pending (drop_msg id l) k = (pending l k - qty m k)%Z.
  Proof.
    induction l as [|[i m'] r IH]; simpl; [discriminate|].
    destruct (Nat.eqb i id); intros H.
    - inversion H; subst. lia.
    - simpl. rewrite IH by assumption. lia.
  Qed.

  Lemma credit_total w a tok v rae w' k : NoDup (map fst w) -> credit w a tok v rae = Ok w' ->
    NoDup (map fst w') /\ sumbal w' k = (sumbal w k + (if beqb tok k then v else 0))%Z.
  Proof.
    intros Hnd H. destruct (credit_ok _ _ _ _ _ _ Hnd H) as (Hnd' & _ & Hk & Hother).
    split; [assumption|]. destruct (beqb tok k) eqn:E.
    - apply beqb_true in E. subst. exact Hk.
    - rewrite Hother; [lia|]. intros ->. rewrite beqb_refl in E. discriminate.
  Qed.

  Theorem step_conserves w o k : WF w -> WF (step w o) /\ total (step w o) k = total w k.
  Proof.
    unfold WF, total. intros Hwf. destruct o as [from to tok v|id|id]; simpl.
    - unfold exec_origin. destruct (v <=? 0)%Z; [auto|].
      destruct (credit (accts w) from tok (- v) false) as [w1|e|] eqn:E1; [|auto|auto].
      destruct (credit_total _ _ _ _ _ _ k Hwf E1) as (Hnd1 & Hs1).
      destruct (N.eqb (shardOf to) (shardOf from)) eqn:Esh.
      + destruct (credit w1 to tok v false) as [w2|e|] eqn:E2; [|auto|auto].
        destruct (credit_total _ _ _ _ _ _ k Hnd1 E2) as (Hnd2 & Hs2). simpl. split; [assumption|].
        rewrite Hs2, Hs1. destruct (beqb tok k); lia.
      + simpl. split; [assumption|]. rewrite Hs1. unfold qty. simpl. destruct (beqb tok k); lia.
    - destruct (find_msg id (inflight w)) as [m|] eqn:Ef; [|auto].
      destruct (credit (accts w) (m_to m) (m_tok m) (m_val m) false) as [a'|e|] eqn:Ec; simpl; [|auto|auto].
      destruct (credit_total _ _ _ _ _ _ k Hwf Ec) as (Hnd' & Hs). split; [assumption|].
      rewrite Hs, (pending_drop _ _ _ _ Ef). unfold qty. lia.
    - destruct (existsb (Nat.eqb id) (failedIds w)); [|auto].
      destruct (find_msg id (inflight w)) as [m|] eqn:Ef; [|auto].
      destruct (credit (accts w) (m_from m) (m_tok m) (m_val m) true) as [a'|e|] eqn:Ec; simpl; [|auto|auto].
      destruct (credit_total _ _ _ _ _ _ k Hwf Ec) as (Hnd' & Hs). split; [assumption|].
      rewrite Hs, (pending_drop _ _ _ _ Ef). unfold qty. lia.
  Qed.

  Theorem conservation_histories ops : forall w k, WF w ->
    total (fold_left step ops w) k = total w k.
  Proof.
    induction ops as [|o ops IH]; intros w k Hwf; [reflexivity|].
    cbn [fold_left]. destruct (step_conserves w o k Hwf) as [Hwf' Heq].
    rewrite IH by assumption. exact Heq.
  Qed.
End World.
Print Assumptions conservation_histories.
