From Coq Require Import List NArith ZArith Lia Bool.
From Coq Require Import ZifyN ZifyNat ZifyBool.
From Coq.Strings Require Import Byte.
Import ListNotations.
Open Scope N_scope.
Ltac Zify.zify_post_hook ::= Z.div_mod_to_equations.

Definition bytes := list byte.
Definition b2n (b : byte) : N := Byte.to_N b.
Definition n2b (n : N) : byte := match Byte.of_N (n mod 256) with Some b => b | None => x00 end.
Lemma b2n_lt b : b2n b < 256. Proof. pose proof (Byte.to_N_bounded b). unfold b2n. lia. Qed.
Lemma b2n_n2b n : n < 256 -> b2n (n2b n) = n.
Proof.
  intros H. unfold b2n, n2b. rewrite N.mod_small by lia.
  destruct (Byte.of_N n) eqn:E.
  - apply Byte.to_of_N in E. auto.
  - exfalso. pose proof (Byte.of_N_None_iff n). rewrite E in H0. destruct H0 as [H0 _]. specialize (H0 eq_refl). lia.
Qed.

Fixpoint enc_varint (fuel : nat) (n : N) : bytes :=
  match fuel with
  | O => [n2b (n mod 128)]
  | S f => if n <? 128 then [n2b n] else n2b (n mod 128 + 128) :: enc_varint f (n / 128)
  end.

(* Go decoder: loop shift=0,7,..; error when shift>=64; wire |= uint64(b&0x7f)<<shift truncated to 64 bits.
   `+` and `*` stand for `|` and `<<` (disjoint bit ranges, see the invariant acc < 2^shift). *)
Inductive dres := DOk (v : N) (rest : bytes) | DOverflow | DEOF.
Fixpoint dec_varint (fuel : nat) (shift : N) (acc : N) (l : bytes) : dres :=
  match fuel with
  | O => DOverflow
  | S f =>
    match l with
    | [] => DEOF
    | b :: r =>
      let acc' := (acc + ((b2n b mod 128) * 2 ^ shift) mod 2 ^ 64) mod 2^64 in
      if b2n b <? 128 then DOk acc' r else dec_varint f (shift + 7) acc' r
    end
  end.

Lemma dec_step f shift acc b r : dec_varint (S f) shift acc (b :: r) =
  (if b2n b <? 128 then DOk ((acc + ((b2n b mod 128) * 2 ^ shift) mod 2 ^ 64) mod 2^64) r
   else dec_varint f (shift + 7) ((acc + ((b2n b mod 128) * 2 ^ shift) mod 2 ^ 64) mod 2^64) r).
Proof. reflexivity. Qed.

Lemma dec_enc_gen : forall fuel n shift acc rest,
  shift <= 64 -> n < 2 ^ (64 - shift) -> acc < 2 ^ shift -> n < 128 ^ N.of_nat (S fuel) ->
  dec_varint (S fuel) shift acc (enc_varint fuel n ++ rest) = DOk (acc + n * 2 ^ shift) rest.
Proof.
  induction fuel as [|f IH]; intros n shift acc rest Hs Hn Hacc Hf.
  - assert (HPQ : 2 ^ shift * 2 ^ (64 - shift) = 2 ^ 64) by (rewrite <- N.pow_add_r; f_equal; lia).
    simpl in Hf. assert (n < 128) by lia. cbn [enc_varint app]. rewrite dec_step.
    rewrite N.mod_small with (a:=n) (b:=128) by lia. rewrite b2n_n2b by lia.
    replace (n <? 128) with true by lia. rewrite (N.mod_small n 128) by lia.
    rewrite (N.mod_small (n * 2^shift)) by nia. rewrite N.mod_small; [reflexivity|]. nia.
  - assert (HPQ : 2 ^ shift * 2 ^ (64 - shift) = 2 ^ 64) by (rewrite <- N.pow_add_r; f_equal; lia).
    cbn [enc_varint]. destruct (n <? 128) eqn:E.
    + cbn [app]. rewrite dec_step. rewrite b2n_n2b by lia. rewrite E. rewrite (N.mod_small n 128) by lia.
      rewrite (N.mod_small (n * 2^shift)) by nia. rewrite N.mod_small; [reflexivity|]. nia.
    + cbn [app]. rewrite dec_step.
      assert (Hm : n mod 128 < 128) by (apply N.mod_upper_bound; lia).
      rewrite b2n_n2b by lia.
      replace (n mod 128 + 128 <? 128) with false by lia.
      replace ((n mod 128 + 128) mod 128) with (n mod 128) by (rewrite N.add_mod by lia; rewrite N.mod_same by lia; rewrite N.add_0_r; rewrite !N.mod_mod by lia; reflexivity).
      assert (Hd : n = 128 * (n / 128) + n mod 128) by (apply N.div_mod; lia).
      assert (Hge : 128 <= n) by lia.
      assert (Hsh : shift + 7 < 64).
      { destruct (N.ltb_spec (shift + 7) 64) as [?|Hc]; [assumption|exfalso].
        assert (2 ^ (64 - shift) <= 2 ^ 7) by (apply N.pow_le_mono_r; lia). change (2^7) with 128 in *. lia. }
      assert (Hp : 2 ^ (shift + 7) = 2 ^ shift * 128) by (rewrite N.pow_add_r; reflexivity).
      assert (Hq : 2 ^ (64 - shift) = 2 ^ (64 - (shift + 7)) * 128).
      { replace (64 - shift) with ((64 - (shift + 7)) + 7) by lia. rewrite N.pow_add_r. reflexivity. }
      rewrite (N.mod_small (n mod 128 * 2^shift)) by nia.
      assert (Hsum : acc + n mod 128 * 2 ^ shift < 2 ^ (shift + 7)) by (rewrite Hp; nia).
      rewrite N.mod_small by nia.
      rewrite IH.
      * f_equal. rewrite Hp. nia.
      * lia.
      * rewrite Hq in Hn. apply N.div_lt_upper_bound; lia.
      * exact Hsum.
      * rewrite Nat2N.inj_succ in Hf. rewrite N.pow_succ_r' in Hf. apply N.div_lt_upper_bound; lia.
Qed.

Theorem varint_roundtrip n rest : n < 2 ^ 64 ->
  dec_varint 10 0 0 (enc_varint 9 n ++ rest) = DOk n rest.
Proof.
  intros H.
  assert (H64: 2^64 = 18446744073709551616) by reflexivity.
  rewrite dec_enc_gen.
  - f_equal. rewrite N.pow_0_r. lia.
  - lia.
  - rewrite N.sub_0_r. exact H.
  - rewrite N.pow_0_r. lia.
  - assert (H70: 128 ^ N.of_nat 10 = 1180591620717411303424) by reflexivity. lia.
Qed.
Print Assumptions varint_roundtrip.
