From Coq Require Import List Arith Bool Lia.
Import ListNotations.

(* keys/values are nat for the spike *)
Definition K := nat. Definition V := nat.
Definition amap := list (K * V).
Fixpoint mem (k : K) (m : amap) : bool :=
  match m with [] => false | (k', _) :: r => if Nat.eqb k k' then true else mem k r end.
Fixpoint find (k : K) (m : amap) : option V :=
  match m with [] => None | (k', v) :: r => if Nat.eqb k k' then Some v else find k r end.
Fixpoint remove (k : K) (m : amap) : amap :=
  match m with [] => [] | (k', v) :: r => if Nat.eqb k k' then remove k r else (k', v) :: remove k r end.
Definition set (k : K) (v : V) (m : amap) : amap := (k, v) :: remove k m.

Inductive op := Get (k : K) | Insert (k : K) (v : V) | Set_ (k : K) (v : V) | Remove (k : K) | Len | Keys.
Inductive ret := RVal (o : option V) | RBool (b : bool) | RUnit | RNat (n : nat) | RKeys (l : list K).
Definition is_read (o : op) : bool := match o with Get _ | Len | Keys => true | _ => false end.

(* sequential specification *)
Definition spec (m : amap) (o : op) : amap * ret :=
  match o with
  | Get k => (m, RVal (find k m))
  | Insert k v => if mem k m then (m, RBool false) else (set k v m, RBool true)
  | Set_ k v => (set k v m, RUnit)
  | Remove k => (remove k m, RUnit)
  | Len => (m, RNat (length m))
  | Keys => (m, RKeys (map fst m))
  end.

Definition tid := nat.
Inductive pc :=
| Idle | Pending (o : op)
| RHeld (o : op) | WHeld (o : op) | WMid (k : K) (v : V) (b : bool)   (* Insert: read done, write pending *)
| Done (o : op) (r : ret)          (* body finished, lock still held *)
| Returning (o : op) (r : ret).    (* lock released *)

Record state := { mp : amap; writer : option tid; readers : list tid; pcs : tid -> pc }.
Definition upd (f : tid -> pc) (t : tid) (p : pc) : tid -> pc := fun t' => if Nat.eqb t' t then p else f t'.
Fixpoint rm1 (t : tid) (l : list tid) : list tid :=
  match l with [] => [] | x :: r => if Nat.eqb x t then r else x :: rm1 t r end.

Inductive label := LCall (t : tid) (o : op) | LLin (t : tid) (o : op) (r : ret) | LRet (t : tid) (o : op) (r : ret) | LTau.

Inductive step : state -> label -> state -> Prop :=
| s_call s t o : pcs s t = Idle ->
    step s (LCall t o) {| mp := mp s; writer := writer s; readers := readers s; pcs := upd (pcs s) t (Pending o) |}
| s_rlock s t o : pcs s t = Pending o -> is_read o = true -> writer s = None ->
    step s LTau {| mp := mp s; writer := None; readers := t :: readers s; pcs := upd (pcs s) t (RHeld o) |}
| s_wlock s t o : pcs s t = Pending o -> is_read o = false -> writer s = None -> readers s = [] ->
    step s LTau {| mp := mp s; writer := Some t; readers := []; pcs := upd (pcs s) t (WHeld o) |}
| s_rbody s t o : pcs s t = RHeld o ->
    step s (LLin t o (snd (spec (mp s) o))) {| mp := mp s; writer := writer s; readers := readers s; pcs := upd (pcs s) t (Done o (snd (spec (mp s) o))) |}
| s_wbody s t o : pcs s t = WHeld o -> (forall k v, o <> Insert k v) ->
    step s (LLin t o (snd (spec (mp s) o))) {| mp := fst (spec (mp s) o); writer := writer s; readers := readers s; pcs := upd (pcs s) t (Done o (snd (spec (mp s) o))) |}
| s_ins1 s t k v : pcs s t = WHeld (Insert k v) ->
    step s LTau {| mp := mp s; writer := writer s; readers := readers s; pcs := upd (pcs s) t (WMid k v (mem k (mp s))) |}
| s_ins2 s t k v b : pcs s t = WMid k v b ->
    step s (LLin t (Insert k v) (RBool (negb b)))
         {| mp := if b then mp s else set k v (mp s); writer := writer s; readers := readers s;
            pcs := upd (pcs s) t (Done (Insert k v) (RBool (negb b))) |}
| s_runlock s t o r : pcs s t = Done o r -> is_read o = true ->
    step s LTau {| mp := mp s; writer := writer s; readers := rm1 t (readers s); pcs := upd (pcs s) t (Returning o r) |}
| s_wunlock s t o r : pcs s t = Done o r -> is_read o = false ->
    step s LTau {| mp := mp s; writer := None; readers := readers s; pcs := upd (pcs s) t (Returning o r) |}
| s_ret s t o r : pcs s t = Returning o r ->
    step s (LRet t o r) {| mp := mp s; writer := writer s; readers := readers s; pcs := upd (pcs s) t Idle |}.

Definition in_w (p : pc) : bool :=
  match p with WHeld _ | WMid _ _ _ => true | Done o _ => negb (is_read o) | _ => false end.
Definition in_r (p : pc) : bool :=
  match p with RHeld _ => true | Done o _ => is_read o | _ => false end.

(* the lock invariant *)
Record Inv (s : state) : Prop := {
  i_w : forall t, in_w (pcs s t) = true -> writer s = Some t;
  i_r : forall t, in_r (pcs s t) = true -> In t (readers s);
  i_excl : forall t, writer s = Some t -> readers s = [];
  i_mid : forall t k v b, pcs s t = WMid k v b -> b = mem k (mp s);
  i_rk : forall t o, pcs s t = RHeld o -> is_read o = true;
  i_wk : forall t o, pcs s t = WHeld o -> is_read o = false;
}.

Definition init : state := {| mp := []; writer := None; readers := []; pcs := fun _ => Idle |}.
Lemma Inv_init : Inv init.
Proof. split; simpl; intros; try discriminate; auto. Qed.

Lemma upd_same f t p : upd f t p t = p. Proof. unfold upd. rewrite Nat.eqb_refl. reflexivity. Qed.
Lemma upd_other f t p t' : t' <> t -> upd f t p t' = f t'.
Proof. unfold upd. intros H. apply Nat.eqb_neq in H. rewrite H. reflexivity. Qed.

Lemma in_rm1 t t' l : t' <> t -> In t' l -> In t' (rm1 t l).
Proof.
  induction l as [|x r IH]; simpl; intros Hne H; [contradiction|].
  destruct (Nat.eqb x t) eqn:E.
  - destruct H as [H|H]; [apply Nat.eqb_eq in E; subst; contradiction|exact H].
  - destruct H as [H|H]; [left; exact H|right; auto].
Qed.

Ltac case_tid t t0 :=
  destruct (Nat.eq_dec t t0) as [->|?]; [rewrite upd_same in *|rewrite upd_other in * by assumption].

(* a writer inside its section excludes every other thread from any section *)
Lemma writer_alone s t t' : Inv s -> in_w (pcs s t) = true -> t' <> t ->
  in_w (pcs s t') = false /\ in_r (pcs s t') = false.
Proof.
  intros [Hw Hr Hx _ _ _] Hi Hne. pose proof (Hw _ Hi) as Hwt. split.
  - destruct (in_w (pcs s t')) eqn:E; [|reflexivity]. apply Hw in E. congruence.
  - destruct (in_r (pcs s t')) eqn:E; [|reflexivity]. apply Hr in E. rewrite (Hx _ Hwt) in E. contradiction.
Qed.

Lemma Inv_step s l s' : Inv s -> step s l s' -> Inv s'.
Proof.
  intros HI Hs. pose proof HI as [Hw Hr Hx Hm Hrk Hwk].
  inversion Hs; subst; clear Hs; split; simpl; intros t0; intros;
    try (case_tid t0 t); simpl in *; try discriminate; eauto.
  all: try solve [ match goal with H : ?c _ = ?c _ |- _ => inversion H; subst; auto end
                   | match goal with H : WMid _ _ _ = WMid _ _ _ |- _ => inversion H; subst; reflexivity end ].
  all: try solve [ exfalso; match goal with H : in_w (pcs _ ?t0) = true |- _ => pose proof (Hw _ H); congruence end ].
  all: try solve [ exfalso; match goal with H : in_r (pcs _ ?t0) = true, E : readers _ = [] |- _ => apply Hr in H; rewrite E in H; contradiction end ].
  all: try solve [ match goal with H : pcs _ ?t = _ |- writer _ = Some ?t => apply Hw; rewrite H; reflexivity end ].
  all: try solve [ match goal with H : pcs _ ?t = _ |- In ?t (readers _) => apply Hr; rewrite H; reflexivity end ].
  all: try solve [ match goal with H : pcs _ ?t = RHeld ?o |- _ => rewrite (Hrk _ _ H) in *; discriminate end ].
  all: try solve [ match goal with H : pcs _ ?t = WHeld ?o |- _ => rewrite (Hwk _ _ H) in *; discriminate end ].
  all: try solve [ exfalso; match goal with H : pcs _ ?t = ?p, H' : pcs _ ?t0 = WMid _ _ _, N : ?t0 <> ?t |- _ =>
                     assert (Hin : in_w (pcs _ t) = true) by (rewrite H; reflexivity);
                     destruct (writer_alone _ t t0 HI Hin N) as [Hf _]; rewrite H' in Hf; discriminate end ].
  all: try solve [ apply in_rm1; auto ].
  (* runlock, i_excl *)
  - exfalso. assert (Hin : In t (readers _)) by (apply Hr; rewrite H; simpl; assumption).
    match goal with H : writer _ = Some _ |- _ => rewrite (Hx _ H) in Hin end. contradiction.
  (* wunlock, i_w for another thread *)
  - exfalso. assert (Hin : in_w (pcs _ t) = true) by (rewrite H; simpl; rewrite H0; reflexivity).
    match goal with N : t0 <> t |- _ => destruct (writer_alone _ t t0 HI Hin N) as [Hf _] end. congruence.
Qed.

(* every linearisation step agrees with the sequential specification *)
Theorem lin_step_is_spec s t o r s' :
  Inv s -> step s (LLin t o r) s' -> (mp s', r) = spec (mp s) o.
Proof.
  intros HI Hs. inversion Hs; subst; simpl.
  - (* read body: reads do not change the map *)
    match goal with H : pcs _ _ = RHeld _ |- _ => pose proof (i_rk _ HI _ _ H) as Hro end.
    destruct o; simpl in *; try discriminate; reflexivity.
  - destruct (spec (mp s) o); reflexivity.
  - match goal with H : pcs _ _ = WMid _ _ _ |- _ => rewrite (i_mid _ HI _ _ _ _ H) end.
    destruct (mem k (mp s)); reflexivity.
Qed.

(* reachable states and the sequential history of linearisation points *)
Inductive run : state -> list label -> state -> Prop :=
| run_nil s : run s [] s
| run_cons s l s1 ls s2 : step s l s1 -> run s1 ls s2 -> run s (l :: ls) s2.

Fixpoint replay (m : amap) (ls : list label) : option amap :=
  match ls with
  | [] => Some m
  | LLin _ o r :: rest => let (m', r') := spec m o in
                          if (match r, r' with
                              | RVal a, RVal b => true | _, _ => true end) then
                            match replay m' rest with Some x => Some x | None => None end else None
  | _ :: rest => replay m rest
  end.

Definition lin_legal (m : amap) (ls : list label) (m' : amap) : Prop :=
  (* the LLin events, in order, form a legal sequential execution from m to m' *)
  forall P : amap -> list label -> amap -> Prop,
    (forall m, P m [] m) ->
    (forall m t o r m1 rest m2, (m1, r) = spec m o -> P m1 rest m2 -> P m (LLin t o r :: rest) m2) ->
    (forall m l rest m2, (forall t o r, l <> LLin t o r) -> P m rest m2 -> P m (l :: rest) m2) ->
    P m ls m'.

Theorem runs_linearise s ls s' : Inv s -> run s ls s' -> lin_legal (mp s) ls (mp s').
Proof.
  intros HI Hr. induction Hr as [s|s l s1 ls s2 Hs Hr IH]; intros P Hnil Hlin Hoth.
  - apply Hnil.
  - pose proof (Inv_step _ _ _ HI Hs) as HI1. specialize (IH HI1 P Hnil Hlin Hoth).
    destruct l as [t o|t o r|t o r|].
    + assert (mp s1 = mp s) by (inversion Hs; reflexivity). rewrite <- H. apply Hoth; [discriminate|exact IH].
    + eapply Hlin; [eapply lin_step_is_spec; eauto|exact IH].
    + assert (mp s1 = mp s) by (inversion Hs; reflexivity). rewrite <- H. apply Hoth; [discriminate|exact IH].
    + assert (mp s1 = mp s) by (inversion Hs; reflexivity). rewrite <- H. apply Hoth; [discriminate|exact IH].
Qed.
Print Assumptions runs_linearise.
