#!/bin/sh
# Built once after a fresh restore, offline: full .vo build of the Coq development and the Go tools.
set -e
cd "$(dirname "$0")"
exec ./check --setup
