module verif/srcgen

go 1.17
