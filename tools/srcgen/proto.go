package main

func genProto(repo, outDir string) {}
