// proto.go: gen/ProtoTags.v — the wire-format facts of data/esdt that property C14 pins:
//
//	struct_<Msg>     the `protobuf:"<kind>,<number>,<label>,…"` struct tags of the generated message structs
//	marshal_<Msg>    the tag-byte literals `dAtA[i] = 0x..` of <Msg>.MarshalToSizedBuffer in source order
//	                 (the buffer is filled backwards: source order is the reverse of the emission order),
//	                 each with the field of m that the surrounding code reads
//	unmarshal_<Msg>  the `case <n>:` labels of `switch fieldNum` in <Msg>.Unmarshal with the wire type
//	                 required by `if wireType != <k>` and the field named in the error text
//	size_<Msg>       the fields read by <Msg>.Size() in source order
//	proto_<Msg>      the field declarations of data/esdt/proto/esdt.proto
//
// Whatever is not understood is listed in `unrecognised`, which the Coq side requires to be empty.
package main

import (
	"fmt"
	"go/ast"
	"go/token"
	"os"
	"path/filepath"
	"reflect"
	"regexp"
	"strconv"
	"strings"
)

var protoMsgs = []string{"ESDigitalToken", "ESDTRoles", "MetaData"}

func genProto(repo, outDir string) {
	o := &outFile{}
	o.p("%s", header)
	o.p("(* Wire-format facts of data/esdt/esdt.pb.go and data/esdt/proto/esdt.proto (see tools/srcgen/proto.go). *)")
	o.p("Module PT.")
	var bad []string
	pkg := loadPkg(filepath.Join(repo, "data", "esdt"))
	f := pkg.files["esdt.pb.go"]
	if f == nil {
		bad = append(bad, "data/esdt/esdt.pb.go missing")
		f = &ast.File{}
	}
	// ---- struct tags ----
	structFields := map[string][]string{}
	for _, msg := range protoMsgs {
		var rows []string
		found := false
		for _, d := range f.Decls {
			gd, ok := d.(*ast.GenDecl)
			if !ok || gd.Tok != token.TYPE {
				continue
			}
			for _, sp := range gd.Specs {
				ts := sp.(*ast.TypeSpec)
				st, ok := ts.Type.(*ast.StructType)
				if !ok || ts.Name.Name != msg {
					continue
				}
				found = true
				for _, fl := range st.Fields.List {
					if len(fl.Names) != 1 || fl.Tag == nil {
						bad = append(bad, "struct "+msg+": field without a single name and a tag")
						continue
					}
					name := fl.Names[0].Name
					raw, err := strconv.Unquote(fl.Tag.Value)
					if err != nil {
						bad = append(bad, "struct "+msg+"."+name+": tag")
						continue
					}
					pb := reflect.StructTag(raw).Get("protobuf")
					parts := strings.Split(pb, ",")
					if len(parts) < 3 {
						bad = append(bad, "struct "+msg+"."+name+": protobuf tag "+pb)
						continue
					}
					num, err := strconv.ParseUint(parts[1], 10, 32)
					if err != nil || (parts[0] != "varint" && parts[0] != "bytes") || (parts[2] != "opt" && parts[2] != "rep") {
						bad = append(bad, "struct "+msg+"."+name+": protobuf tag "+pb)
						continue
					}
					rows = append(rows, fmt.Sprintf("(\"%s\", \"%s\", %d%%N, \"%s\")", name, parts[0], num, parts[2]))
					structFields[msg] = append(structFields[msg], name)
				}
			}
		}
		if !found {
			bad = append(bad, "struct "+msg+" missing")
		}
		o.p("(* (Go field, wire kind, field number, label) *)")
		o.p("Definition struct_%s : list (string * string * N * string) := [%s].", msg, strings.Join(rows, "; "))
	}
	isField := func(msg, name string) bool {
		for _, n := range structFields[msg] {
			if n == name {
				return true
			}
		}
		return false
	}
	method := func(msg, name string) *ast.FuncDecl {
		for _, d := range f.Decls {
			fd, ok := d.(*ast.FuncDecl)
			if !ok || fd.Recv == nil || fd.Body == nil || fd.Name.Name != name || len(fd.Recv.List) != 1 {
				continue
			}
			if strings.TrimPrefix(exprString(pkg.fset, fd.Recv.List[0].Type), "*") == msg {
				return fd
			}
		}
		return nil
	}
	// ---- Marshal: tag-byte literals ----
	for _, msg := range protoMsgs {
		var rows []string
		fd := method(msg, "MarshalToSizedBuffer")
		if fd == nil {
			bad = append(bad, msg+".MarshalToSizedBuffer missing")
		} else {
			last := ""
			ast.Inspect(fd.Body, func(n ast.Node) bool {
				switch x := n.(type) {
				case *ast.SelectorExpr:
					if id, ok := x.X.(*ast.Ident); ok && id.Name == "m" && isField(msg, x.Sel.Name) {
						last = x.Sel.Name
					}
				case *ast.AssignStmt:
					if len(x.Lhs) == 1 && len(x.Rhs) == 1 && x.Tok == token.ASSIGN {
						if ix, ok := x.Lhs[0].(*ast.IndexExpr); ok && exprString(pkg.fset, ix.X) == "dAtA" {
							if lit, ok := x.Rhs[0].(*ast.BasicLit); ok && lit.Kind == token.INT {
								v, err := strconv.ParseUint(lit.Value, 0, 8)
								if err != nil || last == "" {
									bad = append(bad, msg+".MarshalToSizedBuffer: literal "+lit.Value)
								} else {
									rows = append(rows, fmt.Sprintf("(\"%s\", %d%%N)", last, v))
								}
							} else {
								bad = append(bad, msg+".MarshalToSizedBuffer: non-literal store into dAtA")
							}
						}
					}
				}
				return true
			})
		}
		o.p("(* (field of m read before the store, tag byte literal), source order = reverse emission order *)")
		o.p("Definition marshal_%s : list (string * N) := [%s].", msg, strings.Join(rows, "; "))
	}
	// ---- Unmarshal: case labels and wire types ----
	reField := regexp.MustCompile(`for field (\w+)`)
	for _, msg := range protoMsgs {
		var rows []string
		fd := method(msg, "Unmarshal")
		if fd == nil {
			bad = append(bad, msg+".Unmarshal missing")
		} else {
			nSwitch := 0
			ast.Inspect(fd.Body, func(n ast.Node) bool {
				sw, ok := n.(*ast.SwitchStmt)
				if !ok || sw.Tag == nil || exprString(pkg.fset, sw.Tag) != "fieldNum" {
					return true
				}
				nSwitch++
				for _, st := range sw.Body.List {
					cc := st.(*ast.CaseClause)
					if cc.List == nil {
						continue // default: skipEsdt
					}
					if len(cc.List) != 1 {
						bad = append(bad, msg+".Unmarshal: case with several labels")
						continue
					}
					lit, ok := cc.List[0].(*ast.BasicLit)
					if !ok || lit.Kind != token.INT {
						bad = append(bad, msg+".Unmarshal: case label")
						continue
					}
					num, _ := strconv.ParseUint(lit.Value, 0, 32)
					wt, fname := int64(-1), ""
					if len(cc.Body) > 0 {
						if is, ok := cc.Body[0].(*ast.IfStmt); ok {
							if be, ok := is.Cond.(*ast.BinaryExpr); ok && be.Op == token.NEQ && exprString(pkg.fset, be.X) == "wireType" {
								if l2, ok := be.Y.(*ast.BasicLit); ok && l2.Kind == token.INT {
									w, err := strconv.ParseUint(l2.Value, 0, 8)
									if err == nil {
										wt = int64(w)
									}
								}
							}
							ast.Inspect(is.Body, func(m ast.Node) bool {
								if bl, ok := m.(*ast.BasicLit); ok && bl.Kind == token.STRING {
									if mm := reField.FindStringSubmatch(bl.Value); mm != nil {
										fname = mm[1]
									}
								}
								return true
							})
						}
					}
					if wt < 0 || fname == "" {
						bad = append(bad, fmt.Sprintf("%s.Unmarshal: case %d without a wire type check", msg, num))
						continue
					}
					rows = append(rows, fmt.Sprintf("(%d%%N, %d%%N, \"%s\")", num, wt, fname))
				}
				return false
			})
			if nSwitch != 1 {
				bad = append(bad, msg+".Unmarshal: expected exactly one switch on fieldNum")
			}
		}
		o.p("(* (case label of `switch fieldNum`, required wire type, field named in the error text) *)")
		o.p("Definition unmarshal_%s : list (N * N * string) := [%s].", msg, strings.Join(rows, "; "))
	}
	// ---- Size: fields read, in source order (no duplicates in a row) ----
	for _, msg := range protoMsgs {
		var rows []string
		fd := method(msg, "Size")
		if fd == nil {
			bad = append(bad, msg+".Size missing")
		} else {
			ast.Inspect(fd.Body, func(n ast.Node) bool {
				if x, ok := n.(*ast.SelectorExpr); ok {
					if id, ok := x.X.(*ast.Ident); ok && id.Name == "m" && isField(msg, x.Sel.Name) {
						q := "\"" + x.Sel.Name + "\""
						if len(rows) == 0 || rows[len(rows)-1] != q {
							rows = append(rows, q)
						}
					}
				}
				return true
			})
		}
		o.p("Definition size_%s : list string := [%s].", msg, strings.Join(rows, "; "))
	}
	// ---- esdt.proto ----
	src, err := os.ReadFile(filepath.Join(repo, "data", "esdt", "proto", "esdt.proto"))
	if err != nil {
		bad = append(bad, "data/esdt/proto/esdt.proto missing")
	}
	reMsg := regexp.MustCompile(`^\s*message\s+(\w+)\s*\{`)
	reFld := regexp.MustCompile(`^\s*(repeated\s+)?(\w+)\s+(\w+)\s*=\s*(\d+)\s*(\[|;)`)
	protoRows := map[string][]string{}
	curMsg := ""
	for _, line := range strings.Split(string(src), "\n") {
		if i := strings.Index(line, "//"); i >= 0 {
			line = line[:i]
		}
		if m := reMsg.FindStringSubmatch(line); m != nil {
			curMsg = m[1]
			continue
		}
		if curMsg == "" {
			continue
		}
		if strings.Contains(line, "}") && !strings.Contains(line, "=") {
			curMsg = ""
			continue
		}
		if strings.TrimSpace(line) == "" {
			continue
		}
		m := reFld.FindStringSubmatch(line)
		if m == nil {
			bad = append(bad, "esdt.proto: "+strings.TrimSpace(line))
			continue
		}
		protoRows[curMsg] = append(protoRows[curMsg], fmt.Sprintf("(\"%s\", \"%s\", %s%%N, %s)", m[3], m[2], m[4], map[bool]string{true: "true", false: "false"}[m[1] != ""]))
	}
	for _, msg := range protoMsgs {
		if protoRows[msg] == nil {
			bad = append(bad, "esdt.proto: message "+msg+" missing")
		}
		o.p("(* (field, declared type, field number, repeated) *)")
		o.p("Definition proto_%s : list (string * string * N * bool) := [%s].", msg, strings.Join(protoRows[msg], "; "))
	}
	if len(protoRows) != len(protoMsgs) {
		bad = append(bad, "esdt.proto: unexpected set of messages")
	}
	stable := strings.Contains(string(src), "(gogoproto.stable_marshaler_all) = true")
	o.p("Definition stable_marshaler_all : bool := %v.", stable)
	var qs []string
	for _, b := range bad {
		qs = append(qs, "\""+strings.ReplaceAll(b, "\"", "'")+"\"")
	}
	o.p("Definition unrecognised : list string := [%s].", strings.Join(qs, "; "))
	o.p("End PT.")
	writeIfChanged(filepath.Join(outDir, "ProtoTags.v"), o.buf.Bytes())
}
