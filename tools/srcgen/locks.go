package main

func genLocks(repo, outDir string) {}
