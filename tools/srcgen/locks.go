package main

// gen/LockDiscipline.v — the synchronisation skeleton of the CURRENT sources, for property C19:
//   * builtInFunctions: every type with a ProcessBuiltinFunction method (and the activation bases they embed):
//     per method the calls on mutExecution, receiver fields read / written / address-taken, calls to the type's
//     own methods; the statement shape of SetNewGasConfig; references to unexported methods from elsewhere;
//   * container/mutexMap.go: per method the lock calls, whether every access to `values` is bracketed;
//   * builtInFunctions/container.go: per method the MutexMap methods it goes through;
//   * atomic/*.go: per method the sync/atomic primitives used and whether the field is ever accessed plainly.
// Anything the extractor does not understand is emitted as an `unrecognised` entry, which makes the Coq
// obligation `lock_discipline_ok` fail.

import (
	"fmt"
	"go/ast"
	"go/token"
	"path/filepath"
	"sort"
	"strings"
)

func qs(l []string) string {
	var q []string
	for _, s := range l {
		q = append(q, "\""+strings.ReplaceAll(s, "\"", "'")+"\"")
	}
	return "[" + strings.Join(q, "; ") + "]"
}

func qpairs(l [][2]string) string {
	var q []string
	for _, p := range l {
		q = append(q, fmt.Sprintf("(\"%s\", \"%s\")", p[0], p[1]))
	}
	return "[" + strings.Join(q, "; ") + "]"
}

func cb(b bool) string {
	if b {
		return "true"
	}
	return "false"
}

func uniq(l []string) []string {
	seen := map[string]bool{}
	var out []string
	for _, s := range l {
		if !seen[s] {
			seen[s] = true
			out = append(out, s)
		}
	}
	return out
}

func typeString(e ast.Expr) string {
	switch x := e.(type) {
	case *ast.Ident:
		return x.Name
	case *ast.StarExpr:
		return "*" + typeString(x.X)
	case *ast.SelectorExpr:
		return typeString(x.X) + "." + x.Sel.Name
	case *ast.ArrayType:
		if x.Len == nil {
			return "[]" + typeString(x.Elt)
		}
		return "[n]" + typeString(x.Elt)
	case *ast.MapType:
		return "map[" + typeString(x.Key) + "]" + typeString(x.Value)
	case *ast.InterfaceType:
		return "interface{}"
	case *ast.StructType:
		return "struct{}"
	case *ast.FuncType:
		return "func"
	}
	return fmt.Sprintf("?%T", e)
}

type structInfo struct {
	name   string
	file   string
	fields [][2]string // (name, type); embedded fields are named after their type
	embeds []string
}

func structsOf(pi *pkgInfo) map[string]*structInfo {
	out := map[string]*structInfo{}
	for fname, f := range pi.files {
		for _, d := range f.Decls {
			gd, ok := d.(*ast.GenDecl)
			if !ok || gd.Tok != token.TYPE {
				continue
			}
			for _, sp := range gd.Specs {
				ts := sp.(*ast.TypeSpec)
				st, ok := ts.Type.(*ast.StructType)
				if !ok {
					continue
				}
				si := &structInfo{name: ts.Name.Name, file: fname}
				for _, fl := range st.Fields.List {
					ty := typeString(fl.Type)
					if len(fl.Names) == 0 {
						n := strings.TrimPrefix(ty, "*")
						if i := strings.LastIndex(n, "."); i >= 0 {
							n = n[i+1:]
						}
						si.fields = append(si.fields, [2]string{n, ty})
						si.embeds = append(si.embeds, n)
					}
					for _, n := range fl.Names {
						si.fields = append(si.fields, [2]string{n.Name, ty})
					}
				}
				out[si.name] = si
			}
		}
	}
	return out
}

type methodDecl struct {
	typ  string
	recv string
	fd   *ast.FuncDecl
	file string
}

func methodsOf(pi *pkgInfo) []methodDecl {
	var out []methodDecl
	var fnames []string
	for n := range pi.files {
		fnames = append(fnames, n)
	}
	sort.Strings(fnames)
	for _, fname := range fnames {
		for _, d := range pi.files[fname].Decls {
			fd, ok := d.(*ast.FuncDecl)
			if !ok || fd.Recv == nil || len(fd.Recv.List) != 1 || fd.Body == nil {
				continue
			}
			typ := strings.TrimPrefix(typeString(fd.Recv.List[0].Type), "*")
			recv := "_"
			if len(fd.Recv.List[0].Names) == 1 {
				recv = fd.Recv.List[0].Names[0].Name
			}
			out = append(out, methodDecl{typ: typ, recv: recv, fd: fd, file: fname})
		}
	}
	return out
}

// recvField returns the receiver field at the base of an expression such as recv.f, recv.f.g, recv.f[i].g
func recvField(e ast.Expr, recv string) (string, *ast.SelectorExpr) {
	for {
		switch x := e.(type) {
		case *ast.SelectorExpr:
			if id, ok := x.X.(*ast.Ident); ok && id.Name == recv {
				return x.Sel.Name, x
			}
			e = x.X
		case *ast.IndexExpr:
			e = x.X
		case *ast.ParenExpr:
			e = x.X
		case *ast.StarExpr:
			e = x.X
		default:
			return "", nil
		}
	}
}

type methodFacts struct {
	name       string
	exported   bool
	mutexCalls []string
	firstTwo   bool
	reads      []string
	writes     []string
	calls      []string
	addrTaken  []string
	fieldCalls [][2]string
}

func analyseMethod(m methodDecl, fields map[string]bool, mutexField string) methodFacts {
	mf := methodFacts{name: m.fd.Name.Name, exported: ast.IsExported(m.fd.Name.Name)}
	recv := m.recv
	isMutexCall := func(call *ast.CallExpr) (string, bool) {
		se, ok := call.Fun.(*ast.SelectorExpr)
		if !ok {
			return "", false
		}
		inner, ok := se.X.(*ast.SelectorExpr)
		if !ok {
			return "", false
		}
		id, ok := inner.X.(*ast.Ident)
		if !ok || id.Name != recv || inner.Sel.Name != mutexField {
			return "", false
		}
		return se.Sel.Name, true
	}
	// first two statements
	if len(m.fd.Body.List) >= 2 {
		if es, ok := m.fd.Body.List[0].(*ast.ExprStmt); ok {
			if c, ok := es.X.(*ast.CallExpr); ok {
				if n, ok := isMutexCall(c); ok && n == "RLock" && len(c.Args) == 0 {
					if ds, ok := m.fd.Body.List[1].(*ast.DeferStmt); ok {
						if n2, ok := isMutexCall(ds.Call); ok && n2 == "RUnlock" && len(ds.Call.Args) == 0 {
							mf.firstTwo = true
						}
					}
				}
			}
		}
	}
	written := map[*ast.SelectorExpr]bool{}
	handled := map[*ast.SelectorExpr]bool{} // selector nodes consumed as call receivers / mutex calls / method calls
	deferred := map[*ast.CallExpr]bool{}
	ast.Inspect(m.fd.Body, func(n ast.Node) bool {
		switch x := n.(type) {
		case *ast.DeferStmt:
			deferred[x.Call] = true
		case *ast.GoStmt:
			mf.calls = append(mf.calls, "go-statement")
		case *ast.AssignStmt:
			for _, l := range x.Lhs {
				if f, se := recvField(l, recv); se != nil && fields[f] {
					written[se] = true
					mf.writes = append(mf.writes, f)
				}
			}
		case *ast.IncDecStmt:
			if f, se := recvField(x.X, recv); se != nil && fields[f] {
				written[se] = true
				mf.writes = append(mf.writes, f)
			}
		case *ast.UnaryExpr:
			if x.Op == token.AND {
				if f, se := recvField(x.X, recv); se != nil && fields[f] {
					handled[se] = true
					mf.addrTaken = append(mf.addrTaken, f)
				}
			}
		case *ast.CallExpr:
			if n, ok := isMutexCall(x); ok {
				if deferred[x] {
					n = "defer " + n
				}
				mf.mutexCalls = append(mf.mutexCalls, n)
				handled[x.Fun.(*ast.SelectorExpr).X.(*ast.SelectorExpr)] = true
				return true
			}
			if se, ok := x.Fun.(*ast.SelectorExpr); ok {
				if id, ok := se.X.(*ast.Ident); ok && id.Name == recv {
					// recv.m(...) : own (or promoted) method, or a func-typed field
					handled[se] = true
					mf.calls = append(mf.calls, se.Sel.Name)
					if fields[se.Sel.Name] {
						mf.reads = append(mf.reads, se.Sel.Name)
					}
				} else if inner, ok := se.X.(*ast.SelectorExpr); ok {
					if id, ok := inner.X.(*ast.Ident); ok && id.Name == recv && fields[inner.Sel.Name] {
						// recv.field.M(...)
						handled[inner] = true
						mf.fieldCalls = append(mf.fieldCalls, [2]string{inner.Sel.Name, se.Sel.Name})
					}
				}
			}
		}
		return true
	})
	ast.Inspect(m.fd.Body, func(n ast.Node) bool {
		se, ok := n.(*ast.SelectorExpr)
		if !ok {
			return true
		}
		id, ok := se.X.(*ast.Ident)
		if !ok || id.Name != recv {
			return true
		}
		if handled[se] || written[se] {
			return true
		}
		if fields[se.Sel.Name] {
			mf.reads = append(mf.reads, se.Sel.Name)
		} else {
			// recv.m used as a method value (not called)
			mf.addrTaken = append(mf.addrTaken, "methodvalue:"+se.Sel.Name)
		}
		return true
	})
	// the bare receiver escaping (passed as an argument / assigned) is recorded as a call "escape:recv";
	// registering the object with the epoch notifier is the one expected case
	ast.Inspect(m.fd.Body, func(n ast.Node) bool {
		call, ok := n.(*ast.CallExpr)
		if !ok {
			return true
		}
		for _, a := range call.Args {
			if id, ok := a.(*ast.Ident); ok && id.Name == recv {
				mf.calls = append(mf.calls, "escape:"+exprString(nil, call.Fun))
			}
		}
		return true
	})
	mf.reads, mf.writes, mf.calls, mf.addrTaken = uniq(mf.reads), uniq(mf.writes), uniq(mf.calls), uniq(mf.addrTaken)
	seenFC := map[[2]string]bool{}
	var fcs [][2]string
	for _, fc := range mf.fieldCalls {
		if !seenFC[fc] {
			seenFC[fc] = true
			fcs = append(fcs, fc)
		}
	}
	mf.fieldCalls = fcs
	return mf
}

func setterShape(m methodDecl, mutexField string) []string {
	var shape []string
	recv := m.recv
	mutexCall := func(e ast.Expr) string {
		c, ok := e.(*ast.CallExpr)
		if !ok {
			return ""
		}
		se, ok := c.Fun.(*ast.SelectorExpr)
		if !ok {
			return ""
		}
		inner, ok := se.X.(*ast.SelectorExpr)
		if !ok {
			return ""
		}
		if id, ok := inner.X.(*ast.Ident); ok && id.Name == recv && inner.Sel.Name == mutexField && len(c.Args) == 0 {
			return se.Sel.Name
		}
		return ""
	}
	mentionsRecv := func(n ast.Node) bool {
		found := false
		ast.Inspect(n, func(k ast.Node) bool {
			if id, ok := k.(*ast.Ident); ok && id.Name == recv {
				found = true
			}
			return true
		})
		return found
	}
	for _, st := range m.fd.Body.List {
		switch x := st.(type) {
		case *ast.ExprStmt:
			if n := mutexCall(x.X); n != "" {
				shape = append(shape, n)
			} else {
				shape = append(shape, "other:expr")
			}
		case *ast.DeferStmt:
			if n := mutexCall(x.Call); n != "" {
				shape = append(shape, "defer "+n)
			} else {
				shape = append(shape, "other:defer")
			}
		case *ast.AssignStmt:
			ok := len(x.Lhs) == 1 && len(x.Rhs) == 1 && x.Tok == token.ASSIGN
			if ok {
				if se, isSel := x.Lhs[0].(*ast.SelectorExpr); isSel {
					if id, isId := se.X.(*ast.Ident); isId && id.Name == recv && !mentionsRecv(x.Rhs[0]) {
						shape = append(shape, "assign:"+se.Sel.Name)
						continue
					}
				}
			}
			shape = append(shape, "other:assign")
		case *ast.IfStmt:
			// guard: `if <cond not mentioning the receiver> { return }`
			if x.Init == nil && x.Else == nil && !mentionsRecv(x.Cond) && len(x.Body.List) == 1 {
				if r, ok := x.Body.List[0].(*ast.ReturnStmt); ok && len(r.Results) == 0 {
					shape = append(shape, "guard")
					continue
				}
			}
			shape = append(shape, "other:if")
		default:
			shape = append(shape, fmt.Sprintf("other:%T", st))
		}
	}
	return shape
}

func genLocks(repo, outDir string) {
	o := &outFile{}
	o.p("%s", header)
	o.p("(* ---- builtInFunctions: execution lock discipline ---- *)")
	o.p("Record method_info := MI {")
	o.p("  mi_name : string;")
	o.p("  mi_exported : bool;")
	o.p("  mi_mutex_calls : list string;      (* calls on recv.mutExecution, source order; deferred ones as \"defer X\" *)")
	o.p("  mi_rlock_defer_first : bool;       (* body starts with recv.mutExecution.RLock(); defer recv.mutExecution.RUnlock() *)")
	o.p("  mi_reads : list string;            (* receiver fields read (not as call receiver, not as assignment target) *)")
	o.p("  mi_writes : list string;           (* receiver fields assigned (also through index / sub-field) *)")
	o.p("  mi_calls : list string;            (* recv.m(...) calls; \"escape:f\" when the receiver itself is passed to f; \"go-statement\" *)")
	o.p("  mi_addr_taken : list string;       (* receiver fields whose address is taken; \"methodvalue:m\" for recv.m not called *)")
	o.p("  mi_field_calls : list (string * string) (* recv.field.M(...) : (field, M) *)")
	o.p("}.")
	o.p("Record exec_type := ET {")
	o.p("  et_type : string;")
	o.p("  et_file : string;")
	o.p("  et_fields : list (string * string);      (* struct fields (name, type); embedded ones named after their type *)")
	o.p("  et_has_process : bool;                   (* has a ProcessBuiltinFunction method *)")
	o.p("  et_setter_shape : list string;           (* top-level statements of SetNewGasConfig: guard | Lock | Unlock | assign:<field> | other:<what> *)")
	o.p("  et_methods : list method_info;")
	o.p("  et_external_refs : list (string * string) (* (unexported method, where) referenced outside the type's own methods *)")
	o.p("}.")

	bif := loadPkg(filepath.Join(repo, "builtInFunctions"))
	structs := structsOf(bif)
	methods := methodsOf(bif)
	byType := map[string][]methodDecl{}
	for _, m := range methods {
		byType[m.typ] = append(byType[m.typ], m)
	}
	// types of interest: those with ProcessBuiltinFunction or SetNewGasConfig or a mutExecution field, plus what they embed
	interest := map[string]bool{}
	for t, ms := range byType {
		for _, m := range ms {
			if m.fd.Name.Name == "ProcessBuiltinFunction" || m.fd.Name.Name == "SetNewGasConfig" {
				interest[t] = true
			}
		}
	}
	for t, si := range structs {
		for _, f := range si.fields {
			if f[0] == "mutExecution" {
				interest[t] = true
			}
		}
	}
	for t := range interest {
		if si := structs[t]; si != nil {
			for _, e := range si.embeds {
				if structs[e] != nil {
					interest[e] = true
				}
			}
		}
	}
	var tnames []string
	for t := range interest {
		tnames = append(tnames, t)
	}
	sort.Strings(tnames)
	// external references to unexported methods: any selector `.m` (m unexported method of an interesting type T)
	// that is not `recv.m` inside a method of a type declaring m
	declares := map[string]map[string]bool{}
	for t, ms := range byType {
		declares[t] = map[string]bool{}
		for _, m := range ms {
			declares[t][m.fd.Name.Name] = true
		}
	}
	extRefs := map[string][][2]string{}
	var fnames []string
	for n := range bif.files {
		fnames = append(fnames, n)
	}
	sort.Strings(fnames)
	for _, fname := range fnames {
		for _, d := range bif.files[fname].Decls {
			fd, ok := d.(*ast.FuncDecl)
			if !ok || fd.Body == nil {
				continue
			}
			encl, recv, etyp := fd.Name.Name, "", ""
			if fd.Recv != nil && len(fd.Recv.List) == 1 {
				etyp = strings.TrimPrefix(typeString(fd.Recv.List[0].Type), "*")
				encl = etyp + "." + encl
				if len(fd.Recv.List[0].Names) == 1 {
					recv = fd.Recv.List[0].Names[0].Name
				}
			}
			ast.Inspect(fd.Body, func(n ast.Node) bool {
				se, ok := n.(*ast.SelectorExpr)
				if !ok || ast.IsExported(se.Sel.Name) {
					return true
				}
				if id, ok := se.X.(*ast.Ident); ok && recv != "" && id.Name == recv && declares[etyp][se.Sel.Name] {
					return true // own method through own receiver
				}
				for _, t := range tnames {
					if declares[t][se.Sel.Name] {
						// a field of the same name on another struct is not a reference to the method
						isField := false
						if id, ok := se.X.(*ast.Ident); ok && recv != "" && id.Name == recv {
							if si := structs[etyp]; si != nil {
								for _, f := range si.fields {
									if f[0] == se.Sel.Name {
										isField = true
									}
								}
							}
						}
						if !isField {
							extRefs[t] = append(extRefs[t], [2]string{se.Sel.Name, encl})
						}
					}
				}
				return true
			})
		}
	}

	o.p("Definition exec_types : list exec_type := [")
	for ti, t := range tnames {
		si := structs[t]
		fields := map[string]bool{}
		var fl [][2]string
		file := "?"
		if si != nil {
			fl = si.fields
			file = si.file
			for _, f := range si.fields {
				fields[f[0]] = true
			}
		}
		ms := byType[t]
		sort.Slice(ms, func(i, j int) bool { return ms[i].fd.Name.Name < ms[j].fd.Name.Name })
		hasProcess := false
		var shape []string
		var infos []string
		for _, m := range ms {
			if m.fd.Name.Name == "ProcessBuiltinFunction" {
				hasProcess = true
			}
			if m.fd.Name.Name == "SetNewGasConfig" {
				shape = setterShape(m, "mutExecution")
			}
			mf := analyseMethod(m, fields, "mutExecution")
			infos = append(infos, fmt.Sprintf("      MI \"%s\" %s %s %s %s %s %s %s %s", mf.name, cb(mf.exported), qs(mf.mutexCalls), cb(mf.firstTwo),
				qs(mf.reads), qs(mf.writes), qs(mf.calls), qs(mf.addrTaken), qpairs(mf.fieldCalls)))
		}
		sep := ";"
		if ti == len(tnames)-1 {
			sep = ""
		}
		o.p("  ET \"%s\" \"%s\" %s %s", t, file, qpairs(fl), cb(hasProcess))
		o.p("     %s", qs(shape))
		o.p("     [\n%s ]", strings.Join(infos, ";\n"))
		o.p("     %s%s", qpairs(extRefs[t]), sep)
	}
	o.p("].")
	o.p("")

	// ---- container/mutexMap.go ----
	o.p("(* ---- container/mutexMap.go ---- *)")
	o.p("Record mm_method := MM {")
	o.p("  mm_name : string;")
	o.p("  mm_lock_calls : list string;     (* calls on mm.mut, source order; deferred ones as \"defer X\" *)")
	o.p("  mm_bracketed : bool;             (* top level: lock statement, then every statement touching `values`, then unlock (or defer unlock right after the lock); no return in between unless deferred *)")
	o.p("  mm_writes_values : bool;         (* assigns an element of `values` or deletes from it *)")
	o.p("  mm_reads_values : bool;")
	o.p("  mm_values_other_use : bool       (* `values` used other than values[k], len(values), delete(values,k), range values *)")
	o.p("}.")
	cont := loadPkg(filepath.Join(repo, "container"))
	cstructs := structsOf(cont)
	if si := cstructs["MutexMap"]; si != nil {
		o.p("Definition mutexmap_fields : list (string * string) := %s.", qpairs(si.fields))
	} else {
		o.p("Definition mutexmap_fields : list (string * string) := [(\"UNRECOGNISED\", \"MutexMap struct missing\")].")
	}
	o.p("Definition mutexmap_methods : list mm_method := [")
	var mmInfos []string
	for _, m := range methodsOf(cont) {
		if m.typ != "MutexMap" {
			continue
		}
		mmInfos = append(mmInfos, analyseMapMethod(m))
	}
	o.p("%s", strings.Join(mmInfos, ";\n"))
	o.p("].")
	o.p("")

	// ---- builtInFunctions/container.go ----
	o.p("(* ---- builtInFunctions/container.go: (method, calls in source order — \"objects.M\" on the MutexMap, \"self.M\" on the container —, objects used other than as call receiver) ---- *)")
	if si := structs["functionContainer"]; si != nil {
		o.p("Definition container_fields : list (string * string) := %s.", qpairs(si.fields))
	} else {
		o.p("Definition container_fields : list (string * string) := [(\"UNRECOGNISED\", \"functionContainer struct missing\")].")
	}
	o.p("Definition container_methods : list (string * list string * bool) := [")
	var cInfos []string
	cms := byType["functionContainer"]
	sort.Slice(cms, func(i, j int) bool { return cms[i].fd.Name.Name < cms[j].fd.Name.Name })
	for _, m := range cms {
		var calls []string
		direct := false
		handled := map[*ast.SelectorExpr]bool{}
		ast.Inspect(m.fd.Body, func(n ast.Node) bool {
			call, ok := n.(*ast.CallExpr)
			if !ok {
				return true
			}
			se, ok := call.Fun.(*ast.SelectorExpr)
			if !ok {
				return true
			}
			if id, ok := se.X.(*ast.Ident); ok && id.Name == m.recv {
				calls = append(calls, "self."+se.Sel.Name)
				handled[se] = true
			} else if inner, ok := se.X.(*ast.SelectorExpr); ok {
				if id, ok := inner.X.(*ast.Ident); ok && id.Name == m.recv && inner.Sel.Name == "objects" {
					calls = append(calls, "objects."+se.Sel.Name)
					handled[inner] = true
				}
			}
			return true
		})
		ast.Inspect(m.fd.Body, func(n ast.Node) bool {
			se, ok := n.(*ast.SelectorExpr)
			if !ok || handled[se] {
				return true
			}
			if id, ok := se.X.(*ast.Ident); ok && id.Name == m.recv {
				direct = true
			}
			return true
		})
		cInfos = append(cInfos, fmt.Sprintf("  (\"%s\", %s, %s)", m.fd.Name.Name, qs(calls), cb(direct)))
	}
	o.p("%s", strings.Join(cInfos, ";\n"))
	o.p("].")
	o.p("")

	// ---- atomic/*.go ----
	o.p("(* ---- atomic/*.go ---- *)")
	o.p("Record at_method := AM {")
	o.p("  am_name : string;")
	o.p("  am_prims : list string;        (* sync/atomic primitives applied to &recv.value (atomic.Value: value.Store / value.Load), source order *)")
	o.p("  am_self_calls : list string;   (* calls to the type's own methods *)")
	o.p("  am_plain_access : bool;        (* recv.value used other than as &recv.value argument of an atomic primitive / receiver of Store,Load *)")
	o.p("  am_exclusive : bool            (* more than one call only as `if c { one call } else { one call }` *)")
	o.p("}.")
	at := loadPkg(filepath.Join(repo, "atomic"))
	astructs := structsOf(at)
	var anames []string
	for n := range astructs {
		anames = append(anames, n)
	}
	sort.Strings(anames)
	ams := methodsOf(at)
	o.p("Definition atomic_types : list (string * list (string * string) * list at_method) := [")
	var aInfos []string
	for _, tn := range anames {
		var minfos []string
		var tms []methodDecl
		for _, m := range ams {
			if m.typ == tn {
				tms = append(tms, m)
			}
		}
		sort.Slice(tms, func(i, j int) bool { return tms[i].fd.Name.Name < tms[j].fd.Name.Name })
		for _, m := range tms {
			minfos = append(minfos, analyseAtomicMethod(m))
		}
		aInfos = append(aInfos, fmt.Sprintf("  (\"%s\", %s, [\n%s ])", tn, qpairs(astructs[tn].fields), strings.Join(minfos, ";\n")))
	}
	o.p("%s", strings.Join(aInfos, ";\n"))
	o.p("].")
	writeIfChanged(filepath.Join(outDir, "LockDiscipline.v"), o.buf.Bytes())
}

func analyseMapMethod(m methodDecl) string {
	recv := m.recv
	lockName := func(e ast.Expr) string {
		c, ok := e.(*ast.CallExpr)
		if !ok || len(c.Args) != 0 {
			return ""
		}
		se, ok := c.Fun.(*ast.SelectorExpr)
		if !ok {
			return ""
		}
		inner, ok := se.X.(*ast.SelectorExpr)
		if !ok {
			return ""
		}
		if id, ok := inner.X.(*ast.Ident); ok && id.Name == recv && inner.Sel.Name == "mut" {
			return se.Sel.Name
		}
		return ""
	}
	isValues := func(e ast.Expr) bool {
		se, ok := e.(*ast.SelectorExpr)
		if !ok {
			return false
		}
		id, ok := se.X.(*ast.Ident)
		return ok && id.Name == recv && se.Sel.Name == "values"
	}
	touches := func(n ast.Node) bool {
		f := false
		ast.Inspect(n, func(k ast.Node) bool {
			if e, ok := k.(ast.Expr); ok && isValues(e) {
				f = true
			}
			return true
		})
		return f
	}
	hasReturn := func(n ast.Node) bool {
		f := false
		ast.Inspect(n, func(k ast.Node) bool {
			if _, ok := k.(*ast.ReturnStmt); ok {
				f = true
			}
			return true
		})
		return f
	}
	// all lock calls in source order
	var lockCalls []string
	deferred := map[*ast.CallExpr]bool{}
	ast.Inspect(m.fd.Body, func(n ast.Node) bool {
		if d, ok := n.(*ast.DeferStmt); ok {
			deferred[d.Call] = true
		}
		if c, ok := n.(*ast.CallExpr); ok {
			if nm := lockName(c); nm != "" {
				if deferred[c] {
					nm = "defer " + nm
				}
				lockCalls = append(lockCalls, nm)
			}
		}
		return true
	})
	// bracket check on the top-level statement list
	lockIdx, unlockIdx, deferIdx := -1, -1, -1
	for i, st := range m.fd.Body.List {
		switch x := st.(type) {
		case *ast.ExprStmt:
			switch lockName(x.X) {
			case "Lock", "RLock":
				if lockIdx < 0 {
					lockIdx = i
				}
			case "Unlock", "RUnlock":
				if unlockIdx < 0 {
					unlockIdx = i
				}
			}
		case *ast.DeferStmt:
			switch lockName(x.Call) {
			case "Unlock", "RUnlock":
				if deferIdx < 0 {
					deferIdx = i
				}
			}
		}
	}
	bracketed := lockIdx >= 0 && len(lockCalls) == 2
	if bracketed {
		if deferIdx >= 0 {
			bracketed = deferIdx == lockIdx+1 && unlockIdx < 0
		} else {
			bracketed = unlockIdx > lockIdx
		}
	}
	for i, st := range m.fd.Body.List {
		if i == lockIdx || i == unlockIdx || i == deferIdx {
			continue
		}
		if touches(st) {
			if deferIdx >= 0 {
				if i < deferIdx {
					bracketed = false
				}
			} else if !(i > lockIdx && i < unlockIdx) {
				bracketed = false
			}
		}
		if deferIdx < 0 && i > lockIdx && i < unlockIdx && hasReturn(st) {
			bracketed = false // a return between Lock and Unlock would leave the lock held
		}
	}
	// classify the uses of `values`
	writes, reads, other := false, false, false
	okUse := map[ast.Expr]bool{}
	ast.Inspect(m.fd.Body, func(n ast.Node) bool {
		switch x := n.(type) {
		case *ast.AssignStmt:
			for _, l := range x.Lhs {
				if ix, ok := l.(*ast.IndexExpr); ok && isValues(ix.X) {
					writes = true
					okUse[ix.X] = true
				}
			}
		case *ast.IndexExpr:
			if isValues(x.X) && !okUse[x.X] {
				reads = true
				okUse[x.X] = true
			}
		case *ast.RangeStmt:
			if isValues(x.X) {
				reads = true
				okUse[x.X] = true
			}
		case *ast.CallExpr:
			if id, ok := x.Fun.(*ast.Ident); ok && len(x.Args) >= 1 && isValues(x.Args[0]) {
				switch id.Name {
				case "len":
					reads = true
					okUse[x.Args[0]] = true
				case "delete":
					writes = true
					okUse[x.Args[0]] = true
				}
			}
		}
		return true
	})
	ast.Inspect(m.fd.Body, func(n ast.Node) bool {
		if e, ok := n.(ast.Expr); ok && isValues(e) && !okUse[e] {
			other = true
		}
		return true
	})
	return fmt.Sprintf("  MM \"%s\" %s %s %s %s %s", m.fd.Name.Name, qs(lockCalls), cb(bracketed), cb(writes), cb(reads), cb(other))
}

func analyseAtomicMethod(m methodDecl) string {
	recv := m.recv
	var prims, self []string
	plain := false
	handled := map[*ast.SelectorExpr]bool{}
	isValue := func(e ast.Expr) *ast.SelectorExpr {
		se, ok := e.(*ast.SelectorExpr)
		if !ok {
			return nil
		}
		if id, ok := se.X.(*ast.Ident); ok && id.Name == recv && se.Sel.Name == "value" {
			return se
		}
		return nil
	}
	ast.Inspect(m.fd.Body, func(n ast.Node) bool {
		call, ok := n.(*ast.CallExpr)
		if !ok {
			return true
		}
		se, ok := call.Fun.(*ast.SelectorExpr)
		if !ok {
			return true
		}
		if id, ok := se.X.(*ast.Ident); ok && id.Name == "atomic" {
			// atomic.Prim(&recv.value, ...)
			if len(call.Args) >= 1 {
				if ue, ok := call.Args[0].(*ast.UnaryExpr); ok && ue.Op == token.AND {
					if v := isValue(ue.X); v != nil {
						handled[v] = true
						prims = append(prims, se.Sel.Name)
						return true
					}
				}
			}
			prims = append(prims, "UNRECOGNISED:"+se.Sel.Name)
			return true
		}
		if id, ok := se.X.(*ast.Ident); ok && id.Name == recv {
			self = append(self, se.Sel.Name)
			handled[se] = true
			return true
		}
		if v := isValue(se.X); v != nil && (se.Sel.Name == "Store" || se.Sel.Name == "Load" || se.Sel.Name == "Swap" || se.Sel.Name == "CompareAndSwap") {
			handled[v] = true
			prims = append(prims, "Value."+se.Sel.Name)
		}
		return true
	})
	ast.Inspect(m.fd.Body, func(n ast.Node) bool {
		if e, ok := n.(ast.Expr); ok {
			if v := isValue(e); v != nil && !handled[v] {
				plain = true
			}
		}
		return true
	})
	exclusive := len(prims)+len(self) <= 1
	if !exclusive && len(m.fd.Body.List) == 1 {
		if is, ok := m.fd.Body.List[0].(*ast.IfStmt); ok && is.Init == nil && is.Else != nil {
			if eb, ok := is.Else.(*ast.BlockStmt); ok && len(is.Body.List) == 1 && len(eb.List) == 1 && len(prims)+len(self) == 2 {
				_, ok1 := is.Body.List[0].(*ast.ExprStmt)
				_, ok2 := eb.List[0].(*ast.ExprStmt)
				exclusive = ok1 && ok2
			}
		}
	}
	return fmt.Sprintf("      AM \"%s\" %s %s %s %s", m.fd.Name.Name, qs(prims), qs(self), cb(plain), cb(exclusive))
}
