package main

// gen/LockDiscipline.v — the synchronisation skeleton of the CURRENT sources, for property C19:
//   * builtInFunctions: every type with a ProcessBuiltinFunction method (and the activation bases they embed):
//     per method the calls on mutExecution, receiver fields read / written / address-taken, calls to the type's
//     own methods; the statement shape of SetNewGasConfig; references to unexported methods from elsewhere;
//   * container/mutexMap.go: per method the lock calls, whether every access to `values` is bracketed;
//   * builtInFunctions/container.go: per method the MutexMap methods it goes through;
//   * atomic/*.go: per method the sync/atomic primitives used and whether the field is ever accessed plainly.
// Anything the extractor does not understand is emitted as an `unrecognised` entry, which makes the Coq
// obligation `lock_discipline_ok` fail.
//
// The lock columns are read PER CONTROL-FLOW PATH (enumeratePaths below), not per source line: a method that
// unlocks before an early return and again at its end has the lock calls [Lock; Unlock] on each of its paths and is
// reported that way.  A column gets the common per-path reading only when every path was followed and all paths
// agree; in every other case (paths disagree, goto, labels, lock calls inside closures or loops, the lock handed to
// somebody else, ...) the row is the plain source-order reading it always was, marked so that the check fails where
// that reading alone would not be a proof.

import (
	"fmt"
	"go/ast"
	"go/token"
	"path/filepath"
	"sort"
	"strings"
)

func qs(l []string) string {
	var q []string
	for _, s := range l {
		q = append(q, "\""+strings.ReplaceAll(s, "\"", "'")+"\"")
	}
	return "[" + strings.Join(q, "; ") + "]"
}

func qpairs(l [][2]string) string {
	var q []string
	for _, p := range l {
		q = append(q, fmt.Sprintf("(\"%s\", \"%s\")", p[0], p[1]))
	}
	return "[" + strings.Join(q, "; ") + "]"
}

func qtriples(l [][3]string) string {
	var q []string
	for _, p := range l {
		q = append(q, fmt.Sprintf("(\"%s\", \"%s\", \"%s\")", p[0], p[1], p[2]))
	}
	return "[" + strings.Join(q, "; ") + "]"
}

func cb(b bool) string {
	if b {
		return "true"
	}
	return "false"
}

func uniq(l []string) []string {
	seen := map[string]bool{}
	var out []string
	for _, s := range l {
		if !seen[s] {
			seen[s] = true
			out = append(out, s)
		}
	}
	return out
}

func typeString(e ast.Expr) string {
	switch x := e.(type) {
	case *ast.Ident:
		return x.Name
	case *ast.StarExpr:
		return "*" + typeString(x.X)
	case *ast.SelectorExpr:
		return typeString(x.X) + "." + x.Sel.Name
	case *ast.ArrayType:
		if x.Len == nil {
			return "[]" + typeString(x.Elt)
		}
		return "[n]" + typeString(x.Elt)
	case *ast.MapType:
		return "map[" + typeString(x.Key) + "]" + typeString(x.Value)
	case *ast.InterfaceType:
		return "interface{}"
	case *ast.StructType:
		return "struct{}"
	case *ast.FuncType:
		return "func"
	}
	return fmt.Sprintf("?%T", e)
}

type structInfo struct {
	name   string
	file   string
	fields [][2]string // (name, type); embedded fields are named after their type
	embeds []string
}

func structsOf(pi *pkgInfo) map[string]*structInfo {
	out := map[string]*structInfo{}
	for fname, f := range pi.files {
		for _, d := range f.Decls {
			gd, ok := d.(*ast.GenDecl)
			if !ok || gd.Tok != token.TYPE {
				continue
			}
			for _, sp := range gd.Specs {
				ts := sp.(*ast.TypeSpec)
				st, ok := ts.Type.(*ast.StructType)
				if !ok {
					continue
				}
				si := &structInfo{name: ts.Name.Name, file: fname}
				for _, fl := range st.Fields.List {
					ty := typeString(fl.Type)
					if len(fl.Names) == 0 {
						n := strings.TrimPrefix(ty, "*")
						if i := strings.LastIndex(n, "."); i >= 0 {
							n = n[i+1:]
						}
						si.fields = append(si.fields, [2]string{n, ty})
						si.embeds = append(si.embeds, n)
					}
					for _, n := range fl.Names {
						si.fields = append(si.fields, [2]string{n.Name, ty})
					}
				}
				out[si.name] = si
			}
		}
	}
	return out
}

type methodDecl struct {
	typ  string
	recv string
	fd   *ast.FuncDecl
	file string
}

func methodsOf(pi *pkgInfo) []methodDecl {
	var out []methodDecl
	var fnames []string
	for n := range pi.files {
		fnames = append(fnames, n)
	}
	sort.Strings(fnames)
	for _, fname := range fnames {
		for _, d := range pi.files[fname].Decls {
			fd, ok := d.(*ast.FuncDecl)
			if !ok || fd.Recv == nil || len(fd.Recv.List) != 1 || fd.Body == nil {
				continue
			}
			typ := strings.TrimPrefix(typeString(fd.Recv.List[0].Type), "*")
			recv := "_"
			if len(fd.Recv.List[0].Names) == 1 {
				recv = fd.Recv.List[0].Names[0].Name
			}
			out = append(out, methodDecl{typ: typ, recv: recv, fd: fd, file: fname})
		}
	}
	return out
}

// recvField returns the receiver field at the base of an expression such as recv.f, recv.f.g, recv.f[i].g
func recvField(e ast.Expr, recv string) (string, *ast.SelectorExpr) {
	for {
		switch x := e.(type) {
		case *ast.SelectorExpr:
			if id, ok := x.X.(*ast.Ident); ok && id.Name == recv {
				return x.Sel.Name, x
			}
			e = x.X
		case *ast.IndexExpr:
			e = x.X
		case *ast.ParenExpr:
			e = x.X
		case *ast.StarExpr:
			e = x.X
		default:
			return "", nil
		}
	}
}

type methodFacts struct {
	name       string
	exported   bool
	mutexCalls []string
	firstTwo   bool
	reads      []string
	writes     []string
	calls      []string
	addrTaken  []string
	fieldCalls [][2]string
}

// analyseMethod; `wrappers` are the type's own lock wrappers (lockWrappers): recv.w() counts as the mutex call it makes
func analyseMethod(m methodDecl, fields map[string]bool, mutexField string, wrappers map[string]string) methodFacts {
	mf := methodFacts{name: m.fd.Name.Name, exported: ast.IsExported(m.fd.Name.Name)}
	recv := m.recv
	isMutexCall := func(call *ast.CallExpr) (string, bool) {
		se, ok := call.Fun.(*ast.SelectorExpr)
		if !ok {
			return "", false
		}
		if id, ok := se.X.(*ast.Ident); ok && id.Name == recv && wrappers[se.Sel.Name] != "" && len(call.Args) == 0 {
			return wrappers[se.Sel.Name], true
		}
		inner, ok := se.X.(*ast.SelectorExpr)
		if !ok {
			return "", false
		}
		id, ok := inner.X.(*ast.Ident)
		if !ok || id.Name != recv || inner.Sel.Name != mutexField {
			return "", false
		}
		return se.Sel.Name, true
	}
	// first two statements
	if len(m.fd.Body.List) >= 2 {
		if es, ok := m.fd.Body.List[0].(*ast.ExprStmt); ok {
			if c, ok := es.X.(*ast.CallExpr); ok {
				if n, ok := isMutexCall(c); ok && n == "RLock" && len(c.Args) == 0 {
					if ds, ok := m.fd.Body.List[1].(*ast.DeferStmt); ok {
						if n2, ok := isMutexCall(ds.Call); ok && n2 == "RUnlock" && len(ds.Call.Args) == 0 {
							mf.firstTwo = true
						}
					}
				}
			}
		}
	}
	written := map[*ast.SelectorExpr]bool{}
	handled := map[*ast.SelectorExpr]bool{} // selector nodes consumed as call receivers / mutex calls / method calls
	deferred := map[*ast.CallExpr]bool{}
	ast.Inspect(m.fd.Body, func(n ast.Node) bool {
		switch x := n.(type) {
		case *ast.DeferStmt:
			deferred[x.Call] = true
		case *ast.GoStmt:
			mf.calls = append(mf.calls, "go-statement")
		case *ast.AssignStmt:
			for _, l := range x.Lhs {
				if f, se := recvField(l, recv); se != nil && fields[f] {
					written[se] = true
					mf.writes = append(mf.writes, f)
				}
			}
		case *ast.IncDecStmt:
			if f, se := recvField(x.X, recv); se != nil && fields[f] {
				written[se] = true
				mf.writes = append(mf.writes, f)
			}
		case *ast.UnaryExpr:
			if x.Op == token.AND {
				if f, se := recvField(x.X, recv); se != nil && fields[f] {
					handled[se] = true
					mf.addrTaken = append(mf.addrTaken, f)
				}
			}
		case *ast.CallExpr:
			if n, ok := isMutexCall(x); ok {
				if deferred[x] {
					n = "defer " + n
				}
				mf.mutexCalls = append(mf.mutexCalls, n)
				if inner, ok := x.Fun.(*ast.SelectorExpr).X.(*ast.SelectorExpr); ok {
					handled[inner] = true
				} else {
					handled[x.Fun.(*ast.SelectorExpr)] = true // recv.wrapper()
				}
				return true
			}
			if se, ok := x.Fun.(*ast.SelectorExpr); ok {
				if id, ok := se.X.(*ast.Ident); ok && id.Name == recv {
					// recv.m(...) : own (or promoted) method, or a func-typed field
					handled[se] = true
					mf.calls = append(mf.calls, se.Sel.Name)
					if fields[se.Sel.Name] {
						mf.reads = append(mf.reads, se.Sel.Name)
					}
				} else if inner, ok := se.X.(*ast.SelectorExpr); ok {
					if id, ok := inner.X.(*ast.Ident); ok && id.Name == recv && fields[inner.Sel.Name] {
						// recv.field.M(...)
						handled[inner] = true
						mf.fieldCalls = append(mf.fieldCalls, [2]string{inner.Sel.Name, se.Sel.Name})
					}
				}
			}
		}
		return true
	})
	ast.Inspect(m.fd.Body, func(n ast.Node) bool {
		se, ok := n.(*ast.SelectorExpr)
		if !ok {
			return true
		}
		id, ok := se.X.(*ast.Ident)
		if !ok || id.Name != recv {
			return true
		}
		if handled[se] || written[se] {
			return true
		}
		if fields[se.Sel.Name] {
			mf.reads = append(mf.reads, se.Sel.Name)
		} else {
			// recv.m used as a method value (not called)
			mf.addrTaken = append(mf.addrTaken, "methodvalue:"+se.Sel.Name)
		}
		return true
	})
	// the bare receiver escaping (passed as an argument / assigned) is recorded as a call "escape:recv";
	// registering the object with the epoch notifier is the one expected case
	ast.Inspect(m.fd.Body, func(n ast.Node) bool {
		call, ok := n.(*ast.CallExpr)
		if !ok {
			return true
		}
		for _, a := range call.Args {
			if id, ok := a.(*ast.Ident); ok && id.Name == recv {
				mf.calls = append(mf.calls, "escape:"+exprString(nil, call.Fun))
			}
		}
		return true
	})
	// The two lock columns, path by path.  Events: the mutex calls and "R" for anything that mentions the receiver.
	//   mi_mutex_calls       : the lock calls of a path that calls the mutex at all; all such paths must agree.
	//   mi_rlock_defer_first : every path that mentions the receiver begins RLock(); defer RUnlock() (a path that
	//                          returns before it touches the receiver needs no lock).
	// The source-order reading computed above stays when the body cannot be followed: "RLock and the deferred RUnlock
	// are the first two statements and there is no other mutex call in the text" is a proof on its own.  Disagreeing
	// paths are marked, so they fail whatever the list looks like.
	pa := enumeratePaths(lockPathSpec{recv: recv, mutex: mutexField, wrappers: wrappers, tokens: func(n ast.Node) []string {
		if mentionsIdent(n, recv) {
			return []string{"R"}
		}
		return nil
	}}, m.fd.Body)
	if pa.bad == "" {
		var locking, touching [][]string
		for _, p := range pa.paths {
			if hasLockEvent(p) {
				locking = append(locking, p)
			}
			if len(p) > 0 {
				touching = append(touching, p)
			}
		}
		if seq, ok := commonLockSeq(locking); ok {
			mf.mutexCalls = seq
			if !mf.firstTwo && len(locking) > 0 {
				mf.firstTwo = true
				for _, p := range touching {
					if len(p) < 2 || p[0] != "L:RLock" || p[1] != "D:RUnlock" {
						mf.firstTwo = false
					}
				}
			}
		} else {
			mf.mutexCalls = append(mf.mutexCalls, "unrecognised:the paths of the method call the mutex differently")
			mf.firstTwo = false
		}
	}
	mf.reads, mf.writes, mf.calls, mf.addrTaken = uniq(mf.reads), uniq(mf.writes), uniq(mf.calls), uniq(mf.addrTaken)
	sort.Strings(mf.writes) // a set: the order in which a method assigns its fields says nothing
	seenFC := map[[2]string]bool{}
	var fcs [][2]string
	for _, fc := range mf.fieldCalls {
		if !seenFC[fc] {
			seenFC[fc] = true
			fcs = append(fcs, fc)
		}
	}
	mf.fieldCalls = fcs
	return mf
}

// setterShape: the statements SetNewGasConfig executes, path by path.  Leading `if <no receiver> { return }`
// statements are "guard"; a path that neither calls the mutex nor mentions the receiver does nothing that matters and
// is left out; all other paths must execute the same sequence of Lock | Unlock | defer X | assign:<field> |
// other:<what> (a statement that does not mention the receiver is no event), in the order of EXECUTION: a deferred
// mutex call stands where it runs, at the end of the path.  When the paths differ, or when the body cannot be
// followed, the result is the top-level reading, in which every nested statement is an `other:` entry and a deferred
// call a `defer X` entry.
func setterShape(m methodDecl, mutexField string, wrappers map[string]string) []string {
	top := setterShapeTopLevel(m, mutexField, wrappers)
	recv := m.recv
	pa := enumeratePaths(lockPathSpec{recv: recv, mutex: mutexField, wrappers: wrappers, tokens: func(n ast.Node) []string {
		if as, ok := n.(*ast.AssignStmt); ok && len(as.Lhs) == 1 && len(as.Rhs) == 1 && as.Tok == token.ASSIGN {
			if se, isSel := as.Lhs[0].(*ast.SelectorExpr); isSel {
				if id, isId := se.X.(*ast.Ident); isId && id.Name == recv && !mentionsIdent(as.Rhs[0], recv) {
					return []string{"assign:" + se.Sel.Name}
				}
			}
		}
		if mentionsIdent(n, recv) {
			return []string{"other:" + nodeKind(n)}
		}
		return nil
	}}, m.fd.Body)
	if pa.bad != "" {
		return top
	}
	var common []string
	found := false
	for _, p := range pa.paths {
		if len(p) == 0 {
			continue
		}
		var seq []string
		for _, e := range p {
			switch {
			case strings.HasPrefix(e, "L:"), strings.HasPrefix(e, "X:"):
				seq = append(seq, e[2:])
			case strings.HasPrefix(e, "D:"):
			default:
				seq = append(seq, e)
			}
		}
		if found && !sameStrings(common, seq) {
			return append(top, "other:the paths of the setter differ")
		}
		common, found = seq, true
	}
	var shape []string
	for _, t := range top {
		if t != "guard" {
			break
		}
		shape = append(shape, t)
	}
	return append(shape, common...)
}

func setterShapeTopLevel(m methodDecl, mutexField string, wrappers map[string]string) []string {
	var shape []string
	recv := m.recv
	mutexCall := func(e ast.Expr) string {
		c, ok := e.(*ast.CallExpr)
		if !ok {
			return ""
		}
		se, ok := c.Fun.(*ast.SelectorExpr)
		if !ok {
			return ""
		}
		if id, ok := se.X.(*ast.Ident); ok && id.Name == recv && wrappers[se.Sel.Name] != "" && len(c.Args) == 0 {
			return wrappers[se.Sel.Name]
		}
		inner, ok := se.X.(*ast.SelectorExpr)
		if !ok {
			return ""
		}
		if id, ok := inner.X.(*ast.Ident); ok && id.Name == recv && inner.Sel.Name == mutexField && len(c.Args) == 0 {
			return se.Sel.Name
		}
		return ""
	}
	mentionsRecv := func(n ast.Node) bool {
		found := false
		ast.Inspect(n, func(k ast.Node) bool {
			if id, ok := k.(*ast.Ident); ok && id.Name == recv {
				found = true
			}
			return true
		})
		return found
	}
	for _, st := range m.fd.Body.List {
		switch x := st.(type) {
		case *ast.ExprStmt:
			if n := mutexCall(x.X); n != "" {
				shape = append(shape, n)
			} else {
				shape = append(shape, "other:expr")
			}
		case *ast.DeferStmt:
			if n := mutexCall(x.Call); n != "" {
				shape = append(shape, "defer "+n)
			} else {
				shape = append(shape, "other:defer")
			}
		case *ast.AssignStmt:
			ok := len(x.Lhs) == 1 && len(x.Rhs) == 1 && x.Tok == token.ASSIGN
			if ok {
				if se, isSel := x.Lhs[0].(*ast.SelectorExpr); isSel {
					if id, isId := se.X.(*ast.Ident); isId && id.Name == recv && !mentionsRecv(x.Rhs[0]) {
						shape = append(shape, "assign:"+se.Sel.Name)
						continue
					}
				}
			}
			shape = append(shape, "other:assign")
		case *ast.IfStmt:
			// guard: `if <cond not mentioning the receiver> { return }`
			if x.Init == nil && x.Else == nil && !mentionsRecv(x.Cond) && len(x.Body.List) == 1 {
				if r, ok := x.Body.List[0].(*ast.ReturnStmt); ok && len(r.Results) == 0 {
					shape = append(shape, "guard")
					continue
				}
			}
			shape = append(shape, "other:if")
		default:
			shape = append(shape, fmt.Sprintf("other:%T", st))
		}
	}
	return shape
}

func genLocks(repo, outDir string) {
	o := &outFile{}
	o.p("%s", header)
	o.p("(* ---- builtInFunctions: execution lock discipline ---- *)")
	o.p("Record method_info := MI {")
	o.p("  mi_name : string;")
	o.p("  mi_exported : bool;")
	o.p("  mi_mutex_calls : list string;      (* calls on recv.mutExecution (also through an own one-line wrapper method) of a path that calls it, deferred ones as \"defer X\";")
	o.p("                                        when the paths differ: all calls in source order and an \"unrecognised:\" entry *)")
	o.p("  mi_rlock_defer_first : bool;       (* every path that mentions the receiver starts with recv.mutExecution.RLock(); defer recv.mutExecution.RUnlock() *)")
	o.p("  mi_reads : list string;            (* receiver fields read (not as call receiver, not as assignment target) *)")
	o.p("  mi_writes : list string;           (* receiver fields assigned (also through index / sub-field), sorted *)")
	o.p("  mi_calls : list string;            (* recv.m(...) calls; \"escape:f\" when the receiver itself is passed to f; \"go-statement\" *)")
	o.p("  mi_addr_taken : list string;       (* receiver fields whose address is taken; \"methodvalue:m\" for recv.m not called *)")
	o.p("  mi_field_calls : list (string * string) (* recv.field.M(...) : (field, M) *)")
	o.p("}.")
	o.p("Record exec_type := ET {")
	o.p("  et_type : string;")
	o.p("  et_file : string;")
	o.p("  et_fields : list (string * string);      (* struct fields (name, type); embedded ones named after their type *)")
	o.p("  et_has_process : bool;                   (* has a ProcessBuiltinFunction method *)")
	o.p("  et_setter_shape : list string;           (* what SetNewGasConfig executes, in that order, on every path that touches the receiver: guard | Lock | Unlock | assign:<field> | other:<what>;")
	o.p("                                              its top-level statements and an other: entry when the paths differ *)")
	o.p("  et_methods : list method_info;")
	o.p("  et_external_refs : list (string * string) (* (unexported method, where) referenced outside the type's own methods *)")
	o.p("}.")

	bif := loadPkg(filepath.Join(repo, "builtInFunctions"))
	structs := structsOf(bif)
	methods := methodsOf(bif)
	byType := map[string][]methodDecl{}
	for _, m := range methods {
		byType[m.typ] = append(byType[m.typ], m)
	}
	// types of interest: those with ProcessBuiltinFunction or SetNewGasConfig or a mutExecution field, plus what they embed
	interest := map[string]bool{}
	for t, ms := range byType {
		for _, m := range ms {
			if m.fd.Name.Name == "ProcessBuiltinFunction" || m.fd.Name.Name == "SetNewGasConfig" {
				interest[t] = true
			}
		}
	}
	for t, si := range structs {
		for _, f := range si.fields {
			if f[0] == "mutExecution" {
				interest[t] = true
			}
		}
	}
	for t := range interest {
		if si := structs[t]; si != nil {
			for _, e := range si.embeds {
				if structs[e] != nil {
					interest[e] = true
				}
			}
		}
	}
	var tnames []string
	for t := range interest {
		tnames = append(tnames, t)
	}
	sort.Strings(tnames)
	// external references to unexported methods: any selector `.m` (m unexported method of an interesting type T)
	// that is not `recv.m` inside a method of a type declaring m
	declares := map[string]map[string]bool{}
	for t, ms := range byType {
		declares[t] = map[string]bool{}
		for _, m := range ms {
			declares[t][m.fd.Name.Name] = true
		}
	}
	extRefs := map[string][][2]string{}
	var fnames []string
	for n := range bif.files {
		fnames = append(fnames, n)
	}
	sort.Strings(fnames)
	for _, fname := range fnames {
		for _, d := range bif.files[fname].Decls {
			fd, ok := d.(*ast.FuncDecl)
			if !ok || fd.Body == nil {
				continue
			}
			encl, recv, etyp := fd.Name.Name, "", ""
			if fd.Recv != nil && len(fd.Recv.List) == 1 {
				etyp = strings.TrimPrefix(typeString(fd.Recv.List[0].Type), "*")
				encl = etyp + "." + encl
				if len(fd.Recv.List[0].Names) == 1 {
					recv = fd.Recv.List[0].Names[0].Name
				}
			}
			ast.Inspect(fd.Body, func(n ast.Node) bool {
				se, ok := n.(*ast.SelectorExpr)
				if !ok || ast.IsExported(se.Sel.Name) {
					return true
				}
				if id, ok := se.X.(*ast.Ident); ok && recv != "" && id.Name == recv && declares[etyp][se.Sel.Name] {
					return true // own method through own receiver
				}
				for _, t := range tnames {
					if declares[t][se.Sel.Name] {
						// a field of the same name on another struct is not a reference to the method
						isField := false
						if id, ok := se.X.(*ast.Ident); ok && recv != "" && id.Name == recv {
							if si := structs[etyp]; si != nil {
								for _, f := range si.fields {
									if f[0] == se.Sel.Name {
										isField = true
									}
								}
							}
						}
						if !isField {
							extRefs[t] = append(extRefs[t], [2]string{se.Sel.Name, encl})
						}
					}
				}
				return true
			})
		}
	}

	o.p("Definition exec_types : list exec_type := [")
	for ti, t := range tnames {
		si := structs[t]
		fields := map[string]bool{}
		var fl [][2]string
		file := "?"
		if si != nil {
			fl = si.fields
			file = si.file
			for _, f := range si.fields {
				fields[f[0]] = true
			}
		}
		ms := byType[t]
		sort.Slice(ms, func(i, j int) bool { return ms[i].fd.Name.Name < ms[j].fd.Name.Name })
		hasProcess := false
		var shape []string
		var infos []string
		// own unexported methods that do nothing but one call on the receiver's mutExecution are read as that call where
		// they are called; they are no rows (nothing in them needs a discipline), but stay known to the reference scan
		// above, so a use from outside the type's methods is still an et_external_refs entry
		wrappers := lockWrappers(ms, "mutExecution")
		for _, m := range ms {
			if wrappers[m.fd.Name.Name] != "" {
				continue
			}
			if m.fd.Name.Name == "ProcessBuiltinFunction" {
				hasProcess = true
			}
			if m.fd.Name.Name == "SetNewGasConfig" {
				shape = setterShape(m, "mutExecution", wrappers)
			}
			mf := analyseMethod(m, fields, "mutExecution", wrappers)
			infos = append(infos, fmt.Sprintf("      MI \"%s\" %s %s %s %s %s %s %s %s", mf.name, cb(mf.exported), qs(mf.mutexCalls), cb(mf.firstTwo),
				qs(mf.reads), qs(mf.writes), qs(mf.calls), qs(mf.addrTaken), qpairs(mf.fieldCalls)))
		}
		sep := ";"
		if ti == len(tnames)-1 {
			sep = ""
		}
		o.p("  ET \"%s\" \"%s\" %s %s", t, file, qpairs(fl), cb(hasProcess))
		o.p("     %s", qs(shape))
		o.p("     [\n%s ]", strings.Join(infos, ";\n"))
		o.p("     %s%s", qpairs(extRefs[t]), sep)
	}
	o.p("].")
	o.p("")

	// ---- where the mutExecution of a type comes from ----
	o.p("(* ---- builtInFunctions: every place where a value of a type with a `mutExecution` field comes into being, or where such a")
	o.p("        field is used other than through the receiver of one of the type's own methods: (type, enclosing function, what)")
	o.p("          literal:init-value    T{..., mutExecution: sync.RWMutex{}, ...}")
	o.p("          literal:init-pointer  T{..., mutExecution: &sync.RWMutex{}, ...}   (or new(sync.RWMutex)): a fresh mutex of its own")
	o.p("          literal:missing       T{...} without the field: the zero value (a ready sync.RWMutex, a nil *sync.RWMutex)")
	o.p("          literal:other         T{..., mutExecution: <anything else>, ...}, or a literal with positional fields")
	o.p("          zero:<where>          the type named other than as *T, as a receiver or as the type of a literal (new(T), var x T,")
	o.p("                                []T, a field or parameter of type T, a conversion, ...): a value may be created with zero fields")
	o.p("          foreign-use           x.mutExecution where x is not the receiver of a method of the type (type \"*\": whichever type x has) ---- *)")
	o.p("Definition mutex_sites : list (string * string * string) := %s.", qtriples(mutexSites(bif, structs, tnames, "mutExecution")))
	o.p("")

	// ---- container/mutexMap.go ----
	o.p("(* ---- container/mutexMap.go ---- *)")
	o.p("Record mm_method := MM {")
	o.p("  mm_name : string;")
	o.p("  mm_lock_calls : list string;     (* calls on mm.mut of every path that locks or touches `values`, deferred ones as \"defer X\"; when the paths differ or cannot be followed: all calls in source order *)")
	o.p("  mm_bracketed : bool;             (* every such path: one lock, every use of `values` after it, then the matching unlock exactly once (by a call, or by a defer) before the method returns *)")
	o.p("  mm_writes_values : bool;         (* assigns an element of `values` or deletes from it *)")
	o.p("  mm_reads_values : bool;")
	o.p("  mm_values_other_use : bool       (* `values` used other than values[k], len(values), delete(values,k), range values *)")
	o.p("}.")
	cont := loadPkg(filepath.Join(repo, "container"))
	cstructs := structsOf(cont)
	if si := cstructs["MutexMap"]; si != nil {
		o.p("Definition mutexmap_fields : list (string * string) := %s.", qpairs(si.fields))
	} else {
		o.p("Definition mutexmap_fields : list (string * string) := [(\"UNRECOGNISED\", \"MutexMap struct missing\")].")
	}
	o.p("Definition mutexmap_methods : list mm_method := [")
	var mmInfos []string
	var mmMethods []methodDecl
	for _, m := range methodsOf(cont) {
		if m.typ == "MutexMap" {
			mmMethods = append(mmMethods, m)
		}
	}
	// lock wrappers of the map (see lockWrappers) are read at their call sites and are no rows — unless one is used
	// anywhere but as  recv.w  inside a method of the map: then it stays an ordinary method, and its row fails
	mmWrappers := lockWrappers(mmMethods, "mut")
	for _, ref := range selectorRefsOutside(cont, "MutexMap", mmWrappers) {
		delete(mmWrappers, ref)
	}
	for _, m := range mmMethods {
		if mmWrappers[m.fd.Name.Name] != "" {
			continue
		}
		mmInfos = append(mmInfos, analyseMapMethod(m, mmWrappers))
	}
	o.p("%s", strings.Join(mmInfos, ";\n"))
	o.p("].")
	o.p("")

	// ---- builtInFunctions/container.go ----
	o.p("(* ---- builtInFunctions/container.go: (method, calls in source order — \"objects.M\" on the MutexMap, \"self.M\" on the container —, objects used other than as call receiver) ---- *)")
	if si := structs["functionContainer"]; si != nil {
		o.p("Definition container_fields : list (string * string) := %s.", qpairs(si.fields))
	} else {
		o.p("Definition container_fields : list (string * string) := [(\"UNRECOGNISED\", \"functionContainer struct missing\")].")
	}
	o.p("Definition container_methods : list (string * list string * bool) := [")
	var cInfos []string
	cms := byType["functionContainer"]
	sort.Slice(cms, func(i, j int) bool { return cms[i].fd.Name.Name < cms[j].fd.Name.Name })
	for _, m := range cms {
		var calls []string
		direct := false
		handled := map[*ast.SelectorExpr]bool{}
		ast.Inspect(m.fd.Body, func(n ast.Node) bool {
			call, ok := n.(*ast.CallExpr)
			if !ok {
				return true
			}
			se, ok := call.Fun.(*ast.SelectorExpr)
			if !ok {
				return true
			}
			if id, ok := se.X.(*ast.Ident); ok && id.Name == m.recv {
				calls = append(calls, "self."+se.Sel.Name)
				handled[se] = true
			} else if inner, ok := se.X.(*ast.SelectorExpr); ok {
				if id, ok := inner.X.(*ast.Ident); ok && id.Name == m.recv && inner.Sel.Name == "objects" {
					calls = append(calls, "objects."+se.Sel.Name)
					handled[inner] = true
				}
			}
			return true
		})
		ast.Inspect(m.fd.Body, func(n ast.Node) bool {
			se, ok := n.(*ast.SelectorExpr)
			if !ok || handled[se] {
				return true
			}
			if id, ok := se.X.(*ast.Ident); ok && id.Name == m.recv {
				direct = true
			}
			return true
		})
		cInfos = append(cInfos, fmt.Sprintf("  (\"%s\", %s, %s)", m.fd.Name.Name, qs(calls), cb(direct)))
	}
	o.p("%s", strings.Join(cInfos, ";\n"))
	o.p("].")
	o.p("")

	// ---- atomic/*.go ----
	o.p("(* ---- atomic/*.go ---- *)")
	o.p("Record at_method := AM {")
	o.p("  am_name : string;")
	o.p("  am_prims : list string;        (* sync/atomic primitives applied to &recv.value (atomic.Value: value.Store / value.Load), source order *)")
	o.p("  am_self_calls : list string;   (* calls to the type's own methods *)")
	o.p("  am_plain_access : bool;        (* recv.value used other than as &recv.value argument of an atomic primitive / receiver of Store,Load *)")
	o.p("  am_exclusive : bool            (* no path through the method performs more than one primitive / call of an own method *)")
	o.p("}.")
	at := loadPkg(filepath.Join(repo, "atomic"))
	astructs := structsOf(at)
	var anames []string
	for n := range astructs {
		anames = append(anames, n)
	}
	sort.Strings(anames)
	ams := methodsOf(at)
	o.p("Definition atomic_types : list (string * list (string * string) * list at_method) := [")
	var aInfos []string
	for _, tn := range anames {
		var minfos []string
		var tms []methodDecl
		for _, m := range ams {
			if m.typ == tn {
				tms = append(tms, m)
			}
		}
		sort.Slice(tms, func(i, j int) bool { return tms[i].fd.Name.Name < tms[j].fd.Name.Name })
		for _, m := range tms {
			minfos = append(minfos, analyseAtomicMethod(m))
		}
		aInfos = append(aInfos, fmt.Sprintf("  (\"%s\", %s, [\n%s ])", tn, qpairs(astructs[tn].fields), strings.Join(minfos, ";\n")))
	}
	o.p("%s", strings.Join(aInfos, ";\n"))
	o.p("].")
	writeIfChanged(filepath.Join(outDir, "LockDiscipline.v"), o.buf.Bytes())
}

func analyseMapMethod(m methodDecl, wrappers map[string]string) string {
	recv := m.recv
	lockName := func(e ast.Expr) string {
		c, ok := e.(*ast.CallExpr)
		if !ok || len(c.Args) != 0 {
			return ""
		}
		se, ok := c.Fun.(*ast.SelectorExpr)
		if !ok {
			return ""
		}
		if id, ok := se.X.(*ast.Ident); ok && id.Name == recv && wrappers[se.Sel.Name] != "" {
			return wrappers[se.Sel.Name]
		}
		inner, ok := se.X.(*ast.SelectorExpr)
		if !ok {
			return ""
		}
		if id, ok := inner.X.(*ast.Ident); ok && id.Name == recv && inner.Sel.Name == "mut" {
			return se.Sel.Name
		}
		return ""
	}
	isValues := func(e ast.Expr) bool {
		se, ok := e.(*ast.SelectorExpr)
		if !ok {
			return false
		}
		id, ok := se.X.(*ast.Ident)
		return ok && id.Name == recv && se.Sel.Name == "values"
	}
	touches := func(n ast.Node) bool {
		f := false
		ast.Inspect(n, func(k ast.Node) bool {
			if e, ok := k.(ast.Expr); ok && isValues(e) {
				f = true
			}
			return true
		})
		return f
	}
	// all lock calls in source order: the reading that is emitted when the paths cannot be told apart
	var lockCalls []string
	deferred := map[*ast.CallExpr]bool{}
	ast.Inspect(m.fd.Body, func(n ast.Node) bool {
		if d, ok := n.(*ast.DeferStmt); ok {
			deferred[d.Call] = true
		}
		if c, ok := n.(*ast.CallExpr); ok {
			if nm := lockName(c); nm != "" {
				if deferred[c] {
					nm = "defer " + nm
				}
				lockCalls = append(lockCalls, nm)
			}
		}
		return true
	})
	// path by path: events are the calls on mm.mut and "A" for anything that touches `values`.
	//   lock_calls : what a path that does anything executes, when all such paths execute the same calls;
	//   bracketed  : on EVERY path there is one lock, released exactly once (by a call or by a defer, with the matching
	//                unlock) before the method returns, and every "A" lies between the two.
	// A path that neither locks nor touches `values` (an argument check that returns early) is left out.
	pa := enumeratePaths(lockPathSpec{recv: recv, mutex: "mut", wrappers: wrappers, tokens: func(n ast.Node) []string {
		if touches(n) {
			return []string{"A"}
		}
		return nil
	}}, m.fd.Body)
	bracketed := false
	if pa.bad != "" {
		lockCalls = append(lockCalls, "unrecognised:"+pa.bad)
	} else {
		var acting [][]string
		for _, p := range pa.paths {
			if len(p) > 0 {
				acting = append(acting, p)
			}
		}
		if seq, ok := commonLockSeq(acting); ok {
			lockCalls = seq
			bracketed = len(acting) > 0
			for _, p := range acting {
				if !pathBracketed(p) {
					bracketed = false
				}
			}
		}
	}
	// classify the uses of `values`
	writes, reads, other := false, false, false
	okUse := map[ast.Expr]bool{}
	ast.Inspect(m.fd.Body, func(n ast.Node) bool {
		switch x := n.(type) {
		case *ast.AssignStmt:
			for _, l := range x.Lhs {
				if ix, ok := l.(*ast.IndexExpr); ok && isValues(ix.X) {
					writes = true
					okUse[ix.X] = true
				}
			}
		case *ast.IndexExpr:
			if isValues(x.X) && !okUse[x.X] {
				reads = true
				okUse[x.X] = true
			}
		case *ast.RangeStmt:
			if isValues(x.X) {
				reads = true
				okUse[x.X] = true
			}
		case *ast.CallExpr:
			if id, ok := x.Fun.(*ast.Ident); ok && len(x.Args) >= 1 && isValues(x.Args[0]) {
				switch id.Name {
				case "len":
					reads = true
					okUse[x.Args[0]] = true
				case "delete":
					writes = true
					okUse[x.Args[0]] = true
				}
			}
		}
		return true
	})
	ast.Inspect(m.fd.Body, func(n ast.Node) bool {
		if e, ok := n.(ast.Expr); ok && isValues(e) && !okUse[e] {
			other = true
		}
		return true
	})
	return fmt.Sprintf("  MM \"%s\" %s %s %s %s %s", m.fd.Name.Name, qs(lockCalls), cb(bracketed), cb(writes), cb(reads), cb(other))
}

func analyseAtomicMethod(m methodDecl) string {
	recv := m.recv
	var prims, self []string
	plain := false
	handled := map[*ast.SelectorExpr]bool{}
	isValue := func(e ast.Expr) *ast.SelectorExpr {
		se, ok := e.(*ast.SelectorExpr)
		if !ok {
			return nil
		}
		if id, ok := se.X.(*ast.Ident); ok && id.Name == recv && se.Sel.Name == "value" {
			return se
		}
		return nil
	}
	ast.Inspect(m.fd.Body, func(n ast.Node) bool {
		call, ok := n.(*ast.CallExpr)
		if !ok {
			return true
		}
		se, ok := call.Fun.(*ast.SelectorExpr)
		if !ok {
			return true
		}
		if id, ok := se.X.(*ast.Ident); ok && id.Name == "atomic" {
			// atomic.Prim(&recv.value, ...)
			if len(call.Args) >= 1 {
				if ue, ok := call.Args[0].(*ast.UnaryExpr); ok && ue.Op == token.AND {
					if v := isValue(ue.X); v != nil {
						handled[v] = true
						prims = append(prims, se.Sel.Name)
						return true
					}
				}
			}
			prims = append(prims, "UNRECOGNISED:"+se.Sel.Name)
			return true
		}
		if id, ok := se.X.(*ast.Ident); ok && id.Name == recv {
			self = append(self, se.Sel.Name)
			handled[se] = true
			return true
		}
		if v := isValue(se.X); v != nil && (se.Sel.Name == "Store" || se.Sel.Name == "Load" || se.Sel.Name == "Swap" || se.Sel.Name == "CompareAndSwap") {
			handled[v] = true
			prims = append(prims, "Value."+se.Sel.Name)
		}
		return true
	})
	ast.Inspect(m.fd.Body, func(n ast.Node) bool {
		if e, ok := n.(ast.Expr); ok {
			if v := isValue(e); v != nil && !handled[v] {
				plain = true
			}
		}
		return true
	})
	// am_exclusive, path by path: no path through the body performs more than one operation (a primitive on the field
	// or a call of one of the type's own methods).  The operations are counted where they stand in the expressions;
	// one in a loop, in a closure or in a go statement cannot be followed, and a body that cannot be followed is not
	// exclusive.
	isOp := func(k ast.Node) bool {
		call, ok := k.(*ast.CallExpr)
		if !ok {
			return false
		}
		se, ok := call.Fun.(*ast.SelectorExpr)
		if !ok {
			return false
		}
		if id, ok := se.X.(*ast.Ident); ok && (id.Name == "atomic" || id.Name == recv) {
			return true
		}
		return isValue(se.X) != nil
	}
	pa := enumeratePaths(lockPathSpec{recv: recv, count: true, tokens: func(n ast.Node) []string {
		var ops []string
		ast.Inspect(n, func(k ast.Node) bool {
			if k != nil && isOp(k) {
				ops = append(ops, "op")
			}
			return true
		})
		return ops
	}}, m.fd.Body)
	exclusive := pa.bad == ""
	for _, p := range pa.paths {
		if len(p) > 1 {
			exclusive = false
		}
	}
	return fmt.Sprintf("      AM \"%s\" %s %s %s %s", m.fd.Name.Name, qs(prims), qs(self), cb(plain), cb(exclusive))
}

// ---------------------------------------------------------------- control-flow paths of a method body
//
// enumeratePaths follows a body statement by statement and returns, per control-flow path, the events it executes:
//
//	"L:<M>"  the statement  recv.<mutex>.<M>()
//	"D:<M>"  the statement  defer recv.<mutex>.<M>()          (the registration)
//	"X:<M>"  a deferred recv.<mutex>.<M>() running: at every return and at the end of the body, last registered first
//	<token>  whatever spec.tokens reports for a statement without control flow or for an expression (condition,
//	         switch tag, case expression, range operand, return values); equal tokens in a row are kept once
//
// if / else, switch, type switch and select branch; break and continue (without label) are followed; a loop body is
// taken zero times or once.  That is enough because a loop that mentions the mutex is not followed at all: with no
// lock call inside, every iteration runs with the lock state of the first one, so each token of a later iteration has
// the same place between the lock events as on the one-iteration path through the same statements.  Paths that
// execute the same events are one path.
//
// With spec.count the tokens are operations to be counted (the atomic primitives of atomic/*.go): equal tokens in a
// row are two operations, and a loop that contains one is not followed.
//
// `bad` says why a body could not be followed: goto, labels, fallthrough, a mutex call in a loop, in a closure or in a
// go statement, the mutex mentioned in any way other than as the receiver of a call that is a statement of its own
// (handed over, copied, method value), a token inside a closure or a go statement (nobody knows when that runs), more
// distinct paths than maxPathStates.  Callers must not draw a positive conclusion from the paths of a bad body.
type lockPathSpec struct {
	recv     string
	mutex    string            // "" : no mutex, only tokens
	wrappers map[string]string // own methods that are one mutex call (lockWrappers): recv.w() is read as recv.<mutex>.<M>()
	tokens   func(n ast.Node) []string
	count    bool // the tokens are counted: equal tokens in a row stay apart, and a token inside a loop cannot be followed
}

type pathState struct {
	ev     []string
	defers []string // registered deferred mutex calls, oldest first
}

type pathSet struct {
	paths [][]string
	bad   string
}

const maxPathStates = 4096

type pathWalker struct {
	lockPathSpec
	bad      string
	done     [][]string
	doneSeen map[string]bool
}

func isLockEvent(e string) bool {
	return strings.HasPrefix(e, "L:") || strings.HasPrefix(e, "D:") || strings.HasPrefix(e, "X:")
}

func hasLockEvent(p []string) bool {
	for _, e := range p {
		if isLockEvent(e) {
			return true
		}
	}
	return false
}

func sameStrings(a, b []string) bool {
	if len(a) != len(b) {
		return false
	}
	for i := range a {
		if a[i] != b[i] {
			return false
		}
	}
	return true
}

// lockSeq: the mutex calls of a path the way the tables write them (a deferred call at the place of its registration)
func lockSeq(p []string) []string {
	var seq []string
	for _, e := range p {
		switch {
		case strings.HasPrefix(e, "L:"):
			seq = append(seq, e[2:])
		case strings.HasPrefix(e, "D:"):
			seq = append(seq, "defer "+e[2:])
		}
	}
	return seq
}

// commonLockSeq: the lockSeq all the given paths share; (nil, true) for no path at all
func commonLockSeq(paths [][]string) ([]string, bool) {
	var common []string
	for i, p := range paths {
		seq := lockSeq(p)
		if i > 0 && !sameStrings(common, seq) {
			return nil, false
		}
		common = seq
	}
	return common, true
}

// pathBracketed: the path takes the lock once, gives it back exactly once with the matching call before it ends, and
// every other event (an access to the guarded state) lies in between
func pathBracketed(p []string) bool {
	held, taken := "", 0
	for _, e := range p {
		switch e {
		case "L:Lock", "L:RLock":
			if held != "" {
				return false
			}
			held = e[2:]
			taken++
		case "L:Unlock", "X:Unlock":
			if held != "Lock" {
				return false
			}
			held = ""
		case "L:RUnlock", "X:RUnlock":
			if held != "RLock" {
				return false
			}
			held = ""
		case "D:Unlock", "D:RUnlock":
		default:
			if isLockEvent(e) || held == "" {
				return false // an unknown mutex method, or an access outside the lock
			}
		}
	}
	return held == "" && taken == 1
}

func mentionsIdent(n ast.Node, name string) bool {
	found := false
	ast.Inspect(n, func(k ast.Node) bool {
		if id, ok := k.(*ast.Ident); ok && id.Name == name {
			found = true
		}
		return !found
	})
	return found
}

func nodeKind(n ast.Node) string {
	switch n.(type) {
	case *ast.AssignStmt:
		return "assign"
	case *ast.ExprStmt:
		return "expr"
	case *ast.DeferStmt:
		return "defer"
	case *ast.ReturnStmt:
		return "return"
	case *ast.IncDecStmt:
		return "incdec"
	case *ast.DeclStmt:
		return "decl"
	case *ast.SendStmt:
		return "send"
	case *ast.BlockStmt:
		return "closure"
	case ast.Expr:
		return "condition"
	}
	return fmt.Sprintf("%T", n)
}

func enumeratePaths(spec lockPathSpec, body *ast.BlockStmt) pathSet {
	w := &pathWalker{lockPathSpec: spec, doneSeen: map[string]bool{}}
	next, _, _ := w.block(body.List, []pathState{{}})
	w.finish(next)
	return pathSet{paths: w.done, bad: w.bad}
}

func (w *pathWalker) fail(why string) {
	if w.bad == "" {
		w.bad = why
	}
}

// isMutex: recv.<mutex>, or recv.<wrapper> (calling a wrapper is using the mutex)
func (w *pathWalker) isMutex(e ast.Node) bool {
	se, ok := e.(*ast.SelectorExpr)
	if !ok {
		return false
	}
	id, ok := se.X.(*ast.Ident)
	return ok && id.Name == w.recv && w.mutex != "" && (se.Sel.Name == w.mutex || w.wrappers[se.Sel.Name] != "")
}

func (w *pathWalker) mentionsMutex(n ast.Node) bool {
	found := false
	ast.Inspect(n, func(k ast.Node) bool {
		if k != nil && w.isMutex(k) {
			found = true
		}
		return !found
	})
	return found
}

// lockCall: recv.<mutex>.<M>()  ->  M ;  recv.<wrapper>()  ->  the M the wrapper calls
func (w *pathWalker) lockCall(e ast.Expr) string {
	c, ok := e.(*ast.CallExpr)
	if !ok || len(c.Args) != 0 || w.mutex == "" {
		return ""
	}
	se, ok := c.Fun.(*ast.SelectorExpr)
	if !ok {
		return ""
	}
	if id, ok := se.X.(*ast.Ident); ok && id.Name == w.recv {
		return w.wrappers[se.Sel.Name]
	}
	if inner, ok := se.X.(*ast.SelectorExpr); ok && w.isMutex(inner) && inner.Sel.Name == w.mutex {
		return se.Sel.Name
	}
	return ""
}

func stateKey(p pathState) string {
	return strings.Join(p.ev, "\x00") + "\x01" + strings.Join(p.defers, "\x00")
}

func (w *pathWalker) merge(sets ...[]pathState) []pathState {
	var out []pathState
	seen := map[string]bool{}
	for _, set := range sets {
		for _, p := range set {
			k := stateKey(p)
			if !seen[k] {
				seen[k] = true
				out = append(out, p)
			}
		}
	}
	if len(out) > maxPathStates {
		w.fail("too many paths")
		out = out[:1]
	}
	return out
}

func (w *pathWalker) add(in []pathState, toks ...string) []pathState {
	if len(toks) == 0 {
		return in
	}
	var out []pathState
	for _, p := range in {
		ev := append([]string(nil), p.ev...)
		for _, t := range toks {
			if len(ev) > 0 && ev[len(ev)-1] == t && !isLockEvent(t) && !w.count {
				continue
			}
			ev = append(ev, t)
		}
		out = append(out, pathState{ev: ev, defers: p.defers})
	}
	return w.merge(out)
}

// simple: a statement without control flow of its own, or an expression
func (w *pathWalker) simple(n ast.Node, in []pathState) []pathState {
	switch x := n.(type) {
	case nil:
		return in
	case ast.Expr:
		if x == nil {
			return in
		}
	case ast.Stmt:
		if x == nil {
			return in
		}
	}
	ast.Inspect(n, func(k ast.Node) bool {
		if k == nil {
			return true
		}
		if fl, ok := k.(*ast.FuncLit); ok {
			if w.mentionsMutex(fl) {
				w.fail("the lock is used inside a closure")
			} else if len(w.tokens(fl.Body)) > 0 {
				w.fail("guarded state is used inside a closure")
			}
			return false
		}
		if w.isMutex(k) {
			w.fail("the lock is used other than by a call that is a statement of its own")
		}
		return true
	})
	return w.add(in, w.tokens(n)...)
}

func (w *pathWalker) finish(states []pathState) {
	for _, p := range states {
		ev := append([]string(nil), p.ev...)
		for i := len(p.defers) - 1; i >= 0; i-- {
			ev = append(ev, "X:"+p.defers[i])
		}
		k := strings.Join(ev, "\x00")
		if !w.doneSeen[k] {
			w.doneSeen[k] = true
			w.done = append(w.done, ev)
		}
	}
	if len(w.done) > maxPathStates {
		w.fail("too many paths")
	}
}

func (w *pathWalker) block(list []ast.Stmt, in []pathState) (next, brk, cont []pathState) {
	next = in
	for _, s := range list {
		if len(next) == 0 {
			break // not reachable
		}
		var b, c []pathState
		next, b, c = w.stmt(s, next)
		brk, cont = w.merge(brk, b), w.merge(cont, c)
	}
	return next, brk, cont
}

// stmt: the states that go on after s, those that leave the enclosing loop / switch / select by `break`, and those
// that `continue` the enclosing loop; paths that return are closed by finish
func (w *pathWalker) stmt(s ast.Stmt, in []pathState) (next, brk, cont []pathState) {
	if len(in) == 0 {
		return nil, nil, nil
	}
	switch x := s.(type) {
	case nil:
		return in, nil, nil
	case *ast.BlockStmt:
		return w.block(x.List, in)
	case *ast.ExprStmt:
		if m := w.lockCall(x.X); m != "" {
			return w.add(in, "L:"+m), nil, nil
		}
		return w.simple(x, in), nil, nil
	case *ast.DeferStmt:
		if m := w.lockCall(x.Call); m != "" {
			var out []pathState
			for _, p := range w.add(in, "D:"+m) {
				out = append(out, pathState{ev: p.ev, defers: append(append([]string(nil), p.defers...), m)})
			}
			return w.merge(out), nil, nil
		}
		// any other deferred call: the function value and the arguments are evaluated here; a closure is checked by simple
		return w.simple(x, in), nil, nil
	case *ast.GoStmt:
		if w.mentionsMutex(x) {
			w.fail("the lock is used in a go statement")
		} else if len(w.tokens(x)) > 0 {
			w.fail("guarded state is used in a go statement")
		}
		return in, nil, nil
	case *ast.ReturnStmt:
		w.finish(w.simple(x, in))
		return nil, nil, nil
	case *ast.IfStmt:
		cur, _, _ := w.stmt(x.Init, in)
		cur = w.simple(x.Cond, cur)
		t, b1, c1 := w.block(x.Body.List, cur)
		e, b2, c2 := cur, []pathState(nil), []pathState(nil)
		if x.Else != nil {
			e, b2, c2 = w.stmt(x.Else, cur)
		}
		return w.merge(t, e), w.merge(b1, b2), w.merge(c1, c2)
	case *ast.ForStmt:
		cur, _, _ := w.stmt(x.Init, in)
		if w.mentionsMutex(x.Body) || (x.Cond != nil && w.mentionsMutex(x.Cond)) || (x.Post != nil && w.mentionsMutex(x.Post)) {
			w.fail("the lock is used inside a loop")
			return cur, nil, nil
		}
		if w.count && (len(w.tokens(x.Body)) > 0 || (x.Cond != nil && len(w.tokens(x.Cond)) > 0) || (x.Post != nil && len(w.tokens(x.Post)) > 0)) {
			w.fail("a counted operation inside a loop")
		}
		cur = w.simple(x.Cond, cur)
		body, b, c := w.block(x.Body.List, cur)
		again, _, _ := w.stmt(x.Post, w.merge(body, c))
		again = w.simple(x.Cond, again)
		if x.Cond == nil {
			return b, nil, nil // `for { ... }` is left by break (or return) only
		}
		return w.merge(cur, again, b), nil, nil
	case *ast.RangeStmt:
		if w.mentionsMutex(x.Body) || (x.Key != nil && w.mentionsMutex(x.Key)) || (x.Value != nil && w.mentionsMutex(x.Value)) {
			w.fail("the lock is used inside a loop")
			return in, nil, nil
		}
		if w.count && (len(w.tokens(x.Body)) > 0 || (x.Key != nil && len(w.tokens(x.Key)) > 0) || (x.Value != nil && len(w.tokens(x.Value)) > 0)) {
			w.fail("a counted operation inside a loop")
		}
		cur := w.simple(x.X, in)
		it := w.simple(x.Value, w.simple(x.Key, cur))
		body, b, c := w.block(x.Body.List, it)
		return w.merge(cur, body, c, b), nil, nil
	case *ast.SwitchStmt:
		cur, _, _ := w.stmt(x.Init, in)
		cur = w.simple(x.Tag, cur)
		var def *ast.CaseClause
		for _, cl := range x.Body.List {
			cc := cl.(*ast.CaseClause)
			if cc.List == nil {
				def = cc
				continue
			}
			for _, e := range cc.List {
				cur = w.simple(e, cur) // the case expressions are evaluated top to bottom until one matches
			}
			n, b, c := w.block(cc.Body, cur)
			next, cont = w.merge(next, n, b), w.merge(cont, c)
		}
		if def != nil {
			n, b, c := w.block(def.Body, cur)
			next, cont = w.merge(next, n, b), w.merge(cont, c)
		} else {
			next = w.merge(next, cur)
		}
		return next, nil, cont
	case *ast.TypeSwitchStmt:
		cur, _, _ := w.stmt(x.Init, in)
		cur, _, _ = w.stmt(x.Assign, cur)
		hasDefault := false
		for _, cl := range x.Body.List {
			cc := cl.(*ast.CaseClause)
			if cc.List == nil {
				hasDefault = true
			}
			n, b, c := w.block(cc.Body, cur)
			next, cont = w.merge(next, n, b), w.merge(cont, c)
		}
		if !hasDefault {
			next = w.merge(next, cur)
		}
		return next, nil, cont
	case *ast.SelectStmt:
		for _, cl := range x.Body.List {
			cc := cl.(*ast.CommClause)
			cur, _, _ := w.stmt(cc.Comm, in)
			n, b, c := w.block(cc.Body, cur)
			next, cont = w.merge(next, n, b), w.merge(cont, c)
		}
		return next, nil, cont
	case *ast.BranchStmt:
		switch {
		case x.Label != nil:
			w.fail("a labelled " + x.Tok.String())
		case x.Tok == token.BREAK:
			return nil, in, nil
		case x.Tok == token.CONTINUE:
			return nil, nil, in
		default:
			w.fail(x.Tok.String())
		}
		return nil, nil, nil
	case *ast.LabeledStmt:
		w.fail("a label")
		return w.stmt(x.Stmt, in)
	}
	// assignments, declarations, inc/dec, send, empty statement
	return w.simple(s, in), nil, nil
}

// lockWrappers: the methods among ms (the methods of ONE type) that are nothing but a call on the receiver's own mutex:
//
//	func (r *T) name() { r.<mutexField>.<Lock|Unlock|RLock|RUnlock>() }
//
// unexported (an exported one can be called by anybody), pointer receiver (a value receiver would lock the mutex of a
// copy), no parameters, no results, the mutex reached through the method's own receiver and nothing else in the body.
// name -> the mutex method it calls.
func lockWrappers(ms []methodDecl, mutexField string) map[string]string {
	out := map[string]string{}
	for _, m := range ms {
		fd := m.fd
		if ast.IsExported(fd.Name.Name) || m.recv == "_" || len(fd.Body.List) != 1 {
			continue
		}
		if _, ptr := fd.Recv.List[0].Type.(*ast.StarExpr); !ptr {
			continue
		}
		if fd.Type.Params.NumFields() != 0 || fd.Type.Results.NumFields() != 0 || fd.Type.TypeParams != nil {
			continue
		}
		es, ok := fd.Body.List[0].(*ast.ExprStmt)
		if !ok {
			continue
		}
		call, ok := es.X.(*ast.CallExpr)
		if !ok || len(call.Args) != 0 {
			continue
		}
		se, ok := call.Fun.(*ast.SelectorExpr)
		if !ok {
			continue
		}
		inner, ok := se.X.(*ast.SelectorExpr)
		if !ok || inner.Sel.Name != mutexField {
			continue
		}
		if id, ok := inner.X.(*ast.Ident); !ok || id.Name != m.recv {
			continue
		}
		switch se.Sel.Name {
		case "Lock", "Unlock", "RLock", "RUnlock":
			out[fd.Name.Name] = se.Sel.Name
		}
	}
	return out
}

// selectorRefsOutside: which of the given method names of type typ are mentioned as a selector `x.name` anywhere in
// the package other than as `recv.name` inside a method of typ (recv = that method's receiver)
func selectorRefsOutside(pi *pkgInfo, typ string, names map[string]string) []string {
	found := map[string]bool{}
	for _, f := range pi.files {
		for _, d := range f.Decls {
			recv := ""
			if fd, ok := d.(*ast.FuncDecl); ok && fd.Recv != nil && len(fd.Recv.List) == 1 && len(fd.Recv.List[0].Names) == 1 &&
				strings.TrimPrefix(typeString(fd.Recv.List[0].Type), "*") == typ {
				recv = fd.Recv.List[0].Names[0].Name
			}
			ast.Inspect(d, func(n ast.Node) bool {
				se, ok := n.(*ast.SelectorExpr)
				if !ok || names[se.Sel.Name] == "" {
					return true
				}
				if id, ok := se.X.(*ast.Ident); ok && recv != "" && id.Name == recv {
					return true
				}
				found[se.Sel.Name] = true
				return true
			})
		}
	}
	var out []string
	for n := range found {
		out = append(out, n)
	}
	sort.Strings(out)
	return out
}

// mutexSites: see the comment emitted in front of `mutex_sites`.  Purely syntactic (no type information): an
// identifier that has the name of one of the types counts as that type wherever it stands.
func mutexSites(pi *pkgInfo, structs map[string]*structInfo, tnames []string, mutexField string) [][3]string {
	guarded := map[string]bool{} // the types of interest that have the field
	for _, t := range tnames {
		if si := structs[t]; si != nil {
			for _, f := range si.fields {
				if f[0] == mutexField {
					guarded[t] = true
				}
			}
		}
	}
	isSyncRW := func(e ast.Expr) bool {
		cl, ok := e.(*ast.CompositeLit)
		return ok && len(cl.Elts) == 0 && cl.Type != nil && typeString(cl.Type) == "sync.RWMutex"
	}
	initKind := func(v ast.Expr) string {
		if isSyncRW(v) {
			return "literal:init-value"
		}
		if u, ok := v.(*ast.UnaryExpr); ok && u.Op == token.AND && isSyncRW(u.X) {
			return "literal:init-pointer"
		}
		if c, ok := v.(*ast.CallExpr); ok && len(c.Args) == 1 {
			if id, ok := c.Fun.(*ast.Ident); ok && id.Name == "new" && typeString(c.Args[0]) == "sync.RWMutex" {
				return "literal:init-pointer"
			}
		}
		return "literal:other"
	}
	var out [][3]string
	var fnames []string
	for n := range pi.files {
		fnames = append(fnames, n)
	}
	sort.Strings(fnames)
	for _, fname := range fnames {
		for _, d := range pi.files[fname].Decls {
			where, recv, rtyp := "package level of "+fname, "", ""
			skip := map[*ast.Ident]bool{} // mentions of a type name that create nothing
			if fd, ok := d.(*ast.FuncDecl); ok {
				where = fd.Name.Name
				if fd.Recv != nil && len(fd.Recv.List) == 1 {
					rt := fd.Recv.List[0].Type
					rtyp = strings.TrimPrefix(typeString(rt), "*")
					where = rtyp + "." + where
					if len(fd.Recv.List[0].Names) == 1 {
						recv = fd.Recv.List[0].Names[0].Name
					}
					if id, ok := rt.(*ast.Ident); ok {
						skip[id] = true
					}
				}
			}
			var stack []ast.Node
			ast.Inspect(d, func(n ast.Node) bool {
				if n == nil {
					stack = stack[:len(stack)-1]
					return true
				}
				var parent ast.Node
				if len(stack) > 0 {
					parent = stack[len(stack)-1]
				}
				stack = append(stack, n)
				switch x := n.(type) {
				case *ast.TypeSpec:
					skip[x.Name] = true
				case *ast.StarExpr:
					if id, ok := x.X.(*ast.Ident); ok {
						skip[id] = true // *T
					}
				case *ast.SelectorExpr:
					skip[x.Sel] = true
					if x.Sel.Name == mutexField {
						own := false
						if id, ok := x.X.(*ast.Ident); ok && recv != "" && id.Name == recv && guarded[rtyp] {
							own = true
						}
						if !own {
							out = append(out, [3]string{"*", where, "foreign-use"})
						}
					}
				case *ast.Field:
					for _, nm := range x.Names {
						skip[nm] = true
					}
				case *ast.KeyValueExpr:
					if id, ok := x.Key.(*ast.Ident); ok {
						if _, inLit := parent.(*ast.CompositeLit); inLit {
							skip[id] = true // a field name (or a map key that is a plain identifier)
						}
					}
				case *ast.CompositeLit:
					id, ok := x.Type.(*ast.Ident)
					if !ok || !guarded[id.Name] {
						break
					}
					skip[id] = true
					what := "literal:missing"
					for _, el := range x.Elts {
						kv, isKV := el.(*ast.KeyValueExpr)
						if !isKV {
							what = "literal:other" // positional
							break
						}
						if k, ok := kv.Key.(*ast.Ident); ok && k.Name == mutexField {
							what = initKind(kv.Value)
						}
					}
					out = append(out, [3]string{id.Name, where, what})
				case *ast.Ident:
					if guarded[x.Name] && !skip[x] {
						out = append(out, [3]string{x.Name, where, "zero:" + strings.TrimPrefix(fmt.Sprintf("%T", parent), "*ast.")})
					}
				}
				return true
			})
		}
	}
	return out
}
