package main

// GasBinding.v: the shape of the gas schedule as the current sources define it —
//   * the fields (name, type) of vmcommon.BaseOperationCost, vmcommon.BuiltInCost and vmcommon.GasCost (gasCost.go);
//   * the statements of builtInFunctions/factory.go:createGasConfig and GasScheduleChange, one string per statement;
//   * the statements of check/ifZero.go:ForZeroUintFields.
// C16's model of schedule acceptance is pinned against these tables: a new field, a dropped zero check or a
// changed broadcast loop breaks an obligation of Properties/C16.v.

import (
	"fmt"
	"go/ast"
	"go/token"
	"path/filepath"
	"strings"
)

func gbExpr(e ast.Expr) string {
	switch x := e.(type) {
	case nil:
		return ""
	case *ast.Ident:
		return x.Name
	case *ast.SelectorExpr:
		return gbExpr(x.X) + "." + x.Sel.Name
	case *ast.BasicLit:
		return strings.ReplaceAll(x.Value, "\"", "'")
	case *ast.CallExpr:
		var as []string
		for _, a := range x.Args {
			as = append(as, gbExpr(a))
		}
		return gbExpr(x.Fun) + "(" + strings.Join(as, ",") + ")"
	case *ast.UnaryExpr:
		return x.Op.String() + gbExpr(x.X)
	case *ast.StarExpr:
		return "*" + gbExpr(x.X)
	case *ast.ParenExpr:
		return "(" + gbExpr(x.X) + ")"
	case *ast.BinaryExpr:
		return gbExpr(x.X) + " " + x.Op.String() + " " + gbExpr(x.Y)
	case *ast.IndexExpr:
		return gbExpr(x.X) + "[" + gbExpr(x.Index) + "]"
	case *ast.CompositeLit:
		var kv []string
		for _, el := range x.Elts {
			kv = append(kv, gbExpr(el))
		}
		return gbExpr(x.Type) + "{" + strings.Join(kv, ",") + "}"
	case *ast.KeyValueExpr:
		return gbExpr(x.Key) + ":" + gbExpr(x.Value)
	case *ast.MapType:
		return "map[" + gbExpr(x.Key) + "]" + gbExpr(x.Value)
	case *ast.ArrayType:
		return "[" + gbExpr(x.Len) + "]" + gbExpr(x.Elt)
	}
	return fmt.Sprintf("UNRECOGNISED %T", e)
}

// gbStmts flattens a statement list into one string per statement; nested blocks are bracketed by "{" / "}" entries
func gbStmts(l []ast.Stmt) []string {
	var out []string
	for _, st := range l {
		switch x := st.(type) {
		case *ast.AssignStmt:
			var lhs, rhs []string
			for _, e := range x.Lhs {
				lhs = append(lhs, gbExpr(e))
			}
			for _, e := range x.Rhs {
				rhs = append(rhs, gbExpr(e))
			}
			out = append(out, strings.Join(lhs, ",")+" "+x.Tok.String()+" "+strings.Join(rhs, ","))
		case *ast.ExprStmt:
			out = append(out, gbExpr(x.X))
		case *ast.ReturnStmt:
			var rs []string
			for _, e := range x.Results {
				rs = append(rs, gbExpr(e))
			}
			out = append(out, strings.TrimSpace("return "+strings.Join(rs, ",")))
		case *ast.IfStmt:
			h := "if "
			if x.Init != nil {
				h += strings.Join(gbStmts([]ast.Stmt{x.Init}), ";") + "; "
			}
			out = append(out, h+gbExpr(x.Cond), "{")
			out = append(out, gbStmts(x.Body.List)...)
			out = append(out, "}")
			if x.Else != nil {
				out = append(out, "else UNRECOGNISED")
			}
		case *ast.RangeStmt:
			out = append(out, "for "+gbExpr(x.Key)+","+gbExpr(x.Value)+" "+x.Tok.String()+" range "+gbExpr(x.X), "{")
			out = append(out, gbStmts(x.Body.List)...)
			out = append(out, "}")
		case *ast.ForStmt:
			h := "for "
			if x.Init != nil {
				h += strings.Join(gbStmts([]ast.Stmt{x.Init}), ";")
			}
			h += "; " + gbExpr(x.Cond) + "; "
			if x.Post != nil {
				h += strings.Join(gbStmts([]ast.Stmt{x.Post}), ";")
			}
			out = append(out, h, "{")
			out = append(out, gbStmts(x.Body.List)...)
			out = append(out, "}")
		case *ast.IncDecStmt:
			out = append(out, gbExpr(x.X)+x.Tok.String())
		case *ast.BranchStmt:
			out = append(out, x.Tok.String())
		case *ast.DeclStmt:
			out = append(out, "decl UNRECOGNISED")
		default:
			out = append(out, fmt.Sprintf("UNRECOGNISED %T", st))
		}
	}
	return out
}

func gbStructFields(pi *pkgInfo, file, typ string) [][2]string {
	f := pi.files[file]
	var out [][2]string
	if f == nil {
		return [][2]string{{"UNRECOGNISED " + file, ""}}
	}
	found := false
	for _, d := range f.Decls {
		gd, ok := d.(*ast.GenDecl)
		if !ok || gd.Tok != token.TYPE {
			continue
		}
		for _, sp := range gd.Specs {
			ts := sp.(*ast.TypeSpec)
			st, ok := ts.Type.(*ast.StructType)
			if !ok || ts.Name.Name != typ {
				continue
			}
			found = true
			for _, fl := range st.Fields.List {
				if len(fl.Names) == 0 {
					out = append(out, [2]string{"UNRECOGNISED embedded", gbExpr(fl.Type)})
				}
				for _, n := range fl.Names {
					out = append(out, [2]string{n.Name, gbExpr(fl.Type)})
				}
			}
		}
	}
	if !found {
		return [][2]string{{"UNRECOGNISED " + typ, ""}}
	}
	return out
}

func gbFuncBody(pi *pkgInfo, file, name string) []string {
	f := pi.files[file]
	if f == nil {
		return []string{"UNRECOGNISED " + file}
	}
	for _, d := range f.Decls {
		fd, ok := d.(*ast.FuncDecl)
		if ok && fd.Name.Name == name && fd.Body != nil {
			return gbStmts(fd.Body.List)
		}
	}
	return []string{"UNRECOGNISED " + name}
}

func genGasBinding(repo, outDir string) {
	o := &outFile{}
	o.p("%s", header)
	pairs := func(name string, l [][2]string) {
		o.p("Definition %s : list (string * string) := [", name)
		for i, p := range l {
			sep := ";"
			if i == len(l)-1 {
				sep = ""
			}
			o.p("  (\"%s\", \"%s\")%s", p[0], p[1], sep)
		}
		o.p("].")
	}
	strs := func(name string, l []string) {
		o.p("Definition %s : list string := [", name)
		for i, s := range l {
			sep := ";"
			if i == len(l)-1 {
				sep = ""
			}
			o.p("  \"%s\"%s", s, sep)
		}
		o.p("].")
	}
	o.p("(* gasCost.go: struct fields (name, type), in declaration order *)")
	pairs("base_operation_cost_fields", gbStructFields(root, "gasCost.go", "BaseOperationCost"))
	pairs("builtin_cost_fields", gbStructFields(root, "gasCost.go", "BuiltInCost"))
	pairs("gas_cost_fields", gbStructFields(root, "gasCost.go", "GasCost"))
	bif := loadPkg(filepath.Join(repo, "builtInFunctions"))
	o.p("(* builtInFunctions/factory.go: statements, nested blocks between \"{\" and \"}\" *)")
	strs("create_gas_config_body", gbFuncBody(bif, "factory.go", "createGasConfig"))
	strs("gas_schedule_change_body", gbFuncBody(bif, "factory.go", "GasScheduleChange"))
	chk := loadPkg(filepath.Join(repo, "check"))
	o.p("(* check/ifZero.go *)")
	strs("for_zero_uint_fields_body", gbFuncBody(chk, "ifZero.go", "ForZeroUintFields"))
	writeIfChanged(filepath.Join(outDir, "GasBinding.v"), o.buf.Bytes())
}
