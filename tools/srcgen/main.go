// srcgen: translates the table-like parts of /repo's current Go sources into Coq files
// (coq/gen/*.v). It refuses what it does not understand by emitting `Unrecognised "..."`
// entries, which make the Coq obligations over the tables fail.
package main

import (
	"bytes"
	"encoding/hex"
	"fmt"
	"go/ast"
	"go/parser"
	"go/token"
	"os"
	"path/filepath"
	"sort"
	"strconv"
	"strings"
)

type val struct {
	kind string // "str", "int", "bytes"
	s    string
	n    uint64
	b    []byte
}

type pkgInfo struct {
	files  map[string]*ast.File
	fset   *token.FileSet
	consts map[string]ast.Expr // name -> expr (consts and package vars)
	iota   map[string]int
}

func loadPkg(dir string) *pkgInfo {
	fset := token.NewFileSet()
	pkgs, err := parser.ParseDir(fset, dir, func(fi os.FileInfo) bool {
		return !strings.HasSuffix(fi.Name(), "_test.go")
	}, parser.ParseComments)
	if err != nil {
		fmt.Fprintln(os.Stderr, "srcgen: parse error:", err)
		os.Exit(2)
	}
	pi := &pkgInfo{files: map[string]*ast.File{}, fset: fset, consts: map[string]ast.Expr{}, iota: map[string]int{}}
	for _, p := range pkgs {
		for name, f := range p.Files {
			pi.files[filepath.Base(name)] = f
			for _, d := range f.Decls {
				gd, ok := d.(*ast.GenDecl)
				if !ok || (gd.Tok != token.CONST && gd.Tok != token.VAR) {
					continue
				}
				var lastExpr ast.Expr
				for idx, sp := range gd.Specs {
					vs := sp.(*ast.ValueSpec)
					for i, nm := range vs.Names {
						if i < len(vs.Values) {
							pi.consts[nm.Name] = vs.Values[i]
							lastExpr = vs.Values[i]
						} else if gd.Tok == token.CONST && lastExpr != nil {
							pi.consts[nm.Name] = lastExpr
						}
						pi.iota[nm.Name] = idx
					}
				}
			}
		}
	}
	return pi
}

var root *pkgInfo // package vmcommon
var cur *pkgInfo

func eval(pi *pkgInfo, e ast.Expr, iotaVal int) (val, bool) {
	switch x := e.(type) {
	case *ast.BasicLit:
		switch x.Kind {
		case token.STRING:
			s, err := strconv.Unquote(x.Value)
			if err != nil {
				return val{}, false
			}
			return val{kind: "str", s: s}, true
		case token.INT:
			n, err := strconv.ParseUint(x.Value, 0, 64)
			if err != nil {
				return val{}, false
			}
			return val{kind: "int", n: n}, true
		case token.CHAR:
			s, err := strconv.Unquote(x.Value)
			if err != nil || len(s) != 1 {
				return val{}, false
			}
			return val{kind: "int", n: uint64(s[0])}, true
		}
	case *ast.ParenExpr:
		return eval(pi, x.X, iotaVal)
	case *ast.Ident:
		if x.Name == "iota" {
			return val{kind: "int", n: uint64(iotaVal)}, true
		}
		if ex, ok := pi.consts[x.Name]; ok {
			return eval(pi, ex, pi.iota[x.Name])
		}
	case *ast.SelectorExpr:
		if id, ok := x.X.(*ast.Ident); ok && id.Name == "vmcommon" {
			if ex, ok := root.consts[x.Sel.Name]; ok {
				return eval(root, ex, root.iota[x.Sel.Name])
			}
		}
	case *ast.BinaryExpr:
		a, ok1 := eval(pi, x.X, iotaVal)
		b, ok2 := eval(pi, x.Y, iotaVal)
		if !ok1 || !ok2 {
			return val{}, false
		}
		if x.Op == token.ADD && a.kind == "str" && b.kind == "str" {
			return val{kind: "str", s: a.s + b.s}, true
		}
		if a.kind == "int" && b.kind == "int" {
			switch x.Op {
			// constant arithmetic is exact in Go: a result outside 0 .. 2^64-1 is "not evaluable" here, never wrapped
			case token.ADD:
				if a.n+b.n < a.n {
					return val{}, false
				}
				return val{kind: "int", n: a.n + b.n}, true
			case token.SUB:
				if a.n < b.n {
					return val{}, false
				}
				return val{kind: "int", n: a.n - b.n}, true
			case token.MUL:
				if a.n != 0 && (a.n*b.n)/a.n != b.n {
					return val{}, false
				}
				return val{kind: "int", n: a.n * b.n}, true
			case token.SHL:
				if b.n >= 64 || (a.n<<b.n)>>b.n != a.n {
					return val{}, false
				}
				return val{kind: "int", n: a.n << b.n}, true
			case token.SHR:
				if b.n >= 64 {
					return val{kind: "int", n: 0}, true
				}
				return val{kind: "int", n: a.n >> b.n}, true
			case token.QUO:
				if b.n == 0 {
					return val{}, false
				}
				return val{kind: "int", n: a.n / b.n}, true
			case token.REM:
				if b.n == 0 {
					return val{}, false
				}
				return val{kind: "int", n: a.n % b.n}, true
			case token.AND:
				return val{kind: "int", n: a.n & b.n}, true
			case token.OR:
				return val{kind: "int", n: a.n | b.n}, true
			}
		}
	case *ast.CallExpr:
		// conversions uint32(x), uint8(x), int(x), ESDTType(x), []byte(str)
		if len(x.Args) == 1 {
			if id, ok := x.Fun.(*ast.Ident); ok {
				switch id.Name {
				case "uint32", "uint64", "uint8", "int", "byte", "int32", "int64", "ESDTType":
					return eval(pi, x.Args[0], iotaVal)
				}
			}
			if at, ok := x.Fun.(*ast.ArrayType); ok && at.Len == nil {
				if id, ok := at.Elt.(*ast.Ident); ok && id.Name == "byte" {
					v, ok := eval(pi, x.Args[0], iotaVal)
					if ok && v.kind == "str" {
						return val{kind: "bytes", b: []byte(v.s)}, true
					}
				}
			}
		}
		// bytes.Repeat([]byte{b}, n)
		if se, ok := x.Fun.(*ast.SelectorExpr); ok && len(x.Args) == 2 {
			if id, ok := se.X.(*ast.Ident); ok && id.Name == "bytes" && se.Sel.Name == "Repeat" {
				a, ok1 := eval(pi, x.Args[0], iotaVal)
				n, ok2 := eval(pi, x.Args[1], iotaVal)
				if ok1 && ok2 && a.kind == "bytes" && n.kind == "int" && n.n < 4096 {
					return val{kind: "bytes", b: bytes.Repeat(a.b, int(n.n))}, true
				}
			}
		}
	case *ast.CompositeLit:
		if at, ok := x.Type.(*ast.ArrayType); ok {
			if id, ok := at.Elt.(*ast.Ident); ok && (id.Name == "byte" || id.Name == "uint8") {
				var out []byte
				for _, el := range x.Elts {
					v, ok := eval(pi, el, iotaVal)
					if !ok || v.kind != "int" || v.n > 255 {
						return val{}, false
					}
					out = append(out, byte(v.n))
				}
				return val{kind: "bytes", b: out}, true
			}
		}
	}
	return val{}, false
}

func coqStr(s string) string {
	// Coq string literal: only printable ASCII without double quote is emitted with str; otherwise hex
	for _, c := range []byte(s) {
		if c < 32 || c > 126 || c == '"' {
			return "(hx \"" + hex.EncodeToString([]byte(s)) + "\")"
		}
	}
	return "(str \"" + s + "\")"
}

func coqVal(v val) (string, string) {
	switch v.kind {
	case "str":
		return "bytes", coqStr(v.s)
	case "int":
		return "N", fmt.Sprintf("%d%%N", v.n)
	case "bytes":
		return "bytes", "(hx \"" + hex.EncodeToString(v.b) + "\")"
	}
	return "", ""
}

type outFile struct {
	buf bytes.Buffer
}

func (o *outFile) p(format string, a ...interface{}) { fmt.Fprintf(&o.buf, format+"\n", a...) }

func writeIfChanged(path string, data []byte) {
	old, err := os.ReadFile(path)
	if err == nil && bytes.Equal(old, data) {
		return
	}
	if err := os.WriteFile(path, data, 0o644); err != nil {
		fmt.Fprintln(os.Stderr, "srcgen:", err)
		os.Exit(2)
	}
}

const header = "(* GENERATED by tools/srcgen from /repo's current sources on every check run. Do not edit. *)\nFrom EV Require Import Base.Bytes.\nFrom Coq.Strings Require Import String.\nLocal Open Scope string_scope.\n"

func sortedKeys(m map[string]ast.Expr) []string {
	var ks []string
	for k := range m {
		ks = append(ks, k)
	}
	sort.Strings(ks)
	return ks
}

func genConsts(repo, outDir string) {
	o := &outFile{}
	o.p("%s", header)
	o.p("Inductive unrecognised := Unrecognised (what : string).")
	o.p("Module C.")
	emit := func(prefix string, pi *pkgInfo, only func(string) bool) {
		for _, name := range sortedKeys(pi.consts) {
			if only != nil && !only(name) {
				continue
			}
			v, ok := eval(pi, pi.consts[name], pi.iota[name])
			cname := prefix + name
			if !ok {
				// only constants of basic kinds are of interest; other package vars (errors, loggers) are skipped
				if isInteresting(pi.consts[name]) {
					o.p("Definition %s := Unrecognised \"%s\".", cname, name)
				}
				continue
			}
			ty, body := coqVal(v)
			o.p("Definition %s : %s := %s.", cname, ty, body)
		}
	}
	o.p("(* package vmcommon *)")
	emit("", root, nil)
	par := loadPkg(filepath.Join(repo, "parsers"))
	o.p("(* package parsers *)")
	emit("parsers_", par, nil)
	bif := loadPkg(filepath.Join(repo, "builtInFunctions"))
	o.p("(* package builtInFunctions: package-level constants and prefix variables *)")
	emit("bif_", bif, nil)
	// per-constructor key prefixes: composite literal fields named keyPrefix
	o.p("(* key prefix given to each built-in function object by its constructor *)")
	var names []string
	prefixes := map[string]string{}
	for fname, f := range bif.files {
		ast.Inspect(f, func(n ast.Node) bool {
			fd, ok := n.(*ast.FuncDecl)
			if !ok || fd.Body == nil || !strings.HasPrefix(fd.Name.Name, "New") {
				return true
			}
			ast.Inspect(fd.Body, func(m ast.Node) bool {
				kv, ok := m.(*ast.KeyValueExpr)
				if !ok {
					return true
				}
				if id, ok := kv.Key.(*ast.Ident); ok && id.Name == "keyPrefix" {
					key := "keyPrefix_" + fd.Name.Name
					v, ok := eval(bif, kv.Value, 0)
					if ok && v.kind == "bytes" {
						_, body := coqVal(v)
						prefixes[key] = fmt.Sprintf("Definition %s : bytes := %s. (* %s *)", key, body, fname)
					} else {
						prefixes[key] = fmt.Sprintf("Definition %s := Unrecognised \"%s\".", key, key)
					}
					names = append(names, key)
				}
				return true
			})
			return false
		})
	}
	sort.Strings(names)
	for _, k := range names {
		o.p("%s", prefixes[k])
	}
	o.p("Definition all_key_prefixes : list (string * bytes) := [")
	for i, k := range names {
		sep := ";"
		if i == len(names)-1 {
			sep = ""
		}
		if strings.Contains(prefixes[k], "Unrecognised") {
			o.p("  (\"%s\", []) %s", k+"_UNRECOGNISED", sep)
		} else {
			o.p("  (\"%s\", %s)%s", k, k, sep)
		}
	}
	o.p("].")
	o.p("End C.")
	writeIfChanged(filepath.Join(outDir, "Consts.v"), o.buf.Bytes())
}

func isInteresting(e ast.Expr) bool {
	switch x := e.(type) {
	case *ast.BasicLit:
		return true
	case *ast.BinaryExpr:
		return isInteresting(x.X) && isInteresting(x.Y)
	case *ast.CompositeLit:
		if at, ok := x.Type.(*ast.ArrayType); ok {
			if id, ok := at.Elt.(*ast.Ident); ok && id.Name == "byte" {
				return true
			}
		}
		return false
	case *ast.CallExpr:
		if at, ok := x.Fun.(*ast.ArrayType); ok {
			if id, ok := at.Elt.(*ast.Ident); ok && id.Name == "byte" {
				return true
			}
		}
		if id, ok := x.Fun.(*ast.Ident); ok {
			switch id.Name {
			case "uint32", "uint64", "uint8", "int", "byte":
				return true
			}
		}
		if se, ok := x.Fun.(*ast.SelectorExpr); ok {
			if id, ok := se.X.(*ast.Ident); ok && id.Name == "bytes" {
				return true
			}
		}
		return false
	case *ast.Ident, *ast.SelectorExpr, *ast.ParenExpr:
		return false
	}
	return false
}

func exprString(fset *token.FileSet, e ast.Expr) string {
	switch x := e.(type) {
	case *ast.Ident:
		return x.Name
	case *ast.SelectorExpr:
		return exprString(fset, x.X) + "." + x.Sel.Name
	case *ast.BasicLit:
		return x.Value
	case *ast.CallExpr:
		var as []string
		for _, a := range x.Args {
			as = append(as, exprString(fset, a))
		}
		return exprString(fset, x.Fun) + "(" + strings.Join(as, ",") + ")"
	case *ast.UnaryExpr:
		return x.Op.String() + exprString(fset, x.X)
	case *ast.StarExpr:
		return "*" + exprString(fset, x.X)
	}
	return fmt.Sprintf("?%T", e)
}

// Registry.v + GasBinding.v from factory.go and the SetNewGasConfig bodies.
func genRegistry(repo, outDir string) {
	bif := loadPkg(filepath.Join(repo, "builtInFunctions"))
	// the file a function lives in, the name of its receiver and the name of the container field are not part of the
	// binding: the factory method is looked up by name in the whole package, its receiver is written `b`
	var f *ast.File
	for _, cand := range bif.files {
		for _, d := range cand.Decls {
			if fd, ok := d.(*ast.FuncDecl); ok && fd.Recv != nil && fd.Body != nil && fd.Name.Name == "CreateBuiltInFunctionContainer" {
				f = cand
			}
		}
	}
	reg := &outFile{}
	reg.p("%s", header)
	reg.p("(* one entry per `b.builtInFunctions.Add(name, f)` in CreateBuiltInFunctionContainer, in source order:")
	reg.p("   (registered name, constructor, constructor arguments as written) *)")
	reg.p("Definition registry : list (bytes * string * list string) := [")
	type entry struct {
		name  string
		ctor  string
		args  []string
		nameE string
	}
	var entries []entry
	bad := []string{}
	if f == nil {
		bad = append(bad, "CreateBuiltInFunctionContainer missing")
	} else {
		for _, d := range f.Decls {
			fd, ok := d.(*ast.FuncDecl)
			if !ok || fd.Name.Name != "CreateBuiltInFunctionContainer" {
				continue
			}
			// track: variable -> (ctor, args) from assignments whose RHS is a call to New*
			vars := map[string]entry{}
			// local aliases of selector chains (`builtInCost := b.gasConfig.BuiltInCost`): constructor arguments are reported with the
			// alias resolved, so that reading a sub-structure once into a local does not change the table
			alias := map[string]string{}
			if fd.Recv != nil && len(fd.Recv.List) == 1 && len(fd.Recv.List[0].Names) == 1 {
				alias[fd.Recv.List[0].Names[0].Name] = "b"
			}
			var resolve func(e ast.Expr) string
			resolve = func(e ast.Expr) string {
				switch x := e.(type) {
				case *ast.Ident:
					if a, ok := alias[x.Name]; ok {
						return a
					}
					return x.Name
				case *ast.SelectorExpr:
					return resolve(x.X) + "." + x.Sel.Name
				}
				return exprString(bif.fset, e)
			}
			for _, st := range fd.Body.List {
				as, ok := st.(*ast.AssignStmt)
				if !ok || len(as.Rhs) != 1 {
					continue
				}
				if id, isId := as.Lhs[0].(*ast.Ident); isId && len(as.Lhs) == 1 && as.Tok == token.DEFINE {
					switch as.Rhs[0].(type) {
					case *ast.SelectorExpr, *ast.Ident:
						alias[id.Name] = resolve(as.Rhs[0])
						continue
					}
				}
				call, ok := as.Rhs[0].(*ast.CallExpr)
				if !ok {
					continue
				}
				fun := exprString(bif.fset, call.Fun)
				isAdd := false
				if se, ok := call.Fun.(*ast.SelectorExpr); ok && se.Sel.Name == "Add" && len(call.Args) == 2 {
					// <receiver>.<container field>.Add(name, object), directly or through a local alias of the field
					isAdd = strings.HasPrefix(resolve(se.X), "b.") && strings.Count(resolve(se.X), ".") == 1
				}
				if strings.HasPrefix(fun, "New") && fun != "NewBuiltInFunctionContainer" {
					var args []string
					for _, a := range call.Args {
						args = append(args, resolve(a))
					}
					if id, ok := as.Lhs[0].(*ast.Ident); ok {
						vars[id.Name] = entry{ctor: fun, args: args}
					}
				} else if isAdd {
					nameE := exprString(bif.fset, call.Args[0])
					v, okv := eval(bif, call.Args[0], 0)
					id, okid := call.Args[1].(*ast.Ident)
					if !okv || v.kind != "str" || !okid {
						bad = append(bad, "Add("+nameE+")")
						continue
					}
					e, okc := vars[id.Name]
					if !okc {
						bad = append(bad, "Add("+nameE+"): unknown constructor")
						continue
					}
					e.name = v.s
					e.nameE = nameE
					entries = append(entries, e)
				}
			}
		}
	}
	for i, e := range entries {
		sep := ";"
		if i == len(entries)-1 && len(bad) == 0 {
			sep = ""
		}
		var qa []string
		for _, a := range e.args {
			qa = append(qa, "\""+a+"\"")
		}
		reg.p("  (%s, \"%s\", [%s])%s", coqStr(e.name), e.ctor, strings.Join(qa, "; "), sep)
	}
	for i, b := range bad {
		sep := ";"
		if i == len(bad)-1 {
			sep = ""
		}
		reg.p("  ([], \"UNRECOGNISED %s\", [])%s", strings.ReplaceAll(b, "\"", "'"), sep)
	}
	reg.p("].")

	// Gas binding: for each type with SetNewGasConfig, the fields it assigns and from where
	reg.p("")
	reg.p("(* SetNewGasConfig bodies: (receiver type, [(assigned field, source expression)]) *)")
	reg.p("Definition gas_setters : list (string * list (string * string)) := [")
	type setter struct {
		typ   string
		pairs [][2]string
	}
	var setters []setter
	var fnames []string
	for n := range bif.files {
		fnames = append(fnames, n)
	}
	sort.Strings(fnames)
	for _, fn := range fnames {
		for _, d := range bif.files[fn].Decls {
			fd, ok := d.(*ast.FuncDecl)
			if !ok || fd.Name.Name != "SetNewGasConfig" || fd.Recv == nil || fd.Body == nil {
				continue
			}
			typ := exprString(bif.fset, fd.Recv.List[0].Type)
			s := setter{typ: strings.TrimPrefix(typ, "*")}
			// the schedule parameter is written `gasCost` whatever it is called in this method
			ren := map[string]string{}
			if fd.Type.Params != nil && len(fd.Type.Params.List) == 1 && len(fd.Type.Params.List[0].Names) == 1 {
				ren[fd.Type.Params.List[0].Names[0].Name] = "gasCost"
			}
			var chain func(e ast.Expr) string
			chain = func(e ast.Expr) string {
				switch x := e.(type) {
				case *ast.Ident:
					if a, ok := ren[x.Name]; ok {
						return a
					}
					return x.Name
				case *ast.SelectorExpr:
					return chain(x.X) + "." + x.Sel.Name
				}
				return exprString(bif.fset, e)
			}
			ast.Inspect(fd.Body, func(n ast.Node) bool {
				as, ok := n.(*ast.AssignStmt)
				if !ok || len(as.Lhs) != 1 || len(as.Rhs) != 1 {
					return true
				}
				s.pairs = append(s.pairs, [2]string{exprString(bif.fset, as.Lhs[0]), chain(as.Rhs[0])})
				return true
			})
			setters = append(setters, s)
		}
	}
	for i, s := range setters {
		sep := ";"
		if i == len(setters)-1 {
			sep = ""
		}
		var ps []string
		for _, p := range s.pairs {
			ps = append(ps, fmt.Sprintf("(\"%s\", \"%s\")", p[0], p[1]))
		}
		reg.p("  (\"%s\", [%s])%s", s.typ, strings.Join(ps, "; "), sep)
	}
	reg.p("].")

	// constructor return types: New* -> receiver type, to join registry with gas_setters
	reg.p("")
	reg.p("(* constructor -> concrete type it builds (first `&T{` composite literal in its body) *)")
	reg.p("Definition ctor_types : list (string * string) := [")
	var cts []string
	for _, fn := range fnames {
		for _, d := range bif.files[fn].Decls {
			fd, ok := d.(*ast.FuncDecl)
			if !ok || fd.Recv != nil || fd.Body == nil || !strings.HasPrefix(fd.Name.Name, "New") {
				continue
			}
			typ := ""
			ast.Inspect(fd.Body, func(n ast.Node) bool {
				if typ != "" {
					return false
				}
				ue, ok := n.(*ast.UnaryExpr)
				if ok && ue.Op == token.AND {
					if cl, ok := ue.X.(*ast.CompositeLit); ok {
						if id, ok := cl.Type.(*ast.Ident); ok {
							typ = id.Name
						}
					}
				}
				return true
			})
			if typ != "" {
				cts = append(cts, fmt.Sprintf("  (\"%s\", \"%s\")", fd.Name.Name, typ))
			}
		}
	}
	reg.p("%s", strings.Join(cts, ";\n"))
	reg.p("].")
	writeIfChanged(filepath.Join(outDir, "Registry.v"), reg.buf.Bytes())
}

func main() {
	repo := "/repo"
	outDir := "/verif/coq/gen"
	if len(os.Args) > 1 {
		repo = os.Args[1]
	}
	if len(os.Args) > 2 {
		outDir = os.Args[2]
	}
	root = loadPkg(repo)
	genConsts(repo, outDir)
	genRegistry(repo, outDir)
	genLocks(repo, outDir)
	genAppends(repo, outDir)
	genProto(repo, outDir)
	genGasBinding(repo, outDir)
	genPure(repo, outDir)
}
